/-! C11/C12 — model of `TimeoutAfter` (aiorpcx/curio.py:325-396): a small program language over
integer virtual time with a deterministic big-step semantics.  No Mathlib imports. -/
namespace Aiorpcx.C11

inductive Exc where
  | cancelled | taskTimeout | tce | uncaught | other
  deriving Repr, DecidableEq

inductive Prog where
  | skip
  | sleep (d : Nat)
  | seq (a b : Prog)
  | block (ignore rel : Bool) (t : Int) (body : Prog)
  | tryCatch (body : Prog) (catches : List Exc) (handler : Prog)
  | raise (e : Exc)
  /-- `async with TaskGroup(wait=all|any) as g:` with members `(dur, react)` spawned on entry:
      a member sleeps `dur`; once cancelled it needs `react` more before it is dead -/
  | group (anyp : Bool) (members : List (Nat × Nat)) (body : Prog)
  deriving Repr

structure TS where
  now : Int := 0
  deadlines : List Int := []
  armed : Option Int := none
  marker : Option Int := none
  cancelAt : Option Int := none
  deriving Repr

def minL : List Int → Option Int
  | [] => none
  | x :: xs => match minL xs with
    | none => some x
    | some m => some (if x < m then x else m)

inductive Ev where
  | exit (deadline : Int) (res : Option Exc) (expired : Bool) (at_ : Int)
  /-- a task group was left: what left it, how many members were still running, when -/
  | gexit (res : Option Exc) (left : Nat) (at_ : Int)
  deriving Repr, DecidableEq

/-- result: none = completed normally -/
abbrev Res := Option Exc

def clampT (now x : Int) : Int := if x < now then now else x

def timerFire (s : TS) (a : Int) : Res × TS :=
  (some .cancelled, { s with now := clampT s.now a, armed := none, marker := some a })

def cancelFire (s : TS) (c : Int) : Res × TS :=
  (some .cancelled, { s with now := clampT s.now c, cancelAt := none })

def wakeUp (s : TS) (d : Nat) : Res × TS := (none, { s with now := s.now + d })

/-- suspension for `d` ticks: woken by the first of: armed timer, external cancel, own wake-up;
    an interrupt at the same instant as the wake-up wins; a timer at the same instant as the
    external cancel wins (the harness never generates that tie) -/
def doSleep (s : TS) (d : Nat) : Res × TS :=
  match s.armed, s.cancelAt with
  | none, none => wakeUp s d
  | some a, none => if clampT s.now a ≤ s.now + d then timerFire s a else wakeUp s d
  | none, some c => if clampT s.now c ≤ s.now + d then cancelFire s c else wakeUp s d
  | some a, some c =>
      if clampT s.now a ≤ clampT s.now c then
        (if clampT s.now a ≤ s.now + d then timerFire s a else wakeUp s d)
      else
        (if clampT s.now c ≤ s.now + d then cancelFire s c else wakeUp s d)

def enter (s : TS) (d : Int) : TS :=
  let armed' := match minL s.deadlines with
    | none => some d
    | some m => if d < m then some d else s.armed
  { s with deadlines := s.deadlines ++ [d], armed := armed', marker := none }

/-- returns (marker, uncaught, state) -/
def unset (s : TS) : Option Int × Bool × TS :=
  let uncaught := match s.marker with
    | none => true
    | some m => !(s.deadlines.contains m)
  let ds := s.deadlines.dropLast
  (s.marker, uncaught, { s with deadlines := ds, armed := minL ds })

def isCancelFamily : Res → Bool
  | some .cancelled | some .taskTimeout | some .tce => true
  | _ => false

/-- `fixed = true` models the candidate repair of F13 -/
def aexit (fixed ignore : Bool) (self : Int) (r : Res) (s : TS) : Res × Bool × TS :=
  let (marker, uncaught, s') := unset s
  if !isCancelFamily r then (r, false, s')
  else if marker == some self then
    (if ignore then none else some .taskTimeout, true, s')
  else if marker == none then (r, false, s')
  else if uncaught then
    if fixed && r != some .taskTimeout then (r, false, s') else (some .uncaught, false, s')
  else if r == some .tce then (r, false, s')
  else (some .tce, false, s')

/-! ### Task groups (the join / cancel semantics proved in C09, abstracted)

A group entered at `T` has members finishing by themselves at `T + dur`.  Leaving the group:
* body ended normally: `join()` - wait = all: one suspension until the last member has finished
  (none if all have); wait = any: until the first one has (none if one already has), then the
  others are swept; interrupted while waiting (deadline / external cancel) it *sweeps*;
* body raised (a cancellation included): `cancel_remaining()` sweeps at once, then `join()` finds
  everybody finished;
* a sweep cancels every member still running and awaits them: one suspension as long as the
  slowest reaction (none if nobody is running); the exception in flight then continues.  A sweep
  that is itself interrupted gives up: the new cancellation replaces what was in flight and the
  members not yet dead are left running (defect F11, mirrored as is). -/

def maxNat : List Nat → Nat
  | [] => 0
  | x :: xs => if maxNat xs < x then x else maxNat xs

def minNat : List Nat → Nat
  | [] => 0
  | [x] => x
  | x :: y :: ys => if x < minNat (y :: ys) then x else minNat (y :: ys)

/-- members (spawned at `T`) that have not finished by themselves at `now` -/
def runningAt (T : Int) (ms : List (Nat × Nat)) (now : Int) : List (Nat × Nat) :=
  ms.filter (fun m => now < T + m.1)

/-- cancel and await `R` (the members still running) while `r` is in flight -/
def sweep (R : List (Nat × Nat)) (r : Res) (s : TS) : Res × TS × Nat :=
  if R.isEmpty then (r, s, 0)
  else
    match doSleep s (maxNat (R.map (·.2))) with
    | (none, s') => (r, s', 0)
    | (some e, s') => (some e, s', (R.filter (fun m => s'.now < s.now + m.2)).length)

/-- leaving a group entered at `T`: returns (what leaves it, state, members left running) -/
def gexit (anyp : Bool) (T : Int) (ms : List (Nat × Nat)) (r : Res) (s : TS) : Res × TS × Nat :=
  match r with
  | some e => sweep (runningAt T ms s.now) (some e) s
  | none =>
    if (runningAt T ms s.now).isEmpty then (none, s, 0)
    else if anyp && decide ((runningAt T ms s.now).length < ms.length) then
      -- wait = any and somebody has finished already: stop the others at once
      sweep (runningAt T ms s.now) none s
    else
      match doSleep s (T + (if anyp then minNat (ms.map (·.1)) else maxNat (ms.map (·.1))) - s.now).toNat with
      | (none, s') => if anyp then sweep (runningAt T ms s'.now) none s' else (none, s', 0)
      | (some e, s') => sweep (runningAt T ms s'.now) (some e) s'

def run (fixed : Bool) : Prog → TS → Res × TS × List Ev
  | .skip, s => (none, s, [])
  | .sleep d, s => let (r, s') := doSleep s d; (r, s', [])
  | .raise e, s => (some e, s, [])
  | .seq a b, s =>
      let (r, s1, e1) := run fixed a s
      match r with
      | some _ => (r, s1, e1)
      | none => let (r2, s2, e2) := run fixed b s1; (r2, s2, e1 ++ e2)
  | .tryCatch b cs h, s =>
      let (r, s1, e1) := run fixed b s
      match r with
      | some e => if cs.contains e then
                    let (r2, s2, e2) := run fixed h s1; (r2, s2, e1 ++ e2)
                  else (r, s1, e1)
      | none => (none, s1, e1)
  | .block ig rel t body, s =>
      let d := if rel then s.now + t else t
      let s0 := enter s d
      let (r, s1, e1) := run fixed body s0
      let (r', expired, s2) := aexit fixed ig d r s1
      (r', s2, e1 ++ [Ev.exit d r' expired s2.now])
  | .group anyp ms body, s =>
      let (r, s1, e1) := run fixed body s
      let (r', s2, left) := gexit anyp s.now ms r s1
      (r', s2, e1 ++ [Ev.gexit r' left s2.now])

-- F13 witness
def f13 : Prog :=
  .block false true 10 (.seq (.tryCatch (.block false true 1 (.sleep 100)) [.taskTimeout] .skip) (.sleep 100))


end Aiorpcx.C11
