import Aiorpcx.C16.Lemmas
/-! C16 — the model's messages in closed form, and the spec parsers applied to byte strings of
    that form (helper lemmas for `Props.lean`). -/
namespace Aiorpcx.C16
open Aiorpcx.Socks


/-- `auth.username.encode()` when credentials are given, `b''` otherwise -/
def userBytes : Auth → Except PyExc Bytes
  | some (u, _) => utf8 u
  | none => .ok []

theorem socks4Start_ipv4 (ip : Vector UInt8 4) (port : Nat) (a : Auth) (ub : Bytes)
    (hp : port < 65536) (hu : userBytes a = .ok ub) :
    socks4Start (.ipv4 ip) port a =
      .ok ([4, 1, (port / 256).toUInt8, (port % 256).toUInt8] ++ ip.toList ++ ub ++ [0]) := by
  unfold socks4Start
  cases a with
  | none =>
    simp only [userBytes, Except.ok.injEq] at hu; subst hu
    simp [packH_ok hp]
  | some up =>
    obtain ⟨u, p⟩ := up
    simp only [userBytes] at hu
    simp [hu, packH_ok hp]

theorem socks4Start_name (s : List Nat) (port : Nat) (a : Auth) (ub hb : Bytes)
    (hp : port < 65536) (hu : userBytes a = .ok ub) (hh : utf8 s = .ok hb) :
    socks4Start (.name s) port a =
      .ok ([4, 1, (port / 256).toUInt8, (port % 256).toUInt8, 0, 0, 0, 1] ++ ub ++ [0] ++ hb ++ [0]) := by
  unfold socks4Start
  cases a with
  | none =>
    simp only [userBytes, Except.ok.injEq] at hu; subst hu
    simp [packH_ok hp, hh]
  | some up =>
    obtain ⟨u, p⟩ := up
    simp only [userBytes] at hu
    simp [hu, hh, packH_ok hp]

theorem parse4_plain (vn cd p1 p2 a b c d : UInt8) (ub r : Bytes) (h0 : (0 : UInt8) ∉ ub) :
    Spec.parseSocks4Request false ([vn, cd, p1, p2, a, b, c, d] ++ ub ++ 0 :: r) =
      some (⟨vn, cd, Spec.be16 p1 p2, [a, b, c, d], ub, none⟩, r) := by
  simp [Spec.parseSocks4Request, untilNul_append ub r h0]

theorem parse4a_nomarker (vn cd p1 p2 a b c d : UInt8) (ub r : Bytes) (h0 : (0 : UInt8) ∉ ub)
    (hm : ¬ (a = 0 ∧ b = 0 ∧ c = 0 ∧ d ≠ 0)) :
    Spec.parseSocks4Request true ([vn, cd, p1, p2, a, b, c, d] ++ ub ++ 0 :: r) =
      some (⟨vn, cd, Spec.be16 p1 p2, [a, b, c, d], ub, none⟩, r) := by
  simp only [Spec.parseSocks4Request, List.cons_append, List.nil_append, untilNul_append ub r h0]
  simp [hm]

theorem parse4a_marker (vn cd p1 p2 d : UInt8) (ub hb r : Bytes) (h0 : (0 : UInt8) ∉ ub)
    (h1 : (0 : UInt8) ∉ hb) (hd : d ≠ 0) :
    Spec.parseSocks4Request true ([vn, cd, p1, p2, 0, 0, 0, d] ++ ub ++ 0 :: (hb ++ 0 :: r)) =
      some (⟨vn, cd, Spec.be16 p1 p2, [0, 0, 0, d], ub, some hb⟩, r) := by
  simp only [Spec.parseSocks4Request, List.cons_append, List.nil_append, untilNul_append ub _ h0]
  simp [hd, untilNul_append hb r h1]

theorem parseGreeting_greeting (ms : List UInt8) (r : Bytes) (h : ms.length < 256) :
    Spec.parseGreeting (socks5Greeting ms ++ r) = some (5, ms, r) := by
  simp [Spec.parseGreeting, socks5Greeting, toUInt8_toNat h]

theorem parseUserPass_msg (ub pb r : Bytes) (hu : ub.length < 256) (hp : pb.length < 256) :
    Spec.parseUserPass ([1, ub.length.toUInt8] ++ ub ++ [pb.length.toUInt8] ++ pb ++ r) =
      some (1, ub, pb, r) := by
  simp [Spec.parseUserPass, toUInt8_toNat hu, toUInt8_toNat hp]

theorem parseConnect_v4 (a b c d p1 p2 : UInt8) (r : Bytes) :
    Spec.parseConnect ([5, 1, 0] ++ (1 :: [a, b, c, d] ++ [p1, p2]) ++ r) =
      some (⟨5, 1, 0, .ipv4 [a, b, c, d], Spec.be16 p1 p2⟩, r) := by
  simp [Spec.parseConnect, Spec.takePort]

theorem parseConnect_v6 (l : Bytes) (hl : l.length = 16) (p1 p2 : UInt8) (r : Bytes) :
    Spec.parseConnect ([5, 1, 0] ++ (4 :: l ++ [p1, p2]) ++ r) =
      some (⟨5, 1, 0, .ipv6 l, Spec.be16 p1 p2⟩, r) := by
  simp [Spec.parseConnect, Spec.takePort, hl]

theorem parseConnect_name (hb : Bytes) (hl : hb.length < 256) (p1 p2 : UInt8) (r : Bytes) :
    Spec.parseConnect ([5, 1, 0] ++ (3 :: hb.length.toUInt8 :: hb ++ [p1, p2]) ++ r) =
      some (⟨5, 1, 0, .domain hb, Spec.be16 p1 p2⟩, r) := by
  simp [Spec.parseConnect, Spec.takePort, toUInt8_toNat hl]

end Aiorpcx.C16
