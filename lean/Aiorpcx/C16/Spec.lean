/-! C16 — SPEC side: what a *server* reads, written from the protocol documents only
    (SOCKS4.protocol, SOCKS4A.protocol, RFC 1928 §3/§4, RFC 1929 §2).  Nothing here refers
    to the client model; the theorems in `Props.lean` apply these parsers to the bytes the
    model emits. -/
namespace Aiorpcx.C16.Spec

abbrev Bytes := List UInt8

/-- read a NUL-terminated field: (field, what follows the NUL) -/
def untilNul : Bytes → Option (Bytes × Bytes)
  | [] => none
  | b :: bs =>
    if b = 0 then some ([], bs)
    else match untilNul bs with
      | none => none
      | some (x, r) => some (b :: x, r)

/-- big-endian 16-bit -/
def be16 (hi lo : UInt8) : Nat := hi.toNat * 256 + lo.toNat

structure Socks4Req where
  vn : UInt8
  cd : UInt8
  port : Nat
  ip : Bytes
  user : Bytes
  /-- SOCKS4a only: the host name that follows when DSTIP is 0.0.0.x, x ≠ 0 -/
  host : Option Bytes
  deriving DecidableEq, Repr

/-- SOCKS4.protocol: `VN CD DSTPORT(2) DSTIP(4) USERID NULL`; with `ext4a`, SOCKS4A.protocol:
    if DSTIP is 0.0.0.x with x ≠ 0 the NUL-terminated host name follows.  Returns the request
    and the unconsumed bytes. -/
def parseSocks4Request (ext4a : Bool) : Bytes → Option (Socks4Req × Bytes)
  | vn :: cd :: p1 :: p2 :: a :: b :: c :: d :: rest =>
    match untilNul rest with
    | none => none
    | some (user, r1) =>
      if ext4a ∧ a = 0 ∧ b = 0 ∧ c = 0 ∧ d ≠ 0 then
        match untilNul r1 with
        | none => none
        | some (host, r2) => some (⟨vn, cd, be16 p1 p2, [a, b, c, d], user, some host⟩, r2)
      else some (⟨vn, cd, be16 p1 p2, [a, b, c, d], user, none⟩, r1)
  | _ => none

/-- RFC 1928 §3: `VER NMETHODS METHODS` → (version, methods, unconsumed) -/
def parseGreeting : Bytes → Option (UInt8 × List UInt8 × Bytes)
  | ver :: n :: rest =>
    if rest.length < n.toNat then none
    else some (ver, rest.take n.toNat, rest.drop n.toNat)
  | _ => none

/-- RFC 1929 §2: `VER ULEN UNAME PLEN PASSWD` → (version, user name, password, unconsumed) -/
def parseUserPass : Bytes → Option (UInt8 × Bytes × Bytes × Bytes)
  | ver :: ulen :: rest =>
    if rest.length < ulen.toNat then none
    else
      match rest.drop ulen.toNat with
      | plen :: rest' =>
        if rest'.length < plen.toNat then none
        else some (ver, rest.take ulen.toNat, rest'.take plen.toNat, rest'.drop plen.toNat)
      | [] => none
  | _ => none

inductive Addr where
  | ipv4 (b : Bytes)      -- ATYP 1, 4 octets
  | domain (b : Bytes)    -- ATYP 3, the name (without its length octet)
  | ipv6 (b : Bytes)      -- ATYP 4, 16 octets
  deriving DecidableEq, Repr

structure ConnectReq where
  ver : UInt8
  cmd : UInt8
  rsv : UInt8
  addr : Addr
  port : Nat
  deriving DecidableEq, Repr

def takePort (ver cmd rsv : UInt8) (addr : Addr) : Bytes → Option (ConnectReq × Bytes)
  | p1 :: p2 :: rest => some (⟨ver, cmd, rsv, addr, be16 p1 p2⟩, rest)
  | _ => none

/-- RFC 1928 §4: `VER CMD RSV ATYP DST.ADDR DST.PORT`, port in network byte order -/
def parseConnect : Bytes → Option (ConnectReq × Bytes)
  | ver :: cmd :: rsv :: atyp :: rest =>
    if atyp = 1 then
      if rest.length < 4 then none else takePort ver cmd rsv (.ipv4 (rest.take 4)) (rest.drop 4)
    else if atyp = 4 then
      if rest.length < 16 then none else takePort ver cmd rsv (.ipv6 (rest.take 16)) (rest.drop 16)
    else if atyp = 3 then
      match rest with
      | n :: rest' =>
        if rest'.length < n.toNat then none
        else takePort ver cmd rsv (.domain (rest'.take n.toNat)) (rest'.drop n.toNat)
      | [] => none
    else none
  | _ => none

end Aiorpcx.C16.Spec
