import Aiorpcx.C16.Props
import Aiorpcx.C17.Sent
import Aiorpcx.C18.RoundTrip
/-!
# C16 ⇄ C18 bridge, and C16 at the level of `_connect_one` (⇄ C17)

`ValidHostName` - the hypothesis under which C16's host-name theorems are stated - follows from
C18's grammar of accepted host names (`C18.Spec.hostname`, for which C18 proves
`is_valid_hostname = Spec.hostname` on all strings: `C18.hostname_exact`).  So the C16 theorems
hold for every host name `NetAddress` lets through, with no separate assumption.
-/
namespace Aiorpcx.C16
open Aiorpcx.Socks

theorem labelChar_ascii {c : Nat} (h : C18.Spec.labelChar c = true) : c < 128 ∧ c ≠ 0 := by
  simp only [C18.Spec.labelChar, C18.Spec.isLetter, C18.Spec.isDigit, Bool.or_eq_true,
    Bool.and_eq_true, decide_eq_true_eq, beq_iff_eq] at h
  omega

/-- at most one trailing dot is ignored: the string is at most one character longer than what
    the 1-253 bound applies to -/
theorem length_le_stripDot (s : C18.Str) : s.length ≤ (C18.stripDot s).length + 1 := by
  unfold C18.stripDot
  split
  · simp only [List.length_dropLast]; omega
  · omega

/-- **Bridge lemma**: every string C18's host-name grammar accepts satisfies the C16
    hypothesis - at most 254 characters (253 + an optional trailing dot), all ASCII, none NUL. -/
theorem validHostName_of_c18 {s : List Nat} (h : C18.Spec.hostname s = true) : ValidHostName s := by
  refine ⟨?_, ?_⟩
  · have hl := length_le_stripDot s
    unfold C18.Spec.hostname at h
    simp only [Bool.and_eq_true, decide_eq_true_eq] at h
    omega
  · intro c hc
    rcases C18.hostname_chars h c hc with h1 | h1
    · exact labelChar_ascii h1
    · subst h1; omega

example : C18.Spec.hostname wwwAppleCom = true := by decide

/-- the SOCKS4a and SOCKS5 host-name theorems, restated for "a host name C18 accepts" -/
theorem socks4a_parse_c18 (s : List Nat) (port : Nat) (a : Auth) (ub : Bytes)
    (hport : port < 65536) (hu : userBytes a = .ok ub) (hnul : userHasNul a = false)
    (hs : C18.Spec.hostname s = true) :
    mkCfg .socks4a (.name s) port a = .ok (.s4 (.name s) port a) ∧
    ∃ msg, firstMessage (.s4 (.name s) port a) = .msg msg ∧
      Spec.parseSocks4Request true msg =
        some (⟨4, 1, port, [0, 0, 0, 1], ub, some (s.map Nat.toUInt8)⟩, []) :=
  socks4a_parse s port a ub hport hu hnul (validHostName_of_c18 hs)

theorem socks5_name_parse_c18 (s : List Nat) (port : Nat) (hport : port < 65536)
    (hs : C18.Spec.hostname s = true) :
    ∃ cfg, mkCfg .socks5 (.name s) port none = .ok cfg ∧
      Spec.parseConnect (socks5Connect cfg.dst) =
        some (⟨5, 1, 0, .domain (s.map Nat.toUInt8), port⟩, []) := by
  obtain ⟨dst, hd⟩ := socks5_valid_host_accepted s port (validHostName_of_c18 hs) hport
  obtain ⟨cfg, hc⟩ := accepts_expressible.2.2.2.1 (.name s) port dst hd
  obtain ⟨addr, hp, hb, hu, _, rfl⟩ := socks5_connect_parse (.name s) port none cfg hport hc
  obtain ⟨h1, _, _⟩ := validHost_utf8 (validHostName_of_c18 hs)
  rw [h1] at hu
  cases hu
  exact ⟨cfg, hc, hp⟩

/-- what `NetAddress` refuses never reaches the classes: NUL, a non-ASCII character or more than
    254 characters make `C18.Spec.hostname` false -/
theorem c18_rejects_unexpressible_names (s : List Nat)
    (h : 0 ∈ s ∨ (∃ c ∈ s, 128 ≤ c) ∨ 254 < s.length) : C18.Spec.hostname s = false := by
  cases hv : C18.Spec.hostname s with
  | false => rfl
  | true =>
    obtain ⟨h1, h2⟩ := validHostName_of_c18 hv
    rcases h with h | ⟨c, hc, h⟩ | h
    · exact absurd rfl (h2 0 h).2
    · have := (h2 c hc).1; omega
    · omega

/-! ## the host names `NetAddress` takes, observed on the current tree -/

def strOf (s : String) : List Nat := s.toList.map Char.toNat

def lab63 : List Nat := List.replicate 63 120
def n253 : List Nat := lab63 ++ [46] ++ lab63 ++ [46] ++ lab63 ++ [46] ++ List.replicate 61 121

/-- the probe names of `tools/facts/c16.py: host_probes`, in order -/
def hostProbes : List (List Nat) :=
  [strOf "a.bc", [97, 0, 98], [97, 46, 98, 0], [0xE9, 46, 99, 111, 109], [0x212A, 46, 99, 111, 109],
   n253, n253 ++ [46], n253 ++ [121], n253 ++ [121, 46], List.replicate 64 120 ++ strOf ".com",
   strOf "a b.com", []]

/-- **the real `NetAddress` takes as a host name exactly the probe names C18's grammar
    accepts** - among them: NUL, non-ASCII characters and more than 253 (+ trailing dot)
    characters are refused, so they never reach the protocol classes (non-stub tie of the
    `ValidHostName` hypothesis) -/
theorem facts_host_names :
    Facts.C16.hostAccepted = hostProbes.map C18.Spec.hostname := by decide +kernel

/-! ## each proxy connection gets a fresh exchange -/

/-- the three attempts of the proxy probe -/
def probeAttempts (o : Nat → Nat) : List Attempt :=
  [.talks [5, 2] o, .talks [5] o, .talks [5, 0, 5, 0, 0, 1, 0, 0, 0, 0, 0, 0] o]

/-- what `_connect_one` sends on each connection depends on that connection's replies only -
    never on what happened on an earlier connection: each tried entry that talks receives
    exactly the messages of a **fresh** handshake (`sentSpec` for SOCKS5: greeting first) -/
theorem connectOneSent_fresh (dst ab : Bytes) (ms : List UInt8) :
    ∀ (as : List Attempt) (x : Option (List Bytes)), x ∈ connectOneSent (.ok (.s5 dst ab ms)) as →
      x = none ∨ ∃ s o, (Attempt.talks s o ∈ as ∨ Attempt.peernameFails s o ∈ as) ∧
        x = some (C17.sentSpec dst ab ms s)
  | [], x, h => by simp [connectOneSent] at h
  | a :: as, x, h => by
    have ih := connectOneSent_fresh dst ab ms as x
    have lift : (x = none ∨ ∃ s o, (Attempt.talks s o ∈ as ∨ Attempt.peernameFails s o ∈ as) ∧
        x = some (C17.sentSpec dst ab ms s)) →
        (x = none ∨ ∃ s o, (Attempt.talks s o ∈ a :: as ∨ Attempt.peernameFails s o ∈ a :: as) ∧
        x = some (C17.sentSpec dst ab ms s)) := by
      rintro (h1 | ⟨s, o, h1, h2⟩)
      · exact Or.inl h1
      · exact Or.inr ⟨s, o, by rcases h1 with h1 | h1 <;> simp [h1], h2⟩
    cases a with
    | connectFails =>
      simp only [connectOneSent, List.mem_cons] at h
      rcases h with h | h
      · exact Or.inl h
      · exact lift (ih h)
    | socketFails =>
      simp only [connectOneSent, List.mem_cons, List.not_mem_nil, or_false] at h
      exact Or.inl h
    | talks s o =>
      have hs := C17.sent_spec o dst ab ms s 0
      simp only [connectOneSent] at h
      have : x = some (C17.sentSpec dst ab ms s) ∨ x ∈ connectOneSent (.ok (.s5 dst ab ms)) as := by
        rw [hs] at h
        split at h
        · simp at h; exact Or.inl h
        · split at h
          · simp only [List.mem_cons] at h; exact h
          · simp at h; exact Or.inl h
      rcases this with h1 | h1
      · exact Or.inr ⟨s, o, by simp, h1⟩
      · exact lift (ih h1)
    | peernameFails s o =>
      have hs := C17.sent_spec o dst ab ms s 0
      simp only [connectOneSent] at h
      have : x = some (C17.sentSpec dst ab ms s) ∨ x ∈ connectOneSent (.ok (.s5 dst ab ms)) as := by
        rw [hs] at h
        split at h
        · simp only [List.mem_cons] at h; exact h
        · split at h
          · simp only [List.mem_cons] at h; exact h
          · simp at h; exact Or.inl h
      rcases this with h1 | h1
      · exact Or.inr ⟨s, o, by simp, h1⟩
      · exact lift (ih h1)

/-- the same for SOCKS4 / SOCKS4a: every connection that is made receives the one request -/
theorem connectOneSent_fresh4 (h : Host) (port : Nat) (a : Auth) (b : Bytes)
    (hs : socks4Start h port a = .ok b) :
    ∀ (as : List Attempt) (x : Option (List Bytes)), x ∈ connectOneSent (.ok (.s4 h port a)) as →
      x = none ∨ x = some [b]
  | [], x, hx => by simp [connectOneSent] at hx
  | at' :: as, x, hx => by
    have ih := connectOneSent_fresh4 h port a b hs as x
    have key : ∀ s o, (handshake o (Client.init (.s4 h port a)) ⟨s, 0⟩).sent = [b] := by
      intro s o
      have h1 := congrArg C17.RefRun.sent (C17.handshake_ref o (Client.init (.s4 h port a)) ⟨s, 0⟩)
      simp only [C17.refOf] at h1
      rw [h1, C17.runRef_start_s4 h port a b s hs, C17.runRef_first4]
      simp only [C17.consMsg]
      split
      · split
        · rfl
        · split <;> rfl
      · rfl
    cases at' with
    | connectFails =>
      simp only [connectOneSent, List.mem_cons] at hx
      rcases hx with hx | hx
      · exact Or.inl hx
      · exact ih hx
    | socketFails =>
      simp only [connectOneSent, List.mem_cons, List.not_mem_nil, or_false] at hx
      exact Or.inl hx
    | talks s o =>
      simp only [connectOneSent, key] at hx
      split at hx
      · simp at hx; exact Or.inr hx
      · split at hx
        · simp only [List.mem_cons] at hx
          rcases hx with hx | hx
          · exact Or.inr hx
          · exact ih hx
        · simp at hx; exact Or.inr hx
    | peernameFails s o =>
      simp only [connectOneSent, key] at hx
      split at hx
      · simp only [List.mem_cons] at hx
        rcases hx with hx | hx
        · exact Or.inr hx
        · exact ih hx
      · split at hx
        · simp only [List.mem_cons] at hx
          rcases hx with hx | hx
          · exact Or.inr hx
          · exact ih hx
        · simp at hx; exact Or.inr hx

/-- **the proxy probe**: what each of the three connections of the real `create_connection`
    received (first address selects method 2 and hangs up, second hangs up after `05`, third
    selects method 0 and grants) is what the model's `_connect_one` sends - in particular the
    second and third connection start again with the greeting (a protocol object re-used
    across addresses would send nothing, or the tail of the previous exchange) -/
theorem facts_proxy_probe :
    (connectOneSent (mkCfg .socks5 (.name probeName) 0x0506 probeAuth)
        (probeAttempts (fun _ => 1))).map (fun x => (x.getD []).flatten) = Facts.C16.proxyProbe ∧
    Facts.C16.proxyProbeResult = "ok" := by
  have hc : mkCfg .socks5 (.name probeName) 0x0506 probeAuth =
      .ok (.s5 [3, 4, 97, 46, 98, 99, 5, 6] [1, 2, 97, 98, 3, 99, 100, 101] [0, 2]) := by decide
  have h1 : handshake (fun _ => 1) (Client.init (.s5 [3, 4, 97, 46, 98, 99, 5, 6]
      [1, 2, 97, 98, 3, 99, 100, 101] [0, 2])) ⟨[5, 2], 0⟩ =
      ⟨some .socksProtocolError, [[5, 2, 0, 2], [1, 2, 97, 98, 3, 99, 100, 101]], [],
       [(2, 1), (1, 1), (2, 0)]⟩ := C17.handshakeFuel_sound _ 20 _ _ _ (by decide +kernel)
  have h2 : handshake (fun _ => 1) (Client.init (.s5 [3, 4, 97, 46, 98, 99, 5, 6]
      [1, 2, 97, 98, 3, 99, 100, 101] [0, 2])) ⟨[5], 0⟩ =
      ⟨some .socksProtocolError, [[5, 2, 0, 2]], [], [(2, 1), (1, 0)]⟩ :=
    C17.handshakeFuel_sound _ 20 _ _ _ (by decide +kernel)
  have h3 : handshake (fun _ => 1) (Client.init (.s5 [3, 4, 97, 46, 98, 99, 5, 6]
      [1, 2, 97, 98, 3, 99, 100, 101] [0, 2])) ⟨[5, 0, 5, 0, 0, 1, 0, 0, 0, 0, 0, 0], 0⟩ =
      ⟨none, [[5, 2, 0, 2], [5, 1, 0, 3, 4, 97, 46, 98, 99, 5, 6]], [],
       [(2, 1), (1, 1), (5, 1), (4, 1), (3, 1), (2, 1), (1, 1), (5, 1), (4, 1), (3, 1), (2, 1),
        (1, 1)]⟩ := C17.handshakeFuel_sound _ 40 _ _ _ (by decide +kernel)
  refine ⟨?_, by decide⟩
  rw [hc]
  simp only [probeAttempts, connectOneSent, h1, h2, h3, isCaught, if_true]
  decide

end Aiorpcx.C16
