import Aiorpcx.C16.Props
import Aiorpcx.C18.RoundTrip
/-!
# C16 ⇄ C18 bridge

`ValidHostName` - the hypothesis under which C16's host-name theorems are stated - follows from
C18's grammar of accepted host names (`C18.Spec.hostname`, for which C18 proves
`is_valid_hostname = Spec.hostname` on all strings: `C18.hostname_exact`).  So the C16 theorems
hold for every host name `NetAddress` lets through, with no separate assumption.
-/
namespace Aiorpcx.C16
open Aiorpcx.Socks

theorem labelChar_ascii {c : Nat} (h : C18.Spec.labelChar c = true) : c < 128 ∧ c ≠ 0 := by
  simp only [C18.Spec.labelChar, C18.Spec.isLetter, C18.Spec.isDigit, Bool.or_eq_true,
    Bool.and_eq_true, decide_eq_true_eq, beq_iff_eq] at h
  omega

/-- at most one trailing dot is ignored: the string is at most one character longer than what
    the 1-253 bound applies to -/
theorem length_le_stripDot (s : C18.Str) : s.length ≤ (C18.stripDot s).length + 1 := by
  unfold C18.stripDot
  split
  · simp only [List.length_dropLast]; omega
  · omega

/-- **Bridge lemma**: every string C18's host-name grammar accepts satisfies the C16
    hypothesis - at most 254 characters (253 + an optional trailing dot), all ASCII, none NUL. -/
theorem validHostName_of_c18 {s : List Nat} (h : C18.Spec.hostname s = true) : ValidHostName s := by
  refine ⟨?_, ?_⟩
  · have hl := length_le_stripDot s
    unfold C18.Spec.hostname at h
    simp only [Bool.and_eq_true, decide_eq_true_eq] at h
    omega
  · intro c hc
    rcases C18.hostname_chars h c hc with h1 | h1
    · exact labelChar_ascii h1
    · subst h1; omega

example : C18.Spec.hostname wwwAppleCom = true := by decide

/-- the SOCKS4a and SOCKS5 host-name theorems, restated for "a host name C18 accepts" -/
theorem socks4a_parse_c18 (s : List Nat) (port : Nat) (a : Auth) (ub : Bytes)
    (hport : port < 65536) (hu : userBytes a = .ok ub) (hnul : userHasNul a = false)
    (hs : C18.Spec.hostname s = true) :
    mkCfg .socks4a (.name s) port a = .ok (.s4 (.name s) port a) ∧
    ∃ msg, firstMessage (.s4 (.name s) port a) = .msg msg ∧
      Spec.parseSocks4Request true msg =
        some (⟨4, 1, port, [0, 0, 0, 1], ub, some (s.map Nat.toUInt8)⟩, []) :=
  socks4a_parse s port a ub hport hu hnul (validHostName_of_c18 hs)

theorem socks5_name_parse_c18 (s : List Nat) (port : Nat) (hport : port < 65536)
    (hs : C18.Spec.hostname s = true) :
    ∃ cfg, mkCfg .socks5 (.name s) port none = .ok cfg ∧
      Spec.parseConnect (socks5Connect cfg.dst) =
        some (⟨5, 1, 0, .domain (s.map Nat.toUInt8), port⟩, []) := by
  obtain ⟨dst, hd⟩ := socks5_valid_host_accepted s port (validHostName_of_c18 hs) hport
  obtain ⟨cfg, hc⟩ := accepts_expressible.2.2.2.1 (.name s) port dst hd
  obtain ⟨addr, hp, hb, hu, _, rfl⟩ := socks5_connect_parse (.name s) port none cfg hport hc
  obtain ⟨h1, _, _⟩ := validHost_utf8 (validHostName_of_c18 hs)
  rw [h1] at hu
  cases hu
  exact ⟨cfg, hc, hp⟩

/-- what `NetAddress` refuses never reaches the classes: NUL, a non-ASCII character or more than
    254 characters make `C18.Spec.hostname` false -/
theorem c18_rejects_unexpressible_names (s : List Nat)
    (h : 0 ∈ s ∨ (∃ c ∈ s, 128 ≤ c) ∨ 254 < s.length) : C18.Spec.hostname s = false := by
  cases hv : C18.Spec.hostname s with
  | false => rfl
  | true =>
    obtain ⟨h1, h2⟩ := validHostName_of_c18 hv
    rcases h with h | ⟨c, hc, h⟩ | h
    · exact absurd rfl (h2 0 h).2
    · have := (h2 c hc).1; omega
    · omega

end Aiorpcx.C16
