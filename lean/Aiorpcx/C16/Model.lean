/-! C16 / C17 — model of `aiorpcx/socks.py` (shared by both properties).
    No Mathlib imports: the drivers link this.

    * request construction: `SOCKS4.__init__/_check_remote_host/_start`, `SOCKS4a`,
      `SOCKS5.__init__/_destination_bytes/_authentication/_start/_request_connection`  (C16)
    * reply parsing: `SOCKSBase._read/receive_data/next_message`, `SOCKS4._first_response`,
      `SOCKS5._first_response/_auth_response/_connect_response/_connect_response_rest`   (C17)
    * `SOCKSProxy._handshake` over an abstract socket, `_connect_one`, `_detect_proxy`,
      `_connect`                                                                        (C17)

    Python failure modes are explicit: `str.encode()` of a lone surrogate
    (`UnicodeEncodeError`), the `assert len(host) <= 255`, `struct.pack('>H', ..)` out of
    range, `.encode` on an `IPv6Address`. -/
namespace Aiorpcx.Socks

abbrev Bytes := List UInt8

deriving instance DecidableEq for Except

inductive PyExc where
  | socksProtocolError
  | socksFailure
  | unicodeEncodeError
  | assertionError
  | structError
  | attributeError
  | osError
  | unboundLocalError
  deriving DecidableEq, Repr

/-! ## `str.encode()` : UTF-8, strict (a Python `str` is a list of code points; lone
    surrogates exist and cannot be encoded) -/

def utf8Char (c : Nat) : Except PyExc Bytes :=
  if c < 0x80 then .ok [c.toUInt8]
  else if c < 0x800 then .ok [(0xC0 + c / 64).toUInt8, (0x80 + c % 64).toUInt8]
  else if 0xD800 ≤ c ∧ c < 0xE000 then .error .unicodeEncodeError
  else if c < 0x10000 then
    .ok [(0xE0 + c / 4096).toUInt8, (0x80 + c / 64 % 64).toUInt8, (0x80 + c % 64).toUInt8]
  else if c < 0x110000 then
    .ok [(0xF0 + c / 262144).toUInt8, (0x80 + c / 4096 % 64).toUInt8,
         (0x80 + c / 64 % 64).toUInt8, (0x80 + c % 64).toUInt8]
  else .error .unicodeEncodeError     -- not a code point a Python str can hold

def utf8 : List Nat → Except PyExc Bytes
  | [] => .ok []
  | c :: cs =>
    match utf8Char c with
    | .error e => .error e
    | .ok a =>
      match utf8 cs with
      | .error e => .error e
      | .ok b => .ok (a ++ b)

/-- `struct.pack('>H', n)` -/
def packH (n : Nat) : Except PyExc Bytes :=
  if n < 65536 then .ok [(n / 256).toUInt8, (n % 256).toUInt8] else .error .structError

/-! ## destinations and credentials -/

/-- `NetAddress.host`: an `IPv4Address` (`.packed` = 4 bytes), an `IPv6Address` (16 bytes) or
    a `str` (a validated host name; kept as code points so that `.encode()` is modelled) -/
inductive Host where
  | ipv4 (b : Vector UInt8 4)
  | ipv6 (b : Vector UInt8 16)
  /-- an `IPv6Address` carrying a zone (scope id), e.g. `fe80::1%eth0`; `.packed` is the 16
      address bytes, the zone is not part of them -/
  | ipv6z (b : Vector UInt8 16)
  | name (s : List Nat)
  deriving DecidableEq

/-- `None` or `SOCKSUserAuth(username, password)` -/
abbrev Auth := Option (List Nat × List Nat)

inductive Proto where
  | socks4 | socks4a | socks5
  deriving DecidableEq, Repr

/-! ## SOCKS4 / SOCKS4a requests -/

/-- `0 < int(host) < 256`: an IPv4 address of the form 0.0.0.x, x ≠ 0, which SOCKS4A.protocol
    reserves as the "host name follows" marker -/
def isMarker (b : Vector UInt8 4) : Bool :=
  match b.toList with
  | [x, y, z, w] => x == 0 && y == 0 && z == 0 && w != 0
  | _ => false

/-- `SOCKS4._check_remote_host` and the `SOCKS4a` override **as on the pinned tree** (finding
    F26: SOCKS4a accepts the marker addresses 0.0.0.x) -/
def checkRemoteHostPinned (p : Proto) : Host → Except PyExc Unit
  | .ipv4 _ => .ok ()
  | .name _ => if p = .socks4a then .ok () else .error .socksProtocolError
  | .ipv6 _ => .error .socksProtocolError
  | .ipv6z _ => .error .socksProtocolError

/-- `SOCKS4._check_remote_host` and the `SOCKS4a` override with the repair
    `fixes/F26-socks4a-marker-address.diff`: SOCKS4a cannot name the IPv4 destinations
    0.0.0.x (x ≠ 0) - a SOCKS4a server reads such a DSTIP as "a host name follows" - and
    refuses them -/
def checkRemoteHost (p : Proto) : Host → Except PyExc Unit
  | .ipv4 b => if p = .socks4a ∧ isMarker b = true then .error .socksProtocolError else .ok ()
  | .name _ => if p = .socks4a then .ok () else .error .socksProtocolError
  | .ipv6 _ => .error .socksProtocolError
  | .ipv6z _ => .error .socksProtocolError

/-- `'\0' in auth.username` -/
def userHasNul : Auth → Bool
  | some (u, _) => u.contains 0
  | none => false

/-- `SOCKS4.__init__` as it is on the pinned tree (finding F15: no NUL check) -/
def socks4InitPinned (p : Proto) (h : Host) (_a : Auth) : Except PyExc Unit :=
  checkRemoteHostPinned p h

/-- `SOCKS4.__init__` with the repair `fixes/F15-socks4-nul-userid.diff`: a user id containing
    NUL cannot be expressed (the field is NUL-terminated) and is refused -/
def socks4Init (p : Proto) (h : Host) (a : Auth) : Except PyExc Unit :=
  if userHasNul a then .error .socksProtocolError else checkRemoteHost p h

/-- `SOCKS4._start`: the CONNECT request.  Evaluation order as in the code: host name
    encoded first, then the user id, then the port packed. -/
def socks4Start (h : Host) (port : Nat) (a : Auth) : Except PyExc Bytes :=
  let hostPart : Except PyExc (Bytes × Bytes) :=
    match h with
    | .ipv4 b => .ok (b.toList, [])
    | .name s =>
      match utf8 s with
      | .error e => .error e
      | .ok e => .ok ([0, 0, 0, 1], e ++ [0])
    | .ipv6 _ => .error .attributeError   -- `IPv6Address.encode`; unreachable after `__init__`
    | .ipv6z _ => .error .attributeError
  match hostPart with
  | .error e => .error e
  | .ok (ip, hostBytes) =>
    let user : Except PyExc Bytes :=
      match a with
      | some (u, _) => utf8 u
      | none => .ok []
    match user with
    | .error e => .error e
    | .ok userId =>
      match packH port with
      | .error e => .error e
      | .ok p => .ok ([4, 1] ++ p ++ ip ++ userId ++ [0] ++ hostBytes)

/-! ## SOCKS5 requests -/

/-- the address part of `SOCKS5._destination_bytes` **as on the pinned tree** (finding F27: a
    zone-scoped IPv6 destination is sent as the bare 16 address bytes, the zone is silently
    lost) -/
def socks5AddrBytesPinned : Host → Except PyExc Bytes
  | .ipv4 b => .ok (1 :: b.toList)
  | .ipv6 b => .ok (4 :: b.toList)
  | .ipv6z b => .ok (4 :: b.toList)
  | .name s =>
    match utf8 s with
    | .error e => .error e
    | .ok e => if e.length ≤ 255 then .ok (3 :: e.length.toUInt8 :: e)
               else .error .assertionError

/-- `SOCKS5._destination_bytes` with the repair `fixes/F27-socks5-scoped-ipv6.diff`: RFC 1928
    has no field for a zone, so a scoped IPv6 destination is refused -/
def socks5DestinationBytes (h : Host) (port : Nat) : Except PyExc Bytes :=
  let addr : Except PyExc Bytes :=
    match h with
    | .ipv4 b => .ok (1 :: b.toList)
    | .ipv6 b => .ok (4 :: b.toList)
    | .ipv6z _ => .error .socksProtocolError
    | .name s =>
      match utf8 s with
      | .error e => .error e
      | .ok e => if e.length ≤ 255 then .ok (3 :: e.length.toUInt8 :: e)
                 else .error .assertionError
  match addr with
  | .error e => .error e
  | .ok a =>
    match packH port with
    | .error e => .error e
    | .ok p => .ok (a ++ p)

/-- the whole pinned `_destination_bytes` -/
def socks5DestinationBytesPinned (h : Host) (port : Nat) : Except PyExc Bytes :=
  match socks5AddrBytesPinned h with
  | .error e => .error e
  | .ok a =>
    match packH port with
    | .error e => .error e
    | .ok p => .ok (a ++ p)

/-- `SOCKS5._authentication` : (RFC 1929 message, offered methods) -/
def socks5Authentication : Auth → Except PyExc (Bytes × List UInt8)
  | none => .ok ([], [0])
  | some (u, p) =>
    match utf8 u with
    | .error e => .error e
    | .ok ub =>
      if !(0 < ub.length && ub.length < 256) then .error .socksProtocolError
      else
        match utf8 p with
        | .error e => .error e
        | .ok pb =>
          if !(0 < pb.length && pb.length < 256) then .error .socksProtocolError
          else .ok ([1, ub.length.toUInt8] ++ ub ++ [pb.length.toUInt8] ++ pb, [0, 2])

/-- `SOCKS5._start`: the greeting -/
def socks5Greeting (methods : List UInt8) : Bytes :=
  5 :: methods.length.toUInt8 :: methods

/-- `SOCKS5._request_connection` -/
def socks5Connect (dst : Bytes) : Bytes := [5, 1, 0] ++ dst

/-! ## the protocol objects -/

/-- what `__init__` leaves in the object -/
inductive Cfg where
  | s4 (h : Host) (port : Nat) (a : Auth)
  | s5 (dst : Bytes) (authBytes : Bytes) (methods : List UInt8)
  deriving DecidableEq

/-- `protocol(remote_address, auth)` (repaired `SOCKS4.__init__`) -/
def mkCfg (p : Proto) (h : Host) (port : Nat) (a : Auth) : Except PyExc Cfg :=
  match p with
  | .socks5 =>
    match socks5DestinationBytes h port with
    | .error e => .error e
    | .ok dst =>
      match socks5Authentication a with
      | .error e => .error e
      | .ok (ab, ms) => .ok (.s5 dst ab ms)
  | _ =>
    match socks4Init p h a with
    | .error e => .error e
    | .ok () => .ok (.s4 h port a)

/-- the same with the pinned `SOCKS4.__init__` -/
def mkCfgPinned (p : Proto) (h : Host) (port : Nat) (a : Auth) : Except PyExc Cfg :=
  match p with
  | .socks5 => mkCfg p h port a
  | _ =>
    match socks4InitPinned p h a with
    | .error e => .error e
    | .ok () => .ok (.s4 h port a)

def Cfg.methods : Cfg → List UInt8
  | .s5 _ _ m => m
  | .s4 .. => []

def Cfg.authBytes : Cfg → Bytes
  | .s5 _ ab _ => ab
  | .s4 .. => []

def Cfg.dst : Cfg → Bytes
  | .s5 d _ _ => d
  | .s4 .. => []

/-- `self._state` -/
inductive St where
  | start
  | first4
  | first5
  | authResp
  | connect
  | rest (addrLen : Nat)
  deriving DecidableEq, Repr

structure Client where
  cfg : Cfg
  st : St
  buf : Bytes
  deriving DecidableEq

def Client.init (cfg : Cfg) : Client := ⟨cfg, .start, []⟩

/-- result of one `next_message()` call -/
inductive Res where
  | msg (b : Bytes)        -- bytes to send
  | fin                    -- `None`: handshake complete
  | need (k : Nat)         -- `NeedData(k)` raised
  | raise (e : PyExc)
  deriving DecidableEq, Repr

/-- `SOCKSBase._read`: `Except.error k` is `NeedData(k)`; nothing changes in that case -/
def Client.read (c : Client) (size : Nat) : Except Nat (Bytes × Client) :=
  if c.buf.length < size then .error (size - c.buf.length)
  else .ok (c.buf.take size, { c with buf := c.buf.drop size })

/-- `SOCKSBase.receive_data` -/
def Client.receiveData (c : Client) (d : Bytes) : Client := { c with buf := c.buf ++ d }

def byteAt (d : Bytes) (i : Nat) : UInt8 := d.getD i 0

/-- `data = self._read(size)` followed by the rest of the method: `NeedData` propagates
    out of `next_message()` with nothing changed -/
def withRead (c : Client) (size : Nat) (f : Bytes → Client → Client × Res) : Client × Res :=
  match c.read size with
  | .error k => (c, .need k)
  | .ok (d, c') => f d c'

/-- `SOCKS5._connect_response_rest(addr_len)` -/
def restStep (c : Client) (addrLen : Nat) : Client × Res :=
  withRead c (addrLen + 2) fun _ c' => (c', .fin)

/-- `SOCKS5._request_connection` -/
def requestConnection (c : Client) : Client × Res :=
  ({ c with st := .connect }, .msg (socks5Connect c.cfg.dst))

/-- `SOCKS4._first_response` after the read -/
def first4Body (d : Bytes) (c' : Client) : Client × Res :=
  if byteAt d 0 != 0 then (c', .raise .socksProtocolError)
  else if byteAt d 1 != 90 then (c', .raise .socksFailure)
  else (c', .fin)

/-- `SOCKS5._first_response` after the read -/
def first5Body (d : Bytes) (c' : Client) : Client × Res :=
  if byteAt d 0 != 5 then (c', .raise .socksProtocolError)
  else if !(c'.cfg.methods.contains (byteAt d 1)) then (c', .raise .socksFailure)
  else if byteAt d 1 == 2 then ({ c' with st := .authResp }, .msg c'.cfg.authBytes)
  else requestConnection c'

/-- `SOCKS5._auth_response` after the read -/
def authBody (d : Bytes) (c' : Client) : Client × Res :=
  if byteAt d 0 != 1 then (c', .raise .socksProtocolError)
  else if byteAt d 1 != 0 then (c', .raise .socksFailure)
  else requestConnection c'

/-- `addr_len` of `SOCKS5._connect_response` -/
def addrLenOf (atyp len : UInt8) : Nat :=
  if atyp == 1 then 3 else if atyp == 3 then len.toNat else 15

/-- `SOCKS5._connect_response` after the read -/
def connectBody (d : Bytes) (c' : Client) : Client × Res :=
  if byteAt d 0 != 5 || byteAt d 2 != 0
      || !(byteAt d 3 == 1 || byteAt d 3 == 3 || byteAt d 3 == 4) then
    (c', .raise .socksProtocolError)
  else if byteAt d 1 != 0 then (c', .raise .socksFailure)
  else
    -- `self._state = partial(self._connect_response_rest, addr_len); return self.next_message()`
    restStep { c' with st := .rest (addrLenOf (byteAt d 3) (byteAt d 4)) }
      (addrLenOf (byteAt d 3) (byteAt d 4))

/-- `SOCKS4._start` / `SOCKS5._start` -/
def startStep (c : Client) : Client × Res :=
  match c.cfg with
  | .s4 h port a =>
    -- `self._state = self._first_response` is the first statement
    match socks4Start h port a with
    | .ok b => ({ c with st := .first4 }, .msg b)
    | .error e => ({ c with st := .first4 }, .raise e)
  | .s5 _ _ methods => ({ c with st := .first5 }, .msg (socks5Greeting methods))

/-- `next_message()` = `self._state()`.  As in the code, a step that raises leaves `_state`
    where it was but has consumed the bytes it read. -/
def nextMessage (c : Client) : Client × Res :=
  match c.st with
  | .start => startStep c
  | .first4 => withRead c 8 first4Body
  | .first5 => withRead c 2 first5Body
  | .authResp => withRead c 2 authBody
  | .connect => withRead c 5 connectBody
  | .rest n => restStep c n

/-! ## the socket and `SOCKSProxy._handshake` -/

/-- the proxy side of the socket: the reply bytes not yet received, and how many `recv`
    calls were made (index into the segmentation oracle) -/
structure Sock where
  stream : Bytes
  idx : Nat

/-- number of bytes a `recv(k)` returns when `avail ≥ 1` bytes are still to come and the
    oracle proposes `want`: anything in `[1, min k avail]` -/
def clamp (want k avail : Nat) : Nat := max 1 (min want (min k avail))

/-- what `_handshake` did -/
structure Run where
  /-- `none`: returned normally; `some e`: `e` escaped -/
  outcome : Option PyExc
  /-- arguments of the `sock_sendall` calls, in order -/
  sent : List Bytes
  /-- reply bytes never received (left on the socket) -/
  unread : Bytes
  /-- (bytes requested, bytes returned) of every `sock_recv`, in order; returned 0 = EOF -/
  recvs : List (Nat × Nat)
  deriving DecidableEq, Repr

/-- bytes the parser step in state `st` reads in total -/
def St.size : St → Nat
  | .start => 0
  | .first4 => 8
  | .first5 => 2
  | .authResp => 2
  | .connect => 5
  | .rest n => n + 2

def St.rank : St → Nat
  | .start => 4
  | .first5 => 3
  | .authResp => 2
  | .connect => 1
  | .first4 => 0
  | .rest _ => 0

/-- termination measure of the driver loop: (parser stage, bytes the stage still misses) -/
def Client.measure (c : Client) : Nat × Nat := (c.st.rank, c.st.size - c.buf.length)

theorem withRead_cases (c : Client) (size : Nat) (f : Bytes → Client → Client × Res) :
    (c.buf.length < size ∧ withRead c size f = (c, .need (size - c.buf.length))) ∨
    (size ≤ c.buf.length ∧
      withRead c size f = f (c.buf.take size) { c with buf := c.buf.drop size }) := by
  unfold withRead Client.read
  by_cases h : c.buf.length < size
  · left; simp [h]
  · right; simp [h]; omega

theorem read_cfg_st (c : Client) (size : Nat) :
    ({ c with buf := c.buf.drop size } : Client).cfg = c.cfg ∧
    ({ c with buf := c.buf.drop size } : Client).st = c.st := ⟨rfl, rfl⟩

theorem restStep_need {x x' : Client} {n k : Nat} (hx : x.st = .rest n)
    (hr : restStep x n = (x', .need k)) :
    x'.buf.length < x'.st.size ∧ k = x'.st.size - x'.buf.length ∧ x' = x := by
  unfold restStep at hr
  rcases withRead_cases x (n + 2) (fun _ c' => (c', .fin)) with ⟨h1, h2⟩ | ⟨h1, h2⟩
  · rw [h2] at hr
    simp at hr
    obtain ⟨rfl, rfl⟩ := hr
    simp [hx, St.size, h1]
  · rw [h2] at hr
    simp at hr

theorem nextMessage_msg_rank {c c' : Client} {b : Bytes} (h : nextMessage c = (c', .msg b)) :
    c'.st.rank < c.st.rank := by
  unfold nextMessage at h
  cases hst : c.st <;> rw [hst] at h <;> simp only at h
  · unfold startStep at h
    split at h
    · split at h <;> simp at h
      obtain ⟨h1, _⟩ := h; subst h1; simp [St.rank]
    · simp at h; obtain ⟨h1, _⟩ := h; subst h1; simp [St.rank]
  · rcases withRead_cases c 8 first4Body with ⟨_, h2⟩ | ⟨_, h2⟩ <;> rw [h2] at h
    · simp at h
    · unfold first4Body at h
      split at h
      · simp at h
      · split at h <;> simp at h
  · rcases withRead_cases c 2 first5Body with ⟨_, h2⟩ | ⟨_, h2⟩ <;> rw [h2] at h
    · simp at h
    · unfold first5Body at h
      split at h
      · simp at h
      · split at h
        · simp at h
        · split at h
          · simp at h; obtain ⟨h1, _⟩ := h; subst h1; simp [St.rank]
          · simp [requestConnection] at h; obtain ⟨h1, _⟩ := h; subst h1; simp [St.rank]
  · rcases withRead_cases c 2 authBody with ⟨_, h2⟩ | ⟨_, h2⟩ <;> rw [h2] at h
    · simp at h
    · unfold authBody at h
      split at h
      · simp at h
      · split at h
        · simp at h
        · simp [requestConnection] at h; obtain ⟨h1, _⟩ := h; subst h1; simp [St.rank]
  · rcases withRead_cases c 5 connectBody with ⟨_, h2⟩ | ⟨_, h2⟩ <;> rw [h2] at h
    · simp at h
    · unfold connectBody at h
      split at h
      · simp at h
      · split at h
        · simp at h
        · unfold restStep at h
          rcases withRead_cases _ _ _ with ⟨_, h3⟩ | ⟨_, h3⟩ <;> rw [h3] at h <;> simp at h
  · unfold restStep at h
    rcases withRead_cases _ _ _ with ⟨_, h3⟩ | ⟨_, h3⟩ <;> rw [h3] at h <;> simp at h

/-- `NeedData(k)` out of `next_message()`: `k` is positive, it is exactly what the current
    parser step still misses, and the only state change can be `_connect_response` handing
    over to `_connect_response_rest` -/
theorem nextMessage_need {c c' : Client} {k : Nat} (h : nextMessage c = (c', .need k)) :
    c'.buf.length < c'.st.size ∧ k = c'.st.size - c'.buf.length ∧
      (c'.st.rank < c.st.rank ∨ c' = c) := by
  unfold nextMessage at h
  cases hst : c.st <;> rw [hst] at h <;> simp only at h
  · unfold startStep at h
    split at h
    · split at h <;> simp at h
    · simp at h
  · rcases withRead_cases c 8 first4Body with ⟨h1, h2⟩ | ⟨_, h2⟩ <;> rw [h2] at h
    · simp at h; obtain ⟨rfl, rfl⟩ := h; simp [hst, St.size, h1]
    · unfold first4Body at h
      split at h
      · simp at h
      · split at h <;> simp at h
  · rcases withRead_cases c 2 first5Body with ⟨h1, h2⟩ | ⟨_, h2⟩ <;> rw [h2] at h
    · simp at h; obtain ⟨rfl, rfl⟩ := h; simp [hst, St.size, h1]
    · unfold first5Body at h
      split at h
      · simp at h
      · split at h
        · simp at h
        · split at h <;> simp [requestConnection] at h
  · rcases withRead_cases c 2 authBody with ⟨h1, h2⟩ | ⟨_, h2⟩ <;> rw [h2] at h
    · simp at h; obtain ⟨rfl, rfl⟩ := h; simp [hst, St.size, h1]
    · unfold authBody at h
      split at h
      · simp at h
      · split at h <;> simp [requestConnection] at h
  · rcases withRead_cases c 5 connectBody with ⟨h1, h2⟩ | ⟨_, h2⟩ <;> rw [h2] at h
    · simp at h; obtain ⟨rfl, rfl⟩ := h; simp [hst, St.size, h1]
    · unfold connectBody at h
      split at h
      · simp at h
      · split at h
        · simp at h
        · obtain ⟨a1, a2, a3⟩ := restStep_need rfl h
          refine ⟨a1, a2, Or.inl ?_⟩
          rw [a3]; simp [St.rank]
  · obtain ⟨a1, a2, a3⟩ := restStep_need hst h
    exact ⟨a1, a2, Or.inr a3⟩

/-- `SOCKSProxy._handshake(client, sock, loop)`.  `oracle i` proposes the size of the segment
    the `i`-th `sock_recv` returns (clamped to `[1, min requested available]`); `recv` on an
    exhausted stream returns `b''` (EOF).  `if count:` is the `need` branch: `NeedData`'s
    argument is always positive (`nextMessage_need`). -/
def handshake (oracle : Nat → Nat) (c : Client) (s : Sock) : Run :=
  match h : nextMessage c with
  | (_, .raise e) => ⟨some e, [], s.stream, []⟩
  | (_, .fin) => ⟨none, [], s.stream, []⟩
  | (c', .msg b) =>
    let r := handshake oracle c' s
    { r with sent := b :: r.sent }
  | (c', .need k) =>
    if hne : s.stream.isEmpty then ⟨some .socksProtocolError, [], [], [(k, 0)]⟩
    else
      let n := clamp (oracle s.idx) k s.stream.length
      let r := handshake oracle (c'.receiveData (s.stream.take n)) ⟨s.stream.drop n, s.idx + 1⟩
      { r with recvs := (k, n) :: r.recvs }
termination_by c.measure
decreasing_by
  · have := nextMessage_msg_rank h
    exact Prod.Lex.left _ _ this
  · obtain ⟨h1, h2, h3⟩ := nextMessage_need h
    rcases h3 with h3 | h3
    · exact Prod.Lex.left _ _ h3
    · subst h3
      simp only [Client.measure, Client.receiveData]
      apply Prod.Lex.right
      have hpos : 0 < s.stream.length := by
        cases hs : s.stream with
        | nil => simp [hs] at hne
        | cons a t => simp
      have : 1 ≤ clamp (oracle s.idx) k s.stream.length ∧
          clamp (oracle s.idx) k s.stream.length ≤ s.stream.length := by
        unfold clamp; omega
      simp [List.length_take]
      omega

/-! ## driving a protocol object by hand (as the repo's tests do): chunks of any size are
    pushed with `receive_data` whenever `next_message()` raises `NeedData` -/

/-- observable results of the successive `next_message()` calls -/
def driveObject : (fuel : Nat) → Client → List Bytes → List Res
  | 0, _, _ => []
  | fuel + 1, c, chunks =>
    match nextMessage c with
    | (_, .raise e) => [.raise e]
    | (_, .fin) => [.fin]
    | (c', .msg b) => .msg b :: driveObject fuel c' chunks
    | (c', .need k) =>
      match chunks with
      | [] => [.need k]
      | d :: ds => .need k :: driveObject fuel (c'.receiveData d) ds

/-! ## `_connect_one`, `_detect_proxy` -/

/-- one `getaddrinfo` entry tried by `_connect_one`: `socket.socket(family)` raises `OSError`
    (outside the `try`), `sock_connect` raises `OSError`, the peer answers with a reply stream
    delivered under some segmentation, or it does so and `sock.getpeername()` then raises
    `OSError` -/
inductive Attempt where
  | connectFails
  | talks (stream : Bytes) (oracle : Nat → Nat)
  | socketFails
  | peernameFails (stream : Bytes) (oracle : Nat → Nat)

inductive OneRes where
  | sock (attempt : Nat) (unread : Bytes)   -- returned the open socket of attempt number ..
  | returned (e : PyExc)                    -- returned the last exception object
  | escaped (e : PyExc)                     -- an exception propagated out of `_connect_one`
  deriving DecidableEq, Repr

/-- `except (OSError, SOCKSError)` -/
def isCaught : PyExc → Bool
  | .osError | .socksProtocolError | .socksFailure => true
  | _ => false

/-- `SOCKSProxy._connect_one`; `mk` is the result of `self.protocol(remote_address, self.auth)`,
    which is evaluated outside the `try` for every entry (a **fresh** protocol object per
    entry), as is `socket.socket(family=info[0])` -/
def connectOne (mk : Except PyExc Cfg) : List Attempt → Nat → Option PyExc → OneRes
  | [], _, some e => .returned e
  | [], _, none => .escaped .unboundLocalError
  | a :: as, i, _ =>
    match mk with
    | .error e => .escaped e
    | .ok cfg =>
      match a with
      | .socketFails => .escaped .osError
      | .connectFails => connectOne mk as (i + 1) (some .osError)
      | .talks s o =>
        let r := handshake o (Client.init cfg) ⟨s, 0⟩
        match r.outcome with
        | none => .sock i r.unread
        | some e => if isCaught e then connectOne mk as (i + 1) (some e) else .escaped e
      | .peernameFails s o =>
        let r := handshake o (Client.init cfg) ⟨s, 0⟩
        match r.outcome with
        | none => connectOne mk as (i + 1) (some .osError)   -- `getpeername()` raised
        | some e => if isCaught e then connectOne mk as (i + 1) (some e) else .escaped e

/-- what the proxy received on the connection each tried entry opened (`none`: no connection
    was made), in the order tried - the bytes C16 is about at the level of `_connect_one` -/
def connectOneSent (mk : Except PyExc Cfg) : List Attempt → List (Option (List Bytes))
  | [] => []
  | a :: as =>
    match mk with
    | .error _ => []
    | .ok cfg =>
      match a with
      | .socketFails => [none]
      | .connectFails => none :: connectOneSent mk as
      | .talks s o =>
        let r := handshake o (Client.init cfg) ⟨s, 0⟩
        match r.outcome with
        | none => [some r.sent]
        | some e => if isCaught e then some r.sent :: connectOneSent mk as else [some r.sent]
      | .peernameFails s o =>
        let r := handshake o (Client.init cfg) ⟨s, 0⟩
        match r.outcome with
        | none => some r.sent :: connectOneSent mk as
        | some e => if isCaught e then some r.sent :: connectOneSent mk as else [some r.sent]

def vec4 (a b c d : UInt8) : Vector UInt8 4 := ⟨#[a, b, c, d], rfl⟩

/-- code points of `'www.apple.com'` -/
def wwwAppleCom : List Nat := [119, 119, 119, 46, 97, 112, 112, 108, 101, 46, 99, 111, 109]

/-- `SOCKSProxy._detect_proxy` -/
def detectProxy (p : Proto) (a : Auth) (attempts : List Attempt) : Except PyExc Bool :=
  let mk := if p = .socks4a then mkCfg p (.name wwwAppleCom) 80 a
            else mkCfg p (.ipv4 (vec4 8 8 8 8)) 53 a
  match connectOne mk attempts 0 none with
  | .sock _ _ => .ok true
  | .returned e => .ok (e == .socksFailure)
  | .escaped e => .error e

/-! ## `_connect` : one `_connect_one` per remote address -/

/-- what `_connect_one(remote_address)` gave, as `_connect` sees it.  `reprId` stands for
    `repr(exception)`: only equality of reprs matters. -/
inductive AddrOutcome where
  | sock (unread : Bytes)
  | exc (e : PyExc) (reprId : Nat)
  | escaped (e : PyExc)
  deriving DecidableEq, Repr

inductive ConnectRes where
  | connected (addrIndex : Nat) (unread : Bytes)
  | raised (e : PyExc)
  deriving DecidableEq, Repr

def isSocksError : PyExc → Bool
  | .socksProtocolError | .socksFailure => true
  | _ => false

/-- the final `raise` of `_connect` **as on the pinned tree** (finding F28): differing reprs
    give a bare `OSError`, also when every attempt failed at SOCKS level -/
def aggregatePinned : List (PyExc × Nat) → PyExc
  | [] => .assertionError
  | (e, r) :: rest => if rest.all (fun x => x.2 == r) then e else .osError

/-- the final `raise` of `_connect` with the repair `fixes/F28-connect-socks-error.diff`: when
    every collected exception is a `SOCKSError` the aggregate is one too (`SOCKSFailure` if
    all are refusals, else `SOCKSProtocolError`); `OSError` only if some attempt failed at
    socket level -/
def aggregate : List (PyExc × Nat) → PyExc
  | [] => .assertionError
  | (e, r) :: rest =>
    if rest.all (fun x => x.2 == r) then e
    else if ((e, r) :: rest).all (fun x => isSocksError x.1) then
      (if ((e, r) :: rest).all (fun x => x.1 == .socksFailure) then .socksFailure
       else .socksProtocolError)
    else .osError

/-- the `for` loop of `_connect` (with the exceptions collected so far, in order) and the final
    `raise`, parameterised by the aggregation -/
def connectLoopWith (agg : List (PyExc × Nat) → PyExc) :
    List AddrOutcome → Nat → List (PyExc × Nat) → ConnectRes
  | [], _, acc => .raised (agg acc)          -- `[]`: `assert remote_addresses`
  | .sock u :: _, i, _ => .connected i u
  | .escaped e :: _, _, _ => .raised e
  | .exc e r :: as, i, acc => connectLoopWith agg as (i + 1) (acc ++ [(e, r)])

def connectLoop := connectLoopWith aggregate

/-- `SOCKSProxy._connect(remote_addresses)` (repaired) -/
def connect (outcomes : List AddrOutcome) : ConnectRes := connectLoop outcomes 0 []

/-- `SOCKSProxy._connect(remote_addresses)` on the pinned tree -/
def connectPinned (outcomes : List AddrOutcome) : ConnectRes :=
  connectLoopWith aggregatePinned outcomes 0 []

/-- how `_connect` sees the result of one `_connect_one` (`reprId` 0: a single address) -/
def OneRes.toAddr : OneRes → AddrOutcome
  | .sock _ u => .sock u
  | .returned e => .exc e 0
  | .escaped e => .escaped e

/-- `create_connection(factory, host, port)` with `resolve=False` (one remote address) as far
    as the proxy is concerned: `_connect([address])` over `_connect_one(address)` -/
def createConnection1 (mk : Except PyExc Cfg) (attempts : List Attempt) : ConnectRes :=
  connect [(connectOne mk attempts 0 none).toAddr]

end Aiorpcx.Socks
