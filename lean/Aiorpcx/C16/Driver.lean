import Aiorpcx.C16.Wire
/-! Line-protocol driver for the C16 model.
    in : `<proto> <host> <port> <auth> [d1]`     (see `Wire.lean`; `d1`: SOCKS5, only the
         `0500` dialogue - used by the every-port sweep)
    out: `E:<Exception>` when the constructor raises, otherwise the results of the successive
         `next_message()` calls of three scripted dialogues, separated by ` | `:
         SOCKS4/4a: `start`
         SOCKS5:    `start | 0500 -> .. | 0502 -> .., 0100 -> ..`
         (a result is `M<hex>`, `None`, `N<k>` (NeedData) or `E:<Exception>`)
    in : `px <proto> <host> <port> <auth> <attempt> ...`   (attempt: see `Wire.parseAttempt`)
         `create_connection` to one remote address through a proxy whose own address resolves
         to one entry per attempt
    out: `<result> | <bytes the proxy received on the connection of attempt 0> | ...`
         result = `connected` / `E:<Exception>`; per tried attempt the concatenated bytes in hex
         (`-` empty, `.` no connection was made) -/
open Aiorpcx Aiorpcx.Socks Aiorpcx.Socks.Wire

def dialogue (cfg : Cfg) (chunks : List Bytes) : String :=
  String.intercalate " " ((driveObject 16 (Client.init cfg) chunks).map showRes)

def run (p h port a : String) (light : Bool) : String :=
  match parseProto p, parseHost h, port.toNat?, parseAuth a with
  | some p, some h, some port, some a =>
    match mkCfg p h port a with
    | .error e => "E:" ++ showExc e
    | .ok cfg =>
      match cfg with
      | .s4 .. => dialogue cfg []
      | .s5 .. =>
        if light then dialogue cfg [[5, 0]]
        else dialogue cfg [] ++ " | " ++ dialogue cfg [[5, 0]] ++ " | " ++ dialogue cfg [[5, 2], [1, 0]]
  | _, _, _, _ => "bad-op"

def showSent : Option (List Bytes) → String
  | none => "."
  | some ms => Hex.showBytes ms.flatten

def runPx (p h port a : String) (attempts : List String) : String :=
  match parseProto p, parseHost h, port.toNat?, parseAuth a, attempts.mapM parseAttempt with
  | some p, some h, some port, some a, some atts =>
    let mk := mkCfg p h port a
    let res := match createConnection1 mk atts with
      | .connected _ _ => "connected"
      | .raised e => "E:" ++ showExc e
    String.intercalate " | " (res :: (connectOneSent mk atts).map showSent)
  | _, _, _, _, _ => "bad-op"

def handle (line : String) : String :=
  match (line.splitOn " ").filter (· ≠ "") with
  | "px" :: p :: h :: port :: a :: attempts => runPx p h port a attempts
  | [p, h, port, a] => run p h port a false
  | [p, h, port, a, "d1"] => run p h port a true
  | _ => "bad-op"

def main : IO Unit := Hex.lineLoop handle
