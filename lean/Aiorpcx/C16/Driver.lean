import Aiorpcx.C16.Wire
/-! Line-protocol driver for the C16 model.
    in : `<proto> <host> <port> <auth> [d1]`     (see `Wire.lean`; `d1`: SOCKS5, only the
         `0500` dialogue - used by the every-port sweep)
    out: `E:<Exception>` when the constructor raises, otherwise the results of the successive
         `next_message()` calls of three scripted dialogues, separated by ` | `:
         SOCKS4/4a: `start`
         SOCKS5:    `start | 0500 -> .. | 0502 -> .., 0100 -> ..`
         (a result is `M<hex>`, `None`, `N<k>` (NeedData) or `E:<Exception>`) -/
open Aiorpcx Aiorpcx.Socks Aiorpcx.Socks.Wire

def dialogue (cfg : Cfg) (chunks : List Bytes) : String :=
  String.intercalate " " ((driveObject 16 (Client.init cfg) chunks).map showRes)

def run (p h port a : String) (light : Bool) : String :=
  match parseProto p, parseHost h, port.toNat?, parseAuth a with
  | some p, some h, some port, some a =>
    match mkCfg p h port a with
    | .error e => "E:" ++ showExc e
    | .ok cfg =>
      match cfg with
      | .s4 .. => dialogue cfg []
      | .s5 .. =>
        if light then dialogue cfg [[5, 0]]
        else dialogue cfg [] ++ " | " ++ dialogue cfg [[5, 0]] ++ " | " ++ dialogue cfg [[5, 2], [1, 0]]
  | _, _, _, _ => "bad-op"

def handle (line : String) : String :=
  match (line.splitOn " ").filter (· ≠ "") with
  | [p, h, port, a] => run p h port a false
  | [p, h, port, a, "d1"] => run p h port a true
  | _ => "bad-op"

def main : IO Unit := Hex.lineLoop handle
