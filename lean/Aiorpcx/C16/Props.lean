import Aiorpcx.C16.Model
import Aiorpcx.Facts.C16
namespace Aiorpcx.C16
open Aiorpcx.Socks

theorem placeholder16 : True := trivial

end Aiorpcx.C16
