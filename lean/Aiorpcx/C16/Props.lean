import Aiorpcx.C16.Parse
import Aiorpcx.C16.Utf8
import Aiorpcx.Facts.C16
/-!
# C16 — SOCKS requests are byte-exact per SOCKS4, SOCKS4a, RFC 1928 and RFC 1929

Model: `Aiorpcx.Socks` (`C16/Model.lean`, mirrors `socks.py`): `mkCfg p host port auth` is the
constructor call `protocol(NetAddress(host, port), auth)`, `firstMessage` / `nextMessage` the
successive `next_message()` calls.  SPEC: the *server-side* parsers of `C16/Spec.lean`, written
from the protocol documents.  Every theorem is quantified over **all** addresses, ports below
65536 (`NetAddress` only produces 1..65535), host names and credentials; no bound.

Credentials are lists of code points.  `utf8 u = .ok ub` says "the string has a UTF-8 form",
i.e. it holds no lone surrogate; for such strings `str.encode()` raises `UnicodeEncodeError`
(`surrogate_*` below, reported as a secondary finding, outside "any Unicode").
-/
namespace Aiorpcx.C16
open Aiorpcx.Socks

/-- result of the first `next_message()` of a fresh protocol object -/
def firstMessage (cfg : Cfg) : Res := (nextMessage (Client.init cfg)).2

/-- Hypothesis tied to **C18**: what `NetAddress` lets through as a host name is at most 254
    characters (253 + an optional trailing dot) of ASCII, none of them NUL. -/
def ValidHostName (s : List Nat) : Prop := s.length ≤ 254 ∧ ∀ c ∈ s, c < 128 ∧ c ≠ 0

theorem validHost_utf8 {s : List Nat} (h : ValidHostName s) :
    utf8 s = .ok (s.map Nat.toUInt8) ∧ (s.map Nat.toUInt8).length ≤ 255 ∧
      (0 : UInt8) ∉ s.map Nat.toUInt8 := by
  have h1 := utf8_ascii s (fun c hc => (h.2 c hc).1)
  refine ⟨h1, by simp; have := h.1; omega, ?_⟩
  exact utf8_no_nul h1 (fun h0 => (h.2 0 h0).2 rfl)

theorem firstMessage_s4 (h : Host) (port : Nat) (a : Auth) (b : Bytes)
    (hs : socks4Start h port a = .ok b) : firstMessage (.s4 h port a) = .msg b := by
  simp [firstMessage, nextMessage, Client.init, startStep, hs]

/-! ## SOCKS4 -/

/-- **SOCKS4, IPv4 destination.**  For every IPv4 address, port and user id without NUL (or no
    credentials: empty user id) the constructor accepts, and a SOCKS4 server parsing the first
    message reads exactly version 4, command 1 (CONNECT), the port, the address and the user
    id, and consumes every byte. -/
theorem socks4_parse (ip : Vector UInt8 4) (port : Nat) (a : Auth) (ub : Bytes)
    (hport : port < 65536) (hu : userBytes a = .ok ub) (hnul : userHasNul a = false) :
    mkCfg .socks4 (.ipv4 ip) port a = .ok (.s4 (.ipv4 ip) port a) ∧
    ∃ msg, firstMessage (.s4 (.ipv4 ip) port a) = .msg msg ∧
      Spec.parseSocks4Request false msg = some (⟨4, 1, port, ip.toList, ub, none⟩, []) := by
  refine ⟨by simp [mkCfg, socks4Init, hnul, checkRemoteHost], ?_⟩
  have hs := socks4Start_ipv4 ip port a ub hport hu
  refine ⟨_, firstMessage_s4 _ _ _ _ hs, ?_⟩
  obtain ⟨x, y, z, w, hv⟩ := vec4_toList ip
  have h0 : (0 : UInt8) ∉ ub := by
    cases a with
    | none => simp [userBytes] at hu; subst hu; simp
    | some up =>
      obtain ⟨u, p⟩ := up
      exact utf8_no_nul hu ((userHasNul_false_iff _).1 hnul u p rfl)
  rw [hv]
  have := parse4_plain 4 1 (port / 256).toUInt8 (port % 256).toUInt8 x y z w ub [] h0
  simp only [be16_pack hport] at this
  simpa using this

example : ∃ ip port a ub, port < 65536 ∧ userBytes a = .ok ub ∧ userHasNul a = false ∧
    ub = [0xC3, 0xA9] ∧ mkCfg .socks4 (.ipv4 ip) port a = .ok (.s4 (.ipv4 ip) port a) :=
  ⟨vec4 1 2 3 4, 80, some ([0xE9], [112]), [0xC3, 0xA9], by decide, by decide, by decide, rfl,
   by decide⟩

/-- **SOCKS4a, host name.**  Address 0.0.0.1, then the user id and the NUL-terminated host name;
    a SOCKS4a server recovers both.  `ValidHostName` is the C18 hypothesis (a host name cannot
    contain NUL because `NetAddress` validated it). -/
theorem socks4a_parse (s : List Nat) (port : Nat) (a : Auth) (ub : Bytes)
    (hport : port < 65536) (hu : userBytes a = .ok ub) (hnul : userHasNul a = false)
    (hs : ValidHostName s) :
    mkCfg .socks4a (.name s) port a = .ok (.s4 (.name s) port a) ∧
    ∃ msg, firstMessage (.s4 (.name s) port a) = .msg msg ∧
      Spec.parseSocks4Request true msg =
        some (⟨4, 1, port, [0, 0, 0, 1], ub, some (s.map Nat.toUInt8)⟩, []) := by
  refine ⟨by simp [mkCfg, socks4Init, hnul, checkRemoteHost], ?_⟩
  obtain ⟨h1, _, h3⟩ := validHost_utf8 hs
  have hst := socks4Start_name s port a ub _ hport hu h1
  refine ⟨_, firstMessage_s4 _ _ _ _ hst, ?_⟩
  have h0 : (0 : UInt8) ∉ ub := by
    cases a with
    | none => simp [userBytes] at hu; subst hu; simp
    | some up =>
      obtain ⟨u, p⟩ := up
      exact utf8_no_nul hu ((userHasNul_false_iff _).1 hnul u p rfl)
  have := parse4a_marker 4 1 (port / 256).toUInt8 (port % 256).toUInt8 1 ub _ [] h0 h3 (by decide)
  simp only [be16_pack hport] at this
  simpa using this

example : ValidHostName wwwAppleCom := by
  refine ⟨by decide, ?_⟩
  decide

theorem isMarker_false_iff (x y z w : UInt8) (ip : Vector UInt8 4) (hv : ip.toList = [x, y, z, w]) :
    isMarker ip = false ↔ ¬ (x = 0 ∧ y = 0 ∧ z = 0 ∧ w ≠ 0) := by
  simp only [isMarker, hv]
  by_cases hx : x = 0 <;> by_cases hy : y = 0 <;> by_cases hz : z = 0 <;> by_cases hw : w = 0 <;>
    simp [hx, hy, hz, hw]

/-- which IPv4 destinations the (repaired) SOCKS4a constructor takes: all but the marker
    addresses 0.0.0.x, x ≠ 0 (and, as for SOCKS4, no NUL in the user id) -/
theorem socks4a_ipv4_accepts_iff (ip : Vector UInt8 4) (port : Nat) (a : Auth) :
    (∃ cfg, mkCfg .socks4a (.ipv4 ip) port a = .ok cfg) ↔
      (isMarker ip = false ∧ userHasNul a = false) := by
  cases hn : userHasNul a <;> cases hm : isMarker ip <;>
    simp [mkCfg, socks4Init, hn, checkRemoteHost, hm]

/-- **SOCKS4a, IPv4 destination**: whenever the constructor accepts, the request is the plain
    SOCKS4 form and a SOCKS4a server - parsing **with** the 4a extension - reads exactly that
    destination.  (F26, repaired: the addresses 0.0.0.x, x ≠ 0, which SOCKS4A.protocol reserves
    as the host-name marker, are refused: `rejects_inexpressible`;
    `socks4a_marker_fails_pinned` keeps the pinned-tree counter-example.) -/
theorem socks4a_ipv4_parse (ip : Vector UInt8 4) (port : Nat) (a : Auth) (ub : Bytes) (cfg : Cfg)
    (hport : port < 65536) (hu : userBytes a = .ok ub)
    (hc : mkCfg .socks4a (.ipv4 ip) port a = .ok cfg) :
    cfg = .s4 (.ipv4 ip) port a ∧
    ∃ msg, firstMessage cfg = .msg msg ∧
      Spec.parseSocks4Request true msg = some (⟨4, 1, port, ip.toList, ub, none⟩, []) := by
  obtain ⟨hmk, hnul⟩ := (socks4a_ipv4_accepts_iff ip port a).1 ⟨cfg, hc⟩
  have hcfg : cfg = .s4 (.ipv4 ip) port a := by
    simp [mkCfg, socks4Init, hnul, checkRemoteHost, hmk] at hc
    exact hc.symm
  subst hcfg
  refine ⟨rfl, ?_⟩
  have hs := socks4Start_ipv4 ip port a ub hport hu
  refine ⟨_, firstMessage_s4 _ _ _ _ hs, ?_⟩
  obtain ⟨x, y, z, w, hv⟩ := vec4_toList ip
  have h0 : (0 : UInt8) ∉ ub := by
    cases a with
    | none => simp [userBytes] at hu; subst hu; simp
    | some up =>
      obtain ⟨u, p⟩ := up
      exact utf8_no_nul hu ((userHasNul_false_iff _).1 hnul u p rfl)
  have hm' := (isMarker_false_iff x y z w ip hv).1 hmk
  rw [hv]
  have := parse4a_nomarker 4 1 (port / 256).toUInt8 (port % 256).toUInt8 x y z w ub [] h0 hm'
  simp only [be16_pack hport] at this
  simpa using this

example : ∃ cfg, mkCfg .socks4a (.ipv4 (vec4 0 0 0 0)) 80 none = .ok cfg :=
  (socks4a_ipv4_accepts_iff _ _ _).2 ⟨by decide, by decide⟩

/-! ## SOCKS5 -/

/-- what `SOCKS5.__init__` computed, when it succeeded -/
theorem mkCfg_socks5_ok {h : Host} {port : Nat} {a : Auth} {cfg : Cfg}
    (hc : mkCfg .socks5 h port a = .ok cfg) :
    ∃ dst ab ms, cfg = .s5 dst ab ms ∧ socks5DestinationBytes h port = .ok dst ∧
      socks5Authentication a = .ok (ab, ms) := by
  unfold mkCfg at hc
  simp only at hc
  split at hc
  · simp at hc
  · rename_i dst hd
    split at hc
    · simp at hc
    · rename_i ab ms ha
      simp at hc
      exact ⟨dst, ab, ms, hc.symm, hd, ha⟩

theorem socks5Authentication_some_ok {u p : List Nat} {ab : Bytes} {ms : List UInt8}
    (h : socks5Authentication (some (u, p)) = .ok (ab, ms)) :
    ∃ ub pb, utf8 u = .ok ub ∧ utf8 p = .ok pb ∧ 0 < ub.length ∧ ub.length < 256 ∧
      0 < pb.length ∧ pb.length < 256 ∧ ms = [0, 2] ∧
      ab = [1, ub.length.toUInt8] ++ ub ++ [pb.length.toUInt8] ++ pb := by
  simp only [socks5Authentication] at h
  cases hu : utf8 u with
  | error e => simp [hu] at h
  | ok ub =>
    simp only [hu] at h
    by_cases hlu : (0 < ub.length && decide (ub.length < 256)) = true
    · simp only [hlu, Bool.not_true, Bool.false_eq_true, if_false] at h
      cases hp : utf8 p with
      | error e => simp [hp] at h
      | ok pb =>
        simp only [hp] at h
        by_cases hlp : (0 < pb.length && decide (pb.length < 256)) = true
        · simp only [hlp, Bool.not_true, Bool.false_eq_true, if_false, Except.ok.injEq,
            Prod.mk.injEq] at h
          simp at hlu hlp
          exact ⟨ub, pb, rfl, rfl, hlu.1, hlu.2, hlp.1, hlp.2, h.2.symm, h.1.symm⟩
        · simp [hlp] at h
    · simp [hlu] at h

/-- **Greeting.**  Whenever the constructor accepts, the first message is an RFC 1928 greeting
    offering exactly "no authentication" — and "username/password" too only when credentials
    were given. -/
theorem socks5_greeting (h : Host) (port : Nat) (a : Auth) (cfg : Cfg)
    (hc : mkCfg .socks5 h port a = .ok cfg) :
    ∃ g, firstMessage cfg = .msg g ∧
      Spec.parseGreeting g = some (5, (if a.isSome then [0, 2] else [0]), []) := by
  obtain ⟨dst, ab, ms, rfl, _, ha⟩ := mkCfg_socks5_ok hc
  refine ⟨socks5Greeting ms, by simp [firstMessage, nextMessage, Client.init, startStep], ?_⟩
  cases a with
  | none =>
    simp [socks5Authentication] at ha
    obtain ⟨_, rfl⟩ := ha
    simp [Spec.parseGreeting, socks5Greeting]
  | some up =>
    obtain ⟨u, p⟩ := up
    obtain ⟨_, _, _, _, _, _, _, _, rfl, _⟩ := socks5Authentication_some_ok ha
    simp [Spec.parseGreeting, socks5Greeting]

example : mkCfg .socks5 (.ipv4 (vec4 8 8 8 8)) 53 (some ([117], [112])) =
    .ok (.s5 [1, 8, 8, 8, 8, 0, 53] [1, 1, 117, 1, 112] [0, 2]) := by decide

/-- **RFC 1929 message.**  With credentials the constructor accepts exactly when both encode
    to 1..255 bytes, and the stored credential message parses back to version 1, the user name
    and the password, nothing left over. -/
theorem socks5_auth_parse (h : Host) (port : Nat) (u p : List Nat) (cfg : Cfg)
    (hc : mkCfg .socks5 h port (some (u, p)) = .ok cfg) :
    ∃ ub pb, utf8 u = .ok ub ∧ utf8 p = .ok pb ∧
      1 ≤ ub.length ∧ ub.length ≤ 255 ∧ 1 ≤ pb.length ∧ pb.length ≤ 255 ∧
      Spec.parseUserPass cfg.authBytes = some (1, ub, pb, []) := by
  obtain ⟨dst, ab, ms, rfl, _, ha⟩ := mkCfg_socks5_ok hc
  obtain ⟨ub, pb, hu, hp, h1, h2, h3, h4, _, rfl⟩ := socks5Authentication_some_ok ha
  refine ⟨ub, pb, hu, hp, h1, by omega, h3, by omega, ?_⟩
  have := parseUserPass_msg ub pb [] h2 h4
  simpa [Cfg.authBytes] using this

/-- ... and the *strings* come back: a server that parses the RFC 1929 message and decodes
    the two fields as UTF-8 (RFC 3629) obtains exactly the user name and password given. -/
theorem socks5_auth_strings (h : Host) (port : Nat) (u p : List Nat) (cfg : Cfg)
    (hc : mkCfg .socks5 h port (some (u, p)) = .ok cfg) :
    ∃ ub pb, Spec.parseUserPass cfg.authBytes = some (1, ub, pb, []) ∧
      Spec.decodeUtf8 (ub.length + 1) ub = some u ∧ Spec.decodeUtf8 (pb.length + 1) pb = some p := by
  obtain ⟨ub, pb, hu, hp, _, _, _, _, hparse⟩ := socks5_auth_parse h port u p cfg hc
  exact ⟨ub, pb, hparse, utf8_roundtrip u ub hu _ (by omega), utf8_roundtrip p pb hp _ (by omega)⟩

/-- **The credential message is sent only if the proxy selected method 2** (and only when
    credentials exist).  `c` is any SOCKS5 object waiting for the method-selection reply with
    the two reply bytes `v m` buffered: the next message is the credential message (and the
    object moves on to expect the RFC 1929 status) iff the reply is `05 02` and method 2 was
    offered; in every other case the object either raises or goes straight to CONNECT. -/
theorem socks5_auth_only_if_selected (h : Host) (port : Nat) (a : Auth) (cfg : Cfg)
    (hc : mkCfg .socks5 h port a = .ok cfg) (v m : UInt8) :
    let r := nextMessage ⟨cfg, .first5, [v, m]⟩
    ((r.1.st = .authResp ∧ r.2 = .msg cfg.authBytes) ↔ (v = 5 ∧ m = 2 ∧ a.isSome)) ∧
    (r.1.st ≠ .authResp →
      r.2 = .raise .socksProtocolError ∨ r.2 = .raise .socksFailure ∨
      (r.2 = .msg (socks5Connect cfg.dst) ∧ v = 5 ∧ m = 0)) := by
  obtain ⟨dst, ab, ms, rfl, _, ha⟩ := mkCfg_socks5_ok hc
  have hms : (a.isSome ∧ ms = [0, 2]) ∨ (a = none ∧ ms = [0]) := by
    cases a with
    | none => simp [socks5Authentication] at ha; exact Or.inr ⟨rfl, ha.2.symm⟩
    | some up =>
      obtain ⟨u, p⟩ := up
      obtain ⟨_, _, _, _, _, _, _, _, rfl, _⟩ := socks5Authentication_some_ok ha
      exact Or.inl ⟨rfl, rfl⟩
  have hr : nextMessage ⟨.s5 dst ab ms, .first5, [v, m]⟩ =
      first5Body [v, m] ⟨.s5 dst ab ms, .first5, []⟩ := by
    simp [nextMessage, withRead, Client.read]
  simp only [hr, first5Body, byteAt, List.getD_cons_zero, List.getD_cons_succ, Cfg.methods,
    Cfg.authBytes, Cfg.dst, requestConnection]
  rcases hms with ⟨hs, rfl⟩ | ⟨rfl, rfl⟩
  · by_cases hv : v = 5
    · subst hv
      by_cases h2 : m = 2
      · subst h2; simp [hs]
      · by_cases h0 : m = 0
        · subst h0; simp [hs]
        · simp [h2, h0, hs]
    · simp [hv]
  · by_cases hv : v = 5
    · subst hv
      by_cases h0 : m = 0
      · subst h0; simp
      · simp [h0]
    · simp [hv]

/-- **CONNECT.**  Whenever the constructor accepts, the CONNECT request parses (RFC 1928 §4) to
    version 5, command 1, reserved 0, the destination typed as IPv4 (4 octets) / domain name
    (the encoded name) / IPv6 (16 octets), and the port in network byte order; nothing is left
    over. -/
theorem socks5_connect_parse (h : Host) (port : Nat) (a : Auth) (cfg : Cfg)
    (hport : port < 65536) (hc : mkCfg .socks5 h port a = .ok cfg) :
    ∃ addr, Spec.parseConnect (socks5Connect cfg.dst) = some (⟨5, 1, 0, addr, port⟩, []) ∧
      match h with
      | .ipv4 ip => addr = .ipv4 ip.toList
      | .ipv6 ip => addr = .ipv6 ip.toList
      | .ipv6z _ => False      -- refused by the constructor (F27, repaired)
      | .name s => ∃ hb, utf8 s = .ok hb ∧ hb.length ≤ 255 ∧ addr = .domain hb := by
  obtain ⟨dst, ab, ms, rfl, hd, _⟩ := mkCfg_socks5_ok hc
  unfold socks5DestinationBytes at hd
  simp only [packH_ok hport] at hd
  cases h with
  | ipv4 ip =>
    simp at hd; subst hd
    obtain ⟨x, y, z, w, hv⟩ := vec4_toList ip
    refine ⟨.ipv4 ip.toList, ?_, rfl⟩
    have := parseConnect_v4 x y z w (port / 256).toUInt8 (port % 256).toUInt8 []
    simp only [be16_pack hport] at this
    simpa [Cfg.dst, socks5Connect, hv] using this
  | ipv6 ip =>
    simp at hd; subst hd
    refine ⟨.ipv6 ip.toList, ?_, rfl⟩
    have := parseConnect_v6 ip.toList (by simp) (port / 256).toUInt8 (port % 256).toUInt8 []
    simp only [be16_pack hport] at this
    simpa [Cfg.dst, socks5Connect] using this
  | ipv6z ip => simp at hd
  | name s =>
    cases hu : utf8 s with
    | error e => simp [hu] at hd
    | ok hb =>
      simp only [hu] at hd
      by_cases hl : hb.length ≤ 255
      · simp [hl] at hd; subst hd
        refine ⟨.domain hb, ?_, hb, hu, hl, rfl⟩
        have := parseConnect_name hb (by omega) (port / 256).toUInt8 (port % 256).toUInt8 []
        simp only [be16_pack hport] at this
        simpa [Cfg.dst, socks5Connect] using this
      · simp [hl] at hd

/-- a host name that passed `NetAddress` never trips `assert len(host) <= 255` -/
theorem socks5_valid_host_accepted (s : List Nat) (port : Nat) (hs : ValidHostName s)
    (hport : port < 65536) :
    ∃ dst, socks5DestinationBytes (.name s) port = .ok dst := by
  obtain ⟨h1, h2, _⟩ := validHost_utf8 hs
  simp only [socks5DestinationBytes, h1, packH_ok hport, h2, if_true]
  exact ⟨_, rfl⟩

/-! ## what a protocol cannot express is refused with a SOCKS error, before anything is sent -/

/-- **Rejections.**  Each of these constructor calls raises `SOCKSProtocolError` (a
    `SOCKSError`); no protocol object exists, so nothing can be sent (in the model:
    `connectOne_ctor_raises`; on the real `_connect_one` / `create_connection`: the C16
    harness's proxy family and C17's `con` family, where a raising constructor leaves every
    fake connection without a byte).
    (1)–(3) destinations SOCKS4 / SOCKS4a cannot name (plain or zone-scoped IPv6, host names
    for SOCKS4); (4) F15, repaired: a user id containing NUL; (5)(6) RFC 1929 fields that do
    not encode to 1..255 bytes; (7) F26, repaired: the IPv4 destinations 0.0.0.x, x ≠ 0, which a
    SOCKS4a server reads as "host name follows"; (8) F27, repaired: a zone-scoped IPv6
    destination, for which RFC 1928 has no field. -/
theorem rejects_inexpressible :
    (∀ ip port a, mkCfg .socks4 (.ipv6 ip) port a = .error .socksProtocolError ∧
                  mkCfg .socks4 (.ipv6z ip) port a = .error .socksProtocolError) ∧
    (∀ s port a, mkCfg .socks4 (.name s) port a = .error .socksProtocolError) ∧
    (∀ ip port a, mkCfg .socks4a (.ipv6 ip) port a = .error .socksProtocolError ∧
                  mkCfg .socks4a (.ipv6z ip) port a = .error .socksProtocolError) ∧
    (∀ p h port a, p ≠ .socks5 → userHasNul a = true →
        mkCfg p h port a = .error .socksProtocolError) ∧
    (∀ h port u p dst ub, socks5DestinationBytes h port = .ok dst → utf8 u = .ok ub →
        (ub.length = 0 ∨ 255 < ub.length) →
        mkCfg .socks5 h port (some (u, p)) = .error .socksProtocolError) ∧
    (∀ h port u p dst ub pb, socks5DestinationBytes h port = .ok dst → utf8 u = .ok ub →
        utf8 p = .ok pb → (pb.length = 0 ∨ 255 < pb.length) →
        mkCfg .socks5 h port (some (u, p)) = .error .socksProtocolError) ∧
    (∀ ip port a, isMarker ip = true →
        mkCfg .socks4a (.ipv4 ip) port a = .error .socksProtocolError) ∧
    (∀ ip port a, mkCfg .socks5 (.ipv6z ip) port a = .error .socksProtocolError) := by
  refine ⟨?_, ?_, ?_, ?_, ?_, ?_, ?_, ?_⟩
  · intro ip port a
    cases hn : userHasNul a <;> simp [mkCfg, socks4Init, hn, checkRemoteHost]
  · intro s port a
    cases hn : userHasNul a <;> simp [mkCfg, socks4Init, hn, checkRemoteHost]
  · intro ip port a
    cases hn : userHasNul a <;> simp [mkCfg, socks4Init, hn, checkRemoteHost]
  · intro p h port a hp hn
    cases p <;> simp_all [mkCfg, socks4Init]
  · intro h port u p dst ub hd hu hl
    have : (0 < ub.length && decide (ub.length < 256)) = false := by
      rcases hl with hl | hl <;> simp [hl] <;> omega
    simp [mkCfg, hd, socks5Authentication, hu, this]
  · intro h port u p dst ub pb hd hu hp hl
    have : (0 < pb.length && decide (pb.length < 256)) = false := by
      rcases hl with hl | hl <;> simp [hl] <;> omega
    by_cases hlu : (0 < ub.length && decide (ub.length < 256)) = true
    · simp [mkCfg, hd, socks5Authentication, hu, hp, this, hlu]
    · simp [mkCfg, hd, socks5Authentication, hu, hlu]
  · intro ip port a hm
    cases hn : userHasNul a <;> simp [mkCfg, socks4Init, hn, checkRemoteHost, hm]
  · intro ip port a
    simp [mkCfg, socks5DestinationBytes]

example : isMarker (vec4 0 0 0 1) = true ∧ isMarker (vec4 0 0 0 255) = true ∧
    isMarker (vec4 0 0 0 0) = false ∧ isMarker (vec4 0 0 1 0) = false := by decide

example : userHasNul (some ([97, 0, 98], [112])) = true := by decide
example : ∃ ub, utf8 (List.replicate 128 0xE9) = .ok ub ∧ 255 < ub.length :=
  ⟨(List.replicate 128 [0xC3, 0xA9]).flatten, by decide +kernel, by decide +kernel⟩

/-- when the constructor raises inside `_connect_one` the exception propagates before any
    socket is touched -/
theorem connectOne_ctor_raises (e : PyExc) (a : Attempt) (as : List Attempt) (i : Nat)
    (last : Option PyExc) : connectOne (.error e) (a :: as) i last = .escaped e := rfl

/-- ... and no connection is made, let alone written to: `_connect_one` with a raising
    constructor tries no entry at all -/
theorem connectOneSent_ctor_raises (e : PyExc) (as : List Attempt) :
    connectOneSent (.error e) as = [] := by
  cases as <;> rfl

/-- **Completeness**: everything the protocols *can* express is accepted (so the parse theorems
    above are not vacuous): SOCKS4 with any IPv4 address, SOCKS4a with any IPv4 address other
    than the marker addresses 0.0.0.x (x ≠ 0) or any host name, SOCKS5 with any destination, user ids without NUL, RFC 1929 fields of 1..255 bytes. -/
theorem accepts_expressible :
    (∀ ip port a, userHasNul a = false → ∃ cfg, mkCfg .socks4 (.ipv4 ip) port a = .ok cfg) ∧
    (∀ ip port a, userHasNul a = false → isMarker ip = false →
        ∃ cfg, mkCfg .socks4a (.ipv4 ip) port a = .ok cfg) ∧
    (∀ s port a, userHasNul a = false → ∃ cfg, mkCfg .socks4a (.name s) port a = .ok cfg) ∧
    (∀ h port dst, socks5DestinationBytes h port = .ok dst →
        ∃ cfg, mkCfg .socks5 h port none = .ok cfg) ∧
    (∀ h port dst u p ub pb, socks5DestinationBytes h port = .ok dst →
        utf8 u = .ok ub → utf8 p = .ok pb → 1 ≤ ub.length → ub.length ≤ 255 →
        1 ≤ pb.length → pb.length ≤ 255 → ∃ cfg, mkCfg .socks5 h port (some (u, p)) = .ok cfg) := by
  refine ⟨?_, ?_, ?_, ?_, ?_⟩
  · intro ip port a hn; simp [mkCfg, socks4Init, hn, checkRemoteHost]
  · intro ip port a hn hm; simp [mkCfg, socks4Init, hn, checkRemoteHost, hm]
  · intro s port a hn; simp [mkCfg, socks4Init, hn, checkRemoteHost]
  · intro h port dst hd; simp [mkCfg, hd, socks5Authentication]
  · intro h port dst u p ub pb hd hu hp h1 h2 h3 h4
    have a1 : (0 < ub.length && decide (ub.length < 256)) = true := by simp; omega
    have a2 : (0 < pb.length && decide (pb.length < 256)) = true := by simp; omega
    simp [mkCfg, hd, socks5Authentication, hu, hp, a1, a2]

/-! ## F15 on the pinned tree, and the surrogate corner -/

/-- **F15, pinned tree**: `SOCKS4.__init__` without the NUL check accepts user `a\0b` for
    1.2.3.4:80 and the request it then sends is read by a SOCKS4 server as user `a`, with 2
    bytes left over. -/
theorem socks4_nul_pinned_witness :
    mkCfgPinned .socks4 (.ipv4 (vec4 1 2 3 4)) 80 (some ([97, 0, 98], [112])) =
      .ok (.s4 (.ipv4 (vec4 1 2 3 4)) 80 (some ([97, 0, 98], [112]))) ∧
    firstMessage (.s4 (.ipv4 (vec4 1 2 3 4)) 80 (some ([97, 0, 98], [112]))) =
      .msg [4, 1, 0, 80, 1, 2, 3, 4, 97, 0, 98, 0] ∧
    Spec.parseSocks4Request false [4, 1, 0, 80, 1, 2, 3, 4, 97, 0, 98, 0] =
      some (⟨4, 1, 80, [1, 2, 3, 4], [97], none⟩, [98, 0]) ∧
    mkCfg .socks4 (.ipv4 (vec4 1 2 3 4)) 80 (some ([97, 0, 98], [112])) =
      .error .socksProtocolError := by
  decide

/-- **F26, pinned tree**: `SOCKS4a._check_remote_host` without the marker check accepts the
    IPv4 destination 0.0.0.5 and the request then sent is the plain SOCKS4 form
    `04 01 00 50 00 00 00 05 00`.  A SOCKS4a server sees DSTIP 0.0.0.x, x ≠ 0, and waits for a
    host name that never comes: the request does not parse (`none`), i.e. the full-strength
    SOCKS4a statement fails on the pinned tree.  The repaired constructor refuses. -/
theorem socks4a_marker_fails_pinned :
    checkRemoteHostPinned .socks4a (.ipv4 (vec4 0 0 0 5)) = .ok () ∧
    firstMessage (.s4 (.ipv4 (vec4 0 0 0 5)) 80 none) = .msg [4, 1, 0, 80, 0, 0, 0, 5, 0] ∧
    Spec.parseSocks4Request true [4, 1, 0, 80, 0, 0, 0, 5, 0] = none ∧
    Spec.parseSocks4Request false [4, 1, 0, 80, 0, 0, 0, 5, 0] =
      some (⟨4, 1, 80, [0, 0, 0, 5], [], none⟩, []) ∧
    mkCfg .socks4a (.ipv4 (vec4 0 0 0 5)) 80 none = .error .socksProtocolError := by
  decide

/-- the full-strength statement for SOCKS4a with an IPv4 destination, about the **pinned**
    `_check_remote_host`: every accepted IPv4 destination is read back by a SOCKS4a server -/
def socks4a_ipv4_full_pinned : Prop :=
  ∀ (ip : Vector UInt8 4) (port : Nat), port < 65536 →
    checkRemoteHostPinned .socks4a (.ipv4 ip) = .ok () →
    ∃ msg, firstMessage (.s4 (.ipv4 ip) port none) = .msg msg ∧
      Spec.parseSocks4Request true msg = some (⟨4, 1, port, ip.toList, [], none⟩, [])

theorem socks4a_ipv4_full_pinned_fails : ¬ socks4a_ipv4_full_pinned := by
  intro h
  obtain ⟨msg, h1, h2⟩ := h (vec4 0 0 0 5) 80 (by decide) (by decide)
  have : msg = [4, 1, 0, 80, 0, 0, 0, 5, 0] := by
    have h3 : firstMessage (.s4 (.ipv4 (vec4 0 0 0 5)) 80 none) =
        .msg [4, 1, 0, 80, 0, 0, 0, 5, 0] := by decide
    rw [h3] at h1
    exact (Res.msg.inj h1).symm
  subst this
  revert h2
  decide

def probeV6 : Vector UInt8 16 := ⟨#[0, 1, 2, 3, 4, 5, 6, 7, 8, 9, 10, 11, 12, 13, 14, 15], rfl⟩

/-- **F27, pinned tree**: `SOCKS5._destination_bytes` sends a zone-scoped IPv6 destination
    (`fe80::1%eth0`) as the bare 16 address bytes - byte for byte what it sends for the
    unscoped address, so the zone is silently lost; RFC 1928 cannot express it.  The repaired
    constructor refuses. -/
theorem socks5_scoped_ipv6_fails_pinned :
    (∀ ip port, socks5DestinationBytesPinned (.ipv6z ip) port =
        socks5DestinationBytesPinned (.ipv6 ip) port) ∧
    socks5DestinationBytesPinned (.ipv6z probeV6) 80 =
      .ok [4, 0, 1, 2, 3, 4, 5, 6, 7, 8, 9, 10, 11, 12, 13, 14, 15, 0, 80] ∧
    (∀ ip port a, mkCfg .socks5 (.ipv6z ip) port a = .error .socksProtocolError) ∧
    (∀ h port, (∀ ip, h ≠ .ipv6z ip) →
        socks5DestinationBytesPinned h port = socks5DestinationBytes h port) := by
  refine ⟨fun _ _ => rfl, by decide, fun ip port a => by simp [mkCfg, socks5DestinationBytes], ?_⟩
  intro h port hne
  cases h with
  | ipv6z ip => exact absurd rfl (hne ip)
  | _ => rfl

/-- a lone surrogate has no UTF-8 form: SOCKS5's constructor raises `UnicodeEncodeError`;
    SOCKS4's constructor succeeds and the first `next_message()` raises it (nothing was sent).
    Not a SOCKS error — reported as a secondary finding; such a `str` is not Unicode text. -/
theorem surrogate_credentials_witness :
    mkCfg .socks5 (.ipv4 (vec4 1 2 3 4)) 80 (some ([0xD800], [112])) = .error .unicodeEncodeError ∧
    mkCfg .socks5 (.ipv4 (vec4 1 2 3 4)) 80 (some ([117], [0xDFFF])) = .error .unicodeEncodeError ∧
    mkCfg .socks4 (.ipv4 (vec4 1 2 3 4)) 80 (some ([0xD800], [112])) =
      .ok (.s4 (.ipv4 (vec4 1 2 3 4)) 80 (some ([0xD800], [112]))) ∧
    firstMessage (.s4 (.ipv4 (vec4 1 2 3 4)) 80 (some ([0xD800], [112]))) =
      .raise .unicodeEncodeError := by
  decide

/-- conversely every string of Unicode scalar values has a UTF-8 form -/
theorem utf8_scalar_ok : ∀ (s : List Nat), (∀ c ∈ s, c < 0x110000 ∧ ¬ (0xD800 ≤ c ∧ c < 0xE000)) →
    ∃ b, utf8 s = .ok b
  | [], _ => ⟨[], rfl⟩
  | c :: cs, h => by
    obtain ⟨b2, h2⟩ := utf8_scalar_ok cs (fun x hx => h x (by simp [hx]))
    have hc := h c (by simp)
    have : ∃ b1, utf8Char c = .ok b1 := by
      unfold utf8Char
      split
      · exact ⟨_, rfl⟩
      · split
        · exact ⟨_, rfl⟩
        · split
          · omega
          · split
            · exact ⟨_, rfl⟩
            · split
              · exact ⟨_, rfl⟩
              · omega
    obtain ⟨b1, h1⟩ := this
    exact ⟨b1 ++ b2, by simp [utf8, h1, h2]⟩

/-! ## facts regenerated from the source tree -/

def msgsOf : List Res → List Bytes
  | [] => []
  | .msg b :: rs => b :: msgsOf rs
  | _ :: rs => msgsOf rs

/-- messages of a scripted dialogue with a fresh object -/
def dialogue (p : Proto) (h : Host) (port : Nat) (a : Auth) (chunks : List Bytes) :
    Option (List Bytes) :=
  match mkCfg p h port a with
  | .ok cfg => some (msgsOf (driveObject 12 (Client.init cfg) chunks))
  | .error _ => none

def probeAuth : Auth := some ([97, 98], [99, 100, 101])
def probeName : List Nat := [97, 46, 98, 99]

/-- the probe requests produced by the real classes are what the model emits -/
theorem facts_probes :
    dialogue .socks4 (.ipv4 (vec4 1 2 3 4)) 0x0506 probeAuth [] = some [Facts.C16.socks4Probe] ∧
    dialogue .socks4 (.ipv4 (vec4 1 2 3 4)) 0x0506 none [] = some [Facts.C16.socks4NoAuthProbe] ∧
    dialogue .socks4a (.name probeName) 0x0506 probeAuth [] = some [Facts.C16.socks4aProbe] ∧
    dialogue .socks5 (.ipv4 (vec4 1 2 3 4)) 0x0506 none [[5, 0]] = some Facts.C16.socks5NoAuthSel0 ∧
    dialogue .socks5 (.ipv4 (vec4 1 2 3 4)) 0x0506 none [[5, 2], [1, 0]] =
      some Facts.C16.socks5NoAuthSel2 ∧
    dialogue .socks5 (.name probeName) 0x0506 probeAuth [[5, 0]] = some Facts.C16.socks5AuthSel0 ∧
    dialogue .socks5 (.ipv6 probeV6) 0x0506 probeAuth [[5, 2], [1, 0]] =
      some Facts.C16.socks5AuthSel2 := by
  decide

def accepts (p : Proto) (h : Host) (a : Auth) : Bool :=
  match mkCfg p h 0x0506 a with
  | .ok _ => true
  | .error _ => false

/-- which destination kinds each class accepts: IPv4, IPv6, host name, the SOCKS4a marker
    form 0.0.0.5 (F26) and a zone-scoped IPv6 address (F27) -/
theorem facts_accepts :
    Facts.C16.socks4Accepts =
      [accepts .socks4 (.ipv4 (vec4 1 2 3 4)) none, accepts .socks4 (.ipv6 probeV6) none,
       accepts .socks4 (.name probeName) none, accepts .socks4 (.ipv4 (vec4 0 0 0 5)) none,
       accepts .socks4 (.ipv6z probeV6) none] ∧
    Facts.C16.socks4aAccepts =
      [accepts .socks4a (.ipv4 (vec4 1 2 3 4)) none, accepts .socks4a (.ipv6 probeV6) none,
       accepts .socks4a (.name probeName) none, accepts .socks4a (.ipv4 (vec4 0 0 0 5)) none,
       accepts .socks4a (.ipv6z probeV6) none] ∧
    Facts.C16.socks5Accepts =
      [accepts .socks5 (.ipv4 (vec4 1 2 3 4)) none, accepts .socks5 (.ipv6 probeV6) none,
       accepts .socks5 (.name probeName) none, accepts .socks5 (.ipv4 (vec4 0 0 0 5)) none,
       accepts .socks5 (.ipv6z probeV6) none] := by
  decide

/-- **Assumption made visible**: credentials are a `SOCKSUserAuth`; any other object - here the
    plain tuple `("ab", "cde")` - is treated exactly like `None` (no method 2 offered, nothing
    of it sent) -/
theorem facts_tuple_auth_is_no_auth :
    Facts.C16.socks5TupleAuthSel0 = Facts.C16.socks5NoAuthSel0 := by decide

/-- the accepted RFC 1929 field lengths are exactly 1..255 -/
theorem facts_credential_lengths :
    Facts.C16.userLenAccepted = (List.range 301).filter (fun n => decide (1 ≤ n ∧ n ≤ 255)) ∧
    Facts.C16.passLenAccepted = (List.range 301).filter (fun n => decide (1 ≤ n ∧ n ≤ 255)) := by
  decide +kernel

/-- ... and the model's constructor accepts exactly the lengths the real one accepts -/
theorem facts_credential_lengths_model :
    Facts.C16.userLenAccepted = (List.range 301).filter (fun n =>
      accepts .socks5 (.ipv4 (vec4 1 2 3 4)) (some (List.replicate n 97, [112]))) ∧
    Facts.C16.passLenAccepted = (List.range 301).filter (fun n =>
      accepts .socks5 (.ipv4 (vec4 1 2 3 4)) (some ([117], List.replicate n 97))) := by
  decide +kernel

end Aiorpcx.C16
