import Aiorpcx.Common.Hex
import Aiorpcx.C16.Model
/-! Line-protocol helpers shared by `drv_c16` and `drv_c17` (no Mathlib).

    proto : `4` | `4a` | `5`
    host  : `4:<8 hex>` | `6:<32 hex>` | `z:<32 hex>` (IPv6 with a zone) | `n:<code points>`
    code points : hex numbers separated by `.`, the empty string is `_`
    auth  : `-` | `u:<code points>/<code points>`  -/
namespace Aiorpcx.Socks.Wire
open Aiorpcx

def parseHexNat (s : String) : Option Nat :=
  if s.isEmpty then none else
  s.toList.foldlM (fun acc ch => (Hex.hexVal ch).map (fun v => acc * 16 + v)) 0

def parseCps (s : String) : Option (List Nat) :=
  if s == "_" then some [] else (s.splitOn ".").mapM parseHexNat

def parseProto (s : String) : Option Proto :=
  if s == "4" then some .socks4 else if s == "4a" then some .socks4a
  else if s == "5" then some .socks5 else none

def parseHost (s : String) : Option Host :=
  match s.splitOn ":" with
  | [k, v] =>
    if k == "4" then
      match Hex.parseBytes v with
      | some l => if h : l.length = 4 then some (.ipv4 ⟨l.toArray, by simp [h]⟩) else none
      | none => none
    else if k == "6" then
      match Hex.parseBytes v with
      | some l => if h : l.length = 16 then some (.ipv6 ⟨l.toArray, by simp [h]⟩) else none
      | none => none
    else if k == "z" then
      match Hex.parseBytes v with
      | some l => if h : l.length = 16 then some (.ipv6z ⟨l.toArray, by simp [h]⟩) else none
      | none => none
    else if k == "n" then (parseCps v).map .name
    else none
  | _ => none

def parseAuth (s : String) : Option Auth :=
  if s == "-" then some none else
  match s.splitOn ":" with
  | ["u", v] =>
    match v.splitOn "/" with
    | [a, b] =>
      match parseCps a, parseCps b with
      | some u, some p => some (some (u, p))
      | _, _ => none
    | _ => none
  | _ => none

/-- one `getaddrinfo` entry of the proxy's address: `x` (`sock_connect` refused) | `s`
    (`socket.socket()` raises) | `<stream hex>` (the peer answers) | `p<stream hex>` (it
    answers, then `getpeername()` raises).  The segmentation is one byte per `recv`: outcome,
    messages and unread bytes do not depend on it (`C17.segmentation_irrelevant`). -/
def parseAttempt (s : String) : Option Attempt :=
  if s == "x" then some .connectFails
  else if s == "s" then some .socketFails
  else if s.startsWith "p" then (Hex.parseBytes (s.drop 1).toString).map fun b => .peernameFails b (fun _ => 1)
  else (Hex.parseBytes s).map fun b => .talks b (fun _ => 1)

def showExc : PyExc → String
  | .socksProtocolError => "SOCKSProtocolError"
  | .socksFailure => "SOCKSFailure"
  | .unicodeEncodeError => "UnicodeEncodeError"
  | .assertionError => "AssertionError"
  | .structError => "error"
  | .attributeError => "AttributeError"
  | .osError => "OSError"
  | .unboundLocalError => "UnboundLocalError"

def parseExc (s : String) : Option PyExc :=
  [PyExc.socksProtocolError, .socksFailure, .unicodeEncodeError, .assertionError, .structError,
   .attributeError, .osError, .unboundLocalError].find? (fun e => showExc e == s)

def showRes : Res → String
  | .msg b => "M" ++ Hex.showBytes b
  | .fin => "None"
  | .need k => "N" ++ toString k
  | .raise e => "E:" ++ showExc e

end Aiorpcx.Socks.Wire
