import Aiorpcx.C16.Model
import Aiorpcx.C16.Spec
/-! C16 — helper lemmas: bytes of `Nat.toUInt8`, UTF-8 never produces a NUL for a non-NUL
    character, NUL-terminated fields, port packing. -/
namespace Aiorpcx.C16
open Aiorpcx.Socks

theorem toUInt8_toNat {n : Nat} (h : n < 256) : n.toUInt8.toNat = n := by
  simp [Nat.toUInt8, UInt8.toNat_ofNat']
  omega

theorem toUInt8_ne_zero {n : Nat} (h : n < 256) (h0 : n ≠ 0) : n.toUInt8 ≠ 0 := by
  intro hz
  have := congrArg UInt8.toNat hz
  rw [toUInt8_toNat h] at this
  simp at this
  exact h0 this

theorem toUInt8_eq_zero_iff {n : Nat} (h : n < 256) : n.toUInt8 = 0 ↔ n = 0 := by
  constructor
  · intro hz
    by_cases h0 : n = 0
    · exact h0
    · exact absurd hz (toUInt8_ne_zero h h0)
  · intro h0; subst h0; rfl

/-- port packing is big-endian and loss-free below 65536 -/
theorem be16_pack {port : Nat} (h : port < 65536) :
    Spec.be16 (port / 256).toUInt8 (port % 256).toUInt8 = port := by
  unfold Spec.be16
  rw [toUInt8_toNat (by omega), toUInt8_toNat (by omega)]
  omega

theorem packH_ok {port : Nat} (h : port < 65536) :
    packH port = .ok [(port / 256).toUInt8, (port % 256).toUInt8] := by
  simp [packH, h]

/-- one character: a 0 byte appears only for the character NUL -/
theorem utf8Char_no_nul {c : Nat} {b : Bytes} (h : utf8Char c = .ok b) (hc : c ≠ 0) :
    (0 : UInt8) ∉ b := by
  unfold utf8Char at h
  have nz : ∀ n : Nat, n < 256 → n ≠ 0 → (0 : UInt8) ≠ n.toUInt8 :=
    fun n h1 h2 hz => toUInt8_ne_zero h1 h2 hz.symm
  split at h
  · simp only [Except.ok.injEq] at h; subst h
    intro hm
    simp only [List.mem_cons, List.not_mem_nil, or_false] at hm
    exact nz _ (by omega) hc hm
  · split at h
    · simp only [Except.ok.injEq] at h; subst h
      intro hm
      simp only [List.mem_cons, List.not_mem_nil, or_false] at hm
      rcases hm with hm | hm <;> exact nz _ (by omega) (by omega) hm
    · split at h
      · simp at h
      · split at h
        · simp only [Except.ok.injEq] at h; subst h
          intro hm
          simp only [List.mem_cons, List.not_mem_nil, or_false] at hm
          rcases hm with hm | hm | hm <;> exact nz _ (by omega) (by omega) hm
        · split at h
          · simp only [Except.ok.injEq] at h; subst h
            intro hm
            simp only [List.mem_cons, List.not_mem_nil, or_false] at hm
            rcases hm with hm | hm | hm | hm <;> exact nz _ (by omega) (by omega) hm
          · simp at h

theorem utf8_cons_ok {c : Nat} {cs : List Nat} {b : Bytes} (h : utf8 (c :: cs) = .ok b) :
    ∃ b1 b2, utf8Char c = .ok b1 ∧ utf8 cs = .ok b2 ∧ b = b1 ++ b2 := by
  unfold utf8 at h
  split at h
  · simp at h
  · rename_i a ha
    split at h
    · simp at h
    · rename_i b2 hb
      simp at h
      exact ⟨a, b2, ha, hb, h.symm⟩

/-- a string without the character NUL encodes to bytes without a 0 -/
theorem utf8_no_nul : ∀ {s : List Nat} {b : Bytes}, utf8 s = .ok b → (0 : Nat) ∉ s → (0 : UInt8) ∉ b
  | [], b, h, _ => by simp [utf8] at h; subst h; simp
  | c :: cs, b, h, hs => by
    obtain ⟨b1, b2, h1, h2, rfl⟩ := utf8_cons_ok h
    have hc : c ≠ 0 := fun hz => hs (by simp [hz])
    have hcs : (0 : Nat) ∉ cs := fun hz => hs (by simp [hz])
    have := utf8Char_no_nul h1 hc
    have := utf8_no_nul h2 hcs
    simp_all

/-- a NUL-terminated field without inner NUL is read back exactly -/
theorem untilNul_append : ∀ (x r : Bytes), (0 : UInt8) ∉ x → Spec.untilNul (x ++ 0 :: r) = some (x, r)
  | [], r, _ => by simp [Spec.untilNul]
  | b :: bs, r, h => by
    have hb : b ≠ 0 := fun hz => h (by simp [hz])
    have hbs : (0 : UInt8) ∉ bs := fun hz => h (by simp [hz])
    simp [Spec.untilNul, hb, untilNul_append bs r hbs]

/-- ASCII strings encode byte for byte -/
theorem utf8_ascii : ∀ (s : List Nat), (∀ c ∈ s, c < 128) → utf8 s = .ok (s.map Nat.toUInt8)
  | [], _ => rfl
  | c :: cs, h => by
    have hc : c < 128 := h c (by simp)
    have := utf8_ascii cs (fun x hx => h x (by simp [hx]))
    simp [utf8, utf8Char, hc, this]

theorem vec4_toList (v : Vector UInt8 4) : ∃ a b c d, v.toList = [a, b, c, d] := by
  have h : v.toList.length = 4 := by simp
  match hv : v.toList, h with
  | [a, b, c, d], _ => exact ⟨a, b, c, d, rfl⟩

theorem userHasNul_false_iff (a : Auth) :
    userHasNul a = false ↔ ∀ u p, a = some (u, p) → (0 : Nat) ∉ u := by
  cases a with
  | none => simp [userHasNul]
  | some up =>
    obtain ⟨u, p⟩ := up
    simp [userHasNul]

end Aiorpcx.C16
