import Aiorpcx.C16.Lemmas
/-! C16 — the credential / host-name *strings* survive: a UTF-8 decoder written from RFC 3629
    (by byte layout, lenient about over-long forms) applied to `utf8 s` gives back `s`. -/
namespace Aiorpcx.C16
open Aiorpcx.Socks

namespace Spec

/-- value bits of a continuation byte `10xxxxxx` -/
def cont (b : UInt8) : Nat := b.toNat - 0x80

/-- RFC 3629 §3: 1-byte `0xxxxxxx`, 2-byte `110xxxxx 10xxxxxx`, 3-byte `1110xxxx 10.. 10..`,
    4-byte `11110xxx 10.. 10.. 10..` -/
def decodeUtf8 : (fuel : Nat) → List UInt8 → Option (List Nat)
  | 0, _ => none
  | _ + 1, [] => some []
  | f + 1, b0 :: rest =>
    if b0.toNat < 0x80 then (decodeUtf8 f rest).map (b0.toNat :: ·)
    else if b0.toNat < 0xC0 then none
    else if b0.toNat < 0xE0 then
      match rest with
      | b1 :: r => (decodeUtf8 f r).map (((b0.toNat - 0xC0) * 64 + cont b1) :: ·)
      | _ => none
    else if b0.toNat < 0xF0 then
      match rest with
      | b1 :: b2 :: r =>
        (decodeUtf8 f r).map (((b0.toNat - 0xE0) * 4096 + cont b1 * 64 + cont b2) :: ·)
      | _ => none
    else
      match rest with
      | b1 :: b2 :: b3 :: r =>
        (decodeUtf8 f r).map
          (((b0.toNat - 0xF0) * 262144 + cont b1 * 4096 + cont b2 * 64 + cont b3) :: ·)
      | _ => none

end Spec

theorem decode_char (c : Nat) (bs : Bytes) (h : utf8Char c = .ok bs) (f : Nat) (rest : Bytes) :
    Spec.decodeUtf8 (f + 1) (bs ++ rest) = (Spec.decodeUtf8 f rest).map (c :: ·) := by
  unfold utf8Char at h
  split at h
  · simp only [Except.ok.injEq] at h; subst h
    have e0 : c.toUInt8.toNat = c := toUInt8_toNat (by omega)
    show Spec.decodeUtf8 (f + 1) (c.toUInt8 :: rest) = _
    generalize c.toUInt8 = x0 at *
    simp only [Spec.decodeUtf8]
    rw [e0, if_pos (by omega)]
  · split at h
    · simp only [Except.ok.injEq] at h; subst h
      have e0 : (0xC0 + c / 64).toUInt8.toNat = 0xC0 + c / 64 := toUInt8_toNat (by omega)
      have e1 : (0x80 + c % 64).toUInt8.toNat = 0x80 + c % 64 := toUInt8_toNat (by omega)
      show Spec.decodeUtf8 (f + 1) ((0xC0 + c / 64).toUInt8 :: (0x80 + c % 64).toUInt8 :: rest) = _
      generalize (0xC0 + c / 64).toUInt8 = x0 at *
      generalize (0x80 + c % 64).toUInt8 = x1 at *
      simp only [Spec.decodeUtf8]
      unfold Spec.cont
      rw [e0, e1, if_neg (by omega), if_neg (by omega), if_pos (by omega)]
      have : (192 + c / 64 - 192) * 64 + (128 + c % 64 - 128) = c := by omega
      rw [this]
    · split at h
      · simp at h
      · split at h
        · simp only [Except.ok.injEq] at h; subst h
          have e0 : (0xE0 + c / 4096).toUInt8.toNat = 0xE0 + c / 4096 := toUInt8_toNat (by omega)
          have e1 : (0x80 + c / 64 % 64).toUInt8.toNat = 0x80 + c / 64 % 64 :=
            toUInt8_toNat (by omega)
          have e2 : (0x80 + c % 64).toUInt8.toNat = 0x80 + c % 64 := toUInt8_toNat (by omega)
          show Spec.decodeUtf8 (f + 1) ((0xE0 + c / 4096).toUInt8 :: (0x80 + c / 64 % 64).toUInt8
            :: (0x80 + c % 64).toUInt8 :: rest) = _
          generalize (0xE0 + c / 4096).toUInt8 = x0 at *
          generalize (0x80 + c / 64 % 64).toUInt8 = x1 at *
          generalize (0x80 + c % 64).toUInt8 = x2 at *
          simp only [Spec.decodeUtf8]
          unfold Spec.cont
          rw [e0, e1, e2, if_neg (by omega), if_neg (by omega), if_neg (by omega),
            if_pos (by omega)]
          have : (224 + c / 4096 - 224) * 4096 + (128 + c / 64 % 64 - 128) * 64
              + (128 + c % 64 - 128) = c := by omega
          rw [this]
        · split at h
          · simp only [Except.ok.injEq] at h; subst h
            have e0 : (0xF0 + c / 262144).toUInt8.toNat = 0xF0 + c / 262144 :=
              toUInt8_toNat (by omega)
            have e1 : (0x80 + c / 4096 % 64).toUInt8.toNat = 0x80 + c / 4096 % 64 :=
              toUInt8_toNat (by omega)
            have e2 : (0x80 + c / 64 % 64).toUInt8.toNat = 0x80 + c / 64 % 64 :=
              toUInt8_toNat (by omega)
            have e3 : (0x80 + c % 64).toUInt8.toNat = 0x80 + c % 64 := toUInt8_toNat (by omega)
            show Spec.decodeUtf8 (f + 1) ((0xF0 + c / 262144).toUInt8
              :: (0x80 + c / 4096 % 64).toUInt8 :: (0x80 + c / 64 % 64).toUInt8
              :: (0x80 + c % 64).toUInt8 :: rest) = _
            generalize (0xF0 + c / 262144).toUInt8 = x0 at *
            generalize (0x80 + c / 4096 % 64).toUInt8 = x1 at *
            generalize (0x80 + c / 64 % 64).toUInt8 = x2 at *
            generalize (0x80 + c % 64).toUInt8 = x3 at *
            simp only [Spec.decodeUtf8]
            unfold Spec.cont
            rw [e0, e1, e2, e3, if_neg (by omega), if_neg (by omega), if_neg (by omega),
              if_neg (by omega)]
            have : (240 + c / 262144 - 240) * 262144 + (128 + c / 4096 % 64 - 128) * 4096
                + (128 + c / 64 % 64 - 128) * 64 + (128 + c % 64 - 128) = c := by omega
            rw [this]
          · simp at h

/-- **String round trip**: whatever `str.encode()` produced decodes back to the same string
    (fuel: any number above the byte count). -/
theorem utf8_roundtrip : ∀ (s : List Nat) (b : Bytes), utf8 s = .ok b →
    ∀ f, b.length < f → Spec.decodeUtf8 f b = some s
  | [], b, h, f, hf => by
    simp [utf8] at h; subst h
    cases f with
    | zero => simp at hf
    | succ f => simp [Spec.decodeUtf8]
  | c :: cs, b, h, f, hf => by
    obtain ⟨b1, b2, h1, h2, rfl⟩ := utf8_cons_ok h
    cases f with
    | zero => simp at hf
    | succ f =>
      rw [decode_char c b1 h1 f b2]
      have hb1 : 1 ≤ b1.length := by
        unfold utf8Char at h1
        split at h1
        · simp at h1; subst h1; simp
        · split at h1
          · simp at h1; subst h1; simp
          · split at h1
            · simp at h1
            · split at h1
              · simp at h1; subst h1; simp
              · split at h1
                · simp at h1; subst h1; simp
                · simp at h1
      have := utf8_roundtrip cs b2 h2 f (by simp at hf; omega)
      simp [this]

end Aiorpcx.C16
