import Aiorpcx.C16.Lemmas
/-! C16 — the credential / host-name *strings* survive: a UTF-8 decoder written from RFC 3629
    (strict: continuation bytes, shortest form, no surrogates, at most U+10FFFF) applied to `utf8 s` gives back `s`. -/
namespace Aiorpcx.C16
open Aiorpcx.Socks

namespace Spec

/-- value bits of a continuation byte `10xxxxxx`; any other byte is not a continuation byte -/
def cont (b : UInt8) : Option Nat :=
  if 0x80 ≤ b.toNat ∧ b.toNat < 0xC0 then some (b.toNat - 0x80) else none

/-- RFC 3629 §3/§4, strict: 1-byte `0xxxxxxx`, 2-byte `110xxxxx 10xxxxxx`, 3-byte
    `1110xxxx 10.. 10..`, 4-byte `11110xxx 10.. 10.. 10..`; every trailing byte must be a
    continuation byte `10xxxxxx`; over-long forms (`C0`/`C1` leads, 3-byte forms below U+0800,
    4-byte forms below U+10000), UTF-16 surrogates U+D800..U+DFFF and values above U+10FFFF are
    not UTF-8 -/
def decodeUtf8 : (fuel : Nat) → List UInt8 → Option (List Nat)
  | 0, _ => none
  | _ + 1, [] => some []
  | f + 1, b0 :: rest =>
    if b0.toNat < 0x80 then (decodeUtf8 f rest).map (b0.toNat :: ·)
    else if b0.toNat < 0xC2 then none
    else if b0.toNat < 0xE0 then
      match rest with
      | b1 :: r =>
        match cont b1 with
        | some c1 => (decodeUtf8 f r).map (((b0.toNat - 0xC0) * 64 + c1) :: ·)
        | none => none
      | _ => none
    else if b0.toNat < 0xF0 then
      match rest with
      | b1 :: b2 :: r =>
        match cont b1, cont b2 with
        | some c1, some c2 =>
          if (b0.toNat - 0xE0) * 4096 + c1 * 64 + c2 < 0x800 ∨
              (0xD800 ≤ (b0.toNat - 0xE0) * 4096 + c1 * 64 + c2 ∧
                (b0.toNat - 0xE0) * 4096 + c1 * 64 + c2 < 0xE000) then none
          else (decodeUtf8 f r).map (((b0.toNat - 0xE0) * 4096 + c1 * 64 + c2) :: ·)
        | _, _ => none
      | _ => none
    else if b0.toNat < 0xF5 then
      match rest with
      | b1 :: b2 :: b3 :: r =>
        match cont b1, cont b2, cont b3 with
        | some c1, some c2, some c3 =>
          if (b0.toNat - 0xF0) * 262144 + c1 * 4096 + c2 * 64 + c3 < 0x10000 ∨
              0x110000 ≤ (b0.toNat - 0xF0) * 262144 + c1 * 4096 + c2 * 64 + c3 then none
          else (decodeUtf8 f r).map
            (((b0.toNat - 0xF0) * 262144 + c1 * 4096 + c2 * 64 + c3) :: ·)
        | _, _, _ => none
      | _ => none
    else none

end Spec

/-- the decoder is strict about the byte layout: a lead byte followed by a non-continuation
    byte, over-long forms and encoded surrogates are refused (so `utf8_roundtrip` pins the
    RFC 3629 layout, not merely "some injective encoding") -/
theorem decodeUtf8_strict :
    Spec.decodeUtf8 9 [0xC3, 0x28] = none ∧ Spec.decodeUtf8 9 [0xC1, 0x80] = none ∧
    Spec.decodeUtf8 9 [0xC0, 0xC0] = none ∧ Spec.decodeUtf8 9 [0xE0, 0x80, 0x80] = none ∧
    Spec.decodeUtf8 9 [0xED, 0xA0, 0x80] = none ∧ Spec.decodeUtf8 9 [0xF4, 0x90, 0x80, 0x80] = none ∧
    Spec.decodeUtf8 9 [0xE2, 0x82, 0x41] = none ∧ Spec.decodeUtf8 9 [0x80] = none ∧
    Spec.decodeUtf8 9 [0xC3, 0xA9] = some [0xE9] ∧ Spec.decodeUtf8 9 [0xE2, 0x82, 0xAC] = some [0x20AC] ∧
    Spec.decodeUtf8 9 [0xF0, 0x9F, 0x98, 0x80] = some [0x1F600] := by decide

theorem cont_of (n : Nat) (h : n < 64) : Spec.cont (0x80 + n).toUInt8 = some n := by
  have e : (0x80 + n).toUInt8.toNat = 0x80 + n := toUInt8_toNat (by omega)
  generalize (0x80 + n).toUInt8 = x at e
  unfold Spec.cont
  rw [e, if_pos (by omega)]
  have : 128 + n - 128 = n := by omega
  rw [this]

theorem decode_char (c : Nat) (bs : Bytes) (h : utf8Char c = .ok bs) (f : Nat) (rest : Bytes) :
    Spec.decodeUtf8 (f + 1) (bs ++ rest) = (Spec.decodeUtf8 f rest).map (c :: ·) := by
  unfold utf8Char at h
  split at h
  · simp only [Except.ok.injEq] at h; subst h
    have e0 : c.toUInt8.toNat = c := toUInt8_toNat (by omega)
    show Spec.decodeUtf8 (f + 1) (c.toUInt8 :: rest) = _
    generalize c.toUInt8 = x0 at *
    simp only [Spec.decodeUtf8]
    rw [e0, if_pos (by omega)]
  · split at h
    · simp only [Except.ok.injEq] at h; subst h
      have e0 : (0xC0 + c / 64).toUInt8.toNat = 0xC0 + c / 64 := toUInt8_toNat (by omega)
      have e1 := cont_of (c % 64) (by omega)
      show Spec.decodeUtf8 (f + 1) ((0xC0 + c / 64).toUInt8 :: (0x80 + c % 64).toUInt8 :: rest) = _
      generalize (0xC0 + c / 64).toUInt8 = x0 at *
      generalize (0x80 + c % 64).toUInt8 = x1 at *
      simp only [Spec.decodeUtf8, e1]
      rw [e0, if_neg (by omega), if_neg (by omega), if_pos (by omega)]
      have : (192 + c / 64 - 192) * 64 + c % 64 = c := by omega
      rw [this]
    · split at h
      · simp at h
      · split at h
        · simp only [Except.ok.injEq] at h; subst h
          have e0 : (0xE0 + c / 4096).toUInt8.toNat = 0xE0 + c / 4096 := toUInt8_toNat (by omega)
          have e1 := cont_of (c / 64 % 64) (by omega)
          have e2 := cont_of (c % 64) (by omega)
          show Spec.decodeUtf8 (f + 1) ((0xE0 + c / 4096).toUInt8 :: (0x80 + c / 64 % 64).toUInt8
            :: (0x80 + c % 64).toUInt8 :: rest) = _
          generalize (0xE0 + c / 4096).toUInt8 = x0 at *
          generalize (0x80 + c / 64 % 64).toUInt8 = x1 at *
          generalize (0x80 + c % 64).toUInt8 = x2 at *
          simp only [Spec.decodeUtf8, e1, e2]
          have hv : (224 + c / 4096 - 224) * 4096 + c / 64 % 64 * 64 + c % 64 = c := by omega
          rw [e0, if_neg (by omega), if_neg (by omega), if_neg (by omega), if_pos (by omega), hv,
            if_neg (by omega)]
        · split at h
          · simp only [Except.ok.injEq] at h; subst h
            have e0 : (0xF0 + c / 262144).toUInt8.toNat = 0xF0 + c / 262144 :=
              toUInt8_toNat (by omega)
            have e1 := cont_of (c / 4096 % 64) (by omega)
            have e2 := cont_of (c / 64 % 64) (by omega)
            have e3 := cont_of (c % 64) (by omega)
            show Spec.decodeUtf8 (f + 1) ((0xF0 + c / 262144).toUInt8
              :: (0x80 + c / 4096 % 64).toUInt8 :: (0x80 + c / 64 % 64).toUInt8
              :: (0x80 + c % 64).toUInt8 :: rest) = _
            generalize (0xF0 + c / 262144).toUInt8 = x0 at *
            generalize (0x80 + c / 4096 % 64).toUInt8 = x1 at *
            generalize (0x80 + c / 64 % 64).toUInt8 = x2 at *
            generalize (0x80 + c % 64).toUInt8 = x3 at *
            simp only [Spec.decodeUtf8, e1, e2, e3]
            have hv : (240 + c / 262144 - 240) * 262144 + c / 4096 % 64 * 4096
                + c / 64 % 64 * 64 + c % 64 = c := by omega
            rw [e0, if_neg (by omega), if_neg (by omega), if_neg (by omega), if_neg (by omega),
              if_pos (by omega), hv, if_neg (by omega)]
          · simp at h

/-- **String round trip**: whatever `str.encode()` produced decodes back to the same string
    (fuel: any number above the byte count). -/
theorem utf8_roundtrip : ∀ (s : List Nat) (b : Bytes), utf8 s = .ok b →
    ∀ f, b.length < f → Spec.decodeUtf8 f b = some s
  | [], b, h, f, hf => by
    simp [utf8] at h; subst h
    cases f with
    | zero => simp at hf
    | succ f => simp [Spec.decodeUtf8]
  | c :: cs, b, h, f, hf => by
    obtain ⟨b1, b2, h1, h2, rfl⟩ := utf8_cons_ok h
    cases f with
    | zero => simp at hf
    | succ f =>
      rw [decode_char c b1 h1 f b2]
      have hb1 : 1 ≤ b1.length := by
        unfold utf8Char at h1
        split at h1
        · simp at h1; subst h1; simp
        · split at h1
          · simp at h1; subst h1; simp
          · split at h1
            · simp at h1
            · split at h1
              · simp at h1; subst h1; simp
              · split at h1
                · simp at h1; subst h1; simp
                · simp at h1
      have := utf8_roundtrip cs b2 h2 f (by simp at hf; omega)
      simp [this]

end Aiorpcx.C16
