import Aiorpcx.C16.Lemmas
/-! C16 — the credential / host-name *strings* survive: a UTF-8 decoder written from RFC 3629
    (strict: continuation bytes, shortest form, no surrogates, at most U+10FFFF) applied to `utf8 s` gives back `s`. -/
namespace Aiorpcx.C16
open Aiorpcx.Socks

namespace Spec

/-- value bits of a continuation byte `10xxxxxx`; any other byte is not a continuation byte -/
def cont (b : UInt8) : Option Nat :=
  if 0x80 ≤ b.toNat ∧ b.toNat < 0xC0 then some (b.toNat - 0x80) else none

/-- RFC 3629 §3/§4, strict: 1-byte `0xxxxxxx`, 2-byte `110xxxxx 10xxxxxx`, 3-byte
    `1110xxxx 10.. 10..`, 4-byte `11110xxx 10.. 10.. 10..`; every trailing byte must be a
    continuation byte `10xxxxxx`; over-long forms (`C0`/`C1` leads, 3-byte forms below U+0800,
    4-byte forms below U+10000), UTF-16 surrogates U+D800..U+DFFF and values above U+10FFFF are
    not UTF-8 -/
def decodeUtf8 : (fuel : Nat) → List UInt8 → Option (List Nat)
  | 0, _ => none
  | _ + 1, [] => some []
  | f + 1, b0 :: rest =>
    if b0.toNat < 0x80 then (decodeUtf8 f rest).map (b0.toNat :: ·)
    else if b0.toNat < 0xC2 then none
    else if b0.toNat < 0xE0 then
      match rest with
      | b1 :: r =>
        match cont b1 with
        | some c1 => (decodeUtf8 f r).map (((b0.toNat - 0xC0) * 64 + c1) :: ·)
        | none => none
      | _ => none
    else if b0.toNat < 0xF0 then
      match rest with
      | b1 :: b2 :: r =>
        match cont b1, cont b2 with
        | some c1, some c2 =>
          if (b0.toNat - 0xE0) * 4096 + c1 * 64 + c2 < 0x800 ∨
              (0xD800 ≤ (b0.toNat - 0xE0) * 4096 + c1 * 64 + c2 ∧
                (b0.toNat - 0xE0) * 4096 + c1 * 64 + c2 < 0xE000) then none
          else (decodeUtf8 f r).map (((b0.toNat - 0xE0) * 4096 + c1 * 64 + c2) :: ·)
        | _, _ => none
      | _ => none
    else if b0.toNat < 0xF5 then
      match rest with
      | b1 :: b2 :: b3 :: r =>
        match cont b1, cont b2, cont b3 with
        | some c1, some c2, some c3 =>
          if (b0.toNat - 0xF0) * 262144 + c1 * 4096 + c2 * 64 + c3 < 0x10000 ∨
              0x110000 ≤ (b0.toNat - 0xF0) * 262144 + c1 * 4096 + c2 * 64 + c3 then none
          else (decodeUtf8 f r).map
            (((b0.toNat - 0xF0) * 262144 + c1 * 4096 + c2 * 64 + c3) :: ·)
        | _, _, _ => none
      | _ => none
    else none

end Spec

/-- the decoder is strict about the byte layout: a lead byte followed by a non-continuation
    byte, over-long forms and encoded surrogates are refused (so `utf8_roundtrip` pins the
    RFC 3629 layout, not merely "some injective encoding") -/
theorem decodeUtf8_strict :
    Spec.decodeUtf8 9 [0xC3, 0x28] = none ∧ Spec.decodeUtf8 9 [0xC1, 0x80] = none ∧
    Spec.decodeUtf8 9 [0xC0, 0xC0] = none ∧ Spec.decodeUtf8 9 [0xE0, 0x80, 0x80] = none ∧
    Spec.decodeUtf8 9 [0xED, 0xA0, 0x80] = none ∧ Spec.decodeUtf8 9 [0xF4, 0x90, 0x80, 0x80] = none ∧
    Spec.decodeUtf8 9 [0xE2, 0x82, 0x41] = none ∧ Spec.decodeUtf8 9 [0x80] = none ∧
    Spec.decodeUtf8 9 [0xC3, 0xA9] = some [0xE9] ∧ Spec.decodeUtf8 9 [0xE2, 0x82, 0xAC] = some [0x20AC] ∧
    Spec.decodeUtf8 9 [0xF0, 0x9F, 0x98, 0x80] = some [0x1F600] := by decide

theorem cont_of (n : Nat) (h : n < 64) : Spec.cont (0x80 + n).toUInt8 = some n := by
  have e : (0x80 + n).toUInt8.toNat = 0x80 + n := toUInt8_toNat (by omega)
  generalize (0x80 + n).toUInt8 = x at e
  unfold Spec.cont
  rw [e, if_pos (by omega)]
  have : 128 + n - 128 = n := by omega
  rw [this]

theorem decode_char (c : Nat) (bs : Bytes) (h : utf8Char c = .ok bs) (f : Nat) (rest : Bytes) :
    Spec.decodeUtf8 (f + 1) (bs ++ rest) = (Spec.decodeUtf8 f rest).map (c :: ·) := by
  unfold utf8Char at h
  split at h
  · simp only [Except.ok.injEq] at h; subst h
    have e0 : c.toUInt8.toNat = c := toUInt8_toNat (by omega)
    show Spec.decodeUtf8 (f + 1) (c.toUInt8 :: rest) = _
    generalize c.toUInt8 = x0 at *
    simp only [Spec.decodeUtf8]
    rw [e0, if_pos (by omega)]
  · split at h
    · simp only [Except.ok.injEq] at h; subst h
      have e0 : (0xC0 + c / 64).toUInt8.toNat = 0xC0 + c / 64 := toUInt8_toNat (by omega)
      have e1 := cont_of (c % 64) (by omega)
      show Spec.decodeUtf8 (f + 1) ((0xC0 + c / 64).toUInt8 :: (0x80 + c % 64).toUInt8 :: rest) = _
      generalize (0xC0 + c / 64).toUInt8 = x0 at *
      generalize (0x80 + c % 64).toUInt8 = x1 at *
      simp only [Spec.decodeUtf8, e1]
      rw [e0, if_neg (by omega), if_neg (by omega), if_pos (by omega)]
      have : (192 + c / 64 - 192) * 64 + c % 64 = c := by omega
      rw [this]
    · split at h
      · simp at h
      · split at h
        · simp only [Except.ok.injEq] at h; subst h
          have e0 : (0xE0 + c / 4096).toUInt8.toNat = 0xE0 + c / 4096 := toUInt8_toNat (by omega)
          have e1 := cont_of (c / 64 % 64) (by omega)
          have e2 := cont_of (c % 64) (by omega)
          show Spec.decodeUtf8 (f + 1) ((0xE0 + c / 4096).toUInt8 :: (0x80 + c / 64 % 64).toUInt8
            :: (0x80 + c % 64).toUInt8 :: rest) = _
          generalize (0xE0 + c / 4096).toUInt8 = x0 at *
          generalize (0x80 + c / 64 % 64).toUInt8 = x1 at *
          generalize (0x80 + c % 64).toUInt8 = x2 at *
          simp only [Spec.decodeUtf8, e1, e2]
          have hv : (224 + c / 4096 - 224) * 4096 + c / 64 % 64 * 64 + c % 64 = c := by omega
          rw [e0, if_neg (by omega), if_neg (by omega), if_neg (by omega), if_pos (by omega), hv,
            if_neg (by omega)]
        · split at h
          · simp only [Except.ok.injEq] at h; subst h
            have e0 : (0xF0 + c / 262144).toUInt8.toNat = 0xF0 + c / 262144 :=
              toUInt8_toNat (by omega)
            have e1 := cont_of (c / 4096 % 64) (by omega)
            have e2 := cont_of (c / 64 % 64) (by omega)
            have e3 := cont_of (c % 64) (by omega)
            show Spec.decodeUtf8 (f + 1) ((0xF0 + c / 262144).toUInt8
              :: (0x80 + c / 4096 % 64).toUInt8 :: (0x80 + c / 64 % 64).toUInt8
              :: (0x80 + c % 64).toUInt8 :: rest) = _
            generalize (0xF0 + c / 262144).toUInt8 = x0 at *
            generalize (0x80 + c / 4096 % 64).toUInt8 = x1 at *
            generalize (0x80 + c / 64 % 64).toUInt8 = x2 at *
            generalize (0x80 + c % 64).toUInt8 = x3 at *
            simp only [Spec.decodeUtf8, e1, e2, e3]
            have hv : (240 + c / 262144 - 240) * 262144 + c / 4096 % 64 * 4096
                + c / 64 % 64 * 64 + c % 64 = c := by omega
            rw [e0, if_neg (by omega), if_neg (by omega), if_neg (by omega), if_neg (by omega),
              if_pos (by omega), hv, if_neg (by omega)]
          · simp at h

/-- **String round trip**: whatever `str.encode()` produced decodes back to the same string
    (fuel: any number above the byte count). -/
theorem utf8_roundtrip : ∀ (s : List Nat) (b : Bytes), utf8 s = .ok b →
    ∀ f, b.length < f → Spec.decodeUtf8 f b = some s
  | [], b, h, f, hf => by
    simp [utf8] at h; subst h
    cases f with
    | zero => simp at hf
    | succ f => simp [Spec.decodeUtf8]
  | c :: cs, b, h, f, hf => by
    obtain ⟨b1, b2, h1, h2, rfl⟩ := utf8_cons_ok h
    cases f with
    | zero => simp at hf
    | succ f =>
      rw [decode_char c b1 h1 f b2]
      have hb1 : 1 ≤ b1.length := by
        unfold utf8Char at h1
        split at h1
        · simp at h1; subst h1; simp
        · split at h1
          · simp at h1; subst h1; simp
          · split at h1
            · simp at h1
            · split at h1
              · simp at h1; subst h1; simp
              · split at h1
                · simp at h1; subst h1; simp
                · simp at h1
      have := utf8_roundtrip cs b2 h2 f (by simp at hf; omega)
      simp [this]

theorem ofNat_toNat_u8 (b : UInt8) : b.toNat.toUInt8 = b := by
  simp [Nat.toUInt8]

theorem cont_some {b : UInt8} {c : Nat} (h : Spec.cont b = some c) :
    c < 64 ∧ b.toNat = 0x80 + c := by
  unfold Spec.cont at h
  split at h
  · simp at h; omega
  · simp at h

theorem utf8_cons_of {c : Nat} {cs : List Nat} {b1 b2 : Bytes}
    (h1 : utf8Char c = .ok b1) (h2 : utf8 cs = .ok b2) : utf8 (c :: cs) = .ok (b1 ++ b2) := by
  simp [utf8, h1, h2]

/-- **Converse of the round trip**: the strict decoder accepts only what `str.encode()` produces -
    if bytes decode to a string, encoding that string gives back exactly those bytes (so the
    encoding is the unique UTF-8 form: no second byte string stands for the same text). -/
theorem utf8_of_decode : ∀ (f : Nat) (b : Bytes) (s : List Nat),
    Spec.decodeUtf8 f b = some s → utf8 s = .ok b
  | 0, _, _, h => by simp [Spec.decodeUtf8] at h
  | f + 1, [], s, h => by
    simp [Spec.decodeUtf8] at h; subst h; rfl
  | f + 1, b0 :: rest, s, h => by
    simp only [Spec.decodeUtf8] at h
    split at h
    · -- 1 byte
      rename_i h0
      cases hd : Spec.decodeUtf8 f rest with
      | none => simp [hd] at h
      | some t =>
        simp [hd] at h; subst h
        have ih := utf8_of_decode f rest t hd
        have hc : utf8Char b0.toNat = .ok [b0] := by
          simp [utf8Char, h0]
        simpa using utf8_cons_of hc ih
    · split at h
      · simp at h
      · split at h
        · -- 2 bytes
          rename_i h0 h1 h2
          match rest, h with
          | [], h => simp at h
          | b1 :: r, h =>
            simp only at h
            cases hc1 : Spec.cont b1 with
            | none => simp [hc1] at h
            | some c1 =>
              simp only [hc1] at h
              cases hd : Spec.decodeUtf8 f r with
              | none => simp [hd] at h
              | some t =>
                simp [hd] at h; subst h
                have ih := utf8_of_decode f r t hd
                obtain ⟨k1, e1⟩ := cont_some hc1
                have hc : utf8Char ((b0.toNat - 0xC0) * 64 + c1) = .ok [b0, b1] := by
                  have a0 : (0xC0 + ((b0.toNat - 0xC0) * 64 + c1) / 64) = b0.toNat := by omega
                  have a1 : (0x80 + ((b0.toNat - 0xC0) * 64 + c1) % 64) = b1.toNat := by omega
                  unfold utf8Char
                  rw [if_neg (by omega), if_pos (by omega), a0, a1, ofNat_toNat_u8, ofNat_toNat_u8]
                simpa using utf8_cons_of hc ih
        · split at h
          · -- 3 bytes
            rename_i h0 h1 h2 h3
            match rest, h with
            | [], h => simp at h
            | [_], h => simp at h
            | b1 :: b2 :: r, h =>
              simp only at h
              cases hc1 : Spec.cont b1 with
              | none => simp [hc1] at h
              | some c1 =>
                cases hc2 : Spec.cont b2 with
                | none => simp [hc1, hc2] at h
                | some c2 =>
                  simp only [hc1, hc2] at h
                  split at h
                  · simp at h
                  · rename_i hrange
                    cases hd : Spec.decodeUtf8 f r with
                    | none => simp [hd] at h
                    | some t =>
                      simp [hd] at h; subst h
                      have ih := utf8_of_decode f r t hd
                      obtain ⟨k1, e1⟩ := cont_some hc1
                      obtain ⟨k2, e2⟩ := cont_some hc2
                      have hc : utf8Char ((b0.toNat - 0xE0) * 4096 + c1 * 64 + c2) = .ok [b0, b1, b2] := by
                        have a0 : (0xE0 + ((b0.toNat - 0xE0) * 4096 + c1 * 64 + c2) / 4096) = b0.toNat := by
                          omega
                        have a1 : (0x80 + ((b0.toNat - 0xE0) * 4096 + c1 * 64 + c2) / 64 % 64) = b1.toNat := by
                          omega
                        have a2 : (0x80 + ((b0.toNat - 0xE0) * 4096 + c1 * 64 + c2) % 64) = b2.toNat := by
                          omega
                        unfold utf8Char
                        rw [if_neg (by omega), if_neg (by omega), if_neg (by omega), if_pos (by omega),
                          a0, a1, a2, ofNat_toNat_u8, ofNat_toNat_u8, ofNat_toNat_u8]
                      simpa using utf8_cons_of hc ih
          · split at h
            · -- 4 bytes
              rename_i h0 h1 h2 h3 h4
              match rest, h with
              | [], h => simp at h
              | [_], h => simp at h
              | [_, _], h => simp at h
              | b1 :: b2 :: b3 :: r, h =>
                simp only at h
                cases hc1 : Spec.cont b1 with
                | none => simp [hc1] at h
                | some c1 =>
                  cases hc2 : Spec.cont b2 with
                  | none => simp [hc1, hc2] at h
                  | some c2 =>
                    cases hc3 : Spec.cont b3 with
                    | none => simp [hc1, hc2, hc3] at h
                    | some c3 =>
                      simp only [hc1, hc2, hc3] at h
                      split at h
                      · simp at h
                      · rename_i hrange
                        cases hd : Spec.decodeUtf8 f r with
                        | none => simp [hd] at h
                        | some t =>
                          simp [hd] at h; subst h
                          have ih := utf8_of_decode f r t hd
                          obtain ⟨k1, e1⟩ := cont_some hc1
                          obtain ⟨k2, e2⟩ := cont_some hc2
                          obtain ⟨k3, e3⟩ := cont_some hc3
                          have hc : utf8Char ((b0.toNat - 0xF0) * 262144 + c1 * 4096 + c2 * 64 + c3) =
                              .ok [b0, b1, b2, b3] := by
                            have a0 : (0xF0 + ((b0.toNat - 0xF0) * 262144 + c1 * 4096 + c2 * 64 + c3) / 262144)
                                = b0.toNat := by omega
                            have a1 : (0x80 + ((b0.toNat - 0xF0) * 262144 + c1 * 4096 + c2 * 64 + c3) / 4096 % 64)
                                = b1.toNat := by omega
                            have a2 : (0x80 + ((b0.toNat - 0xF0) * 262144 + c1 * 4096 + c2 * 64 + c3) / 64 % 64)
                                = b2.toNat := by omega
                            have a3 : (0x80 + ((b0.toNat - 0xF0) * 262144 + c1 * 4096 + c2 * 64 + c3) % 64)
                                = b3.toNat := by omega
                            unfold utf8Char
                            rw [if_neg (by omega), if_neg (by omega), if_neg (by omega), if_neg (by omega),
                              if_pos (by omega), a0, a1, a2, a3, ofNat_toNat_u8, ofNat_toNat_u8,
                              ofNat_toNat_u8, ofNat_toNat_u8]
                          simpa using utf8_cons_of hc ih
            · simp at h


/-- encoder and strict decoder are mutually inverse: `b` decodes to `s` iff `s` encodes to `b` -/
theorem utf8_decode_iff (s : List Nat) (b : Bytes) :
    Spec.decodeUtf8 (b.length + 1) b = some s ↔ utf8 s = .ok b :=
  ⟨utf8_of_decode _ b s, fun h => utf8_roundtrip s b h _ (by omega)⟩

end Aiorpcx.C16
