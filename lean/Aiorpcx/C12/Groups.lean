import Aiorpcx.C12.Props
import Aiorpcx.C11.Deadline
/-!
# C12 — external cancellation through task groups

The program language has task groups (`Prog.group`, members = sleeps with reaction delays,
wait = all or any; join / sweep semantics as proved in C09, defect F11 included).  With members that need
time to die the property is **false** (F33, `external_cancel_propagates_groups_full_fails`): while
a group's clean-up is awaiting its members a deadline can pass (or have passed), and the second
cancellation is attributed to the deadline.  With members that die at once it holds
(`external_cancel_propagates_groups`), for every nesting of blocks and groups, provided the cancel
instant cannot coincide with a deadline - expressed, as in the harness, by parity: everything the
program does is at even instants, the cancel comes at an odd one, not before the start.
-/
namespace Aiorpcx.C11

/-- every group member dies at once when cancelled -/
def Prompt : Prog → Prop
  | .skip => True
  | .sleep _ => True
  | .raise _ => True
  | .seq a b => Prompt a ∧ Prompt b
  | .block _ _ _ b => Prompt b
  | .tryCatch b _ h => Prompt b ∧ Prompt h
  | .group _ ms b => (∀ m ∈ ms, m.2 = 0) ∧ Prompt b

/-- every duration and deadline written in the program is even -/
def EvenP : Prog → Prop
  | .skip => True
  | .sleep d => d % 2 = 0
  | .raise _ => True
  | .seq a b => EvenP a ∧ EvenP b
  | .block _ _ t b => t % 2 = 0 ∧ EvenP b
  | .tryCatch b _ h => EvenP b ∧ EvenP h
  | .group _ ms b => (∀ m ∈ ms, m.1 % 2 = 0) ∧ EvenP b

/-- while the cancel request is pending: it lies ahead, at an odd instant; the clock and all
deadlines are even -/
def ParS (s : TS) : Prop :=
  ∀ c, s.cancelAt = some c → s.now ≤ c ∧ s.now % 2 = 0 ∧ c % 2 = 1 ∧ ∀ x ∈ s.deadlines, x % 2 = 0

def AllFuture (s : TS) : Prop := ∀ x ∈ s.deadlines, s.now < x

def GoodG (s : TS) : Prop := Strong s ∧ Kk s ∧ ParS s

def ResG (s s' : TS) : Res → Prop
  | some .cancelled => (Delivered s s' ∧ Stale s' ∧ AllFuture s' ∧ Inv s') ∨
                       (s'.cancelAt = s.cancelAt ∧ Active s' ∧ Inv s')
  | some .tce => s'.cancelAt = s.cancelAt ∧ Active s' ∧ Inv s'
  | _ => Strong s' ∧ s'.cancelAt = s.cancelAt

def PostG (s s' : TS) (r : Res) : Prop :=
  s'.deadlines = s.deadlines ∧ Kk s' ∧ s.now ≤ s'.now ∧ ParS s' ∧ ResG s s' r

def Cont (r : Res) : Prop :=
  r = none ∨ r = some .taskTimeout ∨ r = some .uncaught ∨ r = some .other

theorem ResG_cont {s s' : TS} {r : Res} (hr : Cont r) :
    ResG s s' r ↔ (Strong s' ∧ s'.cancelAt = s.cancelAt) := by
  rcases hr with rfl | rfl | rfl | rfl <;> exact Iff.rfl

theorem strong_inv {s : TS} (h : Strong s) : Inv s := Or.inr h

theorem strong_armed_mem {s : TS} (h : Strong s) (a : Int) (ha : s.armed = some a) :
    a ∈ s.deadlines ∧ ∀ x ∈ s.deadlines, a ≤ x := by
  unfold Strong at h
  rw [ha] at h
  exact ⟨minL_mem _ _ h.symm, fun x hx => minL_le_mem _ _ _ hx h.symm⟩

theorem clampT_of_ge (now x : Int) (h : now ≤ x) : clampT now x = x := by
  unfold clampT; split <;> omega

/-! ### one suspension -/

theorem wakeUpG (s : TS) (d : Nat) (h : GoodG s) (hd : s.cancelAt ≠ none → d % 2 = 0)
    (hfree : ∀ c, s.cancelAt = some c → s.now + d < c) :
    PostG s (wakeUp s d).2 (wakeUp s d).1 := by
  obtain ⟨hS, hK, hP⟩ := h
  refine ⟨rfl, ?_, by simp [wakeUp]; omega, ?_, ⟨hS, rfl⟩⟩
  · intro m hm; have := hK m hm; simp [wakeUp]; omega
  · intro c hc
    have hc' : s.cancelAt = some c := hc
    obtain ⟨h1, h2, h3, h4⟩ := hP c hc'
    have := hfree c hc'
    have := hd (by rw [hc']; simp)
    refine ⟨by simp [wakeUp]; omega, by simp [wakeUp]; omega, h3, h4⟩

theorem timerFireG (s : TS) (a : Int) (h : GoodG s) (ha : s.armed = some a)
    (hwin : ∀ c, s.cancelAt = some c → clampT s.now a ≤ clampT s.now c) :
    PostG s (timerFire s a).2 (timerFire s a).1 := by
  obtain ⟨hS, hK, hP⟩ := h
  obtain ⟨hmem, _⟩ := strong_armed_mem hS a ha
  refine ⟨rfl, ?_, (clampT_ge _ _).1, ?_, Or.inr ⟨rfl, ⟨a, rfl, hmem⟩, Or.inl rfl⟩⟩
  · intro m hm; simp [timerFire] at hm; subst hm; exact (clampT_ge _ _).2
  · intro c hc
    have hc' : s.cancelAt = some c := hc
    obtain ⟨h1, h2, h3, h4⟩ := hP c hc'
    have hw := hwin c hc'
    rw [clampT_of_ge _ _ h1] at hw
    have hae := h4 a hmem
    refine ⟨hw, ?_, h3, h4⟩
    show clampT s.now a % 2 = 0
    unfold clampT; split <;> omega

theorem cancelFireG (s : TS) (c : Int) (h : GoodG s) (hc : s.cancelAt = some c)
    (hfirst : ∀ a, s.armed = some a → ¬ clampT s.now a ≤ clampT s.now c) :
    PostG s (cancelFire s c).2 (cancelFire s c).1 := by
  obtain ⟨hS, hK, hP⟩ := h
  obtain ⟨h1, _, _, _⟩ := hP c hc
  have hcl := clampT_of_ge _ _ h1
  -- every deadline lies strictly after the cancel instant: the timer is set for the least one
  have hfut : ∀ x ∈ s.deadlines, c < x := by
    intro x hx
    obtain ⟨a, ha, hle⟩ := minL_le s.deadlines x hx
    have harm : s.armed = some a := by rw [hS, ha]
    have := hfirst a harm
    rw [hcl] at this
    have h2 := (clampT_ge s.now a)
    unfold clampT at this; split at this <;> omega
  refine ⟨rfl, ?_, (clampT_ge _ _).1, ?_, Or.inl ⟨⟨by simp [hc], rfl⟩, ?_, ?_, strong_inv hS⟩⟩
  · intro m hm
    have := hK m (by simpa [cancelFire] using hm)
    have := (clampT_ge s.now c).1
    simp [cancelFire]; omega
  · intro c' hc'; simp [cancelFire] at hc'
  · intro m hm hmem
    have hm' : s.marker = some m := by simpa [cancelFire] using hm
    have hmem' : m ∈ s.deadlines := by simpa [cancelFire] using hmem
    have := hK m hm'
    have := hfut m hmem'
    omega
  · intro x hx
    have hx' : x ∈ s.deadlines := by simpa [cancelFire] using hx
    have := hfut x hx'
    show clampT s.now c < x
    rw [hcl]; exact this

theorem doSleepG (s : TS) (d : Nat) (h : GoodG s) (hd : s.cancelAt ≠ none → d % 2 = 0) :
    PostG s (doSleep s d).2 (doSleep s d).1 := by
  have hP := h.2.2
  unfold doSleep
  split
  · rename_i ha hc
    exact wakeUpG s d h hd (by intro c hcc; rw [hc] at hcc; cases hcc)
  · rename_i a ha hc
    split
    · exact timerFireG s a h ha (by intro c hcc; rw [hc] at hcc; cases hcc)
    · exact wakeUpG s d h hd (by intro c hcc; rw [hc] at hcc; cases hcc)
  · rename_i c ha hc
    split
    · exact cancelFireG s c h hc (by intro a h2; rw [ha] at h2; cases h2)
    · rename_i hno
      refine wakeUpG s d h hd ?_
      intro c' hcc; rw [hc] at hcc; cases hcc
      rw [clampT_of_ge _ _ (hP c hc).1] at hno; omega
  · rename_i a c ha hc
    split
    · rename_i hle
      split
      · exact timerFireG s a h ha (by intro c' hcc; rw [hc] at hcc; cases hcc; exact hle)
      · rename_i hno
        refine wakeUpG s d h hd ?_
        intro c' hcc; rw [hc] at hcc; cases hcc
        have := clampT_of_ge _ _ (hP c hc).1
        omega
    · rename_i hlt
      split
      · exact cancelFireG s c h hc (by intro a' h2; rw [ha] at h2; cases h2; exact hlt)
      · rename_i hno
        refine wakeUpG s d h hd ?_
        intro c' hcc; rw [hc] at hcc; cases hcc
        rw [clampT_of_ge _ _ (hP c hc).1] at hno; omega

/-! ### composition -/

theorem goodG_of_post {s s1 : TS} {r : Res} (h : PostG s s1 r) (hr : Cont r) :
    GoodG s1 ∧ s1.cancelAt = s.cancelAt := by
  obtain ⟨_, k, _, p, ro⟩ := h
  have := (ResG_cont hr).1 ro
  exact ⟨⟨this.1, k, p⟩, this.2⟩

theorem ResG_rebase {s s1 s2 : TS} {r : Res} (h : s1.cancelAt = s.cancelAt) (hr : ResG s1 s2 r) :
    ResG s s2 r := by
  cases r with
  | none => simpa [ResG, h] using hr
  | some e => cases e <;> simpa [ResG, Delivered, h] using hr

theorem transG {s s1 s2 : TS} {r1 r : Res} (hr1 : Cont r1) (h1 : PostG s s1 r1)
    (h2 : PostG s1 s2 r) : PostG s s2 r := by
  have hg := goodG_of_post h1 hr1
  obtain ⟨d1, _, n1, _, _⟩ := h1
  obtain ⟨d2, k2, n2, p2, r2⟩ := h2
  exact ⟨by rw [d2, d1], k2, by omega, p2, ResG_rebase hg.2 r2⟩

theorem reflG (s : TS) (h : GoodG s) (r : Res) (hr : Cont r) : PostG s s r :=
  ⟨rfl, h.2.1, Int.le_refl _, h.2.2, (ResG_cont hr).2 ⟨h.1, rfl⟩⟩

/-! ### entering and leaving a block -/

theorem enterG (s : TS) (d : Int) (h : GoodG s) (hd : s.cancelAt ≠ none → d % 2 = 0) :
    GoodG (enter s d) := by
  refine ⟨enter_strong s d h.1, by intro m hm; simp [enter] at hm, ?_⟩
  intro c hc
  have hc' : s.cancelAt = some c := by simpa [enter] using hc
  obtain ⟨h1, h2, h3, h4⟩ := h.2.2 c hc'
  have := hd (by rw [hc']; simp)
  refine ⟨h1, h2, h3, ?_⟩
  intro x hx
  simp [enter] at hx
  rcases hx with hx | hx
  · exact h4 x hx
  · omega

theorem aexitG (ig : Bool) (d : Int) (s s1 : TS) (r : Res) (hpost : PostG (enter s d) s1 r) :
    PostG s (aexit true ig d r s1).2.2 (aexit true ig d r s1).1 := by
  obtain ⟨hds, hK, hnow, hP, hres⟩ := hpost
  have hds1 : s1.deadlines = s.deadlines ++ [d] := by rw [hds]; simp [enter]
  have hc0 : (enter s d).cancelAt = s.cancelAt := by simp [enter]
  have hn0 : (enter s d).now = s.now := by simp [enter]
  have hmk : (unset s1).2.2.marker = s1.marker := by simp [unset]
  have hcz : (unset s1).2.2.cancelAt = s1.cancelAt := by simp [unset]
  have hdz : (unset s1).2.2.deadlines = s.deadlines := by simp [unset, hds1]
  have hnz : (unset s1).2.2.now = s1.now := by simp [unset]
  have hSz : Strong (unset s1).2.2 := by simp [Strong, unset]
  have base : ∀ r', ResG s (unset s1).2.2 r' → PostG s (unset s1).2.2 r' := by
    intro r' hr
    refine ⟨hdz, ?_, by rw [hnz]; omega, ?_, hr⟩
    · intro m hm; rw [hnz]; exact hK m (by simpa [unset] using hm)
    · intro c hc
      have hc' : s1.cancelAt = some c := by simpa [unset] using hc
      obtain ⟨h1, h2, h3, h4⟩ := hP c hc'
      refine ⟨by rw [hnz]; exact h1, by rw [hnz]; exact h2, h3, ?_⟩
      intro x hx; rw [hdz] at hx; exact h4 x (by rw [hds1]; simp [hx])
  have cont : ∀ r', Cont r' → s1.cancelAt = s.cancelAt → PostG s (unset s1).2.2 r' := by
    intro r' hr hc
    exact base _ ((ResG_cont hr).2 ⟨hSz, by rw [hcz, hc]⟩)
  have act : ∀ m, s1.marker = some m → m ≠ d → m ∈ s1.deadlines → s1.cancelAt = s.cancelAt →
      PostG s (unset s1).2.2 (some .tce) := by
    intro m hm hmd hmem hc
    apply base
    refine ⟨by rw [hcz, hc], ⟨m, by rw [hmk, hm], ?_⟩, strong_inv hSz⟩
    rw [hdz]; rw [hds1] at hmem; exact mem_of_mem_append_single hmem hmd
  -- a timer-caused cancellation in flight: own deadline -> TaskTimeout / quiet, else TCE
  have timer : ∀ r0, isCancelFamily r0 = true → s1.cancelAt = s.cancelAt → Active s1 →
      PostG s (aexit true ig d r0 s1).2.2 (aexit true ig d r0 s1).1 := by
    intro r0 hf hc ⟨m, hm, hmem⟩
    by_cases hmd : m = d
    · subst hmd
      rw [aexit_self _ _ _ _ hf hm]
      cases ig <;> exact cont _ (by simp [Cont]) hc
    · rw [aexit_active _ _ _ _ _ hf hm hmd hmem]; exact act m hm hmd hmem hc
  cases r with
  | none =>
    rw [aexit_nofam _ _ _ _ rfl]
    exact cont _ (Or.inl rfl) (by rw [hres.2, hc0])
  | some e =>
    cases e with
    | other =>
      rw [aexit_nofam _ _ _ _ rfl]
      exact cont _ (by simp [Cont]) (by rw [hres.2, hc0])
    | uncaught =>
      rw [aexit_nofam _ _ _ _ rfl]
      exact cont _ (by simp [Cont]) (by rw [hres.2, hc0])
    | taskTimeout =>
      have hc : s1.cancelAt = s.cancelAt := by rw [hres.2, hc0]
      cases hm : s1.marker with
      | none => rw [aexit_none _ _ _ _ hm]; exact cont _ (by simp [Cont]) hc
      | some m =>
        by_cases hmem : m ∈ s1.deadlines
        · exact timer _ rfl hc ⟨m, hm, hmem⟩
        · have hmd : m ≠ d := by intro h; apply hmem; rw [hds1, h]; simp
          rw [aexit_stale _ _ _ _ _ rfl hm hmd hmem]; exact cont _ (by simp [Cont]) hc
    | tce =>
      obtain ⟨hc1, hact, _⟩ := hres
      exact timer _ rfl (by rw [hc1, hc0]) hact
    | cancelled =>
      rcases hres with ⟨⟨hd1, hd2⟩, hst, hfut, _⟩ | ⟨hc1, hact, _⟩
      · have hdel : Delivered s (unset s1).2.2 := ⟨by rw [← hc0]; exact hd1, by rw [hcz]; exact hd2⟩
        have hfz : AllFuture (unset s1).2.2 := by
          intro x hx; rw [hdz] at hx; rw [hnz]; exact hfut x (by rw [hds1]; simp [hx])
        cases hm : s1.marker with
        | none =>
          rw [aexit_none _ _ _ _ hm]
          exact base _ (Or.inl ⟨hdel, by intro m h; rw [hmk, hm] at h; simp at h, hfz, strong_inv hSz⟩)
        | some m =>
          have hnm : m ∉ s1.deadlines := hst m hm
          have hmd : m ≠ d := by intro h; apply hnm; rw [hds1, h]; simp
          rw [aexit_stale _ _ _ _ _ rfl hm hmd hnm]
          simp only []
          refine base _ (Or.inl ⟨hdel, ?_, hfz, strong_inv hSz⟩)
          intro m' h'; rw [hmk, hm] at h'; simp at h'; subst h'
          rw [hdz]; intro hc; apply hnm; rw [hds1]; simp [hc]
      · exact timer _ rfl (by rw [hc1, hc0]) hact

/-! ### leaving a group whose members die at once -/

theorem maxNat_zero (l : List Nat) (h : ∀ x ∈ l, x = 0) : maxNat l = 0 := by
  induction l with
  | nil => rfl
  | cons x xs ih =>
    have hx := h x (by simp)
    have := ih (fun y hy => h y (by simp [hy]))
    simp [maxNat, this, hx]

theorem wake0 (s : TS) : (wakeUp s 0).2 = s := by
  cases s; simp [wakeUp]

theorem inv_armed_mem {s : TS} (h : Inv s) (a : Int) (ha : s.armed = some a) : a ∈ s.deadlines := by
  rcases h with h0 | h0
  · rw [ha] at h0; cases h0
  · rw [ha] at h0; exact minL_mem _ _ h0.symm

/-- a zero-length suspension while a cancellation is in flight, nothing due: nothing happens -/
theorem doSleep0_quiet (s : TS) (ha : ∀ a, s.armed = some a → s.now < a)
    (hc : ∀ c, s.cancelAt = some c → s.now < c) : doSleep s 0 = (none, s) := by
  have hw : wakeUp s 0 = (none, s) := by
    have := wake0 s
    unfold wakeUp at this ⊢
    simp only [] at this
    rw [this]
  have hA : ∀ a, s.armed = some a → ¬ clampT s.now a ≤ s.now + ((0 : Nat) : Int) := by
    intro a h; have := ha a h; unfold clampT; split <;> omega
  have hC : ∀ c, s.cancelAt = some c → ¬ clampT s.now c ≤ s.now + ((0 : Nat) : Int) := by
    intro c h; have := hc c h; unfold clampT; split <;> omega
  unfold doSleep
  split
  · exact hw
  · rename_i a h1 _; simp only [hA a h1, ↓reduceIte]; exact hw
  · rename_i c _ h2; simp only [hC c h2, ↓reduceIte]; exact hw
  · rename_i a c h1 h2
    simp only [hA a h1, hC c h2, ↓reduceIte]
    split <;> exact hw

/-- ... or the timer re-armed for a deadline already past fires again -/
theorem doSleep0_active (s : TS) (hP : ParS s) :
    doSleep s 0 = (none, s) ∨ ∃ a, s.armed = some a ∧ a ≤ s.now ∧ doSleep s 0 = timerFire s a := by
  have hc : ∀ c, s.cancelAt = some c → s.now < c := by
    intro c h; obtain ⟨h1, h2, h3, _⟩ := hP c h; omega
  cases harm : s.armed with
  | none => left; exact doSleep0_quiet s (by intro a h; rw [harm] at h; cases h) hc
  | some a =>
    by_cases hdue : a ≤ s.now
    · right
      refine ⟨a, rfl, hdue, ?_⟩
      have h1 : clampT s.now a = s.now := clampT_of_le _ _ hdue
      unfold doSleep
      rw [harm]
      cases hcc : s.cancelAt with
      | none => simp [h1]
      | some c =>
        have := hc c hcc
        have h2 : clampT s.now c = c := clampT_of_ge _ _ (by omega)
        simp only [h1, h2]
        have : s.now ≤ c := by omega
        simp [this]
    · left
      exact doSleep0_quiet s (by intro a' h; rw [harm] at h; cases h; omega) hc

theorem sweepG (R : List (Nat × Nat)) (hR : ∀ m ∈ R, m.2 = 0) (e : Exc) (s0 s : TS)
    (h : PostG s0 s (some e)) :
    PostG s0 (sweep R (some e) s).2.1 (sweep R (some e) s).1 := by
  have hz : maxNat (R.map (·.2)) = 0 := maxNat_zero _ (by
    intro x hx; obtain ⟨m, hm, rfl⟩ := List.mem_map.1 hx; exact hR m hm)
  unfold sweep
  split
  · exact h
  · rw [hz]
    obtain ⟨hds, hK, hnow, hP, hres⟩ := h
    -- in flight, attributed to an active deadline: at most the re-armed timer fires again
    have inflight : s.cancelAt = s0.cancelAt → Active s → Inv s →
        ∀ e', (e' = Exc.cancelled ∨ e' = Exc.tce) →
        PostG s0 (match doSleep s 0 with
          | (none, s') => (some e', s', 0)
          | (some e2, s') => (some e2, s', (R.filter (fun (m : Nat × Nat) => s'.now < s.now + m.2)).length)).2.1
          (match doSleep s 0 with
          | (none, s') => (some e', s', 0)
          | (some e2, s') => (some e2, s', (R.filter (fun (m : Nat × Nat) => s'.now < s.now + m.2)).length)).1 := by
      intro hc hact hinv e' he'
      rcases doSleep0_active s hP with hq | ⟨a, harm, hdue, hq⟩
      · rw [hq]
        refine ⟨hds, hK, hnow, hP, ?_⟩
        rcases he' with rfl | rfl
        · exact Or.inr ⟨hc, hact, hinv⟩
        · exact ⟨hc, hact, hinv⟩
      · rw [hq]
        have hcl : clampT s.now a = s.now := clampT_of_le _ _ hdue
        simp only [timerFire, hcl]
        refine ⟨hds, ?_, hnow, ?_, Or.inr ⟨hc, ⟨a, rfl, inv_armed_mem hinv a harm⟩, Or.inl rfl⟩⟩
        · intro m hm; simp at hm; subst hm; exact hdue
        · intro c hcc
          exact hP c hcc
    cases e with
    | cancelled =>
      rcases hres with ⟨hdel, hst, hfut, hinv⟩ | ⟨hc, hact, hinv⟩
      · -- delivered external cancel: every deadline lies ahead, nothing can fire
        have hq := doSleep0_quiet s
          (by intro a ha; exact hfut a (inv_armed_mem hinv a ha))
          (by intro c hc; rw [hdel.2] at hc; cases hc)
        rw [hq]
        exact ⟨hds, hK, hnow, hP, Or.inl ⟨hdel, hst, hfut, hinv⟩⟩
      · exact inflight hc hact hinv _ (Or.inl rfl)
    | tce => exact inflight hres.1 hres.2.1 hres.2.2 _ (Or.inr rfl)
    | taskTimeout =>
      have hg : GoodG s := ⟨hres.1, hK, hP⟩
      have h2 := doSleepG s 0 hg (by intro _; rfl)
      have h1 : PostG s0 s (some .taskTimeout) := ⟨hds, hK, hnow, hP, hres⟩
      split <;> rename_i heq <;> rw [heq] at h2
      · have := transG (by simp [Cont]) h1 h2
        exact ⟨this.1, this.2.1, this.2.2.1, this.2.2.2.1, this.2.2.2.2⟩
      · exact transG (by simp [Cont]) h1 h2
    | uncaught =>
      have hg : GoodG s := ⟨hres.1, hK, hP⟩
      have h2 := doSleepG s 0 hg (by intro _; rfl)
      have h1 : PostG s0 s (some .uncaught) := ⟨hds, hK, hnow, hP, hres⟩
      split <;> rename_i heq <;> rw [heq] at h2
      · have := transG (by simp [Cont]) h1 h2
        exact ⟨this.1, this.2.1, this.2.2.1, this.2.2.2.1, this.2.2.2.2⟩
      · exact transG (by simp [Cont]) h1 h2
    | other =>
      have hg : GoodG s := ⟨hres.1, hK, hP⟩
      have h2 := doSleepG s 0 hg (by intro _; rfl)
      have h1 : PostG s0 s (some .other) := ⟨hds, hK, hnow, hP, hres⟩
      split <;> rename_i heq <;> rw [heq] at h2
      · have := transG (by simp [Cont]) h1 h2
        exact ⟨this.1, this.2.1, this.2.2.1, this.2.2.2.1, this.2.2.2.2⟩
      · exact transG (by simp [Cont]) h1 h2

theorem maxNat_even (l : List Nat) (h : ∀ x ∈ l, x % 2 = 0) : maxNat l % 2 = 0 := by
  induction l with
  | nil => rfl
  | cons x xs ih =>
    have hx := h x (by simp)
    have := ih (fun y hy => h y (by simp [hy]))
    simp only [maxNat]
    split <;> assumption

theorem minNat_even (l : List Nat) (h : ∀ x ∈ l, x % 2 = 0) : minNat l % 2 = 0 := by
  induction l with
  | nil => rfl
  | cons x xs ih =>
    have hx := h x (by simp)
    have := ih (fun y hy => h y (by simp [hy]))
    cases xs with
    | nil => simpa [minNat] using hx
    | cons y ys =>
      simp only [minNat] at this ⊢
      split <;> assumption

/-- sweeping with nothing in flight (wait = any: the first member has finished) -/
theorem sweepG_none (R : List (Nat × Nat)) (hR : ∀ m ∈ R, m.2 = 0) (s0 s : TS)
    (h : PostG s0 s none) : PostG s0 (sweep R none s).2.1 (sweep R none s).1 := by
  have hz : maxNat (R.map (·.2)) = 0 := maxNat_zero _ (by
    intro x hx; obtain ⟨m, hm, rfl⟩ := List.mem_map.1 hx; exact hR m hm)
  unfold sweep
  split
  · exact h
  · rw [hz]
    have hg := goodG_of_post h (Or.inl rfl)
    have h2 := doSleepG s 0 hg.1 (by intro _; rfl)
    split <;> rename_i heq <;> rw [heq] at h2
    · exact transG (Or.inl rfl) h h2
    · exact transG (Or.inl rfl) h h2

theorem gexitG (anyp : Bool) (ms : List (Nat × Nat)) (hR : ∀ m ∈ ms, m.2 = 0)
    (hE : ∀ m ∈ ms, m.1 % 2 = 0) (r : Res) (s0 s1 : TS) (hP0 : ParS s0) (h : PostG s0 s1 r) :
    PostG s0 (gexit anyp s0.now ms r s1).2.1 (gexit anyp s0.now ms r s1).1 := by
  have hsub : ∀ now, ∀ m ∈ runningAt s0.now ms now, m.2 = 0 := by
    intro now m hm; exact hR m (List.mem_filter.1 hm).1
  unfold gexit
  split
  · rename_i e
    exact sweepG _ (hsub _) e s0 s1 h
  · split
    · exact h
    · split
      · exact sweepG_none _ (hsub _) s0 s1 h
      · have hg := goodG_of_post h (Or.inl rfl)
        have hdur : ∀ x ∈ ms.map (·.1), x % 2 = 0 := by
          intro x hx; obtain ⟨m, hm, rfl⟩ := List.mem_map.1 hx; exact hE m hm
        have hM : (if anyp then minNat (ms.map (·.1)) else maxNat (ms.map (·.1))) % 2 = 0 := by
          split
          · exact minNat_even _ hdur
          · exact maxNat_even _ hdur
        generalize (if anyp then minNat (ms.map (·.1)) else maxNat (ms.map (·.1))) = M at hM ⊢
        have h2 := doSleepG s1 (s0.now + M - s1.now).toNat hg.1 (by
          intro hne
          cases hc : s1.cancelAt with
          | none => exact absurd hc hne
          | some c =>
            obtain ⟨_, e1, _, _⟩ := hg.1.2.2 c hc
            obtain ⟨_, e0, _, _⟩ := hP0 c (by rw [← hg.2, hc])
            omega)
        split <;> rename_i heq <;> rw [heq] at h2
        · split
          · exact sweepG_none _ (hsub _) s0 _ (transG (Or.inl rfl) h h2)
          · exact transG (Or.inl rfl) h h2
        · exact sweepG _ (hsub _) _ s0 _ (transG (Or.inl rfl) h h2)

/-- main invariant, task groups included (members that die at once) -/
theorem run_postG (p : Prog) : ∀ (s : TS), NoCatch p → Prompt p → EvenP p → GoodG s →
    PostG s (run true p s).2.1 (run true p s).1 := by
  induction p with
  | skip => intro s _ _ _ h; simpa [run] using reflG s h none (Or.inl rfl)
  | sleep d => intro s _ _ he h; simpa [run] using doSleepG s d h (fun _ => he)
  | raise e =>
    intro s hp _ _ h
    simp only [run]
    cases e with
    | cancelled => exact absurd rfl hp.1
    | tce => exact absurd rfl hp.2
    | taskTimeout => exact reflG s h _ (by simp [Cont])
    | uncaught => exact reflG s h _ (by simp [Cont])
    | other => exact reflG s h _ (by simp [Cont])
  | seq a b iha ihb =>
    intro s hp hpr he h
    have ha := iha s hp.1 hpr.1 he.1 h
    simp only [run]
    split
    · rename_i e hre; rw [hre] at ha; simpa [hre] using ha
    · rename_i hre
      rw [hre] at ha
      have hg := goodG_of_post ha (Or.inl rfl)
      show PostG s (run true b (run true a s).2.1).2.1 (run true b (run true a s).2.1).1
      exact transG (Or.inl rfl) ha (ihb _ hp.2 hpr.2 he.2 hg.1)
  | tryCatch b cs hd ihb ihh =>
    intro s hp hpr he h
    have hb := ihb s hp.1 hpr.1 he.1 h
    simp only [run]
    split
    · rename_i e hre
      split
      · rename_i hin
        rw [hre] at hb
        have hcatch : Cont (some e) := by
          cases e with
          | cancelled => exact absurd (by simpa using hin) hp.2.2.1
          | tce => exact absurd (by simpa using hin) hp.2.2.2
          | taskTimeout => simp [Cont]
          | uncaught => simp [Cont]
          | other => simp [Cont]
        have hg := goodG_of_post hb hcatch
        show PostG s (run true hd (run true b s).2.1).2.1 (run true hd (run true b s).2.1).1
        exact transG hcatch hb (ihh _ hp.2.1 hpr.2 he.2 hg.1)
      · rw [hre] at hb; simpa [hre] using hb
    · rename_i hre; rw [hre] at hb; simpa [hre] using hb
  | block ig rel t body ih =>
    intro s hp hpr he h
    simp only [run]
    have hd : s.cancelAt ≠ none → (if rel then s.now + t else t) % 2 = 0 := by
      intro hne
      cases hc : s.cancelAt with
      | none => exact absurd hc hne
      | some c =>
        obtain ⟨_, e1, _, _⟩ := h.2.2 c hc
        have := he.1
        split <;> omega
    exact aexitG ig _ s _ _ (ih _ hp hpr he.2 (enterG s _ h hd))
  | group anyp ms body ih =>
    intro s hp hpr he h
    simp only [run]
    exact gexitG anyp ms hpr.1 he.1 _ s _ h.2.2 (ih s hp hpr.2 he.2 h)

/-- **C12 with task groups** (members that die at once): for every nesting of timeout blocks and
task groups that does not itself catch or raise the cancellation family, every even start time
and every odd cancel instant not before it (so the cancel never coincides with a deadline): a
delivered `cancel()` makes the task end `Cancelled` - through every group clean-up and every
block exit on the way out, whatever inner timeouts expired and were handled before. -/
theorem external_cancel_propagates_groups (p : Prog) (hp : NoCatch p) (hpr : Prompt p)
    (he : EvenP p) (now c : Int) (hnow : now % 2 = 0) (hc : c % 2 = 1) (hle : now ≤ c) :
    (run true p { now := now, cancelAt := some c }).2.1.cancelAt = none →
    (run true p { now := now, cancelAt := some c }).1 = some .cancelled := by
  intro hdel
  have hgood : GoodG ({ now := now, cancelAt := some c } : TS) := by
    refine ⟨by simp [Strong, minL], by intro m hm; simp at hm, ?_⟩
    intro c' hc'
    simp at hc'; subst hc'
    exact ⟨hle, hnow, hc, by intro x hx; simp at hx⟩
  have h := (run_postG p _ hp hpr he hgood).2.2.2.2
  generalize (run true p { now := now, cancelAt := some c }).1 = r at h
  cases r with
  | none => have := h.2; rw [hdel] at this; simp at this
  | some e =>
    cases e with
    | cancelled => rfl
    | tce => have := h.1; rw [hdel] at this; simp at this
    | taskTimeout => have := h.2; rw [hdel] at this; simp at this
    | uncaught => have := h.2; rw [hdel] at this; simp at this
    | other => have := h.2; rw [hdel] at this; simp at this

/-- the statement without the restriction on the members -/
def external_cancel_propagates_groups_full : Prop :=
  ∀ (p : Prog), NoCatch p → EvenP p → ∀ (now c : Int), now % 2 = 0 → c % 2 = 1 → now ≤ c →
    (run true p { now := now, cancelAt := some c }).2.1.cancelAt = none →
    (run true p { now := now, cancelAt := some c }).1 = some .cancelled

/-- F33: a member that needs 8 to die.  `timeout_after(10){ TaskGroup[..]{ sleep 100 } }`,
`cancel()` at 5: the clean-up is still awaiting the member when the deadline passes at 10 - the
task ends with `TaskTimeout` (and the member is abandoned).  With `cancel()` at 13 the deadline
has fired first and the cancel lands in its clean-up: `TaskTimeout` again. -/
def f23 : Prog := .block false true 10 (.group false [(100, 8)] (.sleep 100))

theorem external_cancel_propagates_groups_full_fails : ¬ external_cancel_propagates_groups_full := by
  intro h
  have := h f23 (by simp [f23, NoCatch]) (by simp [f23, EvenP]) 0 5 (by decide) (by decide)
    (by decide) (by decide)
  revert this
  decide

example : (run true f23 { cancelAt := some 5 }).1 = some .taskTimeout ∧
    (run true f23 { cancelAt := some 5 }).2.2 =
      [.gexit (some .cancelled) 1 10, .exit 10 (some .taskTimeout) true 10] ∧
    (run true f23 { cancelAt := some 13 }).1 = some .taskTimeout ∧
    (run true f23 { cancelAt := some 13 }).2.1.cancelAt = none := by decide

/-- non-vacuity of the positive theorem: the same program with a member that dies at once, and a
nest with an earlier handled inner timeout, a group inside a block inside a group -/
example : (run true (.block false true 10 (.group false [(100, 0)] (.sleep 100)))
      { cancelAt := some 5 }).2.1.cancelAt = none ∧
    (run true (.block false true 10 (.group false [(100, 0)] (.sleep 100)))
      { cancelAt := some 5 }).1 = some .cancelled := by decide
example : (run true (.group false [(30, 0)] (.block false true 20 (.seq
      (.tryCatch (.block false true 2 (.sleep 100)) [.taskTimeout] .skip)
      (.group false [(6, 0), (40, 0)] (.sleep 100))))) { cancelAt := some 7 }).1 = some .cancelled := by
  decide

/-- A cancel at the very instant at which a member finishes by itself (outside the parity side
condition of the theorem: member completions are even instants).  The model places it after the
completions of its instant have been booked and before anybody has acted on them (the cancel
wins over the joiner's wake-up): the finished member is not swept, the others are, the task ends
`Cancelled`.  This placement ('done' in the harness) is compared with the real code by the
correspondence; the neighbouring loop iterations are judged by the oracle only. -/
example : (run true (.group true [(6, 0), (40, 4)] .skip) { cancelAt := some 6 }).1 = some .cancelled ∧
    (run true (.group true [(6, 0), (40, 4)] .skip) { cancelAt := some 6 }).2.2 =
      [.gexit (some .cancelled) 0 10] ∧
    (run true (.group false [(6, 0), (40, 0)] (.sleep 2)) { cancelAt := some 40 }).1 = some .cancelled := by
  decide

/-! ### the clean-up a group promises -/

theorem doSleep_mono (s : TS) (d : Nat) : s.now ≤ (doSleep s d).2.now := by
  have hw : s.now ≤ (wakeUp s d).2.now := by simp [wakeUp]; omega
  have ht : ∀ a, s.now ≤ (timerFire s a).2.now := fun a => (clampT_ge _ _).1
  have hc : ∀ c, s.now ≤ (cancelFire s c).2.now := fun c => (clampT_ge _ _).1
  unfold doSleep
  repeat' split
  all_goals first | exact hw | exact ht _ | exact hc _

theorem sweep_left_zero (R : List (Nat × Nat)) (r : Res) (s : TS) (hR : ∀ m ∈ R, m.2 = 0) :
    (sweep R r s).2.2 = 0 := by
  unfold sweep
  split
  · rfl
  · split
    · rfl
    · rename_i e s' heq
      have hmono := doSleep_mono s (maxNat (R.map (·.2)))
      rw [heq] at hmono
      simp only [] at hmono ⊢
      rw [List.length_eq_zero_iff, List.filter_eq_nil_iff]
      intro m hm
      have := hR m hm
      simp only [decide_eq_true_eq]
      omega

theorem gexit_left_zero (anyp : Bool) (T : Int) (ms : List (Nat × Nat)) (r : Res) (s : TS)
    (hR : ∀ m ∈ ms, m.2 = 0) : (gexit anyp T ms r s).2.2 = 0 := by
  have hsub : ∀ now, ∀ m ∈ runningAt T ms now, m.2 = 0 := by
    intro now m hm; exact hR m (List.mem_filter.1 hm).1
  unfold gexit
  split
  · exact sweep_left_zero _ _ _ (hsub _)
  · split
    · rfl
    · split
      · exact sweep_left_zero _ _ _ (hsub _)
      · split
        · split
          · exact sweep_left_zero _ _ _ (hsub _)
          · rfl
        · exact sweep_left_zero _ _ _ (hsub _)

/-- **Every member is cancelled and awaited.**  In every program (any handlers) whose group
members die at once, every group is left with no member still running - on every path: normal
completion, an exception from the body, a timeout, an external cancellation, even a clean-up that
is itself interrupted. -/
theorem prompt_groups_leave_nobody (fixed : Bool) (p : Prog) : ∀ (s : TS), Prompt p →
    ∀ ev ∈ (run fixed p s).2.2, ∀ r n t, ev = Ev.gexit r n t → n = 0 := by
  induction p with
  | skip => intro s _ ev hev; simp [run] at hev
  | sleep d => intro s _ ev hev; simp [run] at hev
  | raise e => intro s _ ev hev; simp [run] at hev
  | seq a b iha ihb =>
    intro s hp ev hev
    simp only [run] at hev
    split at hev
    · exact iha s hp.1 ev hev
    · rcases List.mem_append.1 hev with h1 | h1
      · exact iha s hp.1 ev h1
      · exact ihb _ hp.2 ev h1
  | tryCatch b cs hd ihb ihh =>
    intro s hp ev hev
    simp only [run] at hev
    split at hev
    · split at hev
      · rcases List.mem_append.1 hev with h1 | h1
        · exact ihb s hp.1 ev h1
        · exact ihh _ hp.2 ev h1
      · exact ihb s hp.1 ev hev
    · exact ihb s hp.1 ev hev
  | block ig rel t body ih =>
    intro s hp ev hev
    simp only [run] at hev
    rcases List.mem_append.1 hev with h1 | h1
    · exact ih _ hp ev h1
    · intro r n tt he
      simp only [List.mem_singleton] at h1
      rw [h1] at he; cases he
  | group anyp ms body ih =>
    intro s hp ev hev
    simp only [run] at hev
    rcases List.mem_append.1 hev with h1 | h1
    · exact ih s hp.2 ev h1
    · intro r n tt he
      simp only [List.mem_singleton] at h1
      rw [h1] at he
      cases he
      exact gexit_left_zero _ _ _ _ _ hp.1

/-- with slow members it is false: F11 (the clean-up is interrupted a second time) -/
example : (run true (.block false true 10 (.group false [(100, 8)] (.sleep 100))) { cancelAt := some 5 }).2.2
    = [.gexit (some .cancelled) 1 10, .exit 10 (some .taskTimeout) true 10] := by decide

end Aiorpcx.C11
