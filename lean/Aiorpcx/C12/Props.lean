import Aiorpcx.C12.Aexit
namespace Aiorpcx.C11

theorem ResOK_rebase {s s1 s2 : TS} {r : Res} (h : s1.cancelAt = s.cancelAt) (hr : ResOK s1 s2 r) :
    ResOK s s2 r := by
  cases r with
  | none => simpa [ResOK, h] using hr
  | some e => cases e <;> simpa [ResOK, Delivered, h] using hr

theorem Post_trans {s s1 s2 : TS} {r : Res} (h1 : Post s s1 none) (h2 : Post s1 s2 r) : Post s s2 r := by
  obtain ⟨d1, _, _, n1, r1⟩ := h1
  obtain ⟨d2, i2, k2, n2, r2⟩ := h2
  exact ⟨by rw [d2, d1], i2, k2, by omega, ResOK_rebase r1.2 r2⟩

theorem Post_refl (s : TS) (h : Good s) (r : Res)
    (hr : r = none ∨ r = some .taskTimeout ∨ r = some .uncaught ∨ r = some .other) : Post s s r := by
  refine ⟨rfl, h.1, h.2.1, by omega, ?_⟩
  rcases hr with rfl | rfl | rfl | rfl <;> exact ⟨h.2.2, rfl⟩

theorem good_of_post {s s1 : TS} {r : Res} (h : Post s s1 r)
    (hr : r = none ∨ r = some .taskTimeout ∨ r = some .uncaught ∨ r = some .other) :
    Good s1 ∧ s1.cancelAt = s.cancelAt := by
  obtain ⟨_, i, k, _, ro⟩ := h
  rcases hr with rfl | rfl | rfl | rfl <;> exact ⟨⟨i, k, ro.1⟩, ro.2⟩

/-- main invariant: every program, from every good state, re-establishes the postcondition -/
theorem run_post (p : Prog) : ∀ (s : TS), NoCatch p → Flat p → Good s →
    Post s (run true p s).2.1 (run true p s).1 := by
  induction p with
  | skip => intro s _ _ h; simpa [run] using Post_refl s h none (Or.inl rfl)
  | sleep d => intro s _ _ h; simpa [run] using doSleep_post s d h
  | raise e =>
    intro s hp hf h
    simp only [run]
    cases e with
    | cancelled => exact absurd rfl hp.1
    | tce => exact absurd rfl hp.2
    | taskTimeout => exact Post_refl s h _ (by simp)
    | uncaught => exact Post_refl s h _ (by simp)
    | other => exact Post_refl s h _ (by simp)
  | seq a b iha ihb =>
    intro s hp hf h
    have ha := iha s hp.1 hf.1 h
    simp only [run]
    split
    · rename_i e he; rw [he] at ha; simpa [he] using ha
    · rename_i he
      rw [he] at ha
      have hg := good_of_post ha (Or.inl rfl)
      show Post s (run true b (run true a s).2.1).2.1 (run true b (run true a s).2.1).1
      exact Post_trans ha (ihb _ hp.2 hf.2 hg.1)
  | tryCatch b cs hd ihb ihh =>
    intro s hp hf h
    have hb := ihb s hp.1 hf.1 h
    simp only [run]
    split
    · rename_i e he
      split
      · rename_i hin
        rw [he] at hb
        have hcatch : some e = none ∨ some e = some Exc.taskTimeout ∨ some e = some Exc.uncaught ∨
            some e = some Exc.other := by
          cases e with
          | cancelled => exact absurd (by simpa using hin) hp.2.2.1
          | tce => exact absurd (by simpa using hin) hp.2.2.2
          | taskTimeout => simp
          | uncaught => simp
          | other => simp
        have hg := good_of_post hb hcatch
        have hh := ihh _ hp.2.1 hf.2 hg.1
        obtain ⟨d1, _, _, n1, _⟩ := hb
        obtain ⟨d2, i2, k2, n2, r2⟩ := hh
        show Post s (run true hd (run true b s).2.1).2.1 (run true hd (run true b s).2.1).1
        exact ⟨by rw [d2, d1], i2, k2, by omega, ResOK_rebase hg.2 r2⟩
      · rw [he] at hb; simpa [he] using hb
    · rename_i he; rw [he] at hb; simpa [he] using hb
  | block ig rel t body ih =>
    intro s hp hf h
    simp only [run]
    exact aexit_post ig _ s _ _ (ih _ hp hf (enter_good s _ h))
  | group anyp ms body _ => intro s _ hf; exact absurd hf id

/-- **C12** on the repaired model: for every program that does not itself catch or raise the
    cancellation family, every start time and every external-cancel instant: if the cancel request
    is delivered (the task was still suspended when it came), the task ends `Cancelled` — whatever
    inner timeouts expired and were handled before, including equal deadlines. -/
theorem external_cancel_propagates (p : Prog) (hp : NoCatch p) (hf : Flat p) (now c : Int) :
    (run true p { now := now, cancelAt := some c }).2.1.cancelAt = none →
    (run true p { now := now, cancelAt := some c }).1 = some .cancelled := by
  intro hdel
  have hgood : Good ({ now := now, cancelAt := some c } : TS) := by
    refine ⟨Or.inl rfl, ?_, ?_⟩ <;> intro m hm <;> simp at hm
  have h := (run_post p _ hp hf hgood).2.2.2.2
  generalize (run true p { now := now, cancelAt := some c }).1 = r at h
  cases r with
  | none => have := h.2; rw [hdel] at this; simp at this
  | some e =>
    cases e with
    | cancelled => rfl
    | tce => have := h.1; rw [hdel] at this; simp at this
    | taskTimeout => have := h.2; rw [hdel] at this; simp at this
    | uncaught => have := h.2; rw [hdel] at this; simp at this
    | other => have := h.2; rw [hdel] at this; simp at this

/-- the pinned `__aexit__` violates it: F13 -/
theorem external_cancel_propagates_fails_pinned :
    NoCatch f13 ∧ Flat f13 ∧ (run false f13 { cancelAt := some 5 }).2.1.cancelAt = none ∧
    (run false f13 { cancelAt := some 5 }).1 = some .uncaught := by
  refine ⟨by simp [f13, NoCatch], by simp [f13, Flat], by decide, by decide⟩

/-- non-vacuity: on the repaired model the same program, same instant, is delivered and ends Cancelled -/
example : (run true f13 { cancelAt := some 5 }).2.1.cancelAt = none ∧
    (run true f13 { cancelAt := some 5 }).1 = some .cancelled := by decide

end Aiorpcx.C11
