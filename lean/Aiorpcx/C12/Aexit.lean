import Aiorpcx.C12.Inv
namespace Aiorpcx.C11

theorem aexit_self (ig : Bool) (d : Int) (s1 : TS) (r : Res) (hf : isCancelFamily r = true)
    (h1 : s1.marker = some d) :
    aexit true ig d r s1 = (if ig then none else some .taskTimeout, true, (unset s1).2.2) := by
  simp [aexit, unset, h1, hf]

theorem aexit_nofam (ig : Bool) (d : Int) (s1 : TS) (r : Res) (hf : isCancelFamily r = false) :
    aexit true ig d r s1 = (r, false, (unset s1).2.2) := by
  simp [aexit, unset, hf]

theorem aexit_none (ig : Bool) (d : Int) (s1 : TS) (r : Res) (hm : s1.marker = none) :
    aexit true ig d r s1 = (r, false, (unset s1).2.2) := by
  cases hf : isCancelFamily r <;> simp [aexit, unset, hm, hf]

theorem aexit_stale (ig : Bool) (d m : Int) (s1 : TS) (r : Res) (hf : isCancelFamily r = true)
    (hm : s1.marker = some m) (hmd : m ≠ d) (hmem : m ∉ s1.deadlines) :
    aexit true ig d r s1 =
      (if r = some .taskTimeout then some .uncaught else r, false, (unset s1).2.2) := by
  cases r with
  | none => simp [isCancelFamily] at hf
  | some e => cases e <;> simp [aexit, unset, hm, hmd, hmem, isCancelFamily] at hf ⊢

theorem aexit_active (ig : Bool) (d m : Int) (s1 : TS) (r : Res) (hf : isCancelFamily r = true)
    (hm : s1.marker = some m) (hmd : m ≠ d) (hmem : m ∈ s1.deadlines) :
    aexit true ig d r s1 = (some .tce, false, (unset s1).2.2) := by
  cases r with
  | none => simp [isCancelFamily] at hf
  | some e => cases e <;> simp [aexit, unset, hm, hmd, hmem, isCancelFamily] at hf ⊢

/-- the exit of a block (repaired `__aexit__`) preserves the postcondition -/
theorem aexit_post (ig : Bool) (d : Int) (s s1 : TS) (r : Res)
    (hpost : Post (enter s d) s1 r) :
    Post s (aexit true ig d r s1).2.2 (aexit true ig d r s1).1 := by
  obtain ⟨hds, hI, hK, hnow, hres⟩ := hpost
  have hds1 : s1.deadlines = s.deadlines ++ [d] := by rw [hds]; simp [enter]
  have hJ2 : Jj (unset s1).2.2 := unset_J s1 hK
  have hc0 : (enter s d).cancelAt = s.cancelAt := by simp [enter]
  have hn0 : (enter s d).now = s.now := by simp [enter]
  have hmk : (unset s1).2.2.marker = s1.marker := by simp [unset]
  have hcz : (unset s1).2.2.cancelAt = s1.cancelAt := by simp [unset]
  have hdz : (unset s1).2.2.deadlines = s.deadlines := by simp [unset, hds1]
  have base : ∀ r', ResOK s (unset s1).2.2 r' → Post s (unset s1).2.2 r' := by
    intro r' hr
    refine ⟨hdz, Or.inr rfl, ?_, ?_, hr⟩
    · intro m hm; exact hK m (by simpa [unset] using hm)
    · simp [unset]; omega
  -- results after which the program may continue
  have cont : ∀ r', (r' = none ∨ r' = some .taskTimeout ∨ r' = some .uncaught ∨ r' = some .other) →
      s1.cancelAt = s.cancelAt → Post s (unset s1).2.2 r' := by
    intro r' hr hc
    apply base
    have h2 : Jj (unset s1).2.2 ∧ (unset s1).2.2.cancelAt = s.cancelAt := ⟨hJ2, by rw [hcz, hc]⟩
    rcases hr with rfl | rfl | rfl | rfl <;> exact h2
  -- a timer-caused cancellation that still belongs to an enclosing block
  have act : ∀ m, s1.marker = some m → m ≠ d → m ∈ s1.deadlines → s1.cancelAt = s.cancelAt →
      Post s (unset s1).2.2 (some .tce) := by
    intro m hm hmd hmem hc
    apply base
    refine ⟨by rw [hcz, hc], m, by rw [hmk, hm], ?_⟩
    rw [hdz]; rw [hds1] at hmem; exact mem_of_mem_append_single hmem hmd
  cases r with
  | none =>
    rw [aexit_nofam _ _ _ _ rfl]
    exact cont _ (Or.inl rfl) (by rw [hres.2, hc0])
  | some e =>
    cases e with
    | other =>
      rw [aexit_nofam _ _ _ _ rfl]
      exact cont _ (by simp) (by rw [hres.2, hc0])
    | uncaught =>
      rw [aexit_nofam _ _ _ _ rfl]
      exact cont _ (by simp) (by rw [hres.2, hc0])
    | taskTimeout =>
      have hc : s1.cancelAt = s.cancelAt := by rw [hres.2, hc0]
      cases hm : s1.marker with
      | none => rw [aexit_none _ _ _ _ hm]; exact cont _ (by simp) hc
      | some m =>
        by_cases hmd : m = d
        · subst hmd
          rw [aexit_self _ _ _ _ rfl hm]
          cases ig <;> exact cont _ (by simp) hc
        · by_cases hmem : m ∈ s1.deadlines
          · rw [aexit_active _ _ _ _ _ rfl hm hmd hmem]; exact act m hm hmd hmem hc
          · rw [aexit_stale _ _ _ _ _ rfl hm hmd hmem]; exact cont _ (by simp) hc
    | tce =>
      obtain ⟨hc1, m, hm, hmem⟩ := hres
      have hc : s1.cancelAt = s.cancelAt := by rw [hc1, hc0]
      by_cases hmd : m = d
      · subst hmd
        rw [aexit_self _ _ _ _ rfl hm]
        cases ig <;> exact cont _ (by simp) hc
      · rw [aexit_active _ _ _ _ _ rfl hm hmd hmem]; exact act m hm hmd hmem hc
    | cancelled =>
      rcases hres with ⟨⟨hd1, hd2⟩, hst⟩ | ⟨hc1, m, hm, hmem⟩
      · -- a delivered external cancellation passes through unchanged
        have hdel : Delivered s (unset s1).2.2 := ⟨by rw [← hc0]; exact hd1, by rw [hcz]; exact hd2⟩
        cases hm : s1.marker with
        | none =>
          rw [aexit_none _ _ _ _ hm]
          exact base _ (Or.inl ⟨hdel, by intro m h; rw [hmk, hm] at h; simp at h⟩)
        | some m =>
          have hnm : m ∉ s1.deadlines := hst m hm
          have hmd : m ≠ d := by intro h; apply hnm; rw [hds1, h]; simp
          rw [aexit_stale _ _ _ _ _ rfl hm hmd hnm]
          simp only []
          refine base _ (Or.inl ⟨hdel, ?_⟩)
          intro m' h'; rw [hmk, hm] at h'; simp at h'; subst h'
          rw [hdz]; intro hc; apply hnm; rw [hds1]; simp [hc]
      · have hc : s1.cancelAt = s.cancelAt := by rw [hc1, hc0]
        by_cases hmd : m = d
        · subst hmd
          rw [aexit_self _ _ _ _ rfl hm]
          cases ig <;> exact cont _ (by simp) hc
        · rw [aexit_active _ _ _ _ _ rfl hm hmd hmem]; exact act m hm hmd hmem hc

end Aiorpcx.C11
