import Aiorpcx.C11.Stack
namespace Aiorpcx.C11

/-- programs that neither raise nor catch the cancellation family themselves -/
def NoCatch : Prog → Prop
  | .skip => True
  | .sleep _ => True
  | .raise e => e ≠ .cancelled ∧ e ≠ .tce
  | .seq a b => NoCatch a ∧ NoCatch b
  | .block _ _ _ b => NoCatch b
  | .tryCatch b cs h => NoCatch b ∧ NoCatch h ∧ Exc.cancelled ∉ cs ∧ Exc.tce ∉ cs
  | .group _ _ b => NoCatch b

/-- programs without task groups (no clean-up ever awaits while an exception is in flight) -/
def Flat : Prog → Prop
  | .skip => True
  | .sleep _ => True
  | .raise _ => True
  | .seq a b => Flat a ∧ Flat b
  | .block _ _ _ b => Flat b
  | .tryCatch b _ h => Flat b ∧ Flat h
  | .group _ _ _ => False

def Stale (s : TS) : Prop := ∀ m, s.marker = some m → m ∉ s.deadlines
def Jj (s : TS) : Prop :=
  ∀ m, s.marker = some m → m ∈ s.deadlines → ∃ a, s.armed = some a ∧ a ≤ s.now
def Active (s : TS) : Prop := ∃ m, s.marker = some m ∧ m ∈ s.deadlines
def Delivered (s s' : TS) : Prop := s.cancelAt ≠ none ∧ s'.cancelAt = none
def Good (s : TS) : Prop := Inv s ∧ Kk s ∧ Jj s

def ResOK (s s' : TS) : Res → Prop
  | some .cancelled => (Delivered s s' ∧ Stale s') ∨ (s'.cancelAt = s.cancelAt ∧ Active s')
  | some .tce => s'.cancelAt = s.cancelAt ∧ Active s'
  | _ => Jj s' ∧ s'.cancelAt = s.cancelAt

def Post (s s' : TS) (r : Res) : Prop :=
  s'.deadlines = s.deadlines ∧ Inv s' ∧ Kk s' ∧ s.now ≤ s'.now ∧ ResOK s s' r

theorem minL_mem : ∀ (ds : List Int) (m : Int), minL ds = some m → m ∈ ds := by
  intro ds
  induction ds with
  | nil => intro m h; simp [minL] at h
  | cons x xs ih =>
    intro m h
    simp only [minL] at h
    cases hx : minL xs with
    | none => simp [hx] at h; simp [h]
    | some m' =>
      simp [hx] at h
      split at h
      · simp [← h]
      · have := ih m' hx; simp [← h, this]

theorem minL_le : ∀ (ds : List Int) (x : Int), x ∈ ds → ∃ m, minL ds = some m ∧ m ≤ x := by
  intro ds
  induction ds with
  | nil => intro x h; simp at h
  | cons y ys ih =>
    intro x hx
    simp only [minL]
    cases hy : minL ys with
    | none =>
      cases ys with
      | nil => simp at hx; simp [hx]
      | cons z zs =>
        have := ih z (by simp)
        rw [hy] at this; simp at this
    | some m' =>
      simp at hx
      rcases hx with rfl | hx
      · refine ⟨_, rfl, ?_⟩; split <;> omega
      · obtain ⟨m, hm, hle⟩ := ih x hx
        rw [hy] at hm; simp at hm; subst hm
        refine ⟨_, rfl, ?_⟩; split <;> omega

theorem clampT_of_le (now x : Int) (h : x ≤ now) : clampT now x = now := by
  unfold clampT; split <;> omega

theorem wakeUp_post (s : TS) (d : Nat) (h : Good s) : Post s (wakeUp s d).2 (wakeUp s d).1 := by
  obtain ⟨hI, hK, hJ⟩ := h
  unfold wakeUp Post
  refine ⟨rfl, hI, ?_, by simp; omega, ?_⟩
  · intro m hm; have := hK m hm; simp at *; omega
  · refine ⟨?_, rfl⟩
    intro m hm hmem
    obtain ⟨a, ha, hle⟩ := hJ m hm hmem
    exact ⟨a, ha, by simp; omega⟩

theorem timerFire_post (s : TS) (a : Int) (h : Good s) (ha : s.armed = some a) :
    Post s (timerFire s a).2 (timerFire s a).1 := by
  obtain ⟨hI, hK, hJ⟩ := h
  have hmem : a ∈ s.deadlines := by
    rcases hI with h0 | h0
    · rw [ha] at h0; simp at h0
    · rw [ha] at h0; exact minL_mem _ _ h0.symm
  unfold timerFire Post
  refine ⟨rfl, Or.inl rfl, ?_, (clampT_ge _ _).1, ?_⟩
  · intro m hm; simp at hm; subst hm; exact (clampT_ge _ _).2
  · exact Or.inr ⟨rfl, a, rfl, hmem⟩

theorem cancelFire_post (s : TS) (c : Int) (h : Good s) (hc : s.cancelAt = some c)
    (hfirst : ∀ a, s.armed = some a → ¬ clampT s.now a ≤ clampT s.now c) :
    Post s (cancelFire s c).2 (cancelFire s c).1 := by
  obtain ⟨hI, hK, hJ⟩ := h
  unfold cancelFire Post
  refine ⟨rfl, hI, ?_, (clampT_ge _ _).1, ?_⟩
  · intro m hm; have := hK m hm; have := (clampT_ge s.now c).1; simp at *; omega
  · refine Or.inl ⟨⟨by simp [hc], rfl⟩, ?_⟩
    intro m hm hmem
    obtain ⟨a, ha, hle⟩ := hJ m hm hmem
    have := hfirst a ha
    rw [clampT_of_le _ _ hle] at this
    exact this (clampT_ge _ _).1

theorem doSleep_post (s : TS) (d : Nat) (h : Good s) : Post s (doSleep s d).2 (doSleep s d).1 := by
  unfold doSleep
  split
  · exact wakeUp_post s d h
  · rename_i a ha hc
    split
    · exact timerFire_post s a h ha
    · exact wakeUp_post s d h
  · rename_i c ha hc
    split
    · exact cancelFire_post s c h hc (by intro a h2; rw [ha] at h2; simp at h2)
    · exact wakeUp_post s d h
  · rename_i a c ha hc
    split
    · split
      · exact timerFire_post s a h ha
      · exact wakeUp_post s d h
    · rename_i hlt
      split
      · exact cancelFire_post s c h hc (by intro a' h2; rw [ha] at h2; simp at h2; subst h2; exact hlt)
      · exact wakeUp_post s d h

theorem enter_good (s : TS) (d : Int) (h : Good s) : Good (enter s d) := by
  refine ⟨enter_inv s d h.1, ?_, ?_⟩
  · intro m hm; simp [enter] at hm
  · intro m hm; simp [enter] at hm

theorem unset_J (s : TS) (hK : Kk s) : Jj (unset s).2.2 := by
  intro m hm hmem
  simp only [unset] at hm hmem ⊢
  obtain ⟨a, ha, hle⟩ := minL_le _ _ hmem
  exact ⟨a, ha, by have := hK m hm; omega⟩

theorem mem_of_mem_append_single {ds : List Int} {d m : Int} (h : m ∈ ds ++ [d]) (hne : m ≠ d) :
    m ∈ ds := by
  simp at h; rcases h with h | h
  · exact h
  · exact absurd h hne

end Aiorpcx.C11
