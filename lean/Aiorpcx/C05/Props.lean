import Aiorpcx.C05.Recv
/-!
# C05 — no byte sequence from the peer can crash or wedge message processing

Model: `Aiorpcx.C05` (`Model.lean`): `receiveMessage g c o` is
`JSONRPCConnection.receive_message(message)` in connection state `c` (protocol + outstanding
keys), where `o : LoadsOutcome` is what `json.loads(message.decode())` did (a value or one of
its four ways to raise — trusted-base law L3) and `g : Guards` says which exceptions the code
turns into a `ProtocolError` where and whether it looks at `future.done()` before resolving a
future — **derived on every run from a decision table obtained by running the real functions**
on hostile inputs in every connection state (`Facts.C05.probeTable`, `Probe.lean`).  A connection
state is the protocol plus the outstanding entries, each with the state of its future (pending /
cancelled by a waiter that gave up / already resolved).  The theorems hold for every `g` that is
`adequate`; `facts_guards_adequate` is the proof obligation that the current tree is, and
`facts_probe_table_reproduced` that the model run with these guards gives, row by row, what the
real code did.  All statements are over **every** connection state, every outcome and every
payload value; no bound.
-/
namespace Aiorpcx.C05
open Aiorpcx.Py Aiorpcx.C04

/-! ## the structure of `receive_message` -/

/-- "the bytes were a response" as the library documents it (`message_to_item`): a JSON object
without a `method` member, or — for a protocol with batches — a non-empty array all of whose
members are objects with a `result` or an `error` member -/
def responseShaped (P : Proto) : LoadsOutcome → Bool
  | .value (.obj kvs) => !(J.hasKey kMethod kvs)
  | .value (.arr xs) => P.allowBatches && !xs.isEmpty && xs.all responseShapedMember
  | _ => false

/-- a well-formed error reply in protocol `P`'s format: one error response, or the batch of
the members' error responses (non-empty) -/
def WellFormedReply (P : Proto) : Reply → Prop
  | .single p => IsErrorReply P p
  | .batch ps => ps ≠ [] ∧ ∀ p ∈ ps, IsErrorReply P p

/-- what the message was, as a payload (`null` when it could not be decoded at all) -/
def payloadOf : LoadsOutcome → J
  | .value v => v
  | _ => .null

/-- the reply answers *this* message: a single error reply in `P`'s format carrying `null` or
the message's own `id` member; or the non-empty batch of error replies each of which carries
`null` or the `id` member of one of the members of the batch the message was -/
def ReplyTo (P : Proto) (o : LoadsOutcome) : Reply → Prop
  | .single r => IsErrorReplyTo P (payloadOf o) r
  | .batch rs => rs ≠ [] ∧ ∃ ms, payloadOf o = .arr ms ∧ ∀ r ∈ rs, ∃ p ∈ ms, IsErrorReplyTo P p r

theorem ReplyTo.wellFormed {P : Proto} {o : LoadsOutcome} {reply : Reply} (h : ReplyTo P o reply) :
    WellFormedReply P reply := by
  cases reply with
  | single r => exact h.isErrorReply
  | batch rs =>
    obtain ⟨hne, ms, _, hall⟩ := h
    refine ⟨hne, fun r hr => ?_⟩
    obtain ⟨p, _, hp⟩ := hall r hr
    exact hp.isErrorReply

/-- the protocol in force once `receive_message` has run its one-shot detection -/
def protoAfter (g : Guards) (c : Conn) (o : LoadsOutcome) : Proto :=
  if c.proto = .auto then
    match messageToPayload g.payload .auto o with
    | .ok main => detectProtocol main
    | .error _ => .auto
  else c.proto

theorem batch_proto (P : Proto) (p : J) (ps : List J) (rid : J)
    (h : payloadToItem P p = .ok (.batch ps, rid)) :
    P ≠ .v1 ∧ p = .arr ps ∧ ps ≠ [] := by
  cases p with
  | obj kvs =>
    simp only [payloadToItem] at h
    split at h
    · rcases processRequest_cases P (.obj kvs) (Or.inr rfl) with ⟨x, hx⟩ | ⟨_, _, _, _, hx⟩
      · rw [hx] at h
        -- a request item is never a batch
        unfold processRequest at hx
        split at hx <;> try cases hx
        split at hx <;> try cases hx
        rename_i item hbody
        injection h with h; injection h with h1 h2
        subst h1
        unfold processRequestBody at hbody
        simp only [asDict] at hbody
        split at hbody <;> try cases hbody
        split at hbody <;> try cases hbody
        split at hbody <;> try cases hbody
        split at hbody <;> cases hbody
      · rw [hx] at h; cases h
    · rcases processResponse_cases P (.obj kvs) (Or.inr rfl) with ⟨v, r, hx⟩ | ⟨_, _, _, hx⟩
      · rw [hx] at h; cases h
      · rw [hx] at h; cases h
  | arr xs =>
    simp only [payloadToItem] at h
    split at h
    · rename_i hb
      split at h
      · cases h
      · rename_i hne
        injection h with h; injection h with h1 h2; injection h1 with h1
        subst h1
        refine ⟨by intro hv; subst hv; simp [Proto.allowBatches] at hb, rfl, ?_⟩
        intro hnil; subst hnil; simp at hne
    · cases h
  | null | bool _ | int _ | float _ | str _ => simp [payloadToItem] at h

/-- the decoder proper never raises anything but `ProtocolError`
(C04 `decode_only_protocol_errors`, through its core lemma: C05 must not depend on C04's facts) -/
theorem payloadToItem_noPy (P : Proto) (p : J) : NoPy (payloadToItem P p) := by
  intro e he
  rcases decode_only_protocol_errors_core P p with ⟨x, hx⟩ | ⟨pe, hx, _⟩
  · rw [hx] at he; cases he
  · rw [hx] at he; cases he

theorem messageToItem_noPy (g : Guards) (hg : adequate g = true) (P : Proto) (o : LoadsOutcome) :
    NoPy (messageToItem g.payload P o) := by
  intro e he
  unfold messageToItem at he
  cases hp : messageToPayload g.payload P o with
  | error x =>
    rw [hp] at he
    simp only at he
    injection he with he; subst he
    exact messageToPayload_noPy g hg P o e hp
  | ok payload =>
    rw [hp] at he
    exact payloadToItem_noPy P payload e he

/-- how the table of outstanding entries changed when the entry `en` was removed: it was the
entry a response id named, or the entry a sorted tuple of response ids named -/
def Removed (c c' : Conn) (en : Entry) : Prop :=
  (∃ rid, findSingle rid c.out = some en ∧ c'.out = popSingle rid c.out) ∨
  (∃ ids, findBatch ids c.out = some en ∧ c'.out = popBatch ids c.out)

/-- Outcome classes of `receive_message`; every case of the code lands in one of them. -/
inductive Outcome (g : Guards) (c : Conn) (o : LoadsOutcome) : Conn × R Recv → Prop where
  /-- returned `[item, …]`, nothing else happened -/
  | items (c' : Conn) (items : List (Item × J)) (hout : c'.out = c.out) :
      Outcome g c o (c', .ok { items := items })
  /-- returned `[]` after resolving the pending future of exactly one outstanding entry -/
  | completed (c' : Conn) (en : Entry) (v : Completion) (hk : en ∈ c.out)
      (hp : en.fut = .pending) (hout : Removed c c' en) :
      Outcome g c o (c', .ok { completed := some (en.key, v) })
  /-- returned `[]` after dropping exactly one outstanding entry whose future was already done
  (the waiter had given up, or somebody else resolved it): nothing is resolved a second time -/
  | discarded (c' : Conn) (en : Entry) (hk : en ∈ c.out)
      (hp : en.fut ≠ .pending) (hout : Removed c c' en) :
      Outcome g c o (c', .ok { discarded := some en.key })
  /-- raised a `ProtocolError` carrying a well-formed reply to this message; outstanding
  requests untouched -/
  | errorWithReply (c' : Conn) (e : PErr) (reply : Reply) (hout : c'.out = c.out)
      (hr : e.errorMessage = some reply) (hto : ReplyTo c'.proto o reply) :
      Outcome g c o (c', .error (.proto e))
  /-- raised a `ProtocolError` without reply — only for bytes that were a response -/
  | errorNoReply (c' : Conn) (e : PErr) (hout : c'.out = c.out) (hr : e.errorMessage = none)
      (hresp : responseShaped c'.proto o = true) :
      Outcome g c o (c', .error (.proto e))

theorem Removed.transport {c c0 c' : Conn} {en : Entry} (h : Removed c c' en) (hout : c.out = c0.out) :
    Removed c0 c' en := by
  unfold Removed at *
  rw [← hout]; exact h

/-- the classes only talk about the outstanding entries of the starting state -/
theorem Outcome.transport {g : Guards} {c c0 : Conn} {o : LoadsOutcome} {r : Conn × R Recv}
    (h : Outcome g c o r) (hout : c.out = c0.out) : Outcome g c0 o r := by
  cases h with
  | items c'' items h => exact .items c'' items (by rw [h, hout])
  | completed c'' en v hk hp h =>
    exact .completed c'' en v (by rw [← hout]; exact hk) hp (h.transport hout)
  | discarded c'' en hk hp h =>
    exact .discarded c'' en (by rw [← hout]; exact hk) hp (h.transport hout)
  | errorWithReply c'' e reply h h1 h2 => exact .errorWithReply c'' e reply (by rw [h, hout]) h1 h2
  | errorNoReply c'' e h h1 h2 => exact .errorNoReply c'' e (by rw [h, hout]) h1 h2

theorem Outcome.noPy {g : Guards} {c : Conn} {o : LoadsOutcome} {r : Conn × R Recv}
    (h : Outcome g c o r) : (∃ x, r.2 = .ok x) ∨ (∃ e, r.2 = .error (.proto e)) := by
  cases h with
  | items c' items h => exact Or.inl ⟨_, rfl⟩
  | completed c' en v hk hp h => exact Or.inl ⟨_, rfl⟩
  | discarded c' en hk hp h => exact Or.inl ⟨_, rfl⟩
  | errorWithReply c' e reply h h1 h2 => exact Or.inr ⟨e, rfl⟩
  | errorNoReply c' e h h1 h2 => exact Or.inr ⟨e, rfl⟩

theorem messageToPayload_error (g : PayloadGuards) (P : Proto) (o : LoadsOutcome) (e : PErr)
    (h : messageToPayload g P o = .error (.proto e)) :
    ∃ reply, e.errorMessage = some reply ∧ ReplyTo P o reply ∧ e.responseMsgId = none := by
  unfold messageToPayload at h
  split at h
  · cases h
  · split at h
    · cases h
    · split at h
      · injection h with h; injection h with h; subst h
        exact ⟨_, rfl, ⟨_, _, _, Or.inl rfl, rfl⟩, rfl⟩
      · split at h
        · injection h with h; injection h with h; subst h
          exact ⟨_, rfl, ⟨_, _, _, Or.inl rfl, rfl⟩, rfl⟩
        · cases h

/-- errors of the decoder on a payload: a request-side error carries its reply (under the
payload's own id or null); a response-side error carries the response id and the payload was an
object without `method` -/
theorem payloadToItem_error (P : Proto) (p : J) (e : PErr)
    (h : payloadToItem P p = .error (.proto e)) :
    (∃ reply, e.errorMessage = some reply ∧ ReplyTo P (.value p) reply ∧ e.responseMsgId = none)
    ∨ (e.errorMessage = none ∧ (∃ rid, e.responseMsgId = some rid)
        ∧ ∃ kvs, p = .obj kvs ∧ J.hasKey kMethod kvs = false) := by
  cases p with
  | obj kvs =>
    simp only [payloadToItem] at h
    split at h
    · rcases processRequest_cases P (.obj kvs) (Or.inr rfl) with ⟨x, hx⟩ | ⟨code, msg, rid, hid, hx⟩
      · rw [hx] at h; cases h
      · rw [hx] at h; injection h with h; injection h with h; subst h
        exact Or.inl ⟨_, rfl, ⟨_, _, _, hid, rfl⟩, rfl⟩
    · rename_i hm
      rcases processResponse_cases P (.obj kvs) (Or.inr rfl) with ⟨v, r, hx⟩ | ⟨code, msg, rid, hx⟩
      · rw [hx] at h; cases h
      · rw [hx] at h; injection h with h; injection h with h; subst h
        exact Or.inr ⟨rfl, ⟨rid, rfl⟩, kvs, rfl, by simpa using hm⟩
  | arr xs =>
    simp only [payloadToItem] at h
    split at h
    · split at h
      · injection h with h; injection h with h; subst h
        exact Or.inl ⟨_, rfl, ⟨_, _, _, Or.inl rfl, rfl⟩, rfl⟩
      · cases h
    · injection h with h; injection h with h; subst h
      exact Or.inl ⟨_, rfl, ⟨_, _, _, Or.inl rfl, rfl⟩, rfl⟩
  | null | bool _ | int _ | float _ | str _ =>
    simp only [payloadToItem] at h
    injection h with h; injection h with h; subst h
    exact Or.inl ⟨_, rfl, ⟨_, _, _, Or.inl rfl, rfl⟩, rfl⟩

/-- **Structure theorem**: whatever the connection state and whatever `json.loads` did,
`receive_message` ends in one of the five `Outcome` classes. -/
theorem receive_outcome (g : Guards) (hg : adequate g = true) (c : Conn) (o : LoadsOutcome) :
    Outcome g c o (receiveMessage g c o) := by
  have hrecv : PyExc.protocolError.caughtBy g.recv = true := ((adequate_iff g).1 hg).2.2.2.1
  unfold receiveMessage
  -- the one-shot protocol switch
  by_cases hauto : c.proto = .auto
  · simp only [hauto, if_true]
    cases hp : messageToPayload g.payload .auto o with
    | error x =>
      cases x with
      | py e => exact absurd hp (messageToPayload_noPy g hg .auto o e)
      | proto e =>
        obtain ⟨reply, h1, h2, _⟩ := messageToPayload_error _ _ _ _ hp
        exact .errorWithReply c e reply rfl h1 (by rw [hauto]; exact h2)
    | ok main =>
      simp only
      -- from here on the connection is `c` with the detected protocol (same outstanding keys)
      exact (receive_core g hg hrecv { c with proto := detectProtocol main } o).transport rfl
  · simp only [hauto, if_false]
    exact receive_core g hg hrecv c o
where
  /-- the part of `receive_message` after the protocol switch -/
  receive_core (g : Guards) (hg : adequate g = true)
      (hrecv : PyExc.protocolError.caughtBy g.recv = true) (c : Conn) (o : LoadsOutcome) :
      Outcome g c o
        (match messageToItem g.payload c.proto o with
          | .error e =>
              if e.cls.caughtBy g.recv then
                match e with
                | .proto pe =>
                    match pe.responseMsgId with
                    | some rid => receiveResponse g c (.protoError pe.code pe.msg) rid
                    | none => (c, .error e)
                | .py _ => (c, .error (.py .attributeError))
              else (c, .error e)
          | .ok (.request m a, rid) => (c, .ok { items := [(.request m a, rid)] })
          | .ok (.notification m a, rid) => (c, .ok { items := [(.notification m a, rid)] })
          | .ok (.response v, rid) => receiveResponse g c v rid
          | .ok (.batch payloads, _) =>
              if payloads.all responseShapedMember then receiveResponseBatch g c payloads
              else receiveRequestBatch g c payloads) := by
    cases hm : messageToItem g.payload c.proto o with
    | error x =>
      cases x with
      | py e => exact absurd hm (messageToItem_noPy g hg c.proto o e)
      | proto pe =>
        simp only [Exc.cls, hrecv, if_true]
        -- where did the error come from?
        unfold messageToItem at hm
        cases hp : messageToPayload g.payload c.proto o with
        | error x =>
          rw [hp] at hm
          simp only at hm
          injection hm with hm; subst hm
          obtain ⟨reply, h1, h2, h3⟩ := messageToPayload_error _ _ _ _ hp
          simp only [h3]
          exact .errorWithReply c pe reply rfl h1 h2
        | ok payload =>
          rw [hp] at hm
          simp only at hm
          have hval : o = .value payload := by
            unfold messageToPayload at hp
            split at hp
            · injection hp with hp; subst hp; rfl
            · split at hp
              · cases hp
              · split at hp
                · cases hp
                · split at hp <;> cases hp
          rcases payloadToItem_error c.proto payload pe hm with
            ⟨reply, h1, h2, h3⟩ | ⟨h1, ⟨rid, h2⟩, kvs, h3, h4⟩
          · simp only [h3]
            exact .errorWithReply c pe reply rfl h1 (by rw [hval]; exact h2)
          · simp only [h2]
            rcases receiveResponse_cases g hg c (.protoError pe.code pe.msg) rid with
              ⟨en, hk, hf, hpend, heq⟩ | ⟨en, hk, hf, hpend, heq⟩ | ⟨e, heq, he1, _⟩
            · rw [heq]
              exact .completed _ en _ hk hpend (Or.inl ⟨rid, hf, rfl⟩)
            · rw [heq]
              exact .discarded _ en hk hpend (Or.inl ⟨rid, hf, rfl⟩)
            · rw [heq]
              refine .errorNoReply c e rfl he1 ?_
              subst hval; subst h3
              simp [responseShaped, h4]
    | ok x =>
      obtain ⟨item, rid⟩ := x
      have hval : ∃ payload, o = .value payload ∧ payloadToItem c.proto payload = .ok (item, rid) := by
        unfold messageToItem at hm
        cases hp : messageToPayload g.payload c.proto o with
        | error x => rw [hp] at hm; cases hm
        | ok payload =>
          rw [hp] at hm
          refine ⟨payload, ?_, hm⟩
          unfold messageToPayload at hp
          split at hp
          · injection hp with hp; subst hp; rfl
          · split at hp
            · cases hp
            · split at hp
              · cases hp
              · split at hp <;> cases hp
      obtain ⟨payload, hval, hitem⟩ := hval
      cases item with
      | request m a => exact .items c _ rfl
      | notification m a => exact .items c _ rfl
      | response v =>
        simp only
        rcases receiveResponse_cases g hg c v rid with
          ⟨en, hk, hf, hpend, heq⟩ | ⟨en, hk, hf, hpend, heq⟩ | ⟨e, heq, he1, _⟩
        · rw [heq]
          exact .completed _ en _ hk hpend (Or.inl ⟨rid, hf, rfl⟩)
        · rw [heq]
          exact .discarded _ en hk hpend (Or.inl ⟨rid, hf, rfl⟩)
        · rw [heq]
          refine .errorNoReply c e rfl he1 ?_
          -- a response item comes from an object without `method`
          subst hval
          cases payload with
          | obj kvs =>
            simp only [payloadToItem] at hitem
            split at hitem
            · rcases processRequest_cases c.proto (.obj kvs) (Or.inr rfl) with ⟨x, hx⟩ | ⟨_, _, _, _, hx⟩
              · exfalso
                rw [hx] at hitem
                unfold processRequest at hx
                split at hx <;> try cases hx
                split at hx <;> try cases hx
                rename_i item hbody
                injection hitem with hitem; injection hitem with h1 h2
                subst h1
                unfold processRequestBody at hbody
                simp only [asDict] at hbody
                split at hbody <;> try cases hbody
                split at hbody <;> try cases hbody
                split at hbody <;> try cases hbody
                split at hbody <;> cases hbody
              · rw [hx] at hitem; cases hitem
            · rename_i hmeth
              simp [responseShaped, hmeth]
          | arr xs =>
            simp only [payloadToItem] at hitem
            split at hitem
            · split at hitem <;> cases hitem
            · cases hitem
          | null | bool _ | int _ | float _ | str _ => simp [payloadToItem] at hitem
      | batch ps =>
        obtain ⟨hP, hp, hne⟩ := batch_proto c.proto payload ps rid hitem
        simp only
        split
        · rename_i hall
          rcases receiveResponseBatch_cases g hg c hP ps with
            ⟨en, vs, ids, hk, hf, hpend, heq⟩ | ⟨en, ids, hk, hf, hpend, heq⟩ | ⟨e, heq, he1⟩
          · rw [heq]
            exact .completed _ en _ hk hpend (Or.inr ⟨ids, hf, rfl⟩)
          · rw [heq]
            exact .discarded _ en hk hpend (Or.inr ⟨ids, hf, rfl⟩)
          · rw [heq]
            refine .errorNoReply c e rfl he1 ?_
            subst hval; subst hp
            have hab : c.proto.allowBatches = true := by
              cases hcp : c.proto <;> simp_all [Proto.allowBatches]
            cases ps with
            | nil => exact absurd rfl hne
            | cons x xs => simp [responseShaped, hab, hall]
        · rcases receiveRequestBatch_cases g hg c hP ps with ⟨items, heq⟩ | ⟨parts, hne', hparts, heq⟩
          · rw [heq]; exact .items c items rfl
          · rw [heq]
            exact .errorWithReply c _ (.batch parts) rfl rfl
              ⟨hne', ps, by rw [hval, hp]; rfl, hparts⟩

/-- the error replies the theorems speak of are in the wire format of the protocol in force:
2.0 — `"jsonrpc":"2.0"`, an `error` object with an integer code and a string message, no
`result`; 1.0 — `"result": null` and the `error` object; both carry an `id` member -/
theorem error_reply_conforms (P : Proto) (reply : J) (h : IsErrorReply P reply) :
    ∃ kvs code msg rid, reply = .obj kvs
      ∧ J.lookup kError kvs = some (errorObj (.int code) (.str msg))
      ∧ J.lookup kId kvs = some rid
      ∧ (P ≠ .v1 → J.lookup kJsonrpc kvs = some s20 ∧ J.lookup kResult kvs = none)
      ∧ (P = .v1 → J.lookup kResult kvs = some .null) := by
  obtain ⟨code, msg, rid, rfl⟩ := h
  cases P <;> exact ⟨_, code, msg, rid, rfl, by lk, by lk, by intro h; first | exact absurd rfl h | exact ⟨by lk, by lk⟩,
    by intro h; first | exact absurd h (by decide) | lk⟩
/-! ## The property's clauses as corollaries -/

/-- **only_protocol_error** — handing a connection any bytes has two outcomes: items to process
or a `ProtocolError`; no other exception escapes, whatever is outstanding (pending, abandoned
or already resolved requests and batches alike). -/
theorem only_protocol_error (g : Guards) (hg : adequate g = true) (c : Conn) (o : LoadsOutcome) :
    (∃ r, (receiveMessage g c o).2 = .ok r) ∨ (∃ e, (receiveMessage g c o).2 = .error (.proto e)) := by
  exact (receive_outcome g hg c o).noPy

/-- **non_response_errors_carry_reply** — if the bytes were not a response, a `ProtocolError`
carries a well-formed error reply in the format of the protocol in force, and the reply answers
this very message (`ReplyTo`): one error response under the request's own `id` or `null`, or the
batch of the members' error responses, each under `null` or the `id` of a member of the batch
received. -/
theorem non_response_errors_carry_reply (g : Guards) (hg : adequate g = true) (c c' : Conn)
    (o : LoadsOutcome) (e : PErr) (h : receiveMessage g c o = (c', .error (.proto e)))
    (hnr : responseShaped c'.proto o = false) :
    ∃ reply, e.errorMessage = some reply ∧ WellFormedReply c'.proto reply
      ∧ ReplyTo c'.proto o reply := by
  have ho := receive_outcome g hg c o
  rw [h] at ho
  cases ho with
  | errorWithReply _ _ reply _ h1 h2 => exact ⟨reply, h1, h2.wellFormed, h2⟩
  | errorNoReply _ _ _ _ h2 => rw [h2] at hnr; cases hnr

/-- `ReplyTo` spelled out for a single reply: it is the error payload of the protocol, and its
`id` is `null` or the value of the `id` member of the JSON object the peer sent -/
theorem reply_id_is_requests_or_null (P : Proto) (o : LoadsOutcome) (r : J)
    (h : ReplyTo P o (.single r)) :
    ∃ code msg rid, r = errorPayload P (.int code) (.str msg) rid ∧
      (rid = .null ∨ ∃ kvs, o = .value (.obj kvs) ∧ J.lookup kId kvs = some rid) := by
  obtain ⟨code, msg, rid, hid, hr⟩ := h
  refine ⟨code, msg, rid, hr, ?_⟩
  rcases hid with hid | ⟨kvs, hp, hl⟩
  · exact Or.inl hid
  · refine Or.inr ⟨kvs, ?_, hl⟩
    cases o <;> simp [payloadOf] at hp
    rw [hp]

/-- non-vacuity: a 2.0 request with ill-typed `params` and id 3 is refused with a reply under
id 3; undecodable bytes are refused with a reply under `null` -/
example :
    ∃ e, (receiveMessage Guards.repaired ⟨.v2, []⟩
      (.value (.obj [(kJsonrpc, s20), (kMethod, .str (lit "m")), (kParams, .int 5), (kId, .int 3)]))).2
        = .error (.proto e)
      ∧ e.errorMessage = some (.single (errorPayload .v2 (.int INVALID_ARGS)
          (.str (lit "invalid request arguments")) (.int 3))) :=
  ⟨mkError .v2 INVALID_ARGS (lit "invalid request arguments") true (.int 3), by decide, rfl⟩
example :
    ∃ e, (receiveMessage Guards.repaired ⟨.v1, []⟩ .unicodeError).2 = .error (.proto e)
      ∧ e.errorMessage = some (.single (errorPayload .v1 (.int PARSE_ERROR)
          (.str (lit "messages must be encoded in UTF-8")) .null)) :=
  ⟨mkError .v1 PARSE_ERROR (lit "messages must be encoded in UTF-8") true .null, by decide, rfl⟩

/-- **outstanding_undisturbed** — an erroring message leaves the outstanding requests exactly
as they were; a message that returns either leaves them alone too, or removes exactly one
outstanding entry — the one its id(s) name — and resolves that entry's future if and only if
it was still pending (a future that is already done is never resolved a second time). -/
theorem outstanding_undisturbed (g : Guards) (hg : adequate g = true) (c c' : Conn)
    (o : LoadsOutcome) (res : R Recv) (h : receiveMessage g c o = (c', res)) :
    match res with
    | .error _ => c'.out = c.out
    | .ok r =>
        match r.completed, r.discarded with
        | none, none => c'.out = c.out
        | some (k, _), none => ∃ en ∈ c.out, en.key = k ∧ en.fut = .pending ∧ Removed c c' en
        | none, some k => ∃ en ∈ c.out, en.key = k ∧ en.fut ≠ .pending ∧ Removed c c' en
        | some _, some _ => False := by
  have ho := receive_outcome g hg c o
  rw [h] at ho
  cases ho with
  | items _ items hout => exact hout
  | completed _ en v hk hp hout => exact ⟨en, hk, rfl, hp, hout⟩
  | discarded _ en hk hp hout => exact ⟨en, hk, rfl, hp, hout⟩
  | errorWithReply _ e reply hout _ _ => exact hout
  | errorNoReply _ e hout _ _ => exact hout

theorem pyIn_of_findSingle (rid : J) (hh : rid.hashable = true) :
    ∀ (out : List Entry) (en : Entry), findSingle rid out = some en →
      pyIn rid (singleKeys out) = .ok true := by
  intro out en hk
  unfold pyIn
  simp only [hh, if_true]
  congr 1
  induction out with
  | nil => simp [findSingle] at hk
  | cons a r ih =>
    unfold findSingle at hk
    cases hka : a.key with
    | single i =>
      rw [hka] at hk
      simp only at hk
      by_cases hi : pyEq rid i = true
      · simp [singleKeys, hka, hi]
      · simp only [hi, Bool.false_eq_true, if_false] at hk
        have := ih hk
        simp only [singleKeys, List.filterMap_cons, hka, List.any_cons, Bool.or_eq_true]
        exact Or.inr (by simpa [singleKeys] using this)
    | batch ks =>
      rw [hka] at hk
      have := ih hk
      simpa [singleKeys, hka] using this

/-- whatever the guards: a response whose (hashable, non-bool) id names a listed entry pops
that entry and goes on to resolve its future -/
theorem receiveResponse_known (g : Guards) (c : Conn) (v : RespVal) (rid : J) (en : Entry)
    (hk : findSingle rid c.out = some en) (hh : rid.hashable = true) (hb : rid.isBool = false) :
    receiveResponse g c v rid =
      resolve g.doneSingle { c with out := popSingle rid c.out } en (.single v) := by
  unfold receiveResponse
  simp only [hb, Bool.false_eq_true, if_false, pyIn_of_findSingle rid hh c.out en hk, hk]

/-- a response (well-formed or malformed with a recoverable id) that names an outstanding
single request: the entry is removed; its future is resolved with the response exactly when it
was still pending, and left alone when the waiter had given up or somebody else resolved it —
in neither case is anything raised -/
theorem response_to_outstanding (g : Guards) (hg : adequate g = true) (c : Conn)
    (v : RespVal) (rid : J) (en : Entry) (hk : findSingle rid c.out = some en)
    (hh : rid.hashable = true) (hb : rid.isBool = false) :
    receiveResponse g c v rid =
      ({ c with out := popSingle rid c.out },
       .ok (if en.fut = .pending then { completed := some (en.key, .single v) }
            else { discarded := some en.key })) := by
  rcases receiveResponse_cases g hg c v rid with
    ⟨en', _, hf, hp, heq⟩ | ⟨en', _, hf, hp, heq⟩ | ⟨e, heq, _, _⟩
  · rw [hk] at hf; injection hf with hf; subst hf; rw [heq]; simp [hp]
  · rw [hk] at hf; injection hf with hf; subst hf; rw [heq]; simp [hp]
  · exfalso
    -- the id is known, so the unknown-id branch is impossible
    unfold receiveResponse at heq
    have hin := pyIn_of_findSingle rid hh c.out en hk
    simp only [hb, Bool.false_eq_true, if_false, hin, hk] at heq
    unfold resolve at heq
    have hd : g.doneSingle = true := ((adequate_iff g).1 hg).2.2.2.2.2.2.1
    rw [hd] at heq
    cases hfut : en.fut <;> rw [hfut] at heq <;> simp at heq

/-- a malformed response whose id is recoverable and outstanding (and still awaited) completes
exactly that request, exceptionally (with the `ProtocolError`), and nothing is raised -/
theorem bad_response_completes_its_request (g : Guards) (hg : adequate g = true) (c : Conn)
    (code : Int) (msg : Str) (rid : J) (en : Entry) (hk : findSingle rid c.out = some en)
    (hp : en.fut = .pending) (hh : rid.hashable = true) (hb : rid.isBool = false) :
    receiveResponse g c (.protoError code msg) rid =
      ({ c with out := popSingle rid c.out },
       .ok { completed := some (en.key, .single (.protoError code msg)) }) := by
  rw [response_to_outstanding g hg c _ rid en hk hh hb]; simp [hp]

/-- **late responses are harmless** — the peer's response to a request whose waiter has already
given up (future cancelled, entry still in the table: what `sent_request_timeout` leaves behind)
or whose future somebody else resolved is swallowed: the entry goes, nothing is raised -/
theorem late_response_is_harmless (g : Guards) (hg : adequate g = true) (c : Conn)
    (v : RespVal) (rid : J) (en : Entry) (hk : findSingle rid c.out = some en)
    (hp : en.fut ≠ .pending) (hh : rid.hashable = true) (hb : rid.isBool = false) :
    receiveResponse g c v rid =
      ({ c with out := popSingle rid c.out }, .ok { discarded := some en.key }) := by
  rw [response_to_outstanding g hg c _ rid en hk hh hb]; simp [hp]

/-- … and the `future.done()` test is what makes it so: the same code without it lets
`asyncio.InvalidStateError` escape `receive_message` for a single request and for a batch whose
waiter gave up, and the session's message loop dies with the transport open -/
theorem done_guard_needed :
    (receiveMessage { Guards.repaired with doneSingle := false }
      ⟨.v2, [⟨.single (.int 0), .cancelled⟩]⟩
      (.value (.obj [(kJsonrpc, s20), (kResult, .int 7), (kId, .int 0)]))).2
        = .error (.py invalidStateError)
    ∧ (receiveMessage { Guards.repaired with doneBatch := false }
      ⟨.v2, [⟨.batch [.int 0], .finished⟩]⟩
      (.value (.arr [.obj [(kJsonrpc, s20), (kResult, .int 7), (kId, .int 0)]]))).2
        = .error (.py invalidStateError)
    ∧ (loopStep { Guards.repaired with doneSingle := false }
        ⟨⟨.v2, [⟨.single (.int 0), .cancelled⟩]⟩, .receiving⟩
        (.value (.obj [(kJsonrpc, s20), (kResult, .int 7), (kId, .int 0)])) {}).1.phase = .dead := by
  refine ⟨by decide, by decide, by decide⟩

/-! ## Session level -/

/-- one loop iteration never leaves the session open-but-not-listening, provided the loop's own
bookkeeping and logging raise nothing (`env.quiet`, measured: `facts_loop_table_quiet`) -/
theorem loopStep_not_dead (g : Guards) (hg : adequate g = true) (s : Sess) (o : LoadsOutcome)
    (env : Env) (hq : env.quiet = true) (h : s.phase ≠ .dead) :
    (loopStep g s o env).1.phase ≠ .dead := by
  have hloop : PyExc.protocolError.caughtBy g.loop = true := ((adequate_iff g).1 hg).2.2.2.2.1
  simp only [Env.quiet, Bool.and_eq_true, Option.isNone_iff_eq_none] at hq
  obtain ⟨hpre, herr⟩ := hq
  unfold loopStep
  cases hph : s.phase with
  | dead => exact absurd hph h
  | closed => simp [hph]
  | receiving =>
    simp only [hpre]
    rcases only_protocol_error g hg s.conn o with ⟨r, hr⟩ | ⟨e, hr⟩
    · cases hrm : receiveMessage g s.conn o with
      | mk c res =>
        rw [hrm] at hr
        simp only at hr
        subst hr
        simp
    · cases hrm : receiveMessage g s.conn o with
      | mk c res =>
        rw [hrm] at hr
        simp only at hr
        subst hr
        simp only [Exc.cls, hloop, if_true, herr]
        cases e.errorMessage with
        | none => simp
        | some reply => cases env.send <;> simp

/-- **session_serving_or_closed** — after any sequence of received messages (and whatever the
transport does with the replies) the session is still in its receive loop or has closed the
connection; it is never left open but no longer listening.  Hypothesis: the loop's bookkeeping
(statistics, cost, the logging calls that are handed the peer's bytes) raises nothing. -/
theorem session_serving_or_closed (g : Guards) (hg : adequate g = true) (c : Conn)
    (msgs : List (LoadsOutcome × Env)) (hq : ∀ m ∈ msgs, m.2.quiet = true) :
    (runLoop g { conn := c, phase := .receiving } msgs).phase = .receiving ∨
    (runLoop g { conn := c, phase := .receiving } msgs).phase = .closed := by
  have key : ∀ (msgs : List (LoadsOutcome × Env)) (s : Sess), (∀ m ∈ msgs, m.2.quiet = true) →
      s.phase ≠ .dead → (runLoop g s msgs).phase ≠ .dead := by
    intro msgs
    induction msgs with
    | nil => intro s _ h; exact h
    | cons m rest ih =>
      intro s hq h
      obtain ⟨o, env⟩ := m
      exact ih _ (fun m hm => hq m (List.mem_cons_of_mem _ hm))
        (loopStep_not_dead g hg s o env (hq (o, env) (by simp)) h)
  have := key msgs { conn := c, phase := .receiving } hq (by simp)
  cases hp : (runLoop g { conn := c, phase := .receiving } msgs).phase with
  | receiving => exact Or.inl rfl
  | closed => exact Or.inr rfl
  | dead => exact absurd hp this

example : (runLoop Guards.repaired ⟨⟨.v2, [⟨.single (.int 0), .cancelled⟩]⟩, .receiving⟩
    [(.recursionError, {}), (.intDigitsValueError, {}),
     (.value (.obj [(kResult, .int 1), (kError, .null), (kId, .arr [.int 1])]), {}),
     (.value (.obj [(kJsonrpc, s20), (kResult, .int 1), (kId, .int 0)]), {})]).phase
    = .receiving := by decide

def Ev.quiet : Ev → Bool
  | .msg _ env => env.quiet
  | _ => true

/-- **session_serving_or_closed_interleaved** — the same for every interleaving of received
messages with what the local side does to the table of outstanding requests in between: sending
requests and batches, waiters giving up (their `sent_request_timeout` firing at any point
relative to the responses: the future is cancelled, the entry stays), futures resolved
elsewhere, entries removed.  "Whatever requests are outstanding", dynamically. -/
theorem session_serving_or_closed_interleaved (g : Guards) (hg : adequate g = true) (c : Conn)
    (evs : List Ev) (hq : ∀ e ∈ evs, e.quiet = true) :
    (runEvents g { conn := c, phase := .receiving } evs).phase = .receiving ∨
    (runEvents g { conn := c, phase := .receiving } evs).phase = .closed := by
  have key : ∀ (evs : List Ev) (s : Sess), (∀ e ∈ evs, e.quiet = true) →
      s.phase ≠ .dead → (runEvents g s evs).phase ≠ .dead := by
    intro evs
    induction evs with
    | nil => intro s _ h; exact h
    | cons e rest ih =>
      intro s hq h
      refine ih _ (fun e he => hq e (List.mem_cons_of_mem _ he)) ?_
      have hqe := hq e (by simp)
      cases e with
      | msg o env => exact loopStep_not_dead g hg s o env hqe h
      | sent k => exact h
      | gaveUp i => exact h
      | resolvedElsewhere i => exact h
      | forgotten i => exact h
  have := key evs { conn := c, phase := .receiving } hq (by simp)
  cases hp : (runEvents g { conn := c, phase := .receiving } evs).phase with
  | receiving => exact Or.inl rfl
  | closed => exact Or.inr rfl
  | dead => exact absurd hp this

/-- the race of seeded change C05-r2m2 as a history: the session sends request 0, the waiter
times out, and the peer's response is processed before anybody has removed the entry; then a
duplicate of it; the session keeps serving.  Without the `done()` test the first response
kills the loop. -/
example : (runEvents Guards.repaired ⟨⟨.v2, []⟩, .receiving⟩
    [.sent (.single (.int 0)), .gaveUp 0,
     .msg (.value (.obj [(kJsonrpc, s20), (kResult, .int 1), (kId, .int 0)])) {},
     .msg (.value (.obj [(kJsonrpc, s20), (kResult, .int 1), (kId, .int 0)])) {}]).phase
    = .receiving := by decide
example : (runEvents { Guards.repaired with doneSingle := false } ⟨⟨.v2, []⟩, .receiving⟩
    [.sent (.single (.int 0)), .gaveUp 0,
     .msg (.value (.obj [(kJsonrpc, s20), (kResult, .int 1), (kId, .int 0)])) {}]).phase
    = .dead := by decide

/-- the hypothesis of `session_serving_or_closed` is necessary: bookkeeping that raises — before
`receive_message`, or in the `except ProtocolError` handler (e.g. a debug line that decodes a
prefix of the message) — leaves the loop, and the session is open but no longer listening -/
theorem bookkeeping_raise_wedges (g : Guards) (c : Conn) (o : LoadsOutcome) (env : Env) (x : PyExc) :
    (env.preRaises = some x → (loopStep g ⟨c, .receiving⟩ o env).1.phase = .dead)
    ∧ (env.preRaises = none → env.errRaises = some x →
        PyExc.protocolError.caughtBy g.loop = true →
        (∃ c' e, receiveMessage g c o = (c', .error (.proto e))) →
        (loopStep g ⟨c, .receiving⟩ o env).1.phase = .dead) := by
  constructor
  · intro h; simp [loopStep, h]
  · intro hpre herr hloop ⟨c', e, hrm⟩
    simp [loopStep, hpre, hrm, herr, Exc.cls, hloop]

example : (loopStep Guards.repaired ⟨⟨.v2, []⟩, .receiving⟩
    (.value (.obj [(kJsonrpc, s20), (kResult, .int 1), (kId, .int 0)]))
    { errRaises := some .unicodeDecodeError }).1.phase = .dead := by decide

/-- "still serving": in the receive loop, a valid request in the connection's protocol is
handed to the request handler under its own id (its answer is C02/C03's concern); 2.0 and Loose
connections -/
theorem serving_answers_probe (g : Guards) (c : Conn) (hP : c.proto ≠ .v1 ∧ c.proto ≠ .auto)
    (m : Str) (args rid : J) (hargs : Args args) (hrid : ReqId rid) :
    ∃ p, requestPayload c.proto m args rid = .ok p ∧
      loopStep g { conn := c, phase := .receiving } (.value p) {} =
        ({ conn := c, phase := .receiving }, [.spawned [(.request m args, rid)]]) := by
  obtain ⟨p, h1, _, h3⟩ := roundtrip_request c.proto hP.1 m args rid hargs hrid
  refine ⟨p, h1, ?_⟩
  have hm : messageToItem g.payload c.proto (.value p) = .ok (.request m args, rid) := h3
  simp [loopStep, receiveMessage, hP.2, hm]

/-- … a 1.0 connection (positional arguments, any non-null id) -/
theorem serving_answers_probe_v1 (g : Guards) (c : Conn) (hP : c.proto = .v1)
    (m : Str) (xs : List J) (rid : J) (hrid : rid.isNone = false) :
    ∃ p, requestPayload .v1 m (.arr xs) rid = .ok p ∧
      loopStep g { conn := c, phase := .receiving } (.value p) {} =
        ({ conn := c, phase := .receiving }, [.spawned [(.request m (.arr xs), rid)]]) := by
  obtain ⟨p, h1, h3⟩ := roundtrip_request_v1 m xs rid hrid
  refine ⟨p, h1, ?_⟩
  have hm : messageToItem g.payload c.proto (.value p) = .ok (.request m (.arr xs), rid) := by
    rw [hP]; exact h3
  have hna : c.proto ≠ .auto := by rw [hP]; decide
  simp [loopStep, receiveMessage, hna, hm]

/-- the 2.0 request a peer sends is recognised as 2.0 by the auto-detection -/
theorem detect_request_v2 (m : Str) (args rid : J) (p : J)
    (h : requestPayload .v2 m args rid = .ok p) : detectProtocol p = .v2 := by
  simp only [requestPayload] at h
  injection h with h
  subst h
  simp only [detectProtocol, protocolForPayload]
  have : getD kJsonrpc
      ((if (!rid.isNone) = true then [(kJsonrpc, s20), (kMethod, J.str m)] ++ [(kId, rid)]
          else [(kJsonrpc, s20), (kMethod, J.str m)]) ++
        (if (args.truthy || pyEq args (J.obj [])) = true then [(kParams, args)] else [])) = s20 := by
    split <;> rfl
  split <;> simp_all [pyEq_s20]

/-- … and a connection still auto-detecting: the first valid 2.0 request fixes the protocol to
2.0 and is handed to the request handler -/
theorem serving_answers_probe_auto (g : Guards) (c : Conn) (hP : c.proto = .auto)
    (m : Str) (args rid : J) (hargs : Args args) (hrid : ReqId rid) :
    ∃ p, requestPayload .v2 m args rid = .ok p ∧
      loopStep g { conn := c, phase := .receiving } (.value p) {} =
        ({ conn := { c with proto := .v2 }, phase := .receiving },
         [.spawned [(.request m args, rid)]]) := by
  obtain ⟨p, h1, _, h3⟩ := roundtrip_request .v2 (by decide) m args rid hargs hrid
  refine ⟨p, h1, ?_⟩
  have hd := detect_request_v2 m args rid p h1
  have hm : messageToItem g.payload .v2 (.value p) = .ok (.request m args, rid) := h3
  have hpay : messageToPayload g.payload .auto (.value p) = .ok p := rfl
  simp [loopStep, receiveMessage, hP, hpay, hd, hm]

/-! ## The pinned tree: counter-examples (F4, F5, F6) as theorems about `Guards.pinned` -/

/-- F4: a 1.0 response whose id is a list → `TypeError: unhashable type` escapes -/
theorem F4_pinned_witness :
    (receiveMessage Guards.pinned ⟨.v1, [⟨.single (.int 0), .pending⟩, ⟨.single (.int 1), .pending⟩]⟩
      (.value (.obj [(kResult, .int 1), (kError, .null), (kId, .arr [.int 1])]))).2
      = .error (.py .typeError) := by decide

/-- … and the repaired tree turns it into a `ProtocolError` that disturbs nothing -/
theorem F4_repaired :
    ∃ e, receiveMessage Guards.repaired ⟨.v1, [⟨.single (.int 0), .pending⟩, ⟨.single (.int 1), .pending⟩]⟩
      (.value (.obj [(kResult, .int 1), (kError, .null), (kId, .arr [.int 1])]))
      = (⟨.v1, [⟨.single (.int 0), .pending⟩, ⟨.single (.int 1), .pending⟩]⟩, .error (.proto e)) :=
  ⟨invalidRequest "response to unsent request", by decide⟩

/-- F5: a 2.0 response batch with ids `0` and `"x"` (or `0` and `null`, or `null` and `null`)
→ `TypeError: '<' not supported` from `sorted` escapes -/
theorem F5_pinned_witness :
    (receiveMessage Guards.pinned ⟨.v2, [⟨.batch [.int 0, .int 1], .pending⟩]⟩
      (.value (.arr [.obj [(kJsonrpc, s20), (kResult, .int 1), (kId, .int 0)],
                     .obj [(kJsonrpc, s20), (kResult, .int 2), (kId, .str (lit "x"))]]))).2
      = .error (.py .typeError)
    ∧ (receiveMessage Guards.pinned ⟨.v2, [⟨.batch [.int 0, .int 1], .pending⟩]⟩
      (.value (.arr [.obj [(kJsonrpc, s20), (kResult, .int 1), (kId, .null)],
                     .obj [(kJsonrpc, s20), (kResult, .int 2), (kId, .null)]]))).2
      = .error (.py .typeError) := by
  constructor <;> decide

theorem F5_repaired :
    ∃ e, receiveMessage Guards.repaired ⟨.v2, [⟨.batch [.int 0, .int 1], .pending⟩]⟩
      (.value (.arr [.obj [(kJsonrpc, s20), (kResult, .int 1), (kId, .int 0)],
                     .obj [(kJsonrpc, s20), (kResult, .int 2), (kId, .str (lit "x"))]]))
      = (⟨.v2, [⟨.batch [.int 0, .int 1], .pending⟩]⟩, .error (.proto e)) :=
  ⟨invalidRequest "response to unsent batch", by decide⟩

/-- F6: `RecursionError` (deep nesting) and the plain `ValueError` of an over-long integer
literal escape `_message_to_payload`; at session level the message task dies with the
transport still open -/
theorem F6_pinned_witness (c : Conn) (hc : c.proto ≠ .auto) :
    (receiveMessage Guards.pinned c .recursionError).2 = .error (.py .recursionError)
    ∧ (receiveMessage Guards.pinned c .intDigitsValueError).2 = .error (.py .valueError)
    ∧ (loopStep Guards.pinned ⟨c, .receiving⟩ .recursionError {}).1.phase = .dead := by
  obtain ⟨P, out⟩ := c
  cases P <;> simp at hc <;> refine ⟨by rfl, by rfl, by rfl⟩

theorem pinned_not_adequate : adequate Guards.pinned = false := by decide
theorem repaired_adequate : adequate Guards.repaired = true := by decide

end Aiorpcx.C05
