import Aiorpcx.C05.Recv
import Aiorpcx.Facts.C05
/-!
# C05 — no byte sequence from the peer can crash or wedge message processing

Model: `Aiorpcx.C05` (`Model.lean`): `receiveMessage g c o` is
`JSONRPCConnection.receive_message(message)` in connection state `c` (protocol + outstanding
keys), where `o : LoadsOutcome` is what `json.loads(message.decode())` did (a value or one of
its four ways to raise — trusted-base law L3) and `g : Guards` are the caught-exception sets of
the `try` statements on the path, **read from the source tree on every run** (`Facts.C05.guards`).
The theorems hold for every `g` that is `adequate`; `facts_guards_adequate` is the proof
obligation that the current tree is.  All statements are over **every** connection state, every
outcome and every payload value; no bound.
-/
namespace Aiorpcx.C05
open Aiorpcx.Py Aiorpcx.C04

/-! ## the structure of `receive_message` -/

/-- "the bytes were a response" as the library documents it (`message_to_item`): a JSON object
without a `method` member, or — for a protocol with batches — a non-empty array all of whose
members are objects with a `result` or an `error` member -/
def responseShaped (P : Proto) : LoadsOutcome → Bool
  | .value (.obj kvs) => !(J.hasKey kMethod kvs)
  | .value (.arr xs) => P.allowBatches && !xs.isEmpty && xs.all responseShapedMember
  | _ => false

/-- a well-formed error reply in protocol `P`'s format: one error response, or the batch of
the members' error responses (non-empty) -/
def WellFormedReply (P : Proto) : Reply → Prop
  | .single p => IsErrorReply P p
  | .batch ps => ps ≠ [] ∧ ∀ p ∈ ps, IsErrorReply P p

/-- the protocol in force once `receive_message` has run its one-shot detection -/
def protoAfter (g : Guards) (c : Conn) (o : LoadsOutcome) : Proto :=
  if c.proto = .auto then
    match messageToPayload g.payload .auto o with
    | .ok main => detectProtocol main
    | .error _ => .auto
  else c.proto

theorem batch_proto (P : Proto) (p : J) (ps : List J) (rid : J)
    (h : payloadToItem P p = .ok (.batch ps, rid)) :
    P ≠ .v1 ∧ p = .arr ps ∧ ps ≠ [] := by
  cases p with
  | obj kvs =>
    simp only [payloadToItem] at h
    split at h
    · rcases processRequest_cases P (.obj kvs) (Or.inr rfl) with ⟨x, hx⟩ | ⟨_, _, _, hx⟩
      · rw [hx] at h
        -- a request item is never a batch
        unfold processRequest at hx
        split at hx <;> try cases hx
        split at hx <;> try cases hx
        rename_i item hbody
        injection h with h; injection h with h1 h2
        subst h1
        unfold processRequestBody at hbody
        simp only [asDict] at hbody
        split at hbody <;> try cases hbody
        split at hbody <;> try cases hbody
        split at hbody <;> try cases hbody
        split at hbody <;> cases hbody
      · rw [hx] at h; cases h
    · rcases processResponse_cases P (.obj kvs) (Or.inr rfl) with ⟨v, r, hx⟩ | ⟨_, _, _, hx⟩
      · rw [hx] at h; cases h
      · rw [hx] at h; cases h
  | arr xs =>
    simp only [payloadToItem] at h
    split at h
    · rename_i hb
      split at h
      · cases h
      · rename_i hne
        injection h with h; injection h with h1 h2; injection h1 with h1
        subst h1
        refine ⟨by intro hv; subst hv; simp [Proto.allowBatches] at hb, rfl, ?_⟩
        intro hnil; subst hnil; simp at hne
    · cases h
  | null | bool _ | int _ | float _ | str _ => simp [payloadToItem] at h

/-- the decoder proper never raises anything but `ProtocolError`
(C04 `decode_only_protocol_errors`, through its core lemma: C05 must not depend on C04's facts) -/
theorem payloadToItem_noPy (P : Proto) (p : J) : NoPy (payloadToItem P p) := by
  intro e he
  rcases decode_only_protocol_errors_core P p with ⟨x, hx⟩ | ⟨pe, hx, _⟩
  · rw [hx] at he; cases he
  · rw [hx] at he; cases he

theorem messageToItem_noPy (g : Guards) (hg : adequate g = true) (P : Proto) (o : LoadsOutcome) :
    NoPy (messageToItem g.payload P o) := by
  intro e he
  unfold messageToItem at he
  cases hp : messageToPayload g.payload P o with
  | error x =>
    rw [hp] at he
    simp only at he
    injection he with he; subst he
    exact messageToPayload_noPy g hg P o e hp
  | ok payload =>
    rw [hp] at he
    exact payloadToItem_noPy P payload e he

/-- Outcome classes of `receive_message`; every case of the code lands in one of them. -/
inductive Outcome (g : Guards) (c : Conn) (o : LoadsOutcome) : Conn × R Recv → Prop where
  /-- returned `[item, …]`, nothing else happened -/
  | items (c' : Conn) (items : List (Item × J)) (hout : c'.out = c.out) :
      Outcome g c o (c', .ok { items := items })
  /-- returned `[]` after resolving exactly one outstanding key -/
  | completed (c' : Conn) (k : Key) (v : Completion) (hk : k ∈ c.out)
      (hout : (∃ rid, findSingle rid c.out = some k ∧ c'.out = popSingle rid c.out) ∨
              (∃ ids, findBatch ids c.out = some k ∧ c'.out = popBatch ids c.out)) :
      Outcome g c o (c', .ok { completed := some (k, v) })
  /-- raised a `ProtocolError` carrying a well-formed reply; outstanding requests untouched -/
  | errorWithReply (c' : Conn) (e : PErr) (reply : Reply) (hout : c'.out = c.out)
      (hr : e.errorMessage = some reply) (hwf : WellFormedReply c'.proto reply) :
      Outcome g c o (c', .error (.proto e))
  /-- raised a `ProtocolError` without reply — only for bytes that were a response -/
  | errorNoReply (c' : Conn) (e : PErr) (hout : c'.out = c.out) (hr : e.errorMessage = none)
      (hresp : responseShaped c'.proto o = true) :
      Outcome g c o (c', .error (.proto e))

/-- the classes only talk about the outstanding keys of the starting state -/
theorem Outcome.transport {g : Guards} {c c0 : Conn} {o : LoadsOutcome} {r : Conn × R Recv}
    (h : Outcome g c o r) (hout : c.out = c0.out) : Outcome g c0 o r := by
  cases h with
  | items c'' items h => exact .items c'' items (by rw [h, hout])
  | completed c'' k v hk h =>
    exact .completed c'' k v (by rw [← hout]; exact hk) (by rw [← hout]; exact h)
  | errorWithReply c'' e reply h h1 h2 => exact .errorWithReply c'' e reply (by rw [h, hout]) h1 h2
  | errorNoReply c'' e h h1 h2 => exact .errorNoReply c'' e (by rw [h, hout]) h1 h2

theorem Outcome.noPy {g : Guards} {c : Conn} {o : LoadsOutcome} {r : Conn × R Recv}
    (h : Outcome g c o r) : (∃ x, r.2 = .ok x) ∨ (∃ e, r.2 = .error (.proto e)) := by
  cases h with
  | items c' items h => exact Or.inl ⟨_, rfl⟩
  | completed c' k v hk h => exact Or.inl ⟨_, rfl⟩
  | errorWithReply c' e reply h h1 h2 => exact Or.inr ⟨e, rfl⟩
  | errorNoReply c' e h h1 h2 => exact Or.inr ⟨e, rfl⟩

theorem mkError_reply (P : Proto) (code : Int) (msg : Str) (rid : J) :
    ∃ reply, (mkError P code msg true rid).errorMessage = some reply ∧ WellFormedReply P reply :=
  ⟨_, rfl, code, msg, rid, rfl⟩

theorem messageToPayload_error (g : PayloadGuards) (P : Proto) (o : LoadsOutcome) (e : PErr)
    (h : messageToPayload g P o = .error (.proto e)) :
    ∃ reply, e.errorMessage = some reply ∧ WellFormedReply P reply ∧ e.responseMsgId = none := by
  unfold messageToPayload at h
  split at h
  · cases h
  · split at h
    · cases h
    · split at h
      · injection h with h; injection h with h; subst h
        exact ⟨_, rfl, ⟨_, _, _, rfl⟩, rfl⟩
      · split at h
        · injection h with h; injection h with h; subst h
          exact ⟨_, rfl, ⟨_, _, _, rfl⟩, rfl⟩
        · cases h

/-- errors of the decoder on a payload: a request-side error carries its reply; a response-side
error carries the response id and the payload was an object without `method` -/
theorem payloadToItem_error (P : Proto) (p : J) (e : PErr)
    (h : payloadToItem P p = .error (.proto e)) :
    (∃ reply, e.errorMessage = some reply ∧ WellFormedReply P reply ∧ e.responseMsgId = none)
    ∨ (e.errorMessage = none ∧ (∃ rid, e.responseMsgId = some rid)
        ∧ ∃ kvs, p = .obj kvs ∧ J.hasKey kMethod kvs = false) := by
  cases p with
  | obj kvs =>
    simp only [payloadToItem] at h
    split at h
    · rcases processRequest_cases P (.obj kvs) (Or.inr rfl) with ⟨x, hx⟩ | ⟨code, msg, rid, hx⟩
      · rw [hx] at h; cases h
      · rw [hx] at h; injection h with h; injection h with h; subst h
        exact Or.inl ⟨_, rfl, ⟨_, _, _, rfl⟩, rfl⟩
    · rename_i hm
      rcases processResponse_cases P (.obj kvs) (Or.inr rfl) with ⟨v, r, hx⟩ | ⟨code, msg, rid, hx⟩
      · rw [hx] at h; cases h
      · rw [hx] at h; injection h with h; injection h with h; subst h
        exact Or.inr ⟨rfl, ⟨rid, rfl⟩, kvs, rfl, by simpa using hm⟩
  | arr xs =>
    simp only [payloadToItem] at h
    split at h
    · split at h
      · injection h with h; injection h with h; subst h
        exact Or.inl ⟨_, rfl, ⟨_, _, _, rfl⟩, rfl⟩
      · cases h
    · injection h with h; injection h with h; subst h
      exact Or.inl ⟨_, rfl, ⟨_, _, _, rfl⟩, rfl⟩
  | null | bool _ | int _ | float _ | str _ =>
    simp only [payloadToItem] at h
    injection h with h; injection h with h; subst h
    exact Or.inl ⟨_, rfl, ⟨_, _, _, rfl⟩, rfl⟩

/-- **Structure theorem**: whatever the connection state and whatever `json.loads` did,
`receive_message` ends in one of the four `Outcome` classes. -/
theorem receive_outcome (g : Guards) (hg : adequate g = true) (c : Conn) (o : LoadsOutcome) :
    Outcome g c o (receiveMessage g c o) := by
  have hrecv : PyExc.protocolError.caughtBy g.recv = true := by
    simp only [adequate, Bool.and_eq_true] at hg; exact hg.1.1.2
  unfold receiveMessage
  -- the one-shot protocol switch
  by_cases hauto : c.proto = .auto
  · simp only [hauto, if_true]
    cases hp : messageToPayload g.payload .auto o with
    | error x =>
      cases x with
      | py e => exact absurd hp (messageToPayload_noPy g hg .auto o e)
      | proto e =>
        obtain ⟨reply, h1, h2, _⟩ := messageToPayload_error _ _ _ _ hp
        exact .errorWithReply c e reply rfl h1 (by rw [hauto]; exact h2)
    | ok main =>
      simp only
      -- from here on the connection is `c` with the detected protocol (same outstanding keys)
      exact (receive_core g hg hrecv { c with proto := detectProtocol main } o).transport rfl
  · simp only [hauto, if_false]
    exact receive_core g hg hrecv c o
where
  /-- the part of `receive_message` after the protocol switch -/
  receive_core (g : Guards) (hg : adequate g = true)
      (hrecv : PyExc.protocolError.caughtBy g.recv = true) (c : Conn) (o : LoadsOutcome) :
      Outcome g c o
        (match messageToItem g.payload c.proto o with
          | .error e =>
              if e.cls.caughtBy g.recv then
                match e with
                | .proto pe =>
                    match pe.responseMsgId with
                    | some rid => receiveResponse g c (.protoError pe.code pe.msg) rid
                    | none => (c, .error e)
                | .py _ => (c, .error (.py .attributeError))
              else (c, .error e)
          | .ok (.request m a, rid) => (c, .ok { items := [(.request m a, rid)] })
          | .ok (.notification m a, rid) => (c, .ok { items := [(.notification m a, rid)] })
          | .ok (.response v, rid) => receiveResponse g c v rid
          | .ok (.batch payloads, _) =>
              if payloads.all responseShapedMember then receiveResponseBatch g c payloads
              else receiveRequestBatch g c payloads) := by
    cases hm : messageToItem g.payload c.proto o with
    | error x =>
      cases x with
      | py e => exact absurd hm (messageToItem_noPy g hg c.proto o e)
      | proto pe =>
        simp only [Exc.cls, hrecv, if_true]
        -- where did the error come from?
        unfold messageToItem at hm
        cases hp : messageToPayload g.payload c.proto o with
        | error x =>
          rw [hp] at hm
          simp only at hm
          injection hm with hm; subst hm
          obtain ⟨reply, h1, h2, h3⟩ := messageToPayload_error _ _ _ _ hp
          simp only [h3]
          exact .errorWithReply c pe reply rfl h1 h2
        | ok payload =>
          rw [hp] at hm
          simp only at hm
          have hval : o = .value payload := by
            unfold messageToPayload at hp
            split at hp
            · injection hp with hp; subst hp; rfl
            · split at hp
              · cases hp
              · split at hp
                · cases hp
                · split at hp <;> cases hp
          rcases payloadToItem_error c.proto payload pe hm with
            ⟨reply, h1, h2, h3⟩ | ⟨h1, ⟨rid, h2⟩, kvs, h3, h4⟩
          · simp only [h3]
            exact .errorWithReply c pe reply rfl h1 h2
          · simp only [h2]
            rcases receiveResponse_cases g hg c (.protoError pe.code pe.msg) rid with
              ⟨k, hk, hf, heq⟩ | ⟨e, heq, he1, _⟩
            · rw [heq]
              exact .completed _ k _ hk (Or.inl ⟨rid, hf, rfl⟩)
            · rw [heq]
              refine .errorNoReply c e rfl he1 ?_
              subst hval; subst h3
              simp [responseShaped, h4]
    | ok x =>
      obtain ⟨item, rid⟩ := x
      have hval : ∃ payload, o = .value payload ∧ payloadToItem c.proto payload = .ok (item, rid) := by
        unfold messageToItem at hm
        cases hp : messageToPayload g.payload c.proto o with
        | error x => rw [hp] at hm; cases hm
        | ok payload =>
          rw [hp] at hm
          refine ⟨payload, ?_, hm⟩
          unfold messageToPayload at hp
          split at hp
          · injection hp with hp; subst hp; rfl
          · split at hp
            · cases hp
            · split at hp
              · cases hp
              · split at hp <;> cases hp
      obtain ⟨payload, hval, hitem⟩ := hval
      cases item with
      | request m a => exact .items c _ rfl
      | notification m a => exact .items c _ rfl
      | response v =>
        simp only
        rcases receiveResponse_cases g hg c v rid with ⟨k, hk, hf, heq⟩ | ⟨e, heq, he1, _⟩
        · rw [heq]
          exact .completed _ k _ hk (Or.inl ⟨rid, hf, rfl⟩)
        · rw [heq]
          refine .errorNoReply c e rfl he1 ?_
          -- a response item comes from an object without `method`
          subst hval
          cases payload with
          | obj kvs =>
            simp only [payloadToItem] at hitem
            split at hitem
            · rcases processRequest_cases c.proto (.obj kvs) (Or.inr rfl) with ⟨x, hx⟩ | ⟨_, _, _, hx⟩
              · exfalso
                rw [hx] at hitem
                unfold processRequest at hx
                split at hx <;> try cases hx
                split at hx <;> try cases hx
                rename_i item hbody
                injection hitem with hitem; injection hitem with h1 h2
                subst h1
                unfold processRequestBody at hbody
                simp only [asDict] at hbody
                split at hbody <;> try cases hbody
                split at hbody <;> try cases hbody
                split at hbody <;> try cases hbody
                split at hbody <;> cases hbody
              · rw [hx] at hitem; cases hitem
            · rename_i hmeth
              simp [responseShaped, hmeth]
          | arr xs =>
            simp only [payloadToItem] at hitem
            split at hitem
            · split at hitem <;> cases hitem
            · cases hitem
          | null | bool _ | int _ | float _ | str _ => simp [payloadToItem] at hitem
      | batch ps =>
        obtain ⟨hP, hp, hne⟩ := batch_proto c.proto payload ps rid hitem
        simp only
        split
        · rename_i hall
          rcases receiveResponseBatch_cases g hg c hP ps with
            ⟨k, vs, ids, hk, hf, heq⟩ | ⟨e, heq, he1⟩
          · rw [heq]
            exact .completed _ k _ hk (Or.inr ⟨ids, hf, rfl⟩)
          · rw [heq]
            refine .errorNoReply c e rfl he1 ?_
            subst hval; subst hp
            have hab : c.proto.allowBatches = true := by
              cases hcp : c.proto <;> simp_all [Proto.allowBatches]
            cases ps with
            | nil => exact absurd rfl hne
            | cons x xs => simp [responseShaped, hab, hall]
        · rcases receiveRequestBatch_cases g hg c hP ps with ⟨items, heq⟩ | ⟨parts, hne', hparts, heq⟩
          · rw [heq]; exact .items c items rfl
          · rw [heq]
            exact .errorWithReply c _ (.batch parts) rfl rfl ⟨hne', hparts⟩

/-- the error replies the theorems speak of are in the wire format of the protocol in force:
2.0 — `"jsonrpc":"2.0"`, an `error` object with an integer code and a string message, no
`result`; 1.0 — `"result": null` and the `error` object; both carry an `id` member -/
theorem error_reply_conforms (P : Proto) (reply : J) (h : IsErrorReply P reply) :
    ∃ kvs code msg rid, reply = .obj kvs
      ∧ J.lookup kError kvs = some (errorObj (.int code) (.str msg))
      ∧ J.lookup kId kvs = some rid
      ∧ (P ≠ .v1 → J.lookup kJsonrpc kvs = some s20 ∧ J.lookup kResult kvs = none)
      ∧ (P = .v1 → J.lookup kResult kvs = some .null) := by
  obtain ⟨code, msg, rid, rfl⟩ := h
  cases P <;> exact ⟨_, code, msg, rid, rfl, by lk, by lk, by intro h; first | exact absurd rfl h | exact ⟨by lk, by lk⟩,
    by intro h; first | exact absurd h (by decide) | lk⟩
/-! ## The property's clauses as corollaries -/

/-- **only_protocol_error** — handing a connection any bytes has two outcomes: items to process
or a `ProtocolError`; no other exception escapes, whatever is outstanding. -/
theorem only_protocol_error (g : Guards) (hg : adequate g = true) (c : Conn) (o : LoadsOutcome) :
    (∃ r, (receiveMessage g c o).2 = .ok r) ∨ (∃ e, (receiveMessage g c o).2 = .error (.proto e)) := by
  exact (receive_outcome g hg c o).noPy

/-- **non_response_errors_carry_reply** — if the bytes were not a response, a `ProtocolError`
carries a well-formed error reply in the format of the protocol in force (one error response
with the request's id or null, or the batch of the members' error responses). -/
theorem non_response_errors_carry_reply (g : Guards) (hg : adequate g = true) (c c' : Conn)
    (o : LoadsOutcome) (e : PErr) (h : receiveMessage g c o = (c', .error (.proto e)))
    (hnr : responseShaped c'.proto o = false) :
    ∃ reply, e.errorMessage = some reply ∧ WellFormedReply c'.proto reply := by
  have ho := receive_outcome g hg c o
  rw [h] at ho
  cases ho with
  | errorWithReply _ _ reply _ h1 h2 => exact ⟨reply, h1, h2⟩
  | errorNoReply _ _ _ _ h2 => rw [h2] at hnr; cases hnr

/-- **outstanding_undisturbed** — an erroring message leaves the outstanding requests exactly
as they were; a message that returns either leaves them alone too or resolves exactly one
outstanding key, which is the one its id(s) name, and removes just that key. -/
theorem outstanding_undisturbed (g : Guards) (hg : adequate g = true) (c c' : Conn)
    (o : LoadsOutcome) (res : R Recv) (h : receiveMessage g c o = (c', res)) :
    match res with
    | .error _ => c'.out = c.out
    | .ok r =>
        match r.completed with
        | none => c'.out = c.out
        | some (k, _) => k ∈ c.out ∧
            ((∃ rid, findSingle rid c.out = some k ∧ c'.out = popSingle rid c.out) ∨
             (∃ ids, findBatch ids c.out = some k ∧ c'.out = popBatch ids c.out)) := by
  have ho := receive_outcome g hg c o
  rw [h] at ho
  cases ho with
  | items _ items hout => exact hout
  | completed _ k v hk hout => exact ⟨hk, hout⟩
  | errorWithReply _ e reply hout _ _ => exact hout
  | errorNoReply _ e hout _ _ => exact hout

/-- a malformed response whose id is recoverable and outstanding completes exactly that
request, exceptionally (with the `ProtocolError`), and nothing is raised -/
theorem bad_response_completes_its_request (g : Guards) (hg : adequate g = true) (c : Conn)
    (code : Int) (msg : Str) (rid : J) (k : Key) (hk : findSingle rid c.out = some k)
    (hh : rid.hashable = true) (hb : rid.isBool = false) :
    receiveResponse g c (.protoError code msg) rid =
      ({ c with out := popSingle rid c.out },
       .ok { completed := some (k, .single (.protoError code msg)) }) := by
  rcases receiveResponse_cases g hg c (.protoError code msg) rid with ⟨k', _, hf, heq⟩ | ⟨e, heq, _, _⟩
  · rw [hk] at hf; injection hf with hf; subst hf; exact heq
  · exfalso
    -- the id is known, so the unknown-id branch is impossible
    unfold receiveResponse at heq
    have hin : pyIn rid (singleKeys c.out) = .ok true := by
      unfold pyIn
      simp only [hh, if_true]
      congr 1
      clear heq
      generalize c.out = out at hk
      induction out with
      | nil => simp [findSingle] at hk
      | cons a r ih =>
        cases a with
        | single i =>
          simp only [findSingle] at hk
          by_cases hi : pyEq rid i = true
          · simp [singleKeys, hi]
          · simp only [hi, Bool.false_eq_true, if_false] at hk
            have := ih hk
            simp only [singleKeys, List.filterMap_cons, List.any_cons, Bool.or_eq_true]
            exact Or.inr (by simpa [singleKeys] using this)
        | batch ks =>
          simp only [findSingle] at hk
          have := ih hk
          simpa [singleKeys] using this
    simp only [hb, Bool.false_eq_true, if_false, hin, hk] at heq
    injection heq with _ h2
    cases h2

/-! ## Session level -/

/-- one loop iteration never leaves the session open-but-not-listening -/
theorem loopStep_not_dead (g : Guards) (hg : adequate g = true) (s : Sess) (o : LoadsOutcome)
    (send : SendOutcome) (h : s.phase ≠ .dead) : (loopStep g s o send).1.phase ≠ .dead := by
  have hloop : PyExc.protocolError.caughtBy g.loop = true := by
    simp only [adequate, Bool.and_eq_true] at hg; exact hg.1.2
  unfold loopStep
  cases hph : s.phase with
  | dead => exact absurd hph h
  | closed => simp [hph]
  | receiving =>
    simp only
    rcases only_protocol_error g hg s.conn o with ⟨r, hr⟩ | ⟨e, hr⟩
    · cases hrm : receiveMessage g s.conn o with
      | mk c res =>
        rw [hrm] at hr
        simp only at hr
        subst hr
        simp
    · cases hrm : receiveMessage g s.conn o with
      | mk c res =>
        rw [hrm] at hr
        simp only at hr
        subst hr
        simp only [Exc.cls, hloop, if_true]
        cases e.errorMessage with
        | none => simp
        | some reply => cases send <;> simp

/-- **session_serving_or_closed** — after any sequence of received messages (and whatever the
transport does with the replies) the session is still in its receive loop or has closed the
connection; it is never left open but no longer listening. -/
theorem session_serving_or_closed (g : Guards) (hg : adequate g = true) (c : Conn)
    (msgs : List (LoadsOutcome × SendOutcome)) :
    (runLoop g { conn := c, phase := .receiving } msgs).phase = .receiving ∨
    (runLoop g { conn := c, phase := .receiving } msgs).phase = .closed := by
  have key : ∀ (msgs : List (LoadsOutcome × SendOutcome)) (s : Sess), s.phase ≠ .dead →
      (runLoop g s msgs).phase ≠ .dead := by
    intro msgs
    induction msgs with
    | nil => intro s h; exact h
    | cons m rest ih =>
      intro s h
      obtain ⟨o, snd⟩ := m
      exact ih _ (loopStep_not_dead g hg s o snd h)
  have := key msgs { conn := c, phase := .receiving } (by simp)
  cases hp : (runLoop g { conn := c, phase := .receiving } msgs).phase with
  | receiving => exact Or.inl rfl
  | closed => exact Or.inr rfl
  | dead => exact absurd hp this

example : (runLoop Guards.repaired ⟨⟨.v2, [.single (.int 0)]⟩, .receiving⟩
    [(.recursionError, .sent), (.intDigitsValueError, .sent),
     (.value (.obj [(kResult, .int 1), (kError, .null), (kId, .arr [.int 1])]), .sent)]).phase
    = .receiving := by decide

/-- "still serving": in the receive loop, a valid request in the connection's protocol is
handed to the request handler under its own id (its answer is C02/C03's concern) -/
theorem serving_answers_probe (g : Guards) (c : Conn) (hP : c.proto ≠ .v1 ∧ c.proto ≠ .auto)
    (m : Str) (args rid : J) (hargs : Args args) (hrid : ReqId rid) :
    ∃ p, requestPayload c.proto m args rid = .ok p ∧
      loopStep g { conn := c, phase := .receiving } (.value p) .sent =
        ({ conn := c, phase := .receiving }, [.spawned [(.request m args, rid)]]) := by
  obtain ⟨p, h1, _, h3⟩ := roundtrip_request c.proto hP.1 m args rid hargs hrid
  refine ⟨p, h1, ?_⟩
  have hm : messageToItem g.payload c.proto (.value p) = .ok (.request m args, rid) := h3
  simp [loopStep, receiveMessage, hP.2, hm]

/-! ## The pinned tree: counter-examples (F4, F5, F6) as theorems about `Guards.pinned` -/

/-- F4: a 1.0 response whose id is a list → `TypeError: unhashable type` escapes -/
theorem F4_pinned_witness :
    (receiveMessage Guards.pinned ⟨.v1, [.single (.int 0), .single (.int 1)]⟩
      (.value (.obj [(kResult, .int 1), (kError, .null), (kId, .arr [.int 1])]))).2
      = .error (.py .typeError) := by decide

/-- … and the repaired tree turns it into a `ProtocolError` that disturbs nothing -/
theorem F4_repaired :
    ∃ e, receiveMessage Guards.repaired ⟨.v1, [.single (.int 0), .single (.int 1)]⟩
      (.value (.obj [(kResult, .int 1), (kError, .null), (kId, .arr [.int 1])]))
      = (⟨.v1, [.single (.int 0), .single (.int 1)]⟩, .error (.proto e)) :=
  ⟨invalidRequest "response to unsent request", by decide⟩

/-- F5: a 2.0 response batch with ids `0` and `"x"` (or `0` and `null`, or `null` and `null`)
→ `TypeError: '<' not supported` from `sorted` escapes -/
theorem F5_pinned_witness :
    (receiveMessage Guards.pinned ⟨.v2, [.batch [.int 0, .int 1]]⟩
      (.value (.arr [.obj [(kJsonrpc, s20), (kResult, .int 1), (kId, .int 0)],
                     .obj [(kJsonrpc, s20), (kResult, .int 2), (kId, .str (lit "x"))]]))).2
      = .error (.py .typeError)
    ∧ (receiveMessage Guards.pinned ⟨.v2, [.batch [.int 0, .int 1]]⟩
      (.value (.arr [.obj [(kJsonrpc, s20), (kResult, .int 1), (kId, .null)],
                     .obj [(kJsonrpc, s20), (kResult, .int 2), (kId, .null)]]))).2
      = .error (.py .typeError) := by
  constructor <;> decide

theorem F5_repaired :
    ∃ e, receiveMessage Guards.repaired ⟨.v2, [.batch [.int 0, .int 1]]⟩
      (.value (.arr [.obj [(kJsonrpc, s20), (kResult, .int 1), (kId, .int 0)],
                     .obj [(kJsonrpc, s20), (kResult, .int 2), (kId, .str (lit "x"))]]))
      = (⟨.v2, [.batch [.int 0, .int 1]]⟩, .error (.proto e)) :=
  ⟨invalidRequest "response to unsent batch", by decide⟩

/-- F6: `RecursionError` (deep nesting) and the plain `ValueError` of an over-long integer
literal escape `_message_to_payload`; at session level the message task dies with the
transport still open -/
theorem F6_pinned_witness (c : Conn) (hc : c.proto ≠ .auto) :
    (receiveMessage Guards.pinned c .recursionError).2 = .error (.py .recursionError)
    ∧ (receiveMessage Guards.pinned c .intDigitsValueError).2 = .error (.py .valueError)
    ∧ (loopStep Guards.pinned ⟨c, .receiving⟩ .recursionError .sent).1.phase = .dead := by
  obtain ⟨P, out⟩ := c
  cases P <;> simp at hc <;> refine ⟨by rfl, by rfl, by rfl⟩

theorem pinned_not_adequate : adequate Guards.pinned = false := by decide
theorem repaired_adequate : adequate Guards.repaired = true := by decide

/-! ## Facts tie: the guards read from /repo on this run -/

/-- **the proof obligation on the current source tree**: every `try` on the receive path
catches what the theorems above need it to catch -/
theorem facts_guards_adequate : adequate Facts.C05.guards = true := by decide

theorem facts_operations_located :
    Facts.C05.operationsLocated = true ∧ Facts.C05.sessionCatchesJsonrpcProtocolError = true := by
  decide

/-- the theorems, instantiated with the guards of the tree as it is now -/
theorem only_protocol_error_current (c : Conn) (o : LoadsOutcome) :
    (∃ r, (receiveMessage Facts.C05.guards c o).2 = .ok r)
    ∨ (∃ e, (receiveMessage Facts.C05.guards c o).2 = .error (.proto e)) :=
  only_protocol_error _ facts_guards_adequate c o

theorem session_serving_or_closed_current (c : Conn) (msgs : List (LoadsOutcome × SendOutcome)) :
    (runLoop Facts.C05.guards { conn := c, phase := .receiving } msgs).phase = .receiving ∨
    (runLoop Facts.C05.guards { conn := c, phase := .receiving } msgs).phase = .closed :=
  session_serving_or_closed _ facts_guards_adequate c msgs

end Aiorpcx.C05
