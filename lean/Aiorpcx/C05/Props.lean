import Aiorpcx.C05.Model
import Aiorpcx.Facts.C05
