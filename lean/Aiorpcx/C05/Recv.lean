import Aiorpcx.C05.Lemmas
import Aiorpcx.C04.Roundtrip
/-! `receive_message` and its helpers: what they can raise, what they do to the outstanding
requests, and what their errors carry. -/
namespace Aiorpcx.C05
open Aiorpcx.Py Aiorpcx.C04
set_option linter.unusedSimpArgs false

/-! ### the Python primitives -/

theorem pyIn_error (k : J) (keys : List J) (e : PyExc) (h : pyIn k keys = .error e) :
    e = .typeError := by
  unfold pyIn at h
  split at h
  · cases h
  · injection h with h; exact h.symm

theorem pySorted_error {α : Type} (key : α → J) (xs : List α) (e : PyExc)
    (h : pySorted key xs = .error e) : e = .typeError := by
  unfold pySorted at h
  split at h
  · cases h
  · split at h
    · cases h
    · injection h with h; exact h.symm

theorem pySorted_mem {α : Type} (key : α → J) (xs ys : List α) (h : pySorted key xs = .ok ys) :
    ∀ y ∈ ys, y ∈ xs := by
  unfold pySorted at h
  split at h
  · injection h with h; subst h; exact fun y hy => hy
  · split at h
    · injection h with h; subst h
      intro y hy
      exact (List.mergeSort_perm xs _).mem_iff.1 hy
    · cases h

theorem pySorted_length {α : Type} (key : α → J) (xs ys : List α) (h : pySorted key xs = .ok ys) :
    ys.length = xs.length := by
  unfold pySorted at h
  split at h
  · injection h with h; subst h; rfl
  · split at h
    · injection h with h; subst h
      exact (List.mergeSort_perm xs _).length_eq
    · cases h

/-! ### `_receive_response` -/

theorem findSingle_of_any (rid : J) :
    ∀ out : List Entry, (singleKeys out).any (pyEq rid) = true → ∃ en, findSingle rid out = some en
  | [], h => by simp [singleKeys] at h
  | en :: r, h => by
      unfold findSingle
      cases hk : en.key with
      | single i =>
        simp only
        by_cases hi : pyEq rid i = true
        · simp [hi]
        · simp only [hi, Bool.false_eq_true, if_false]
          apply findSingle_of_any rid r
          simp only [singleKeys, List.filterMap_cons, hk, List.any_cons] at h
          simpa [hi, singleKeys] using h
      | batch ks =>
        simp only
        apply findSingle_of_any rid r
        simpa [singleKeys, hk] using h

theorem findSingle_mem (rid : J) : ∀ (out : List Entry) (en : Entry),
    findSingle rid out = some en → en ∈ out
  | [], en, h => by simp [findSingle] at h
  | a :: r, en, h => by
      unfold findSingle at h
      cases hk : a.key with
      | single i =>
        rw [hk] at h
        simp only at h
        split at h
        · injection h with h; subst h; simp
        · exact List.mem_cons_of_mem _ (findSingle_mem rid r en h)
      | batch ks =>
        rw [hk] at h
        exact List.mem_cons_of_mem _ (findSingle_mem rid r en h)

/-- what popping an entry and resolving its future does when the code looks at `done()` first -/
theorem resolve_cases (c' : Conn) (en : Entry) (v : Completion) :
    (en.fut = .pending ∧ resolve true c' en v = (c', .ok { completed := some (en.key, v) }))
    ∨ (en.fut ≠ .pending ∧ resolve true c' en v = (c', .ok { discarded := some en.key })) := by
  unfold resolve
  cases en.fut <;> simp

/-- the things `_receive_response` can do: resolve the pending future of the entry the id names
and drop the entry; drop the entry whose future is already done; or refuse with a
`ProtocolError` that carries no reply -/
theorem receiveResponse_cases (g : Guards) (hg : adequate g = true) (c : Conn) (v : RespVal) (rid : J) :
    (∃ en, en ∈ c.out ∧ findSingle rid c.out = some en ∧ en.fut = .pending ∧
        receiveResponse g c v rid =
          ({ c with out := popSingle rid c.out }, .ok { completed := some (en.key, .single v) }))
    ∨ (∃ en, en ∈ c.out ∧ findSingle rid c.out = some en ∧ en.fut ≠ .pending ∧
        receiveResponse g c v rid =
          ({ c with out := popSingle rid c.out }, .ok { discarded := some en.key }))
    ∨ (∃ e, receiveResponse g c v rid = (c, .error (.proto e)) ∧ e.errorMessage = none
          ∧ e.responseMsgId = none) := by
  have hl : PyExc.typeError.caughtBy g.lookup = true := ((adequate_iff g).1 hg).2.1
  have hd : g.doneSingle = true := ((adequate_iff g).1 hg).2.2.2.2.2.2.1
  unfold receiveResponse
  cases hb : rid.isBool with
  | true => exact Or.inr (Or.inr ⟨_, rfl, rfl, rfl⟩)
  | false =>
    simp only [Bool.false_eq_true, if_false]
    cases hin : pyIn rid (singleKeys c.out) with
    | error e =>
      have := pyIn_error _ _ _ hin; subst this
      simp only [hl, if_true]
      exact Or.inr (Or.inr ⟨_, rfl, rfl, rfl⟩)
    | ok b =>
      cases b with
      | false => exact Or.inr (Or.inr ⟨_, rfl, rfl, rfl⟩)
      | true =>
        have hany : (singleKeys c.out).any (pyEq rid) = true := by
          unfold pyIn at hin
          split at hin
          · injection hin
          · cases hin
        obtain ⟨en, hk⟩ := findSingle_of_any rid c.out hany
        simp only [hk, hd]
        have hmem := findSingle_mem rid c.out en hk
        rcases resolve_cases { c with out := popSingle rid c.out } en (.single v) with ⟨h1, h2⟩ | ⟨h1, h2⟩
        · exact Or.inl ⟨en, hmem, rfl, h1, h2⟩
        · exact Or.inr (Or.inl ⟨en, hmem, rfl, h1, h2⟩)

/-! ### `_receive_response_batch` -/

theorem processResponses_cases (P : Proto) (hP : P ≠ .v1) :
    ∀ ps : List J,
      (∃ pairs, processResponses P ps = .ok pairs ∧ pairs.length = ps.length
          ∧ ∀ pr ∈ pairs, pr.1.hashable = true)
      ∨ (∃ code msg rid, processResponses P ps = .error (.proto (mkError P code msg false rid)))
  | [] => Or.inl ⟨[], rfl, rfl, by simp⟩
  | p :: ps => by
      unfold processResponses
      rcases processResponse_cases P p (Or.inl hP) with ⟨v, rid, h⟩ | ⟨code, msg, rid, h⟩
      · rw [h]
        simp only [respValOf]
        rcases processResponses_cases P hP ps with ⟨pairs, h2, h3, h4⟩ | ⟨code, msg, rid', h2⟩
        · rw [h2]
          refine Or.inl ⟨_, rfl, by simp [h3], ?_⟩
          intro pr hpr
          simp only [List.mem_cons] at hpr
          rcases hpr with rfl | hpr
          · exact processResponse_id_hashable P hP p _ rid h
          · exact h4 pr hpr
        · rw [h2]; exact Or.inr ⟨_, _, _, rfl⟩
      · rw [h]; exact Or.inr ⟨_, _, _, rfl⟩

theorem findBatch_mem (ids : List J) : ∀ (out : List Entry) (en : Entry),
    findBatch ids out = some en → en ∈ out
  | [], en, h => by simp [findBatch] at h
  | a :: r, en, h => by
      unfold findBatch at h
      cases hk : a.key with
      | single i =>
        rw [hk] at h
        exact List.mem_cons_of_mem _ (findBatch_mem ids r en h)
      | batch ks =>
        rw [hk] at h
        simp only at h
        split at h
        · injection h with h; subst h; simp
        · exact List.mem_cons_of_mem _ (findBatch_mem ids r en h)

/-- `_receive_response_batch` on a connection whose protocol has batches -/
theorem receiveResponseBatch_cases (g : Guards) (hg : adequate g = true) (c : Conn)
    (hP : c.proto ≠ .v1) (ps : List J) :
    (∃ en vs ids, en ∈ c.out ∧ findBatch ids c.out = some en ∧ en.fut = .pending ∧
        receiveResponseBatch g c ps =
          ({ c with out := popBatch ids c.out }, .ok { completed := some (en.key, .batch vs) }))
    ∨ (∃ en ids, en ∈ c.out ∧ findBatch ids c.out = some en ∧ en.fut ≠ .pending ∧
        receiveResponseBatch g c ps =
          ({ c with out := popBatch ids c.out }, .ok { discarded := some en.key }))
    ∨ (∃ e, receiveResponseBatch g c ps = (c, .error (.proto e)) ∧ e.errorMessage = none) := by
  have hs : PyExc.typeError.caughtBy g.sort = true := ((adequate_iff g).1 hg).2.2.1
  have hd : g.doneBatch = true := ((adequate_iff g).1 hg).2.2.2.2.2.2.2
  unfold receiveResponseBatch
  rcases processResponses_cases c.proto hP ps with ⟨pairs, h1, _, h3⟩ | ⟨code, msg, rid, h1⟩
  · rw [h1]
    simp only
    cases hso : pySorted (fun t : J × RespVal => t.1) pairs with
    | error e =>
      have := pySorted_error _ _ _ hso; subst this
      simp only [hs, if_true]
      exact Or.inr (Or.inr ⟨_, rfl, rfl⟩)
    | ok ordered =>
      simp only
      have hall : (ordered.map (·.1)).all J.hashable = true := by
        simp only [List.all_map, List.all_eq_true]
        intro pr hpr
        exact h3 pr (pySorted_mem _ _ _ hso pr hpr)
      simp only [hall, Bool.not_true, Bool.false_eq_true, if_false]
      cases hf : findBatch (ordered.map (·.1)) c.out with
      | none => exact Or.inr (Or.inr ⟨_, rfl, rfl⟩)
      | some en =>
        simp only [hd]
        have hmem := findBatch_mem _ _ _ hf
        rcases resolve_cases { c with out := popBatch (ordered.map (·.1)) c.out } en
            (.batch (ordered.map (·.2))) with ⟨h1, h2⟩ | ⟨h1, h2⟩
        · exact Or.inl ⟨en, _, _, hmem, hf, h1, h2⟩
        · exact Or.inr (Or.inl ⟨en, _, hmem, hf, h1, h2⟩)
  · rw [h1]
    exact Or.inr (Or.inr ⟨_, rfl, by simp [mkError]⟩)

/-! ### `_receive_request_batch` -/

/-- an error reply built by `_error(code, message, True, id)` in the connection's format -/
def IsErrorReply (P : Proto) (reply : J) : Prop :=
  ∃ (code : Int) (msg : Str) (rid : J), reply = errorPayload P (.int code) (.str msg) rid

/-- … whose id is `null` or the `id` member of the payload `p` it answers -/
def IsErrorReplyTo (P : Proto) (p : J) (reply : J) : Prop :=
  ∃ (code : Int) (msg : Str) (rid : J), IdOf p rid ∧ reply = errorPayload P (.int code) (.str msg) rid

theorem IsErrorReplyTo.isErrorReply {P : Proto} {p reply : J} (h : IsErrorReplyTo P p reply) :
    IsErrorReply P reply := by
  obtain ⟨code, msg, rid, _, h⟩ := h; exact ⟨code, msg, rid, h⟩

theorem processMember_cases (g : Guards) (hg : adequate g = true) (P : Proto) (hP : P ≠ .v1) (p : J) :
    (∃ x, processMember g P p = .ok (.inl x) ∧ processRequest P p = .ok x)
    ∨ (∃ reply, processMember g P p = .ok (.inr reply) ∧ IsErrorReplyTo P p reply) := by
  have hm : PyExc.protocolError.caughtBy g.member = true := ((adequate_iff g).1 hg).2.2.2.2.2.1
  unfold processMember
  rcases processRequest_cases P p (Or.inl hP) with ⟨x, h⟩ | ⟨code, msg, rid, hid, h⟩
  · rw [h]; exact Or.inl ⟨x, rfl, rfl⟩
  · rw [h]
    simp only [Exc.cls, hm, if_true, mkError]
    exact Or.inr ⟨_, rfl, code, msg, rid, hid, rfl⟩

theorem processRequests_cases (g : Guards) (hg : adequate g = true) (P : Proto) (hP : P ≠ .v1) :
    ∀ ps : List J, ∃ items parts, processRequests g P ps = .ok (items, parts)
      ∧ (∀ r ∈ parts, ∃ p ∈ ps, IsErrorReplyTo P p r) ∧ items.length + parts.length = ps.length
      ∧ (∀ it ∈ items, ∃ p ∈ ps, processRequest P p = .ok it)
  | [] => ⟨[], [], rfl, by simp, rfl, by simp⟩
  | p :: ps => by
      obtain ⟨items, parts, h1, h2, h3, h4⟩ := processRequests_cases g hg P hP ps
      unfold processRequests
      rcases processMember_cases g hg P hP p with ⟨x, hx, hx'⟩ | ⟨reply, hr, hr'⟩
      · rw [hx, h1]
        refine ⟨x :: items, parts, rfl, ?_, by simp; omega, ?_⟩
        · intro r hr2
          obtain ⟨q, hq, hq'⟩ := h2 r hr2
          exact ⟨q, by simp [hq], hq'⟩
        · intro it hit
          simp only [List.mem_cons] at hit
          rcases hit with rfl | hit
          · exact ⟨p, by simp, hx'⟩
          · obtain ⟨q, hq, hq'⟩ := h4 it hit
            exact ⟨q, by simp [hq], hq'⟩
      · rw [hr, h1]
        refine ⟨items, reply :: parts, rfl, ?_, by simp; omega, ?_⟩
        · intro r hr2
          simp only [List.mem_cons] at hr2
          rcases hr2 with rfl | hr2
          · exact ⟨p, by simp, hr'⟩
          · obtain ⟨q, hq, hq'⟩ := h2 r hr2
            exact ⟨q, by simp [hq], hq'⟩
        · intro it hit
          obtain ⟨q, hq, hq'⟩ := h4 it hit
          exact ⟨q, by simp [hq], hq'⟩

/-- `_receive_request_batch`: the valid members as items, or (no valid member at all) one
`ProtocolError` carrying the batch of the members' error replies, each under its member's id
or null -/
theorem receiveRequestBatch_cases (g : Guards) (hg : adequate g = true) (c : Conn)
    (hP : c.proto ≠ .v1) (ps : List J) :
    (∃ items, receiveRequestBatch g c ps = (c, .ok { items := items }))
    ∨ (∃ parts, parts ≠ [] ∧ (∀ r ∈ parts, ∃ p ∈ ps, IsErrorReplyTo c.proto p r) ∧
        receiveRequestBatch g c ps =
          (c, .error (.proto { code := 0, msg := [], errorMessage := some (.batch parts) }))) := by
  obtain ⟨items, parts, h1, h2, _, _⟩ := processRequests_cases g hg c.proto hP ps
  unfold receiveRequestBatch
  rw [h1]
  simp only
  split
  · rename_i hc
    simp only [Bool.and_eq_true, Bool.not_eq_true', List.isEmpty_eq_false_iff] at hc
    exact Or.inr ⟨parts, hc.2, h2, rfl⟩
  · exact Or.inl ⟨items, rfl⟩

end Aiorpcx.C05
