import Aiorpcx.C05.Lemmas
import Aiorpcx.C04.Roundtrip
/-! `receive_message` and its helpers: what they can raise, what they do to the outstanding
requests, and what their errors carry. -/
namespace Aiorpcx.C05
open Aiorpcx.Py Aiorpcx.C04
set_option linter.unusedSimpArgs false

/-! ### the Python primitives -/

theorem pyIn_error (k : J) (keys : List J) (e : PyExc) (h : pyIn k keys = .error e) :
    e = .typeError := by
  unfold pyIn at h
  split at h
  · cases h
  · injection h with h; exact h.symm

theorem pySorted_error {α : Type} (key : α → J) (xs : List α) (e : PyExc)
    (h : pySorted key xs = .error e) : e = .typeError := by
  unfold pySorted at h
  split at h
  · cases h
  · split at h
    · cases h
    · injection h with h; exact h.symm

theorem pySorted_mem {α : Type} (key : α → J) (xs ys : List α) (h : pySorted key xs = .ok ys) :
    ∀ y ∈ ys, y ∈ xs := by
  unfold pySorted at h
  split at h
  · injection h with h; subst h; exact fun y hy => hy
  · split at h
    · injection h with h; subst h
      intro y hy
      exact (List.mergeSort_perm xs _).mem_iff.1 hy
    · cases h

theorem pySorted_length {α : Type} (key : α → J) (xs ys : List α) (h : pySorted key xs = .ok ys) :
    ys.length = xs.length := by
  unfold pySorted at h
  split at h
  · injection h with h; subst h; rfl
  · split at h
    · injection h with h; subst h
      exact (List.mergeSort_perm xs _).length_eq
    · cases h

/-! ### `_receive_response` -/

theorem findSingle_of_any (rid : J) :
    ∀ out : List Key, (singleKeys out).any (pyEq rid) = true → ∃ k, findSingle rid out = some k
  | [], h => by simp [singleKeys] at h
  | .single i :: r, h => by
      simp only [findSingle]
      by_cases hi : pyEq rid i = true
      · simp [hi]
      · simp only [hi, Bool.false_eq_true, if_false]
        apply findSingle_of_any rid r
        simp only [singleKeys, List.filterMap_cons, List.any_cons] at h
        simpa [hi, singleKeys] using h
  | .batch ks :: r, h => by
      simp only [findSingle]
      apply findSingle_of_any rid r
      simpa [singleKeys] using h

/-- the three things `_receive_response` can do -/
theorem receiveResponse_cases (g : Guards) (hg : adequate g = true) (c : Conn) (v : RespVal) (rid : J) :
    (∃ k, k ∈ c.out ∧ findSingle rid c.out = some k ∧
        receiveResponse g c v rid =
          ({ c with out := popSingle rid c.out }, .ok { completed := some (k, .single v) }))
    ∨ (∃ e, receiveResponse g c v rid = (c, .error (.proto e)) ∧ e.errorMessage = none
          ∧ e.responseMsgId = none) := by
  have hl : PyExc.typeError.caughtBy g.lookup = true := by
    simp only [adequate, Bool.and_eq_true] at hg; exact hg.1.1.1.1.2
  unfold receiveResponse
  cases hb : rid.isBool with
  | true => exact Or.inr ⟨_, rfl, rfl, rfl⟩
  | false =>
    simp only [Bool.false_eq_true, if_false]
    cases hin : pyIn rid (singleKeys c.out) with
    | error e =>
      have := pyIn_error _ _ _ hin; subst this
      simp only [hl, if_true]
      exact Or.inr ⟨_, rfl, rfl, rfl⟩
    | ok b =>
      cases b with
      | false => exact Or.inr ⟨_, rfl, rfl, rfl⟩
      | true =>
        have hany : (singleKeys c.out).any (pyEq rid) = true := by
          unfold pyIn at hin
          split at hin
          · injection hin
          · cases hin
        obtain ⟨k, hk⟩ := findSingle_of_any rid c.out hany
        simp only [hk]
        refine Or.inl ⟨k, ?_, rfl, rfl⟩
        -- the key found is one of the outstanding ones
        clear hin hany
        generalize c.out = out at hk
        induction out with
        | nil => simp [findSingle] at hk
        | cons a r ih =>
          cases a with
          | single i =>
            simp only [findSingle] at hk
            split at hk
            · injection hk with hk; subst hk; simp
            · exact List.mem_cons_of_mem _ (ih hk)
          | batch ks =>
            simp only [findSingle] at hk
            exact List.mem_cons_of_mem _ (ih hk)

/-! ### `_receive_response_batch` -/

theorem processResponses_cases (P : Proto) (hP : P ≠ .v1) :
    ∀ ps : List J,
      (∃ pairs, processResponses P ps = .ok pairs ∧ pairs.length = ps.length
          ∧ ∀ pr ∈ pairs, pr.1.hashable = true)
      ∨ (∃ code msg rid, processResponses P ps = .error (.proto (mkError P code msg false rid)))
  | [] => Or.inl ⟨[], rfl, rfl, by simp⟩
  | p :: ps => by
      unfold processResponses
      rcases processResponse_cases P p (Or.inl hP) with ⟨v, rid, h⟩ | ⟨code, msg, rid, h⟩
      · rw [h]
        simp only [respValOf]
        rcases processResponses_cases P hP ps with ⟨pairs, h2, h3, h4⟩ | ⟨code, msg, rid', h2⟩
        · rw [h2]
          refine Or.inl ⟨_, rfl, by simp [h3], ?_⟩
          intro pr hpr
          simp only [List.mem_cons] at hpr
          rcases hpr with rfl | hpr
          · exact processResponse_id_hashable P hP p _ rid h
          · exact h4 pr hpr
        · rw [h2]; exact Or.inr ⟨_, _, _, rfl⟩
      · rw [h]; exact Or.inr ⟨_, _, _, rfl⟩

theorem findBatch_mem (ids : List J) : ∀ (out : List Key) (k : Key), findBatch ids out = some k → k ∈ out
  | [], k, h => by simp [findBatch] at h
  | .single i :: r, k, h => by
      simp only [findBatch] at h
      exact List.mem_cons_of_mem _ (findBatch_mem ids r k h)
  | .batch ks :: r, k, h => by
      simp only [findBatch] at h
      split at h
      · injection h with h; subst h; simp
      · exact List.mem_cons_of_mem _ (findBatch_mem ids r k h)

/-- `_receive_response_batch` on a connection whose protocol has batches -/
theorem receiveResponseBatch_cases (g : Guards) (hg : adequate g = true) (c : Conn)
    (hP : c.proto ≠ .v1) (ps : List J) :
    (∃ k vs ids, k ∈ c.out ∧ findBatch ids c.out = some k ∧
        receiveResponseBatch g c ps =
          ({ c with out := popBatch ids c.out }, .ok { completed := some (k, .batch vs) }))
    ∨ (∃ e, receiveResponseBatch g c ps = (c, .error (.proto e)) ∧ e.errorMessage = none) := by
  have hs : PyExc.typeError.caughtBy g.sort = true := by
    simp only [adequate, Bool.and_eq_true] at hg; exact hg.1.1.1.2
  unfold receiveResponseBatch
  rcases processResponses_cases c.proto hP ps with ⟨pairs, h1, _, h3⟩ | ⟨code, msg, rid, h1⟩
  · rw [h1]
    simp only
    cases hso : pySorted (fun t : J × RespVal => t.1) pairs with
    | error e =>
      have := pySorted_error _ _ _ hso; subst this
      simp only [hs, if_true]
      exact Or.inr ⟨_, rfl, rfl⟩
    | ok ordered =>
      simp only
      have hall : (ordered.map (·.1)).all J.hashable = true := by
        simp only [List.all_map, List.all_eq_true]
        intro pr hpr
        exact h3 pr (pySorted_mem _ _ _ hso pr hpr)
      simp only [hall, Bool.not_true, Bool.false_eq_true, if_false]
      cases hf : findBatch (ordered.map (·.1)) c.out with
      | none => exact Or.inr ⟨_, rfl, rfl⟩
      | some k => exact Or.inl ⟨k, _, _, findBatch_mem _ _ _ hf, hf, rfl⟩
  · rw [h1]
    exact Or.inr ⟨_, rfl, by simp [mkError]⟩

/-! ### `_receive_request_batch` -/

/-- an error reply built by `_error(code, message, True, id)` in the connection's format -/
def IsErrorReply (P : Proto) (reply : J) : Prop :=
  ∃ (code : Int) (msg : Str) (rid : J), reply = errorPayload P (.int code) (.str msg) rid

theorem processMember_cases (g : Guards) (hg : adequate g = true) (P : Proto) (hP : P ≠ .v1) (p : J) :
    (∃ x, processMember g P p = .ok (.inl x) ∧ processRequest P p = .ok x)
    ∨ (∃ reply, processMember g P p = .ok (.inr reply) ∧ IsErrorReply P reply) := by
  have hm : PyExc.protocolError.caughtBy g.member = true := by
    simp only [adequate, Bool.and_eq_true] at hg; exact hg.2
  unfold processMember
  rcases processRequest_cases P p (Or.inl hP) with ⟨x, h⟩ | ⟨code, msg, rid, h⟩
  · rw [h]; exact Or.inl ⟨x, rfl, rfl⟩
  · rw [h]
    simp only [Exc.cls, hm, if_true, mkError]
    exact Or.inr ⟨_, rfl, code, msg, rid, rfl⟩

theorem processRequests_cases (g : Guards) (hg : adequate g = true) (P : Proto) (hP : P ≠ .v1) :
    ∀ ps : List J, ∃ items parts, processRequests g P ps = .ok (items, parts)
      ∧ (∀ r ∈ parts, IsErrorReply P r) ∧ items.length + parts.length = ps.length
      ∧ (∀ it ∈ items, ∃ p ∈ ps, processRequest P p = .ok it)
  | [] => ⟨[], [], rfl, by simp, rfl, by simp⟩
  | p :: ps => by
      obtain ⟨items, parts, h1, h2, h3, h4⟩ := processRequests_cases g hg P hP ps
      unfold processRequests
      rcases processMember_cases g hg P hP p with ⟨x, hx, hx'⟩ | ⟨reply, hr, hr'⟩
      · rw [hx, h1]
        refine ⟨x :: items, parts, rfl, h2, by simp; omega, ?_⟩
        intro it hit
        simp only [List.mem_cons] at hit
        rcases hit with rfl | hit
        · exact ⟨p, by simp, hx'⟩
        · obtain ⟨q, hq, hq'⟩ := h4 it hit
          exact ⟨q, by simp [hq], hq'⟩
      · rw [hr, h1]
        refine ⟨items, reply :: parts, rfl, ?_, by simp; omega, ?_⟩
        · intro r hr2
          simp only [List.mem_cons] at hr2
          rcases hr2 with rfl | hr2
          · exact hr'
          · exact h2 r hr2
        · intro it hit
          obtain ⟨q, hq, hq'⟩ := h4 it hit
          exact ⟨q, by simp [hq], hq'⟩

/-- `_receive_request_batch`: the valid members as items, or (no valid member at all) one
`ProtocolError` carrying the batch of the members' error replies -/
theorem receiveRequestBatch_cases (g : Guards) (hg : adequate g = true) (c : Conn)
    (hP : c.proto ≠ .v1) (ps : List J) :
    (∃ items, receiveRequestBatch g c ps = (c, .ok { items := items }))
    ∨ (∃ parts, parts ≠ [] ∧ (∀ r ∈ parts, IsErrorReply c.proto r) ∧
        receiveRequestBatch g c ps =
          (c, .error (.proto { code := 0, msg := [], errorMessage := some (.batch parts) }))) := by
  obtain ⟨items, parts, h1, h2, _, _⟩ := processRequests_cases g hg c.proto hP ps
  unfold receiveRequestBatch
  rw [h1]
  simp only
  split
  · rename_i hc
    simp only [Bool.and_eq_true, Bool.not_eq_true', List.isEmpty_eq_false_iff] at hc
    exact Or.inr ⟨parts, hc.2, h2, rfl⟩
  · exact Or.inl ⟨items, rfl⟩

end Aiorpcx.C05
