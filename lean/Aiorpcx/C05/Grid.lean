import Aiorpcx.C05.Props
import Aiorpcx.C05.Probe
/-!
# C05 — the grid discriminates: any guards that explain the observations are adequate

`Probe.deriveGuards` reads guards off the decision table.  This file shows that the reading does
not matter: for **every** `g : Guards`, if the model run with `g` ends ten key probes of the
grid (and a session probe) (one or more per clause of `adequate`) the way a correct tree ends them, then `g` is
adequate (`grid_discriminates`).  So a tree whose table has those outcomes, and a model that
reproduces the table, leave no room for an inadequate explanation — and conversely every clause
of `adequate` is witnessed by a probe whose outcome flips when the clause fails.
-/
namespace Aiorpcx.C05
open Aiorpcx.Py Aiorpcx.C04

/-- `receive_message` on decodable bytes, protocol already fixed: dispatch on the decoded item -/
def dispatch (g : Guards) (c : Conn) (r : R (Item × J)) : Conn × R Recv :=
  match r with
  | .error e =>
      if e.cls.caughtBy g.recv then
        match e with
        | .proto pe =>
            match pe.responseMsgId with
            | some rid => receiveResponse g c (.protoError pe.code pe.msg) rid
            | none => (c, .error e)
        | .py _ => (c, .error (.py .attributeError))
      else (c, .error e)
  | .ok (.request m a, rid) => (c, .ok { items := [(.request m a, rid)] })
  | .ok (.notification m a, rid) => (c, .ok { items := [(.notification m a, rid)] })
  | .ok (.response v, rid) => receiveResponse g c v rid
  | .ok (.batch payloads, _) =>
      if payloads.all responseShapedMember then receiveResponseBatch g c payloads
      else receiveRequestBatch g c payloads

theorem receiveMessage_value (g : Guards) (c : Conn) (p : J) (hna : c.proto ≠ .auto) :
    receiveMessage g c (.value p) = dispatch g c (payloadToItem c.proto p) := by
  unfold receiveMessage dispatch
  simp only [hna, if_false]
  rfl

/-- is the way `json.loads` failed turned into a `ProtocolError` by `_message_to_payload`? -/
def parseCaught (g : Guards) (e : PyExc) : Bool :=
  e.caughtBy g.payload.clause1 || e.caughtBy g.payload.clause2

/-- the four ways `json.loads(message.decode())` can raise, on a 2.0 connection with nothing
outstanding: a `ProtocolError` with a reply exactly when `_message_to_payload` catches it -/
theorem parse_probe (g : Guards) (i : Inp) (e : PyExc) (hi : i.outcome.exc? = some e) :
    modelRow g (.receiveMessage i) .v2 .empty =
      some (if parseCaught g e then .protoReply
            else .escaped (if e.caughtBy g.recv then .attributeError else e), 0) := by
  simp only [modelRow, St.out, parseCaught]
  generalize i.outcome = o at hi
  by_cases h1 : e.caughtBy g.payload.clause1 = true <;>
  by_cases h2 : e.caughtBy g.payload.clause2 = true <;>
  by_cases h3 : PyExc.protocolError.caughtBy g.recv = true <;>
  by_cases h4 : e.caughtBy g.recv = true <;>
  cases o <;> simp only [LoadsOutcome.exc?] at hi <;> (try cases hi) <;>
  simp [receiveMessage, messageToItem, messageToPayload, LoadsOutcome.exc?, h1, h2, h3, h4, endedOf,
    mkError, Exc.cls]

/-- a response whose id is a list, 1.0 connection with singles outstanding: reaches the look-up
in `_requests` -/
theorem lookup_probe (g : Guards) :
    modelRow g (.receiveMessage .respListId) .v1 .singles =
      some (if PyExc.typeError.caughtBy g.lookup then .protoNoReply else .escaped .typeError, 2) := by
  simp only [modelRow, Inp.outcome]
  rw [receiveMessage_value g _ _ (by decide)]
  have hp : payloadToItem .v1 (.obj [(kJsonrpc, s20), (kResult, .int 7), (kError, .null), (kId, .arr [.int 1])])
      = .ok (.response (.result (.int 7)), .arr [.int 1]) := by decide
  simp only [hp, dispatch]
  by_cases hb : PyExc.typeError.caughtBy g.lookup = true
  · simp [receiveResponse, pyIn, J.hashable, J.isBool, hb, endedOf, unsent, invalidRequest, perr, St.out]
  · have hb' : PyExc.typeError.caughtBy g.lookup = false := by simpa using hb
    simp [receiveResponse, pyIn, J.hashable, J.isBool, hb', endedOf, unsent, invalidRequest, perr, St.out]

/-- a response batch whose ids are `0` and `"x"`, 2.0 connection: reaches `sorted` -/
theorem sort_probe (g : Guards) :
    modelRow g (.receiveMessage .batchMixedIds) .v2 .empty =
      some (if PyExc.typeError.caughtBy g.sort then .protoNoReply else .escaped .typeError, 0) := by
  simp only [modelRow, Inp.outcome]
  rw [receiveMessage_value g _ _ (by decide)]
  have hp : payloadToItem .v2 (.arr [resp2 (.int 1) (.int 0), resp2 (.int 2) (sx "x")])
      = .ok (.batch [resp2 (.int 1) (.int 0), resp2 (.int 2) (sx "x")], .null) := by decide
  have hall : ([resp2 (.int 1) (.int 0), resp2 (.int 2) (sx "x")]).all responseShapedMember = true := by
    decide
  have hpr : processResponses .v2 [resp2 (.int 1) (.int 0), resp2 (.int 2) (sx "x")]
      = .ok [(.int 0, .result (.int 1)), (sx "x", .result (.int 2))] := by decide
  have hso : pySorted (fun t : J × RespVal => t.1)
      [(J.int 0, RespVal.result (.int 1)), (sx "x", .result (.int 2))] = .error .typeError := by
    decide
  simp only [hp, dispatch, hall, if_true, receiveResponseBatch, hpr, hso]
  by_cases hb : PyExc.typeError.caughtBy g.sort = true
  · simp [hb, endedOf, unsent, invalidRequest, perr, St.out]
  · have hb' : PyExc.typeError.caughtBy g.sort = false := by simpa using hb
    simp [hb', endedOf, unsent, invalidRequest, perr, St.out]

/-- a malformed response (neither result nor error) whose id names an awaited request: the
`except ProtocolError` of `receive_message` hands it to the request -/
theorem recv_probe (g : Guards) :
    modelRow g (.receiveMessage .respMalformedKnown) .v2 .singles =
      some (if PyExc.protocolError.caughtBy g.recv then (.returned, 1) else (.protoNoReply, 2)) := by
  simp only [modelRow, Inp.outcome]
  rw [receiveMessage_value g _ _ (by decide)]
  have hp : payloadToItem .v2 (.obj [(kJsonrpc, s20), (kId, .int 0)])
      = .error (.proto (mkError .v2 INVALID_REQUEST
          (lit "response contains neither \"result\" nor \"error\"") false (.int 0))) := by decide
  simp only [hp, dispatch, Exc.cls]
  by_cases hb : PyExc.protocolError.caughtBy g.recv = true
  · have hk : findSingle (.int 0) (Conn.mk .v2 St.singles.out).out
        = some ⟨.single (.int 0), .pending⟩ := by decide
    simp only [hb, if_true, mkError, Bool.false_eq_true, if_false]
    rw [receiveResponse_known g _ _ _ _ hk (by decide) (by decide)]
    simp [resolve, endedOf, St.out, popSingle, pyEq_int_self]
  · have hb' : PyExc.protocolError.caughtBy g.recv = false := by simpa using hb
    simp [hb', endedOf, mkError, St.out]
where
  pyEq_int_self : pyEq (J.int 0) (J.int 0) = true := by decide

/-- a request batch with one invalid member: the `except ProtocolError` around
`_process_request` turns the member into an error entry and the valid member is processed -/
theorem member_probe (g : Guards) :
    modelRow g (.receiveMessage .batchOneBad) .v2 .empty =
      some (if PyExc.protocolError.caughtBy g.member then .returned else .protoReply, 0) := by
  simp only [modelRow, Inp.outcome]
  rw [receiveMessage_value g _ _ (by decide)]
  have hp : payloadToItem .v2 (.arr [.obj [(kJsonrpc, s20), (kMethod, sx "m"), (kId, .int 3)], .int 5])
      = .ok (.batch [.obj [(kJsonrpc, s20), (kMethod, sx "m"), (kId, .int 3)], .int 5], .null) := by decide
  have hall : ([J.obj [(kJsonrpc, s20), (kMethod, sx "m"), (kId, .int 3)], .int 5]).all responseShapedMember
      = false := by decide
  have h1 : processRequest .v2 (.obj [(kJsonrpc, s20), (kMethod, sx "m"), (kId, .int 3)])
      = .ok (.request (lit "m") (.arr []), .int 3) := by decide
  have h2 : processRequest .v2 (.int 5)
      = .error (.proto (mkError .v2 INVALID_REQUEST (lit "request object must be a dictionary") true .null)) := by
    decide
  simp only [hp, dispatch, hall, Bool.false_eq_true, if_false, receiveRequestBatch, processRequests,
    processMember, h1, h2, Exc.cls]
  by_cases hb : PyExc.protocolError.caughtBy g.member = true
  · simp [hb, endedOf, mkError, St.out]
  · have hb' : PyExc.protocolError.caughtBy g.member = false := by simpa using hb
    simp [hb', endedOf, mkError, St.out]

/-- the peer's response to a request whose waiter has given up -/
theorem doneSingle_probe (g : Guards) :
    modelRow g (.receiveMessage .respKnownV2) .v2 .singleCancelled =
      some (if g.doneSingle then .returned else .escaped invalidStateError, 1) := by
  simp only [modelRow, Inp.outcome]
  rw [receiveMessage_value g _ _ (by decide)]
  have hp : payloadToItem .v2 (resp2 (.int 7) (.int 0)) = .ok (.response (.result (.int 7)), .int 0) := by
    decide
  have hk : findSingle (.int 0) (Conn.mk .v2 St.singleCancelled.out).out
      = some ⟨.single (.int 0), .cancelled⟩ := by decide
  simp only [hp, dispatch]
  rw [receiveResponse_known g _ _ _ _ hk (by decide) (by decide)]
  by_cases hb : g.doneSingle = true
  · simp [hb, resolve, endedOf, St.out, popSingle, recv_probe.pyEq_int_self]
  · have hb' : g.doneSingle = false := by simpa using hb
    simp [hb', resolve, endedOf, St.out, popSingle, recv_probe.pyEq_int_self]

/-- the peer's response to a batch whose waiter has given up -/
theorem doneBatch_probe (g : Guards) :
    modelRow g (.receiveMessage .batchKnown) .v2 .batchCancelled =
      some (if g.doneBatch then .returned else .escaped invalidStateError, 1) := by
  simp only [modelRow, Inp.outcome]
  rw [receiveMessage_value g _ _ (by decide)]
  have hp : payloadToItem .v2 (.arr [resp2 (.int 7) (.int 0)])
      = .ok (.batch [resp2 (.int 7) (.int 0)], .null) := by decide
  have hall : ([resp2 (.int 7) (.int 0)]).all responseShapedMember = true := by decide
  have hpr : processResponses .v2 [resp2 (.int 7) (.int 0)] = .ok [(.int 0, .result (.int 7))] := by decide
  have hso : pySorted (fun t : J × RespVal => t.1) [(J.int 0, RespVal.result (.int 7))]
      = .ok [(.int 0, .result (.int 7))] := by decide
  have hfb : findBatch [.int 0] St.batchCancelled.out = some ⟨.batch [.int 0], .cancelled⟩ := by decide
  have hpb : popBatch [.int 0] St.batchCancelled.out = [⟨.single (.int 1), .pending⟩] := by decide
  simp only [hp, dispatch, hall, if_true, receiveResponseBatch, hpr, hso, List.map, List.all_cons,
    List.all_nil, J.hashable, Bool.and_true, Bool.not_true, Bool.false_eq_true, if_false, hfb, hpb]
  by_cases hb : g.doneBatch = true
  · simp [hb, resolve, endedOf]
  · have hb' : g.doneBatch = false := by simpa using hb
    simp [hb', resolve, endedOf]

/-- undecodable bytes at session level: served exactly when `_message_to_payload` turns the
failure into a `ProtocolError` and the loop handles `ProtocolError` -/
theorem loop_probe (g : Guards) :
    modelLoop g .parseJson =
      if parseCaught g .jsonDecodeError && PyExc.protocolError.caughtBy g.loop then .served else .wedged := by
  simp only [modelLoop, MsgKind.outcome, loopStep, parseCaught]
  by_cases h1 : PyExc.jsonDecodeError.caughtBy g.payload.clause1 = true <;>
  by_cases h2 : PyExc.jsonDecodeError.caughtBy g.payload.clause2 = true <;>
  by_cases h3 : PyExc.protocolError.caughtBy g.recv = true <;>
  by_cases h4 : PyExc.jsonDecodeError.caughtBy g.recv = true <;>
  by_cases h5 : PyExc.protocolError.caughtBy g.loop = true <;>
  by_cases h6 : PyExc.attributeError.caughtBy g.loop = true <;>
  by_cases h7 : PyExc.jsonDecodeError.caughtBy g.loop = true <;>
  simp [receiveMessage, messageToItem, messageToPayload, LoadsOutcome.exc?, h1, h2, h3, h4, h5, h6, h7,
    mkError, Exc.cls]

/-- the ten key probes and how a correct tree ends them -/
def keyRows : List (Via × Proto × St × Ended × Nat) :=
  [(.receiveMessage .badUtf8, .v2, .empty, .protoReply, 0),
   (.receiveMessage .badJson, .v2, .empty, .protoReply, 0),
   (.receiveMessage .deepNesting, .v2, .empty, .protoReply, 0),
   (.receiveMessage .hugeInt, .v2, .empty, .protoReply, 0),
   (.receiveMessage .respListId, .v1, .singles, .protoNoReply, 2),
   (.receiveMessage .batchMixedIds, .v2, .empty, .protoNoReply, 0),
   (.receiveMessage .respMalformedKnown, .v2, .singles, .returned, 1),
   (.receiveMessage .batchOneBad, .v2, .empty, .returned, 0),
   (.receiveMessage .respKnownV2, .v2, .singleCancelled, .returned, 1),
   (.receiveMessage .batchKnown, .v2, .batchCancelled, .returned, 1)]

/-- **the grid discriminates** — for every `g`: if the model run with `g` ends the key probes
the way a correct tree does and serves a session after undecodable bytes, then `g` is adequate.
Every clause of `adequate` is witnessed by a probe whose outcome flips when the clause fails. -/
theorem grid_discriminates (g : Guards)
    (hrows : keyRows.all (fun r => modelRow g r.1 r.2.1 r.2.2.1 == some (r.2.2.2.1, r.2.2.2.2)) = true)
    (hloop : modelLoop g .parseJson = .served) : adequate g = true := by
  simp only [keyRows, List.all_cons, List.all_nil, Bool.and_true, Bool.and_eq_true, beq_iff_eq] at hrows
  obtain ⟨p1, p2, p3, p4, hl, hs, hr, hm, hds, hdb⟩ := hrows
  rw [parse_probe g .badUtf8 .unicodeDecodeError rfl] at p1
  rw [parse_probe g .badJson .jsonDecodeError rfl] at p2
  rw [parse_probe g .deepNesting .recursionError rfl] at p3
  rw [parse_probe g .hugeInt .valueError rfl] at p4
  rw [lookup_probe] at hl
  rw [sort_probe] at hs
  rw [recv_probe] at hr
  rw [member_probe] at hm
  rw [doneSingle_probe] at hds
  rw [doneBatch_probe] at hdb
  rw [loop_probe] at hloop
  have q1 : parseCaught g .unicodeDecodeError = true := by
    cases h : parseCaught g .unicodeDecodeError <;> simp [h] at p1 ⊢
  have q2 : parseCaught g .jsonDecodeError = true := by
    cases h : parseCaught g .jsonDecodeError <;> simp [h] at p2 ⊢
  have q3 : parseCaught g .recursionError = true := by
    cases h : parseCaught g .recursionError <;> simp [h] at p3 ⊢
  have q4 : parseCaught g .valueError = true := by
    cases h : parseCaught g .valueError <;> simp [h] at p4 ⊢
  have ql : PyExc.typeError.caughtBy g.lookup = true := by
    cases h : PyExc.typeError.caughtBy g.lookup <;> simp [h] at hl ⊢
  have qs : PyExc.typeError.caughtBy g.sort = true := by
    cases h : PyExc.typeError.caughtBy g.sort <;> simp [h] at hs ⊢
  have qr : PyExc.protocolError.caughtBy g.recv = true := by
    cases h : PyExc.protocolError.caughtBy g.recv <;> simp [h] at hr ⊢
  have qm : PyExc.protocolError.caughtBy g.member = true := by
    cases h : PyExc.protocolError.caughtBy g.member <;> simp [h] at hm ⊢
  have qds : g.doneSingle = true := by
    cases h : g.doneSingle <;> simp [h] at hds ⊢
  have qdb : g.doneBatch = true := by
    cases h : g.doneBatch <;> simp [h] at hdb ⊢
  have qloop : PyExc.protocolError.caughtBy g.loop = true := by
    cases h : PyExc.protocolError.caughtBy g.loop <;> simp [h, q2] at hloop ⊢
  refine (adequate_iff g).2 ⟨?_, ql, qs, qr, qloop, qm, qds, qdb⟩
  simp only [List.all_cons, List.all_nil, Bool.and_true, Bool.and_eq_true, LoadsOutcome.exc?]
  exact ⟨q1, q2, q3, q4⟩

/-- a table contains the key rows with the outcomes of a correct tree -/
def hasKeyRows (t : List Row) : Bool :=
  keyRows.all fun k => t.any fun r =>
    r.via == k.1 && r.proto == k.2.1 && r.st == k.2.2.1 && r.ended == k.2.2.2.1 && r.pending == k.2.2.2.2

/-- a session table has a served session after undecodable bytes -/
def hasServedParse (lt : List LoopRow) : Bool := lt.any fun r => r.kind == .parseJson && r.ended == .served

/-- **whatever explains the observations is adequate** — let `t`, `lt` be decision tables that
contain the key rows with the outcomes of a correct tree.  Then *any* guards `g` under which the
model reproduces `t` and `lt` are adequate: the verdict does not hinge on how guards are read
off the table (`deriveGuards`), only on the table and on the model. -/
theorem explains_adequate (t : List Row) (lt : List LoopRow) (g : Guards)
    (hk : hasKeyRows t = true) (hs : hasServedParse lt = true)
    (h : t.all (Row.reproducedBy g) = true) (hl : lt.all (LoopRow.reproducedBy g) = true) :
    adequate g = true := by
  apply grid_discriminates
  · rw [List.all_eq_true]
    intro k hkm
    simp only [hasKeyRows, List.all_eq_true] at hk
    have := hk k hkm
    rw [List.any_eq_true] at this
    obtain ⟨r, hr, hm⟩ := this
    simp only [Bool.and_eq_true, beq_iff_eq] at hm
    obtain ⟨⟨⟨⟨h1, h2⟩, h3⟩, h4⟩, h5⟩ := hm
    rw [List.all_eq_true] at h
    have hrep := h r hr
    simp only [Row.reproducedBy, beq_iff_eq] at hrep
    rw [← h1, ← h2, ← h3, ← h4, ← h5, hrep]
    simp
  · simp only [hasServedParse, List.any_eq_true, Bool.and_eq_true, beq_iff_eq] at hs
    obtain ⟨r, hr, hkind, hend⟩ := hs
    rw [List.all_eq_true] at hl
    have hrep := hl r hr
    simp only [LoopRow.reproducedBy, beq_iff_eq] at hrep
    rw [hkind, hend] at hrep
    exact hrep

end Aiorpcx.C05
