import Aiorpcx.Common.Hex
import Aiorpcx.Common.JWire
import Aiorpcx.C05.Model
import Aiorpcx.Facts.C05
/-! Line-protocol driver for the C05 model.  Guards = `Facts.C05.guards` (read from /repo).

    recv <P> <k> <entry>*k <outcome> (| <outcome>)*
        entry   = S <J id> | B <J array of ids>          the future is pending
                | Sc .. | Bc ..                          the waiter gave up (future cancelled)
                | Sd .. | Bd ..                          the future is already resolved
        outcome = V <J payload> | unicode | json | recursion | intdigits
      -> <step> (|| <step>)*        one step per outcome, on the same connection
        step    = <P'> <k'> <entry>*k' | <result>
        result  = ok <n> <item>*n <done>      item = R <s> <J args> <J id> | N <s> <J args>
                                              done = - | <key> <completion> | D <key>
                | PE <code> <masked reply J or -> <response id J or ->
                | PY <ExceptionName>
        completion = V <J> | E <J code> <s msg> | X <code> | L <n> <completion>*n
    sess <P> <k> <entry>*k <outcome> (| <outcome>)*
      -> <phase> <obs>,<obs>,…   obs = spawn<n> | reply | silent | resolved | discarded | crash:<Exc> | -
-/
open Aiorpcx Aiorpcx.Py Aiorpcx.C04 Aiorpcx.C05 Aiorpcx.JWire

def parseProto : String → Option Proto
  | "v1" => some .v1 | "v2" => some .v2 | "loose" => some .loose | "auto" => some .auto
  | _ => none

def showProto : Proto → String
  | .v1 => "v1" | .v2 => "v2" | .loose => "loose" | .auto => "auto"

def maskMsg : J → J
  | .obj kvs => .obj (kvs.map fun (k, v) =>
      if k = kError then
        match v with
        | .obj e => (k, .obj (e.map fun (k2, v2) => if k2 = kMessage then (k2, .str (lit "*")) else (k2, v2)))
        | _ => (k, v)
      else (k, v))
  | v => v

def showReply : Option Reply → String
  | none => "-"
  | some (.single p) => showJ (canonMsg (maskMsg p))
  | some (.batch ps) => showJ (.arr (ps.map fun p => canonMsg (maskMsg p)))

def showExc : Exc → String
  | .py e => "PY " ++ e.name
  | .proto e =>
      s!"PE {e.code} {showReply e.errorMessage} " ++
        (match e.responseMsgId with | none => "-" | some i => showJ i)

def showKey : Key → String
  | .single i => "S " ++ showJ i
  | .batch ids => "B " ++ showJ (.arr ids)

def showRespVal : RespVal → String
  | .result v => "V " ++ showJ v
  | .rpcError c m => s!"E {showJ c} {showStrTok m}"
  | .protoError c _ => s!"X {c}"

def showCompletion : Completion → String
  | .single v => showRespVal v
  | .batch vs => s!"L {vs.length}" ++ String.join (vs.map fun v => " " ++ showRespVal v)

def showItem : Item × J → String
  | (.request m a, rid) => s!"R {showStrTok m} {showJ a} {showJ rid}"
  | (.notification m a, _) => s!"N {showStrTok m} {showJ a}"
  | _ => "?"

def showRecv (r : Recv) : String :=
  s!"ok {r.items.length}" ++ String.join (r.items.map fun i => " " ++ showItem i) ++ " " ++
    (match r.completed, r.discarded with
     | some (k, c), _ => showKey k ++ " " ++ showCompletion c
     | none, some k => "D " ++ showKey k
     | none, none => "-")

def showEntry (en : Entry) : String :=
  let sfx := match en.fut with | .pending => "" | .cancelled => "c" | .finished => "d"
  match en.key with
  | .single i => s!"S{sfx} " ++ showJ i
  | .batch ids => s!"B{sfx} " ++ showJ (.arr ids)

def showConn (c : Conn) : String :=
  s!"{showProto c.proto} {c.out.length}" ++ String.join (c.out.map fun k => " " ++ showEntry k)

def parseTag : String → Option (Bool × Fut)
  | "S" => some (true, .pending) | "Sc" => some (true, .cancelled) | "Sd" => some (true, .finished)
  | "B" => some (false, .pending) | "Bc" => some (false, .cancelled) | "Bd" => some (false, .finished)
  | _ => none

/-- parse `k` entries -/
def parseKeys : Nat → List String → Option (List Entry × List String)
  | 0, toks => some ([], toks)
  | k + 1, tag :: rest => do
      let (single, fut) ← parseTag tag
      let (v, r1) ← parsePrefix rest
      let (ks, r2) ← parseKeys k r1
      if single then pure (⟨.single v, fut⟩ :: ks, r2)
      else
        match v with
        | .arr ids => pure (⟨.batch ids, fut⟩ :: ks, r2)
        | _ => none
  | _, _ => none

def parseOutcome : List String → Option LoadsOutcome
  | ["unicode"] => some .unicodeError
  | ["json"] => some .jsonDecodeError
  | ["recursion"] => some .recursionError
  | ["intdigits"] => some .intDigitsValueError
  | "V" :: rest => (parseToks rest).map .value
  | _ => none

/-- split a token list at "|" -/
def splitBar : List String → List String → List (List String) → List (List String)
  | [], cur, acc => (cur.reverse :: acc).reverse
  | t :: ts, cur, acc => if t = "|" then splitBar ts [] (cur.reverse :: acc) else splitBar ts (t :: cur) acc

def showObs : Obs → String
  | .spawned items => s!"spawn{items.length}"
  | .replied _ => "reply"
  | .resolved _ _ => "resolved"
  | .discarded _ => "discarded"
  | .silent => "silent"
  | .crashed e => "crash:" ++ e.name

def showPhase : Phase → String
  | .receiving => "receiving" | .closed => "closed" | .dead => "dead"

def runSess (g : Guards) : Sess → List LoadsOutcome → List String → Sess × List String
  | s, [], acc => (s, acc.reverse)
  | s, o :: rest, acc =>
      let r := loopStep g s o {}
      let shown := if r.2.isEmpty then "-" else "+".intercalate (r.2.map showObs)
      runSess g r.1 rest (shown :: acc)

/-- a sequence of messages handed to one connection -/
def runRecv (g : Guards) : Conn → List LoadsOutcome → List String → List String
  | _, [], acc => acc.reverse
  | c, o :: rest, acc =>
      let (c', res) := receiveMessage g c o
      let shown := showConn c' ++ " | " ++ (match res with | .ok r => showRecv r | .error e => showExc e)
      runRecv g c' rest (shown :: acc)

def handle (line : String) : String :=
  let g := Aiorpcx.Facts.C05.guards
  match tokens line with
  | "recv" :: p :: k :: rest =>
      match parseProto p, k.toNat? with
      | some P, some k =>
          match parseKeys k rest with
          | some (keys, r1) =>
              match (splitBar r1 [] []).mapM parseOutcome with
              | some os => " || ".intercalate (runRecv g { proto := P, out := keys } os [])
              | none => "bad-op"
          | none => "bad-op"
      | _, _ => "bad-op"
  | "sess" :: p :: k :: rest =>
      match parseProto p, k.toNat? with
      | some P, some k =>
          match parseKeys k rest with
          | some (keys, r1) =>
              match (splitBar r1 [] []).mapM parseOutcome with
              | some os =>
                  let (s, obs) := runSess g { conn := { proto := P, out := keys }, phase := .receiving } os []
                  showPhase s.phase ++ " " ++ ",".intercalate obs
              | none => "bad-op"
          | none => "bad-op"
      | _, _ => "bad-op"
  | _ => "bad-op"

def main : IO Unit := Hex.lineLoop handle
