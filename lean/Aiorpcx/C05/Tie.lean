import Aiorpcx.C05.Props
import Aiorpcx.C05.Probe
import Aiorpcx.C05.Grid
import Aiorpcx.Facts.C05
/-!
# C05 — the tie to the current source tree

`Facts.C05.probeTable` / `Facts.C05.loopTable` are what the real code of /repo did, on this
run, on every probe of the grid of `Probe.lean` (tools/facts/c05.py runs it; no syntax is read).
`Facts.C05.guards = deriveGuards probeTable loopTable` are the guards the model is run with.
-/
namespace Aiorpcx.C05
open Aiorpcx.Py Aiorpcx.C04

/-- every row of the public part of the grid was observed -/
theorem facts_probe_table_complete : complete Facts.C05.probeTable = true := by decide +kernel

/-- **the proof obligation on the current source tree**: read off the observed behaviour, every
exception the receive path can meet is turned into a `ProtocolError` where the theorems need it,
and a future that is already done is never resolved again -/
theorem facts_guards_adequate : adequate Facts.C05.guards = true := by decide +kernel

/-- **the model reproduces the decision table**: run with the derived guards, the model ends
every probe — public and direct, every protocol, every state — the way the real code did, and
leaves as many requests pending -/
theorem facts_probe_table_reproduced :
    Facts.C05.probeTable.all (Row.reproducedBy Facts.C05.guards) = true := by decide +kernel

/-- no session of the grid — long messages of every error kind with 1- to 4-byte characters
straddling the plausible cut points, logging at its defaults and fully on — was left open but
not listening: the measured part of the hypothesis `Env.quiet` of `session_serving_or_closed` -/
theorem facts_loop_table_quiet : loopQuiet Facts.C05.loopTable = true := by decide +kernel

/-- … and the model's loop, with quiet bookkeeping, ends each of them the way the session did -/
theorem facts_loop_table_reproduced :
    Facts.C05.loopTable.all (LoopRow.reproducedBy Facts.C05.guards) = true := by decide +kernel

/-- **whatever explains the observations is adequate**: the observed tables contain the key
probes with the outcomes of a correct tree, hence *any* guards under which the model reproduces
them are adequate (`Grid.explains_adequate`) — the derivation `deriveGuards` is a convenience, not
part of the argument -/
theorem facts_pin_adequacy (g : Guards)
    (h : Facts.C05.probeTable.all (Row.reproducedBy g) = true)
    (hl : Facts.C05.loopTable.all (LoopRow.reproducedBy g) = true) : adequate g = true :=
  explains_adequate Facts.C05.probeTable Facts.C05.loopTable g (by decide +kernel) (by decide +kernel) h hl

/-- the theorems, instantiated with the guards of the tree as it is now -/
theorem only_protocol_error_current (c : Conn) (o : LoadsOutcome) :
    (∃ r, (receiveMessage Facts.C05.guards c o).2 = .ok r)
    ∨ (∃ e, (receiveMessage Facts.C05.guards c o).2 = .error (.proto e)) :=
  only_protocol_error _ facts_guards_adequate c o

theorem session_serving_or_closed_current (c : Conn) (msgs : List (LoadsOutcome × Env))
    (hq : ∀ m ∈ msgs, m.2.quiet = true) :
    (runLoop Facts.C05.guards { conn := c, phase := .receiving } msgs).phase = .receiving ∨
    (runLoop Facts.C05.guards { conn := c, phase := .receiving } msgs).phase = .closed :=
  session_serving_or_closed _ facts_guards_adequate c msgs hq

end Aiorpcx.C05
