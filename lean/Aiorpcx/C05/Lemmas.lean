import Aiorpcx.C05.Model
import Aiorpcx.C04.ClassifyProofs
/-! Helper lemmas for the C05 theorems: which exceptions each building block can raise. -/
namespace Aiorpcx.C05
open Aiorpcx.Py Aiorpcx.C04
set_option linter.unusedSimpArgs false

/-- the guards are sufficient for the theorems: every way `json.loads(message.decode())` can
raise is turned into a `ProtocolError`; `TypeError` is caught around the id look-up and around
`sorted`; the connection and the session catch `ProtocolError`; and none of the `ProtocolError`
handlers also catches `TypeError`/`AttributeError`-like foreign exceptions it cannot handle -/
def adequate (g : Guards) : Bool :=
  [LoadsOutcome.unicodeError, .jsonDecodeError, .recursionError, .intDigitsValueError].all
    (fun o => match o.exc? with
      | some e => e.caughtBy g.payload.clause1 || e.caughtBy g.payload.clause2
      | none => true)
  && PyExc.typeError.caughtBy g.lookup
  && PyExc.typeError.caughtBy g.sort
  && PyExc.protocolError.caughtBy g.recv
  && PyExc.protocolError.caughtBy g.loop
  && PyExc.protocolError.caughtBy g.member
  && g.doneSingle
  && g.doneBatch

/-- `adequate`, clause by clause -/
theorem adequate_iff (g : Guards) : adequate g = true ↔
    ([LoadsOutcome.unicodeError, .jsonDecodeError, .recursionError, .intDigitsValueError].all
      (fun o => match o.exc? with
        | some e => e.caughtBy g.payload.clause1 || e.caughtBy g.payload.clause2
        | none => true) = true)
    ∧ PyExc.typeError.caughtBy g.lookup = true
    ∧ PyExc.typeError.caughtBy g.sort = true
    ∧ PyExc.protocolError.caughtBy g.recv = true
    ∧ PyExc.protocolError.caughtBy g.loop = true
    ∧ PyExc.protocolError.caughtBy g.member = true
    ∧ g.doneSingle = true
    ∧ g.doneBatch = true := by
  simp only [adequate, Bool.and_eq_true]
  constructor
  · rintro ⟨⟨⟨⟨⟨⟨⟨a, b⟩, c⟩, d⟩, e⟩, f⟩, h⟩, i⟩; exact ⟨a, b, c, d, e, f, h, i⟩
  · rintro ⟨a, b, c, d, e, f, h, i⟩; exact ⟨⟨⟨⟨⟨⟨⟨a, b⟩, c⟩, d⟩, e⟩, f⟩, h⟩, i⟩

/-- an `R` value that is `ok` or a `ProtocolError` -/
def NoPy {α : Type} (r : R α) : Prop := ∀ e, r ≠ .error (.py e)

theorem NoPy.ok {α : Type} (a : α) : NoPy (Except.ok a : R α) := by intro e h; cases h
theorem NoPy.proto {α : Type} (e : PErr) : NoPy (Except.error (.proto e) : R α) := by
  intro e' h; cases h

theorem messageToPayload_noPy (g : Guards) (hg : adequate g = true) (P : Proto) (o : LoadsOutcome) :
    NoPy (messageToPayload g.payload P o) := by
  have hp := ((adequate_iff g).1 hg).1
  simp only [List.all_cons, List.all_nil, Bool.and_true, Bool.and_eq_true] at hp
  obtain ⟨h1, h2, h3, h4⟩ := hp
  cases o with
  | value v => exact NoPy.ok v
  | unicodeError =>
    simp only [LoadsOutcome.exc?, Bool.or_eq_true] at h1
    unfold messageToPayload
    simp only [LoadsOutcome.exc?]
    rcases h1 with h | h <;> simp [h] <;> (try split) <;> exact NoPy.proto _
  | jsonDecodeError =>
    simp only [LoadsOutcome.exc?, Bool.or_eq_true] at h2
    unfold messageToPayload
    simp only [LoadsOutcome.exc?]
    rcases h2 with h | h <;> simp [h] <;> (try split) <;> exact NoPy.proto _
  | recursionError =>
    simp only [LoadsOutcome.exc?, Bool.or_eq_true] at h3
    unfold messageToPayload
    simp only [LoadsOutcome.exc?]
    rcases h3 with h | h <;> simp [h] <;> (try split) <;> exact NoPy.proto _
  | intDigitsValueError =>
    simp only [LoadsOutcome.exc?, Bool.or_eq_true] at h4
    unfold messageToPayload
    simp only [LoadsOutcome.exc?]
    rcases h4 with h | h <;> simp [h] <;> (try split) <;> exact NoPy.proto _

/-! ### `_message_id`, `_process_request`, `_process_response` -/

theorem messageId_ok_obj (P : Proto) (p rid : J) (req : Bool) (h : messageId P p req = .ok rid) :
    ∃ kvs, p = .obj kvs := by
  cases p with
  | obj kvs => exact ⟨kvs, rfl⟩
  | arr xs =>
    cases P <;> simp [messageId, v1MessageId, v2MessageId] at h
    split at h <;> cases h
  | str s =>
    cases P <;> simp [messageId, v1MessageId, v2MessageId] at h
    split at h <;> cases h
  | null | bool _ | int _ | float _ => cases P <;> simp [messageId, v1MessageId, v2MessageId] at h

theorem v2MessageId_noPy (p : J) (req : Bool) : NoPy (v2MessageId p req) := by
  unfold v2MessageId
  cases p with
  | obj kvs =>
    simp only
    cases J.lookup kId kvs with
    | none => simp only; split <;> first | exact NoPy.proto _ | exact NoPy.ok _
    | some rid => simp only; split <;> first | exact NoPy.proto _ | exact NoPy.ok _
  | _ => exact NoPy.proto _

theorem messageId_noPy (P : Proto) (p : J) (req : Bool) (h : P ≠ .v1 ∨ p.isDict = true) :
    NoPy (messageId P p req) := by
  cases P with
  | v1 =>
    rcases h with h | h
    · exact absurd rfl h
    · cases p <;> simp [J.isDict] at h
      simp only [messageId, v1MessageId]
      split <;> first | exact NoPy.proto _ | exact NoPy.ok _
  | v2 | loose | auto => exact v2MessageId_noPy p req

theorem validateMessage_noPy (P : Proto) (kvs : List (Str × J)) : NoPy (validateMessage P kvs) := by
  cases P <;> simp only [validateMessage] <;> (try split) <;> first | exact NoPy.proto _ | exact NoPy.ok _

theorem requestArgs_noPy (P : Proto) (kvs : List (Str × J)) : NoPy (requestArgs P kvs) := by
  cases P <;> simp only [requestArgs] <;> (try split) <;> first | exact NoPy.proto _ | exact NoPy.ok _

theorem singleRequest_noPy (m a : J) : NoPy (singleRequest m a) := by
  unfold singleRequest
  split
  · split <;> first | exact NoPy.proto _ | exact NoPy.ok _
  · exact NoPy.proto _

theorem responseValue_noPy (P : Proto) (kvs : List (Str × J)) : NoPy (responseValue P kvs) := by
  have h := respClass_v2 .v2 (Or.inl rfl) kvs
  intro e he
  -- `respClass` of a `.py` error is `.crash`, which no table entry produces
  have hc : respClass (responseValue P kvs) = .crash := by rw [he]; rfl
  cases P with
  | v1 =>
    rw [respClass_v1] at hc
    revert hc; cases resK kvs <;> cases errK kvs <;> simp [IR]
  | loose =>
    rw [respClass_loose] at hc
    revert hc; cases resK kvs <;> cases errK kvs <;> simp [IR]
  | v2 =>
    rw [respClass_v2 .v2 (Or.inl rfl)] at hc
    revert hc; cases resK kvs <;> cases errK kvs <;> simp [IR]
  | auto =>
    rw [respClass_v2 .auto (Or.inr rfl)] at hc
    revert hc; cases resK kvs <;> cases errK kvs <;> simp [IR]

theorem processRequestBody_noPy (P : Proto) (kvs : List (Str × J)) (rid : J) :
    NoPy (processRequestBody P (.obj kvs) rid) := by
  intro e he
  unfold processRequestBody at he
  simp only [asDict] at he
  cases hv : validateMessage P kvs with
  | error x =>
    rw [hv] at he
    simp only at he
    exact validateMessage_noPy P kvs e (by rw [hv]; injection he with he; rw [he])
  | ok u =>
    rw [hv] at he
    simp only at he
    cases ha : requestArgs P kvs with
    | error x =>
      rw [ha] at he
      simp only at he
      exact requestArgs_noPy P kvs e (by rw [ha]; injection he with he; rw [he])
    | ok args =>
      rw [ha] at he
      simp only at he
      cases hs : singleRequest (getD kMethod kvs) args with
      | error x =>
        rw [hs] at he
        simp only at he
        exact singleRequest_noPy _ _ e (by rw [hs]; injection he with he; rw [he])
      | ok m =>
        rw [hs] at he
        simp only at he
        cases he

/-- the id an error reply to the payload `p` may carry: `null`, or `p`'s own `id` member -/
def IdOf (p : J) (rid : J) : Prop :=
  rid = .null ∨ ∃ kvs, p = .obj kvs ∧ J.lookup kId kvs = some rid

/-- `_message_id` returns the payload's `id` member (or `None` where a missing id is allowed) -/
theorem messageId_ok_id (P : Proto) (p rid : J) (req : Bool) (h : messageId P p req = .ok rid) :
    IdOf p rid := by
  obtain ⟨kvs, rfl⟩ := messageId_ok_obj P p rid req h
  cases hl : J.lookup kId kvs with
  | none =>
    cases P <;> simp only [messageId, v1MessageId, v2MessageId, hl] at h
    · cases h
    all_goals
      split at h
      · cases h
      · injection h with h; exact Or.inl h.symm
  | some r =>
    refine Or.inr ⟨kvs, rfl, ?_⟩
    cases P <;> simp only [messageId, v1MessageId, v2MessageId, hl] at h
    · injection h with h; rw [← h, hl]
    all_goals
      split at h
      · cases h
      · injection h with h; rw [← h, hl]

/-- `_process_request`: an item, or a `ProtocolError` built by `_error(.., send=True, id)` —
it carries a single error reply whose id is `None` or the payload's `id` member, and it is not
marked as a response -/
theorem processRequest_cases (P : Proto) (p : J) (h : P ≠ .v1 ∨ p.isDict = true) :
    (∃ x, processRequest P p = .ok x) ∨
    (∃ code msg rid, IdOf p rid ∧
      processRequest P p = .error (.proto (mkError P code msg true rid))) := by
  unfold processRequest
  cases hm : messageId P p false with
  | error x =>
    cases x with
    | proto e => exact Or.inr ⟨_, _, _, Or.inl rfl, rfl⟩
    | py e => exact absurd hm (messageId_noPy P p false h e)
  | ok rid =>
    have hid := messageId_ok_id P p rid false hm
    obtain ⟨kvs, rfl⟩ := messageId_ok_obj P p rid false hm
    simp only
    cases hb : processRequestBody P (.obj kvs) rid with
    | error x =>
      cases x with
      | proto e => exact Or.inr ⟨_, _, _, hid, rfl⟩
      | py e => exact absurd hb (processRequestBody_noPy P kvs rid e)
    | ok item => exact Or.inl ⟨_, rfl⟩

/-- `_process_response`: a `Response` under its id, or a `ProtocolError` built by
`_error(.., send=False, id)` — no reply, marked with the response id -/
theorem processResponse_cases (P : Proto) (p : J) (h : P ≠ .v1 ∨ p.isDict = true) :
    (∃ v rid, processResponse P p = .ok (.response v, rid)) ∨
    (∃ code msg rid, processResponse P p = .error (.proto (mkError P code msg false rid))) := by
  unfold processResponse
  cases hm : messageId P p true with
  | error x =>
    cases x with
    | proto e => exact Or.inr ⟨_, _, _, rfl⟩
    | py e => exact absurd hm (messageId_noPy P p true h e)
  | ok rid =>
    obtain ⟨kvs, rfl⟩ := messageId_ok_obj P p rid true hm
    simp only [asDict]
    cases hv : validateMessage P kvs with
    | error x =>
      cases x with
      | proto e => exact Or.inr ⟨_, _, _, rfl⟩
      | py e => exact absurd hv (validateMessage_noPy P kvs e)
    | ok u =>
      simp only
      cases hr : responseValue P kvs with
      | error x =>
        cases x with
        | proto e => exact Or.inr ⟨_, _, _, rfl⟩
        | py e => exact absurd hr (responseValue_noPy P kvs e)
      | ok v => exact Or.inl ⟨_, _, rfl⟩

/-- ids accepted by 2.0/Loose are hashable -/
theorem processResponse_id_hashable (P : Proto) (hP : P ≠ .v1) (p : J) (v : Item) (rid : J)
    (h : processResponse P p = .ok (v, rid)) : rid.hashable = true := by
  unfold processResponse at h
  have hmid : messageId P p true = v2MessageId p true := by cases P <;> simp at hP <;> rfl
  rw [hmid] at h
  cases hm : v2MessageId p true with
  | error x => rw [hm] at h; cases x <;> simp at h
  | ok rid' =>
    rw [hm] at h
    have hr : rid' = rid := by
      simp only at h
      split at h <;> simp at h
      exact h.2
    subst hr
    unfold v2MessageId at hm
    cases p with
    | obj kvs =>
      simp only at hm
      cases hl : J.lookup kId kvs with
      | none => rw [hl] at hm; simp at hm
      | some r =>
        rw [hl] at hm
        simp only at hm
        split at hm
        · cases hm
        · injection hm with hm; subst hm
          rename_i hc
          cases r <;> simp [J.isNumber, J.isStr, J.isNone, J.isBool] at hc <;> rfl
    | _ => simp at hm

end Aiorpcx.C05
