import Aiorpcx.C04.Model
/-!
# C05 — model of `JSONRPCConnection.receive_message` (+ `_receive_response`,
`_receive_response_batch`, `_receive_request_batch`) and of `RPCSession._process_messages_loop`.
No Mathlib: the driver links this.

The input of `receiveMessage` is the outcome of `json.loads(message.decode())`
(`C04.LoadsOutcome`: a value or one of the four ways it can raise — trusted-base law L3).
Everything downstream that Python can raise is explicit: `x in dict` with an unhashable `x`
(`pyIn`), `sorted` over ids that do not compare (`pySorted`), attribute access on a caught
non-`ProtocolError`, `set_result` / `set_exception` on a future that is already done
(`asyncio.InvalidStateError`).  Which exceptions the code turns into a `ProtocolError` where, and
whether it looks at `future.done()` first, is **data** (`Guards`), derived on every run from a
decision table obtained by *running* the real functions on hostile inputs
(`Facts.C05.probeTable`, see `Probe.lean`); `Guards.repaired` is the tree with fixes/F04–F06
applied, `Guards.pinned` the pinned tree.

An outstanding request is a key of `JSONRPCConnection._requests` together with the state of the
future its caller waits on: a caller that gave up (`sent_request_timeout`, cancellation) leaves
the entry in the table with a cancelled future.
-/
namespace Aiorpcx.C05
open Aiorpcx.Py Aiorpcx.C04

/-- key of `JSONRPCConnection._requests`: a request id, or the sorted id tuple of a batch -/
inductive Key where
  | single (id : J)
  | batch (ids : List J)
  deriving DecidableEq, Repr

/-- state of the future returned by `send_request` / `send_batch` -/
inductive Fut where
  /-- nobody has resolved it yet -/
  | pending
  /-- the waiter gave up: `future.cancel()` (what a timeout around the wait does) -/
  | cancelled
  /-- somebody else already set a result or an exception -/
  | finished
  deriving DecidableEq, Repr

/-- an entry of `JSONRPCConnection._requests` -/
structure Entry where
  key : Key
  fut : Fut := .pending
  deriving DecidableEq, Repr

structure Conn where
  proto : Proto
  /-- outstanding entries in dict (insertion) order -/
  out : List Entry
  deriving DecidableEq, Repr

/-- `asyncio.InvalidStateError` (a direct subclass of `Exception`) -/
def invalidStateError : PyExc := .invalidStateError

/-- caught-exception sets of the `try` statements on the receive path -/
structure Guards where
  /-- `_message_to_payload` -/
  payload : PayloadGuards
  /-- around `request_id in self._requests` in `_receive_response` (`[]`: no `try`) -/
  lookup : List PyExc
  /-- around `sorted(..)` in `_receive_response_batch` (`[]`: no `try`) -/
  sort : List PyExc
  /-- the `except` around `message_to_item` in `receive_message` -/
  recv : List PyExc
  /-- the `except` around `receive_message` in `RPCSession._process_messages_loop` -/
  loop : List PyExc
  /-- the `except` around `_process_request` in `_receive_request_batch` -/
  member : List PyExc
  /-- `_receive_response` looks at `future.done()` before `set_result` / `set_exception` -/
  doneSingle : Bool := true
  /-- `_receive_response_batch` looks at `future.done()` before `set_result` -/
  doneBatch : Bool := true
  deriving DecidableEq, Repr

def Guards.repaired : Guards :=
  { payload := .repaired, lookup := [.typeError], sort := [.typeError],
    recv := [.protocolError], loop := [.protocolError], member := [.protocolError] }

def Guards.pinned : Guards :=
  { payload := .pinned, lookup := [], sort := [],
    recv := [.protocolError], loop := [.protocolError], member := [.protocolError] }

/-- how a future is resolved -/
inductive Completion where
  /-- `set_result(v)` / `set_exception(RPCError | ProtocolError)` of a single request -/
  | single (v : RespVal)
  /-- `set_result(tuple of the members' results, in id order)` of a batch -/
  | batch (vs : List RespVal)
  deriving DecidableEq, Repr

/-- successful return of `receive_message` -/
structure Recv where
  /-- the `Request`/`Notification` items returned (with the id each `send_result` is bound to) -/
  items : List (Item × J) := []
  /-- the pending future resolved, if any (then nothing is returned) -/
  completed : Option (Key × Completion) := none
  /-- the entry removed from the table although its future was already done (cancelled by a
  waiter that gave up, or resolved by somebody else): nothing is resolved, nothing returned -/
  discarded : Option Key := none
  deriving DecidableEq, Repr

def singleKeys (out : List Entry) : List J :=
  out.filterMap fun en => match en.key with | .single i => some i | .batch _ => none

/-- `self._requests.pop(request_id)`: drop the (unique) entry whose key equals it -/
def popSingle (rid : J) : List Entry → List Entry
  | [] => []
  | en :: r =>
      match en.key with
      | .single i => if pyEq rid i then r else en :: popSingle rid r
      | .batch _ => en :: popSingle rid r

/-- the stored entry a response id matches -/
def findSingle (rid : J) : List Entry → Option Entry
  | [] => none
  | en :: r =>
      match en.key with
      | .single i => if pyEq rid i then some en else findSingle rid r
      | .batch _ => findSingle rid r

/-- tuple `==` tuple -/
def idsEq : List J → List J → Bool
  | [], [] => true
  | a :: as, b :: bs => pyEq a b && idsEq as bs
  | _, _ => false

def findBatch (ids : List J) : List Entry → Option Entry
  | [] => none
  | en :: r =>
      match en.key with
      | .batch ks => if idsEq ids ks then some en else findBatch ids r
      | .single _ => findBatch ids r

def popBatch (ids : List J) : List Entry → List Entry
  | [] => []
  | en :: r =>
      match en.key with
      | .batch ks => if idsEq ids ks then r else en :: popBatch ids r
      | .single _ => en :: popBatch ids r

/-- the tail of `_receive_response` / `_receive_response_batch` once the entry `en` has been
popped: `if not future.done(): future.set_result(..)` — or, without the `done()` test, the
`InvalidStateError` of `set_result` on a future that is already done.  The entry is gone from
the table in either case (the `pop` came first). -/
def resolve (doneGuard : Bool) (c' : Conn) (en : Entry) (v : Completion) : Conn × R Recv :=
  match en.fut with
  | .pending => (c', .ok { completed := some (en.key, v) })
  | _ =>
      if doneGuard then (c', .ok { discarded := some en.key })
      else (c', .error (.py invalidStateError))

/-- `ProtocolError.invalid_request(..)` raised by the connection itself: no reply attached, not
marked as a response -/
def unsent (msg : String) : Exc := .proto (invalidRequest msg)

/-- `JSONRPCConnection._receive_response(result, request_id)`: a `bool` is never an id we issued
(`True == 1`), otherwise the id is looked up in `_requests` -/
def receiveResponse (g : Guards) (c : Conn) (result : RespVal) (rid : J) : Conn × R Recv :=
  let known : R Bool :=
    if rid.isBool then .ok false
    else
      match pyIn rid (singleKeys c.out) with
      | .ok b => .ok b
      | .error e => if e.caughtBy g.lookup then .ok false else .error (.py e)
  match known with
  | .error e => (c, .error e)
  | .ok false => (c, .error (unsent "response to unsent request"))
  | .ok true =>
      match findSingle rid c.out with
      | none => (c, .error (.py .keyError))            -- not reachable: `known`
      | some en => resolve g.doneSingle { c with out := popSingle rid c.out } en (.single result)

/-- `isinstance(payload, dict) and ('result' in payload or 'error' in payload)` -/
def responseShapedMember : J → Bool
  | .obj kvs => J.hasKey kResult kvs || J.hasKey kError kvs
  | _ => false

def respValOf : Item → Option RespVal
  | .response v => some v
  | _ => none

/-- the loop of `_receive_response_batch`: `ProtocolError`s are let through -/
def processResponses (P : Proto) : List J → R (List (J × RespVal))
  | [] => .ok []
  | p :: ps =>
      match processResponse P p with
      | .error e => .error e
      | .ok (item, rid) =>
          match respValOf item with
          | none => .error (.py .attributeError)     -- not reachable: `item.result`
          | some v =>
              match processResponses P ps with
              | .error e => .error e
              | .ok r => .ok ((rid, v) :: r)

/-- `JSONRPCConnection._receive_response_batch(payloads)` -/
def receiveResponseBatch (g : Guards) (c : Conn) (payloads : List J) : Conn × R Recv :=
  match processResponses c.proto payloads with
  | .error e => (c, .error e)
  | .ok pairs =>
      let ordered : R (List (J × RespVal)) :=
        match pySorted (fun t : J × RespVal => t.1) pairs with
        | .ok l => .ok l
        | .error e =>
            if e.caughtBy g.sort then .error (unsent "response to unsent batch")
            else .error (.py e)
      match ordered with
      | .error e => (c, .error e)
      | .ok ordered =>
          let ids := ordered.map (·.1)
          -- hashing the id tuple hashes every id
          if !(ids.all J.hashable) then (c, .error (.py .typeError))
          else
            match findBatch ids c.out with
            | none => (c, .error (unsent "response to unsent batch"))
            | some en =>
                resolve g.doneBatch { c with out := popBatch ids c.out } en
                  (.batch (ordered.map (·.2)))

/-- one iteration of the loop of `_receive_request_batch`: an item, or the error reply of an
invalid member -/
def processMember (g : Guards) (P : Proto) (p : J) : R (Sum (Item × J) J) :=
  match processRequest P p with
  | .ok x => .ok (.inl x)
  | .error e =>
      if e.cls.caughtBy g.member then
        match e with
        | .proto pe =>
            match pe.errorMessage with
            | some (.single reply) => .ok (.inr reply)
            | _ => .error (.py .typeError)      -- `b', '.join` over a None part
        | .py _ => .error (.py .attributeError)  -- `.error_message` of a foreign exception
      else .error e

/-- the loop of `_receive_request_batch`: items and the error replies of invalid members -/
def processRequests (g : Guards) (P : Proto) : List J → R (List (Item × J) × List J)
  | [] => .ok ([], [])
  | p :: ps =>
      match processMember g P p with
      | .error e => .error e
      | .ok head =>
          match processRequests g P ps with
          | .error e => .error e
          | .ok (items, parts) =>
              match head with
              | .inl x => .ok (x :: items, parts)
              | .inr reply => .ok (items, reply :: parts)

/-- `JSONRPCConnection._receive_request_batch(payloads)` -/
def receiveRequestBatch (g : Guards) (c : Conn) (payloads : List J) : Conn × R Recv :=
  match processRequests g c.proto payloads with
  | .error e => (c, .error e)
  | .ok (items, parts) =>
      if items.isEmpty && !parts.isEmpty then
        (c, .error (.proto { code := 0, msg := [], errorMessage := some (.batch parts) }))
      else (c, .ok { items := items })

/-- `JSONRPCConnection.receive_message(message)` -/
def receiveMessage (g : Guards) (c : Conn) (o : LoadsOutcome) : Conn × R Recv :=
  -- the one-shot switch: `detect_protocol` runs `_message_to_payload` itself
  let switched : R Conn :=
    if c.proto = .auto then
      match messageToPayload g.payload .auto o with
      | .error e => .error e
      | .ok main => .ok { c with proto := detectProtocol main }
    else .ok c
  match switched with
  | .error e => (c, .error e)
  | .ok c =>
    match messageToItem g.payload c.proto o with
    | .error e =>
        if e.cls.caughtBy g.recv then
          match e with
          | .proto pe =>
              match pe.responseMsgId with
              | some rid => receiveResponse g c (.protoError pe.code pe.msg) rid
              | none => (c, .error e)
          | .py _ => (c, .error (.py .attributeError))   -- `e.response_msg_id` on a foreign exception
        else (c, .error e)
    | .ok (.request m a, rid) => (c, .ok { items := [(.request m a, rid)] })
    | .ok (.notification m a, rid) => (c, .ok { items := [(.notification m a, rid)] })
    | .ok (.response v, rid) => receiveResponse g c v rid
    | .ok (.batch payloads, _) =>
        if payloads.all responseShapedMember then receiveResponseBatch g c payloads
        else receiveRequestBatch g c payloads

/-! ## Session level: `RPCSession._process_messages_loop` + `RSTransport.process_messages` -/

inductive Phase where
  /-- the message task is in its loop, awaiting the next message -/
  | receiving
  /-- the transport has been closed/aborted -/
  | closed
  /-- the message task ended with an exception while the transport is still open: the session
  is open but no longer listening -/
  | dead
  deriving DecidableEq, Repr

/-- what `await self._send_message(reply)` does: it completes, or after `max_send_delay` it
aborts the transport and raises `TaskTimeout` -/
inductive SendOutcome where | sent | timedOutAborted
  deriving DecidableEq, Repr

/-- what the environment of one loop iteration does.  Besides the transport, the loop body runs
bookkeeping code that is given the peer's bytes or the error built from them — statistics and
`logger.info(f'processing {message}')` before `receive_message`, and `logger.debug(str(e))`,
the cost and `_bump_errors(e)` in the `except ProtocolError` handler.  None of it is inside a
`try`, so whatever it raises leaves the loop: these are explicit raise points of the model.
That they do not raise is not proved here; it is *measured* on every run by feeding a real
session long hostile messages (multi-byte characters at every plausible cut point) with debug
logging on and off (`Facts.C05.loopTable`, `facts_loop_table_quiet`). -/
structure Env where
  send : SendOutcome := .sent
  /-- the code between `recv_message()` and `receive_message(message)` raised this -/
  preRaises : Option PyExc := none
  /-- the bookkeeping of the `except ProtocolError` handler (before the reply is sent) raised this -/
  errRaises : Option PyExc := none
  deriving DecidableEq, Repr

/-- bookkeeping and logging raise nothing -/
def Env.quiet (e : Env) : Bool := e.preRaises.isNone && e.errRaises.isNone

structure Sess where
  conn : Conn
  phase : Phase
  deriving DecidableEq, Repr

inductive Obs where
  | spawned (items : List (Item × J))
  | replied (reply : Reply)
  | resolved (k : Key) (v : Completion)
  | discarded (k : Key)
  | silent
  | crashed (e : PyExc)
  deriving DecidableEq, Repr

/-- one iteration of the loop on one framed message -/
def loopStep (g : Guards) (s : Sess) (o : LoadsOutcome) (env : Env) : Sess × List Obs :=
  match s.phase with
  | .closed | .dead => (s, [])
  | .receiving =>
    match env.preRaises with
    | some x => ({ s with phase := .dead }, [.crashed x])
    | none =>
      match receiveMessage g s.conn o with
      | (c, .ok r) =>
          ({ conn := c, phase := .receiving },
           (match r.completed with | some (k, v) => [Obs.resolved k v] | none => []) ++
           (match r.discarded with | some k => [Obs.discarded k] | none => []) ++
             (if r.items.isEmpty then [] else [Obs.spawned r.items]))
      | (c, .error e) =>
          if e.cls.caughtBy g.loop then
            match e with
            | .proto pe =>
                match env.errRaises with
                | some x => ({ conn := c, phase := .dead }, [.crashed x])
                | none =>
                  match pe.errorMessage with
                  | none => ({ conn := c, phase := .receiving }, [.silent])
                  | some reply =>
                      match env.send with
                      | .sent => ({ conn := c, phase := .receiving }, [.replied reply])
                      | .timedOutAborted => ({ conn := c, phase := .closed }, [])
            | .py x => ({ conn := c, phase := .dead }, [.crashed x])   -- `e.code` on a foreign exception
          else ({ conn := c, phase := .dead }, [.crashed e.cls])

def runLoop (g : Guards) : Sess → List (LoadsOutcome × Env) → Sess
  | s, [] => s
  | s, (o, env) :: rest => runLoop g (loopStep g s o env).1 rest

/-! ### … interleaved with what the local side does to the table of outstanding requests

Between two messages the application may send requests and batches (`send_request`,
`send_batch`: a new entry, awaited), a waiter may give up (`sent_request_timeout` or a
cancellation: the future is cancelled *at once*, the entry stays listed - whether and when
somebody removes it later is up to the caller), a future may be resolved by somebody else, and
an entry may be removed from the table by the caller. -/

inductive Ev where
  /-- a framed message arrives -/
  | msg (o : LoadsOutcome) (env : Env)
  /-- the session sends a request (batch) under this key -/
  | sent (k : Key)
  /-- the waiter of the `i`-th listed entry gives up: its future is cancelled, the entry stays -/
  | gaveUp (i : Nat)
  /-- the future of the `i`-th listed entry is resolved by somebody else -/
  | resolvedElsewhere (i : Nat)
  /-- the `i`-th listed entry is removed from the table by the caller -/
  | forgotten (i : Nat)
  deriving DecidableEq, Repr

def setFut (f : Fut) : Nat → List Entry → List Entry
  | _, [] => []
  | 0, en :: r => { en with fut := if en.fut = .pending then f else en.fut } :: r
  | i + 1, en :: r => en :: setFut f i r

def evStep (g : Guards) (s : Sess) : Ev → Sess
  | .msg o env => (loopStep g s o env).1
  | .sent k => { s with conn := { s.conn with out := s.conn.out ++ [{ key := k }] } }
  | .gaveUp i => { s with conn := { s.conn with out := setFut .cancelled i s.conn.out } }
  | .resolvedElsewhere i => { s with conn := { s.conn with out := setFut .finished i s.conn.out } }
  | .forgotten i => { s with conn := { s.conn with out := s.conn.out.eraseIdx i } }

def runEvents (g : Guards) : Sess → List Ev → Sess
  | s, [] => s
  | s, e :: rest => runEvents g (evStep g s e) rest

end Aiorpcx.C05
