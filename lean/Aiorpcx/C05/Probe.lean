import Aiorpcx.C05.Model
/-!
# C05 — the behavioural decision table and what the model says about it

`tools/facts/c05.py` does not look for `try` statements in the source.  It **runs** the real code
on a fixed grid of hostile inputs — undecodable bytes, nesting beyond the recursion limit, an
integer literal over the 4300-digit limit, responses whose id is a list / a dict / a bool,
response batches whose ids do not sort, responses (well-formed and malformed) naming an
outstanding request, invalid requests — on a real `JSONRPCConnection` of every protocol class in
every kind of state (nothing outstanding; singles; a single whose waiter gave up / whose future
is already resolved; a batch, pending / abandoned / resolved), through the public
`receive_message`, and — where the private helpers still exist under their names and signatures —
directly through `_receive_response`, `_receive_response_batch`, `_message_to_payload`.  What it
records per call (`Row`): how the call ended and how many requests `pending_requests()` reports
afterwards.  The same for a real `RPCSession` fed long hostile messages with logging off and on
(`LoopRow`).

This file fixes the grid (`Inp`, `St`, `Via`; the Python side lists the same inputs as bytes),
derives the model's `Guards` from a table (`deriveGuards`) and says what the model predicts for a
row (`modelRow`, `modelLoop`).  `Tie.lean` proves, for the table of the current tree, that the
derived guards are adequate and that the model reproduces every row.
No Mathlib: the driver links this.
-/
namespace Aiorpcx.C05
open Aiorpcx.Py Aiorpcx.C04

/-- how one probed call ended -/
inductive Ended where
  /-- it returned -/
  | returned
  /-- `ProtocolError` carrying an error reply for the peer -/
  | protoReply
  /-- `ProtocolError` without reply -/
  | protoNoReply
  /-- another exception escaped (nearest class of the modelled universe) -/
  | escaped (e : PyExc)
  deriving DecidableEq, Repr

/-- connection states of the grid -/
inductive St where
  | empty
  /-- two singles outstanding (ids 0, 1), both awaited -/
  | singles
  /-- request 0's waiter gave up (`future.cancel()`), request 1 awaited -/
  | singleCancelled
  /-- request 0's future already resolved by somebody else, request 1 awaited -/
  | singleDone
  /-- a batch of one request (id 0) and a notification, then single 1; all awaited -/
  | batch
  | batchCancelled
  | batchDone
  deriving DecidableEq, Repr

def St.all : List St :=
  [.empty, .singles, .singleCancelled, .singleDone, .batch, .batchCancelled, .batchDone]

/-- 1.0 has no batches: a 1.0 connection cannot have one outstanding -/
def St.single : List St := [.empty, .singles, .singleCancelled, .singleDone]

def St.for (P : Proto) : List St := if P = .v1 then St.single else St.all

def St.out : St → List Entry
  | .empty => []
  | .singles => [⟨.single (.int 0), .pending⟩, ⟨.single (.int 1), .pending⟩]
  | .singleCancelled => [⟨.single (.int 0), .cancelled⟩, ⟨.single (.int 1), .pending⟩]
  | .singleDone => [⟨.single (.int 0), .finished⟩, ⟨.single (.int 1), .pending⟩]
  | .batch => [⟨.batch [.int 0], .pending⟩, ⟨.single (.int 1), .pending⟩]
  | .batchCancelled => [⟨.batch [.int 0], .cancelled⟩, ⟨.single (.int 1), .pending⟩]
  | .batchDone => [⟨.batch [.int 0], .finished⟩, ⟨.single (.int 1), .pending⟩]

/-- the hostile (and control) messages of the grid -/
inductive Inp where
  | badUtf8 | badJson | deepNesting | hugeInt
  | respListId | respDictId | respBoolId
  | respKnownV1 | respKnownV2 | respErrorKnown | respMalformedKnown | respUnknown
  | batchMixedIds | batchNullIds | batchKnown | batchMalformedKnown
  | reqBadParams | batchOneBad | batchAllBad | reqOk
  deriving DecidableEq, Repr

def sx (s : String) : J := .str (lit s)
def resp2 (result rid : J) : J := .obj [(kJsonrpc, s20), (kResult, result), (kId, rid)]

/-- what `json.loads(message.decode())` does with the input (the bytes are in
`harness/c05_probe.py`, under the same names) -/
def Inp.outcome : Inp → LoadsOutcome
  | .badUtf8 => .unicodeError
  | .badJson => .jsonDecodeError
  | .deepNesting => .recursionError
  | .hugeInt => .intDigitsValueError
  | .respListId =>
      .value (.obj [(kJsonrpc, s20), (kResult, .int 7), (kError, .null), (kId, .arr [.int 1])])
  | .respDictId =>
      .value (.obj [(kJsonrpc, s20), (kResult, .int 7), (kError, .null), (kId, .obj [(lit "a", .int 1)])])
  | .respBoolId =>
      .value (.obj [(kJsonrpc, s20), (kResult, .int 7), (kError, .null), (kId, .bool true)])
  | .respKnownV1 => .value (.obj [(kResult, .int 7), (kError, .null), (kId, .int 0)])
  | .respKnownV2 => .value (resp2 (.int 7) (.int 0))
  | .respErrorKnown =>
      .value (.obj [(kJsonrpc, s20), (kError, errorObj (.int 5) (sx "e")), (kId, .int 0)])
  | .respMalformedKnown => .value (.obj [(kJsonrpc, s20), (kId, .int 0)])
  | .respUnknown => .value (.obj [(kJsonrpc, s20), (kResult, .int 7), (kError, .null), (kId, .int 77)])
  | .batchMixedIds => .value (.arr [resp2 (.int 1) (.int 0), resp2 (.int 2) (sx "x")])
  | .batchNullIds => .value (.arr [resp2 (.int 1) .null, resp2 (.int 2) .null])
  | .batchKnown => .value (.arr [resp2 (.int 7) (.int 0)])
  | .batchMalformedKnown => .value (.arr [.obj [(kJsonrpc, s20), (kResult, .int 7), (kError, .int 5), (kId, .int 0)]])
  | .reqBadParams =>
      .value (.obj [(kJsonrpc, s20), (kMethod, sx "m"), (kParams, .int 5), (kId, .int 3)])
  | .batchOneBad => .value (.arr [.obj [(kJsonrpc, s20), (kMethod, sx "m"), (kId, .int 3)], .int 5])
  | .batchAllBad => .value (.arr [.int 5, .int 6])
  | .reqOk => .value (.obj [(kJsonrpc, s20), (kMethod, sx "m"), (kParams, .arr []), (kId, .int 3)])

/-- ids handed directly to `_receive_response(7, id)` -/
inductive Rid where
  | list | dict | bool | zero | one | unknown | none | floatZero | strZero
  deriving DecidableEq, Repr

def Rid.j : Rid → J
  | .list => .arr [.int 1]
  | .dict => .obj [(lit "a", .int 1)]
  | .bool => .bool false
  | .zero => .int 0
  | .one => .int 1
  | .unknown => .int 77
  | .none => .null
  | .floatZero => .float (.fin 0 0)
  | .strZero => sx "0"

/-- the entry point probed -/
inductive Via where
  /-- `connection.receive_message(bytes)` (public) -/
  | receiveMessage (i : Inp)
  /-- `connection._receive_response(7, id)` -/
  | receiveResponse (r : Rid)
  /-- `connection._receive_response_batch(payloads)` with the members of a batch input -/
  | receiveResponseBatch (i : Inp)
  /-- `protocol._message_to_payload(bytes)` -/
  | messageToPayload (i : Inp)
  deriving DecidableEq, Repr

/-- one observation: what the real code did -/
structure Row where
  via : Via
  proto : Proto
  st : St
  ended : Ended
  /-- `len(connection.pending_requests())` afterwards -/
  pending : Nat
  deriving DecidableEq, Repr

def endedOf {α : Type} : R α → Ended
  | .ok _ => .returned
  | .error (.proto e) => if e.errorMessage.isSome then .protoReply else .protoNoReply
  | .error (.py x) => .escaped x

/-- what the model does on the probe of a row -/
def modelRow (g : Guards) (via : Via) (P : Proto) (st : St) : Option (Ended × Nat) :=
  let c : Conn := { proto := P, out := st.out }
  match via with
  | .receiveMessage i =>
      let r := receiveMessage g c i.outcome
      some (endedOf r.2, r.1.out.length)
  | .receiveResponse rid =>
      let r := receiveResponse g c (.result (.int 7)) rid.j
      some (endedOf r.2, r.1.out.length)
  | .receiveResponseBatch i =>
      match i.outcome with
      | .value (.arr ps) =>
          let r := receiveResponseBatch g c ps
          some (endedOf r.2, r.1.out.length)
      | _ => none
  | .messageToPayload i => some (endedOf (messageToPayload g.payload P i.outcome), st.out.length)

def Row.reproducedBy (g : Guards) (r : Row) : Bool :=
  modelRow g r.via r.proto r.st == some (r.ended, r.pending)

/-! ## The session loop -/

/-- kinds of long message fed to a real `RPCSession` (2.0, nothing outstanding) -/
inductive MsgKind where
  | parseUtf8 | parseJson
  /-- a response nobody asked for -/
  | unsolicited
  /-- a request with ill-typed `params` -/
  | badParams
  /-- a request without `"jsonrpc":"2.0"` -/
  | missingJsonrpc
  /-- a batch all of whose members are invalid requests -/
  | allInvalidBatch
  | okRequest | okNotification
  deriving DecidableEq, Repr

def MsgKind.outcome : MsgKind → LoadsOutcome
  | .parseUtf8 => .unicodeError
  | .parseJson => .jsonDecodeError
  | .unsolicited => .value (resp2 (sx "pad") (.int 77))
  | .badParams => .value (.obj [(kJsonrpc, s20), (kMethod, sx "pad"), (kParams, .int 5), (kId, .int 3)])
  | .missingJsonrpc => .value (.obj [(kMethod, sx "pad"), (kId, .int 3)])
  | .allInvalidBatch => .value (.arr [.obj [(kMethod, sx "pad"), (kId, .int 3)], .int 5])
  | .okRequest => .value (.obj [(kJsonrpc, s20), (kMethod, sx "pad"), (kParams, .arr []), (kId, .int 3)])
  | .okNotification => .value (.obj [(kJsonrpc, s20), (kMethod, sx "pad"), (kParams, .arr [])])

/-- what became of the session: a probe request sent afterwards was answered; or the transport
was closed; or neither (open but no longer listening) -/
inductive LoopEnded where | served | closed | wedged
  deriving DecidableEq, Repr

/-- one session observation -/
structure LoopRow where
  /-- debug logging on the session's logger, `verbosity` raised and `log_me` set, with a handler
  that formats every record -/
  verbose : Bool
  kind : MsgKind
  /-- width in bytes of the padding character (1 = ASCII) -/
  width : Nat
  /-- byte offset at which the run of padding characters begins … -/
  start : Nat
  /-- … and how many of them there are (61: one cut point is straddled; > 270: the run spans
  every plausible cut point up to byte 1100) -/
  run : Nat
  ended : LoopEnded
  deriving DecidableEq, Repr

/-- what the model's loop does with such a message when its bookkeeping raises nothing -/
def modelLoop (g : Guards) (k : MsgKind) : LoopEnded :=
  match (loopStep g { conn := { proto := .v2, out := [] }, phase := .receiving } k.outcome {}).1.phase with
  | .receiving => .served
  | .closed => .closed
  | .dead => .wedged

def LoopRow.reproducedBy (g : Guards) (r : LoopRow) : Bool := modelLoop g r.kind == r.ended

/-! ## Guards from observations -/

def protos : List Proto := [.v1, .v2, .loose, .auto]

/-- every observed public row selected by `sel` ended as `want` (that the rows of the grid were
all observed is `complete`) -/
def allEnded (t : List Row) (want : Ended) (sel : Inp → Proto → St → Bool) : Bool :=
  t.all fun r =>
    match r.via with
    | .receiveMessage i => !(sel i r.proto r.st) || r.ended == want
    | _ => true

def Inp.isParse : Inp → Bool
  | .badUtf8 | .badJson | .deepNesting | .hugeInt => true
  | _ => false

def Inp.isRequest : Inp → Bool
  | .reqBadParams | .batchOneBad | .batchAllBad | .reqOk => true
  | _ => false

def St.abandoned : St → Bool
  | .singleCancelled | .singleDone | .batchCancelled | .batchDone => true
  | _ => false

/-- the error kinds of the session grid that make `receive_message` raise -/
def errorKinds : List MsgKind :=
  [.parseUtf8, .parseJson, .unsolicited, .badParams, .missingJsonrpc, .allInvalidBatch]

/-- the loop handles the `ProtocolError` of every error kind: judged on the plain rows (ASCII
only, logging at its defaults), where no bookkeeping has anything unusual to chew on -/
def loopCatches (lt : List LoopRow) : Bool :=
  lt.all (fun r => r.verbose || r.width != 1 || !(errorKinds.contains r.kind) || r.ended == .served)
  && errorKinds.all fun k => lt.any (fun r => r.kind == k && !r.verbose && r.width == 1)

/-- **the guards of the model, read off the decision table**: an exception class counts as
turned into a `ProtocolError` at a site exactly when every public probe that drives that
exception to that site ended in a `ProtocolError` (of the right kind), in every protocol and
state of the grid; the `done()` tests count as present exactly when every response to an
abandoned / already resolved request or batch returned. -/
def deriveGuards (t : List Row) (lt : List LoopRow) : Guards :=
  let parse (i : Inp) : Bool := allEnded t .protoReply (fun j _ _ => j == i)
  { payload :=
      { clause1 := if parse .badUtf8 then [.unicodeDecodeError] else [],
        clause2 := (if parse .badJson then [.jsonDecodeError] else [])
          ++ (if parse .deepNesting then [.recursionError] else [])
          ++ (if parse .hugeInt then [.valueError] else []) },
    lookup :=
      if allEnded t .protoNoReply (fun i P _ => (i == .respListId || i == .respDictId) && P == .v1)
      then [.typeError] else [],
    sort :=
      if allEnded t .protoNoReply (fun i P _ => (i == .batchMixedIds || i == .batchNullIds) && P != .v1)
      then [.typeError] else [],
    recv :=
      if allEnded t .returned (fun i _ st => i == .respMalformedKnown && st == .singles)
      then [.protocolError] else [],
    loop := if loopCatches lt then [.protocolError] else [],
    member :=
      if allEnded t .returned (fun i P _ => i == .batchOneBad && P != .v1)
      then [.protocolError] else [],
    doneSingle :=
      allEnded t .returned (fun i _ st =>
        (st == .singleCancelled || st == .singleDone) &&
        (i == .respKnownV1 || i == .respKnownV2 || i == .respErrorKnown || i == .respMalformedKnown)),
    doneBatch :=
      allEnded t .returned (fun i P st =>
        i == .batchKnown && P != .v1 && (st == .batchCancelled || st == .batchDone)) }

/-- the public part of the grid, in the order the extractor walks it -/
def mandatory : List (Via × Proto × St) :=
  protos.flatMap fun P =>
    ([Inp.badUtf8, .badJson, .deepNesting, .hugeInt, .reqBadParams, .batchOneBad, .batchAllBad, .reqOk].flatMap
        fun i => [St.empty, .singles].map fun st => (Via.receiveMessage i, P, st))
    ++ ([Inp.respListId, .respDictId, .respBoolId, .respKnownV1, .respKnownV2, .respErrorKnown,
         .respMalformedKnown, .respUnknown, .batchMixedIds, .batchNullIds, .batchKnown,
         .batchMalformedKnown].flatMap fun i => (St.for P).map fun st => (Via.receiveMessage i, P, st))

def Via.isPublic : Via → Bool
  | .receiveMessage _ => true
  | _ => false

/-- every row of the public part of the grid was observed (exactly once, in grid order) -/
def complete (t : List Row) : Bool :=
  (t.filter (·.via.isPublic)).map (fun r => (r.via, r.proto, r.st)) == mandatory

/-- no observed session was left open but not listening, and every error kind was observed with
logging off and on, with a multi-byte character at byte 100 and with dense runs of 2-, 3- and
4-byte characters in every alignment -/
def loopQuiet (lt : List LoopRow) : Bool :=
  lt.all (fun r => r.ended != .wedged)
  && errorKinds.all (fun k => [true, false].all fun v =>
      lt.any (fun r => r.kind == k && r.verbose == v && r.width > 1 && r.start == 99)
      && [2, 3, 4].all fun w =>
          (lt.filter fun r => r.kind == k && r.verbose == v && r.width == w && r.run > 270).length ≥ w)

end Aiorpcx.C05
