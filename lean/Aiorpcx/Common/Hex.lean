/-! Shared helpers for the line-protocol drivers (no Mathlib). -/
namespace Aiorpcx.Hex

def hexVal (c : Char) : Option Nat :=
  if '0' ≤ c ∧ c ≤ '9' then some (c.toNat - '0'.toNat)
  else if 'a' ≤ c ∧ c ≤ 'f' then some (c.toNat - 'a'.toNat + 10)
  else if 'A' ≤ c ∧ c ≤ 'F' then some (c.toNat - 'A'.toNat + 10)
  else none

/-- "-" is the empty byte string; otherwise an even number of hex digits -/
def parseBytes (s : String) : Option (List UInt8) :=
  if s == "-" then some [] else
  let rec go : List Char → List UInt8 → Option (List UInt8)
    | [], acc => some acc.reverse
    | [_], _ => none
    | a :: b :: r, acc =>
        match hexVal a, hexVal b with
        | some x, some y => go r ((x * 16 + y).toUInt8 :: acc)
        | _, _ => none
  go s.toList []

def hexDigit (n : Nat) : Char :=
  if n < 10 then Char.ofNat (n + '0'.toNat) else Char.ofNat (n - 10 + 'a'.toNat)

def showBytes (b : List UInt8) : String :=
  if b.isEmpty then "-" else
  String.ofList (b.flatMap fun x => [hexDigit (x.toNat / 16), hexDigit (x.toNat % 16)])

/-- read stdin line by line, print `f line` for each -/
partial def lineLoop (f : String → String) : IO Unit := do
  let h ← IO.getStdin
  let out ← IO.getStdout
  let rec loop : IO Unit := do
    let line ← h.getLine
    if line.isEmpty then return ()
    out.putStrLn (f (line.trimAscii.toString))
    loop
  loop
  out.flush

end Aiorpcx.Hex
