/-! Exact rational I/O for the line-protocol drivers of C14/C20 (no Mathlib). -/
namespace Aiorpcx.RatIO

/-- `n/d`, `n` (n may carry a sign) -/
def parseRat (s : String) : Option Rat :=
  match s.splitOn "/" with
  | [n] => n.toInt?.map (fun (z : Int) => (z : Rat))
  | [n, d] =>
      match n.toInt?, d.toNat? with
      | some z, some m => if m = 0 then none else some (mkRat z m)
      | _, _ => none
  | _ => none

def showRat (q : Rat) : String :=
  if q.den = 1 then toString q.num else s!"{q.num}/{q.den}"

end Aiorpcx.RatIO
