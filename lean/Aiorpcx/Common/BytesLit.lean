import Lean
open Lean Elab Term Meta

namespace Aiorpcx.BytesLit

def hexVal (c : Char) : Option Nat :=
  if '0' ≤ c ∧ c ≤ '9' then some (c.toNat - '0'.toNat)
  else if 'a' ≤ c ∧ c ≤ 'f' then some (c.toNat - 'a'.toNat + 10)
  else none

def parseHex : List Char → Array Nat → Option (Array Nat)
  | [], acc => some acc
  | a :: b :: r, acc =>
      match hexVal a, hexVal b with
      | some x, some y => parseHex r (acc.push (16 * x + y))
      | _, _ => none
  | _, _ => none

/-- `bytes! "a1b2c3"` is the list literal `[0xa1, 0xb2, 0xc3] : List UInt8` (lower-case hex, two
    digits per byte, `""` = empty).  The term is assembled directly instead of going through
    the list-literal and numeral elaborators (which need about a millisecond per element);
    the kernel sees exactly the term the list literal would have produced. -/
elab "bytes! " s:str : term => do
  let some bytes := parseHex s.getString.toList #[]
    | throwError "bytes!: expected an even number of lower-case hex digits"
  let u8 := Lean.mkConst ``UInt8
  let mut insts : Std.HashMap Nat Expr := {}
  let mut acc := mkApp (Lean.mkConst ``List.nil [Level.zero]) u8
  for b in bytes.reverse do
    let lit := mkRawNatLit b
    let inst ← match insts[b]? with
      | some i => pure i
      | none => do
          let i ← synthInstance (mkApp2 (Lean.mkConst ``OfNat [Level.zero]) u8 lit)
          insts := insts.insert b i
          pure i
    let e := mkApp3 (Lean.mkConst ``OfNat.ofNat [Level.zero]) u8 lit inst
    acc := mkApp3 (Lean.mkConst ``List.cons [Level.zero]) u8 e acc
  return acc

end Aiorpcx.BytesLit
