/-!
# Shared model of the Python values the aiorpcX code manipulates (no Mathlib: drivers link this)

* `PyExc`   — the exception *classes* a modelled operation can raise, with the subclass relation
              (so "`except ValueError` also catches `JSONDecodeError`" is a computation);
* `F`, `J`  — Python floats (exact dyadic value or a special) and JSON-shaped Python values
              (`None`, `bool`, `int`, `float`, `str` as code points so lone surrogates exist,
              `list`, `dict` as association list in insertion order);
* the `isinstance` lattice the code tests (`Number ⊇ int ⊇ bool`, `float`), truthiness,
  `==` (`pyEq`: `True == 1 == 1.0`, dicts compare order-insensitively), `<` (`pyLt`, raising
  `TypeError` across types), hashability (`x in dict` raises `TypeError` for list/dict keys),
  and `sorted(.., key=..)` with its `TypeError` (`pySorted`).

Trusted-base laws about CPython that this file encodes (exercised by the correspondence
harnesses, not proved):
* L-hash: for hashable `a`, `b`: `a == b → hash a = hash b`, so `k in d` ⇔ some key `pyEq` `k`;
* L-sort: `sorted` over ≥ 2 keys raises `TypeError` iff the keys are not all numbers or all
  strings (each element is compared at least once, and the comparison graph of a correct
  comparison sort is connected); otherwise it is the stable sort by `<`.
-/
namespace Aiorpcx.Py

deriving instance DecidableEq for Except

/-- Python `str`: list of code points (0 … 0x10FFFF, surrogates allowed). -/
abbrev Str := List Nat

/-- `"abc".toStr` for writing member names in models -/
def lit (s : String) : Str := s.toList.map Char.toNat

/-! ## Exception classes -/

inductive PyExc where
  | baseException | exception
  | typeError | valueError | unicodeDecodeError | jsonDecodeError
  | runtimeError | recursionError
  | lookupError | keyError | indexError
  | attributeError | assertionError | memoryError | overflowError | stopIteration
  /-- `asyncio.InvalidStateError(Exception)`: `set_result` on a future that is already done -/
  | invalidStateError
  -- aiorpcx.jsonrpc: CodeMessageError(Exception), RPCError / ProtocolError(CodeMessageError)
  | codeMessageError | rpcError | protocolError
  deriving DecidableEq, Repr, Inhabited

namespace PyExc

/-- the direct base class (CPython 3.12 builtin hierarchy; `json.JSONDecodeError(ValueError)`) -/
def base : PyExc → Option PyExc
  | baseException => none
  | exception => some baseException
  | typeError => some exception
  | valueError => some exception
  | unicodeDecodeError => some valueError      -- via UnicodeError
  | jsonDecodeError => some valueError
  | runtimeError => some exception
  | recursionError => some runtimeError
  | lookupError => some exception
  | keyError => some lookupError
  | indexError => some lookupError
  | attributeError => some exception
  | assertionError => some exception
  | memoryError => some exception
  | overflowError => some exception            -- via ArithmeticError
  | stopIteration => some exception
  | invalidStateError => some exception
  | codeMessageError => some exception
  | rpcError => some codeMessageError
  | protocolError => some codeMessageError

/-- `issubclass(a, b)`; the hierarchy above has height 4 -/
def isSubclass (a b : PyExc) : Bool :=
  let up (x : Option PyExc) : Option PyExc := x.bind base
  let a0 := some a
  let a1 := up a0
  let a2 := up a1
  let a3 := up a2
  let a4 := up a3
  [a0, a1, a2, a3, a4].any (· == some b)

def name : PyExc → String
  | baseException => "BaseException" | exception => "Exception"
  | typeError => "TypeError" | valueError => "ValueError"
  | unicodeDecodeError => "UnicodeDecodeError" | jsonDecodeError => "JSONDecodeError"
  | runtimeError => "RuntimeError" | recursionError => "RecursionError"
  | lookupError => "LookupError" | keyError => "KeyError" | indexError => "IndexError"
  | attributeError => "AttributeError" | assertionError => "AssertionError"
  | memoryError => "MemoryError" | overflowError => "OverflowError"
  | stopIteration => "StopIteration"
  | invalidStateError => "InvalidStateError"
  | codeMessageError => "CodeMessageError" | rpcError => "RPCError"
  | protocolError => "ProtocolError"

def all : List PyExc :=
  [baseException, exception, typeError, valueError, unicodeDecodeError, jsonDecodeError,
   runtimeError, recursionError, lookupError, keyError, indexError, attributeError,
   assertionError, memoryError, overflowError, stopIteration, invalidStateError, codeMessageError,
   rpcError, protocolError]

def ofName (s : String) : Option PyExc := all.find? (fun e => e.name == s)

/-- does an `except (c₁, …)` clause catch a raised `e`? -/
def caughtBy (e : PyExc) (clause : List PyExc) : Bool := clause.any (isSubclass e)

end PyExc

/-! ## Floats -/

/-- A Python `float`: exact value `m * 2^e` (canonical: `m` odd, or `m = 0 ∧ e = 0`), negative
zero, ±infinity or NaN. -/
inductive F where
  | fin (m : Int) (e : Int)
  | negZero
  | inf (neg : Bool)
  | nan
  deriving DecidableEq, Repr, Inhabited

/-- compare `m₁·2^e₁` with `m₂·2^e₂` exactly -/
def cmpDyadic (m1 e1 m2 e2 : Int) : Ordering :=
  let e := min e1 e2
  compare (m1 * 2 ^ (e1 - e).toNat) (m2 * 2 ^ (e2 - e).toNat)

/-- numeric view shared by `int`, `bool`, `float` -/
inductive Num where
  | dy (m e : Int)      -- finite: m·2^e (ints have e = 0)
  | inf (neg : Bool)
  | nan
  deriving DecidableEq, Repr

def F.toNum : F → Num
  | .fin m e => .dy m e
  | .negZero => .dy 0 0
  | .inf n => .inf n
  | .nan => .nan

def F.isFinite : F → Bool
  | .fin _ _ | .negZero => true
  | _ => false

/-- Python `a == b` on numbers (exact, as CPython compares int with float exactly) -/
def Num.eq : Num → Num → Bool
  | .dy m1 e1, .dy m2 e2 => cmpDyadic m1 e1 m2 e2 == .eq
  | .inf a, .inf b => a == b
  | _, _ => false

/-- Python `a < b` on numbers (never raises; anything involving NaN is `False`) -/
def Num.lt : Num → Num → Bool
  | .dy m1 e1, .dy m2 e2 => cmpDyadic m1 e1 m2 e2 == .lt
  | .dy _ _, .inf neg => !neg
  | .inf neg, .dy _ _ => neg
  | .inf a, .inf b => a && !b
  | _, _ => false

/-! ## JSON-shaped Python values -/

inductive J where
  | null
  | bool (b : Bool)
  | int (i : Int)
  | float (f : F)
  | str (s : Str)
  | arr (xs : List J)
  | obj (kvs : List (Str × J))
  deriving Repr, Inhabited

mutual
def J.decEq : (a b : J) → Decidable (a = b)
  | .null, .null => isTrue rfl
  | .bool a, .bool b =>
      if h : a = b then isTrue (by rw [h]) else isFalse (by intro h'; cases h'; exact h rfl)
  | .int a, .int b =>
      if h : a = b then isTrue (by rw [h]) else isFalse (by intro h'; cases h'; exact h rfl)
  | .float a, .float b =>
      if h : a = b then isTrue (by rw [h]) else isFalse (by intro h'; cases h'; exact h rfl)
  | .str a, .str b =>
      if h : a = b then isTrue (by rw [h]) else isFalse (by intro h'; cases h'; exact h rfl)
  | .arr a, .arr b => match J.decEqList a b with
      | isTrue h => isTrue (by rw [h])
      | isFalse h => isFalse (by intro h'; cases h'; exact h rfl)
  | .obj a, .obj b => match J.decEqObj a b with
      | isTrue h => isTrue (by rw [h])
      | isFalse h => isFalse (by intro h'; cases h'; exact h rfl)
  | .null, .bool _ | .null, .int _ | .null, .float _ | .null, .str _ | .null, .arr _ | .null, .obj _
  | .bool _, .null | .bool _, .int _ | .bool _, .float _ | .bool _, .str _ | .bool _, .arr _
  | .bool _, .obj _
  | .int _, .null | .int _, .bool _ | .int _, .float _ | .int _, .str _ | .int _, .arr _
  | .int _, .obj _
  | .float _, .null | .float _, .bool _ | .float _, .int _ | .float _, .str _ | .float _, .arr _
  | .float _, .obj _
  | .str _, .null | .str _, .bool _ | .str _, .int _ | .str _, .float _ | .str _, .arr _
  | .str _, .obj _
  | .arr _, .null | .arr _, .bool _ | .arr _, .int _ | .arr _, .float _ | .arr _, .str _
  | .arr _, .obj _
  | .obj _, .null | .obj _, .bool _ | .obj _, .int _ | .obj _, .float _ | .obj _, .str _
  | .obj _, .arr _ => isFalse (by intro h; cases h)
def J.decEqList : (a b : List J) → Decidable (a = b)
  | [], [] => isTrue rfl
  | [], _ :: _ | _ :: _, [] => isFalse (by intro h; cases h)
  | x :: xs, y :: ys => match J.decEq x y, J.decEqList xs ys with
      | isTrue h1, isTrue h2 => isTrue (by rw [h1, h2])
      | isFalse h, _ => isFalse (by intro h'; cases h'; exact h rfl)
      | _, isFalse h => isFalse (by intro h'; cases h'; exact h rfl)
def J.decEqObj : (a b : List (Str × J)) → Decidable (a = b)
  | [], [] => isTrue rfl
  | [], _ :: _ | _ :: _, [] => isFalse (by intro h; cases h)
  | (k, x) :: xs, (k', y) :: ys =>
      if hk : k = k' then
        match J.decEq x y, J.decEqObj xs ys with
        | isTrue h1, isTrue h2 => isTrue (by rw [hk, h1, h2])
        | isFalse h, _ => isFalse (by intro h'; cases h'; exact h rfl)
        | _, isFalse h => isFalse (by intro h'; cases h'; exact h rfl)
      else isFalse (by intro h'; cases h'; exact hk rfl)
end

instance : DecidableEq J := J.decEq

namespace J

/-! ### `isinstance` -/

def isNone : J → Bool | .null => true | _ => false
def isBool : J → Bool | .bool _ => true | _ => false
/-- `isinstance(x, int)` — `bool` is a subclass of `int` -/
def isInt : J → Bool | .int _ | .bool _ => true | _ => false
def isFloat : J → Bool | .float _ => true | _ => false
/-- `isinstance(x, numbers.Number)` — int, bool and float are registered -/
def isNumber : J → Bool | .int _ | .bool _ | .float _ => true | _ => false
def isStr : J → Bool | .str _ => true | _ => false
def isList : J → Bool | .arr _ => true | _ => false
def isDict : J → Bool | .obj _ => true | _ => false

theorem isBool_isInt {x : J} (h : x.isBool = true) : x.isInt = true := by
  cases x <;> simp_all [isBool, isInt]
theorem isInt_isNumber {x : J} (h : x.isInt = true) : x.isNumber = true := by
  cases x <;> simp_all [isInt, isNumber]
theorem isFloat_isNumber {x : J} (h : x.isFloat = true) : x.isNumber = true := by
  cases x <;> simp_all [isFloat, isNumber]

/-- numeric view of a number -/
def toNum? : J → Option Num
  | .bool b => some (.dy (if b then 1 else 0) 0)
  | .int i => some (.dy i 0)
  | .float f => some f.toNum
  | _ => none

/-- `bool(x)` -/
def truthy : J → Bool
  | .null => false
  | .bool b => b
  | .int i => i != 0
  | .float f => !(f == .fin 0 0 || f == .negZero)
  | .str s => !s.isEmpty
  | .arr xs => !xs.isEmpty
  | .obj kvs => !kvs.isEmpty

/-- `d.get(k)` / `d[k]` on an association list (first match; decoded dicts have unique keys) -/
def lookup (k : Str) : List (Str × J) → Option J
  | [] => none
  | (k', v) :: r => if k = k' then some v else lookup k r

/-- `k in d` for a `dict` payload -/
def hasKey (k : Str) (kvs : List (Str × J)) : Bool := (lookup k kvs).isSome

/-- `hash(x)` is defined (otherwise `x in some_dict` raises `TypeError: unhashable type`) -/
def hashable : J → Bool
  | .arr _ | .obj _ => false
  | _ => true

end J

/-! ### `==` -/

mutual
/-- Python `a == b` on JSON-shaped values (never raises) -/
def pyEq : J → J → Bool
  | .null, .null => true
  | .str a, .str b => a == b
  | .arr a, .arr b => pyEqList a b
  | .obj a, .obj b => a.length == b.length && pyEqObj a b
  | a@(.bool _), b | a@(.int _), b | a@(.float _), b =>
      match a.toNum?, b.toNum? with
      | some x, some y => x.eq y
      | _, _ => false
  | _, _ => false
def pyEqList : List J → List J → Bool
  | [], [] => true
  | x :: xs, y :: ys => pyEq x y && pyEqList xs ys
  | _, _ => false
/-- every entry of the first dict is in the second with an equal value -/
def pyEqObj : List (Str × J) → List (Str × J) → Bool
  | [], _ => true
  | (k, v) :: r, b =>
      (match J.lookup k b with
       | some v' => pyEq v v'
       | none => false) && pyEqObj r b
end

/-! ### `<` -/

def strLt : Str → Str → Bool
  | [], [] => false
  | [], _ :: _ => true
  | _ :: _, [] => false
  | a :: as, b :: bs => if a < b then true else if b < a then false else strLt as bs

mutual
/-- Python `a < b`; `TypeError` across incomparable types (`None < None` included) -/
def pyLt : J → J → Except PyExc Bool
  | .str a, .str b => .ok (strLt a b)
  | .arr a, .arr b => pyLtList a b
  | a@(.bool _), b | a@(.int _), b | a@(.float _), b =>
      match a.toNum?, b.toNum? with
      | some x, some y => .ok (x.lt y)
      | _, _ => .error .typeError
  | _, _ => .error .typeError
/-- list `<`: first position where the elements differ under `==` decides -/
def pyLtList : List J → List J → Except PyExc Bool
  | [], [] => .ok false
  | [], _ :: _ => .ok true
  | _ :: _, [] => .ok false
  | x :: xs, y :: ys => if pyEq x y then pyLtList xs ys else pyLt x y
end

/-! ### dict membership with a possibly unhashable key -/

/-- `k in d` where `d`'s keys are `keys` (all hashable): `TypeError` for an unhashable `k`,
otherwise whether some key equals `k` (law L-hash). -/
def pyIn (k : J) (keys : List J) : Except PyExc Bool :=
  if k.hashable then .ok (keys.any (pyEq k)) else .error .typeError

/-! ### `sorted(xs, key=f)` -/

inductive SortClass where | num | str | other
  deriving DecidableEq, Repr

def sortClass : J → SortClass
  | .bool _ | .int _ | .float _ => .num
  | .str _ => .str
  | _ => .other

/-- `not (b < a)` for two keys of the same sortable class (total, used after the class check) -/
def keyLe (a b : J) : Bool :=
  match pyLt b a with
  | .ok r => !r
  | .error _ => true

/-- `sorted(xs, key=key)` (law L-sort).  Keys that are lists/dicts/None are reported as
`TypeError` whenever two or more elements are sorted: exact for dict/None keys; list keys can be
mutually comparable in Python, but no modelled call site sorts list keys (ids of batch-capable
protocols are `Number | str | None`). -/
def pySorted {α : Type} (key : α → J) (xs : List α) : Except PyExc (List α) :=
  if xs.length ≤ 1 then .ok xs
  else if xs.all (fun x => sortClass (key x) == .num)
        || xs.all (fun x => sortClass (key x) == .str) then
    .ok (xs.mergeSort (fun a b => keyLe (key a) (key b)))
  else .error .typeError

/-! ### Well-formed ("JSON-representable") values: unique dict keys, finite floats in canonical
form, strings
whose surrogates are lone (`json.loads` joins an escaped high+low pair into one astral character,
so a `str` holding the two code points separately does not survive `loads ∘ dumps`) -/

def isHiSur (c : Nat) : Bool := 0xD800 ≤ c && c ≤ 0xDBFF
def isLoSur (c : Nat) : Bool := 0xDC00 ≤ c && c ≤ 0xDFFF

def strWf : Str → Bool
  | [] => true
  | [c] => c ≤ 0x10FFFF
  | a :: b :: r => a ≤ 0x10FFFF && !(isHiSur a && isLoSur b) && strWf (b :: r)

def keysWf : List (Str × J) → Bool
  | [] => true
  | (k, _) :: r => strWf k && keysWf r

def uniqueKeys : List (Str × J) → Bool
  | [] => true
  | (k, _) :: r => !(J.hasKey k r) && uniqueKeys r

/-- a finite IEEE-754 binary64 in canonical form: `m·2^e` with `m` odd (or `0·2^0`), at most 53
significant bits, exponent in range (`5e-324 = 1·2^-1074`, `max = (2^53-1)·2^971`); `-0.0` has its
own constructor.  Exactly the values `harness/jwire.py` produces for a Python float, so distinct
well-formed `F` are distinct doubles (`fin 2 0` / `fin 1 1`, or `fin (2^60+1) 0`, are not
well-formed). -/
def F.wf : F → Bool
  | .fin m e =>
      (m % 2 != 0 || (m == 0 && e == 0)) && decide (-1074 ≤ e)
        && decide (m.natAbs * 2 ^ (e - 971).toNat < 2 ^ 53)
  | .negZero => true
  | _ => false

theorem F.wf_isFinite {f : F} (h : f.wf = true) : f.isFinite = true := by
  cases f <;> simp_all [F.wf, F.isFinite]

example : (F.fin 3 (-1)).wf = true := by decide
example : (F.fin 1 (-1074)).wf = true ∧ (F.fin 1 1023).wf = true ∧ (F.fin (2 ^ 53 - 1) 971).wf = true := by decide
example : (F.fin 2 0).wf = false ∧ (F.fin (2 ^ 60 + 1) 0).wf = false ∧ (F.fin 1 1024).wf = false
    ∧ (F.fin 1 (-1075)).wf = false ∧ (F.fin 0 1).wf = false := by decide

mutual
def J.wf : J → Bool
  | .float f => f.wf
  | .str s => strWf s
  | .arr xs => J.wfList xs
  | .obj kvs => uniqueKeys kvs && keysWf kvs && J.wfObj kvs
  | _ => true
def J.wfList : List J → Bool
  | [] => true
  | x :: xs => x.wf && J.wfList xs
def J.wfObj : List (Str × J) → Bool
  | [] => true
  | (_, v) :: r => v.wf && J.wfObj r
end

/-! ### sanity checks of the encoded Python facts -/

example : pyEq (.bool true) (.int 1) = true := by decide
example : pyEq (.int 1) (.float (.fin 1 0)) = true := by decide
example : pyEq (.float (.fin 1 (-1))) (.int 0) = false := by decide
example : pyEq (.float .nan) (.float .nan) = false := by decide
example : pyEq (.float .negZero) (.int 0) = true := by decide
example : pyEq (.str [49]) (.int 1) = false := by decide
example : pyEq (.obj [([97], .int 1), ([98], .null)]) (.obj [([98], .null), ([97], .bool true)]) = true := by
  decide
example : pyLt (.int 0) (.str [120]) = .error .typeError := by decide
example : pyLt .null .null = .error .typeError := by decide
example : pyLt (.bool false) (.float (.fin 1 (-1))) = .ok true := by decide
example : pyIn (.arr [.int 1]) [.int 1] = .error .typeError := by decide
example : pyIn (.bool true) [.int 0, .int 1] = .ok true := by decide
example : pySorted id [J.int 0, J.str [120]] = .error .typeError := by decide
example : pySorted id [J.null, J.null] = .error .typeError := by decide
example : pySorted id [J.null] = .ok [J.null] := by decide
example : PyExc.caughtBy .jsonDecodeError [.valueError] = true := by decide
example : PyExc.caughtBy .valueError [.jsonDecodeError] = false := by decide
example : PyExc.caughtBy .protocolError [.codeMessageError] = true := by decide
example : PyExc.caughtBy .rpcError [.protocolError] = false := by decide
example : PyExc.caughtBy .recursionError [.valueError, .unicodeDecodeError] = false := by decide

end Aiorpcx.Py
