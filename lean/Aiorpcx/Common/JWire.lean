import Aiorpcx.Common.Py
/-!
# Line-safe wire encoding of `J` values between the Python harnesses and the Lean drivers

A value is a sequence of space-separated tokens in prefix notation (no token contains a space,
newline or any non-ASCII character):

    n                  None
    t / f              True / False
    i<decimal>         int            i-12
    d<m>p<e>           finite float m·2^e (m odd or 0, decimal, signed)     d3p-1  = 1.5
    dz  dinf  dninf  dnan             -0.0, +inf, -inf, NaN
    s<cp>.<cp>. …      str as lower-case hex code points (surrogates allowed), `s` = ""
    [<k>               list of the k values that follow
    {<k>               dict of the k (key, value) pairs that follow; every key is an `s` token

`harness/jwire.py` is the Python twin (`enc`, `dec`).  `parse (showJ v) = v` is checked by
the `#guard`s below and by the harnesses (driver op `echo`) on every generated value.
-/
namespace Aiorpcx.JWire
open Aiorpcx.Py

def hexDigit (n : Nat) : Char :=
  if n < 10 then Char.ofNat (n + 48) else Char.ofNat (n - 10 + 97)

def hexNatAux : Nat → Nat → List Char → List Char
  | 0, _, acc => acc
  | fuel + 1, n, acc =>
      if n < 16 then hexDigit n :: acc else hexNatAux fuel (n / 16) (hexDigit (n % 16) :: acc)

/-- lower-case hex, no prefix; code points need at most 6 digits but any `Nat` is handled -/
def hexNat (n : Nat) : List Char := hexNatAux (n + 1) n []

def hexVal (c : Char) : Option Nat :=
  if '0' ≤ c ∧ c ≤ '9' then some (c.toNat - 48)
  else if 'a' ≤ c ∧ c ≤ 'f' then some (c.toNat - 87)
  else none

/-- `61.62.d800` → code points (fails on an empty component or a non-hex char) -/
def parseCps : List Char → Option Nat → List Nat → Option (List Nat)
  | [], none, [] => some []
  | [], none, _ :: _ => none                      -- trailing '.'
  | [], some n, acc => some (n :: acc).reverse
  | c :: cs, cur, acc =>
      if c = '.' then
        match cur with
        | none => none
        | some n => parseCps cs none (n :: acc)
      else
        match hexVal c with
        | none => none
        | some d => parseCps cs (some ((cur.getD 0) * 16 + d)) acc

def showStrTok (s : Str) : String :=
  String.ofList ('s' :: (List.intercalate ['.'] (s.map hexNat)))

def showF : F → String
  | .fin m e => s!"d{m}p{e}"
  | .negZero => "dz"
  | .inf false => "dinf"
  | .inf true => "dninf"
  | .nan => "dnan"

mutual
/-- tokens of a value, prepended to `acc` -/
def toksJ : J → List String → List String
  | .null, acc => "n" :: acc
  | .bool true, acc => "t" :: acc
  | .bool false, acc => "f" :: acc
  | .int i, acc => s!"i{i}" :: acc
  | .float f, acc => showF f :: acc
  | .str s, acc => showStrTok s :: acc
  | .arr xs, acc => s!"[{xs.length}" :: toksList xs acc
  | .obj kvs, acc => s!"\{{kvs.length}" :: toksObj kvs acc
def toksList : List J → List String → List String
  | [], acc => acc
  | x :: xs, acc => toksJ x (toksList xs acc)
def toksObj : List (Str × J) → List String → List String
  | [], acc => acc
  | (k, v) :: r, acc => showStrTok k :: toksJ v (toksObj r acc)
end

def showJ (v : J) : String := " ".intercalate (toksJ v [])

def splitAtChar (c : Char) : List Char → List Char × Option (List Char)
  | [] => ([], none)
  | x :: xs => if x = c then ([], some xs) else
      let r := splitAtChar c xs
      (x :: r.1, r.2)

def parseF (cs : List Char) : Option F :=
  match cs with
  | ['z'] => some .negZero
  | ['i', 'n', 'f'] => some (.inf false)
  | ['n', 'i', 'n', 'f'] => some (.inf true)
  | ['n', 'a', 'n'] => some .nan
  | _ =>
    match splitAtChar 'p' cs with
    | (m, some e) =>
        match (String.ofList m).toInt?, (String.ofList e).toInt? with
        | some m, some e => some (.fin m e)
        | _, _ => none
    | _ => none

mutual
/-- parse one value from the token list; every call consumes a token or descends from `parseJ`
into `parseList`/`parseObj`, so `fuel` ≥ 2·(number of tokens)+2 suffices -/
def parseJ : Nat → List String → Option (J × List String)
  | 0, _ => none
  | _ + 1, [] => none
  | fuel + 1, tok :: rest =>
      match tok.toList with
      | ['n'] => some (.null, rest)
      | ['t'] => some (.bool true, rest)
      | ['f'] => some (.bool false, rest)
      | 'i' :: ds => (String.ofList ds).toInt?.map (fun i => (.int i, rest))
      | 'd' :: ds => (parseF ds).map (fun f => (.float f, rest))
      | 's' :: cs => (parseCps cs none []).map (fun s => (.str s, rest))
      | '[' :: ds =>
          match (String.ofList ds).toNat? with
          | some k => (parseList fuel k rest).map (fun r => (.arr r.1, r.2))
          | none => none
      | '{' :: ds =>
          match (String.ofList ds).toNat? with
          | some k => (parseObj fuel k rest).map (fun r => (.obj r.1, r.2))
          | none => none
      | _ => none
def parseList : Nat → Nat → List String → Option (List J × List String)
  | _, 0, toks => some ([], toks)
  | 0, _ + 1, _ => none
  | fuel + 1, k + 1, toks =>
      match parseJ fuel toks with
      | none => none
      | some (x, r) =>
          match parseList fuel k r with
          | none => none
          | some (xs, r') => some (x :: xs, r')
def parseObj : Nat → Nat → List String → Option (List (Str × J) × List String)
  | _, 0, toks => some ([], toks)
  | 0, _ + 1, _ => none
  | _ + 1, _ + 1, [] => none
  | fuel + 1, k + 1, ktok :: toks =>
      match ktok.toList with
      | 's' :: cs =>
          match parseCps cs none [] with
          | none => none
          | some key =>
              match parseJ fuel toks with
              | none => none
              | some (v, r) =>
                  match parseObj fuel k r with
                  | none => none
                  | some (kvs, r') => some ((key, v) :: kvs, r')
      | _ => none
end

/-- parse exactly one value from a token list (nothing may be left over) -/
def parseToks (toks : List String) : Option J :=
  match parseJ (2 * toks.length + 2) toks with
  | some (v, []) => some v
  | _ => none

/-- parse one value and return the remaining tokens -/
def parsePrefix (toks : List String) : Option (J × List String) :=
  parseJ (2 * toks.length + 2) toks

def tokens (line : String) : List String := (line.splitOn " ").filter (· ≠ "")

def parse (line : String) : Option J := parseToks (tokens line)

/-! ### canonical member order (JSON objects are unordered: drivers print message objects with
their members sorted by name, one level down as well, and the harness does the same) -/

def insertKV (kv : Str × J) : List (Str × J) → List (Str × J)
  | [] => [kv]
  | x :: r => if strLt x.1 kv.1 then x :: insertKV kv r else kv :: x :: r

def sortKVs (kvs : List (Str × J)) : List (Str × J) := kvs.foldr insertKV []

/-- sort the members of a message object and of its object-valued members -/
def canonMsg : J → J
  | .obj kvs => .obj (sortKVs (kvs.map fun (k, v) =>
      match v with
      | .obj e => (k, .obj (sortKVs e))
      | _ => (k, v)))
  | v => v

private def sample : J :=
  .obj [(lit "a", .arr [.int (-12), .float (.fin 3 (-1)), .float .negZero, .float .nan,
                        .float (.inf true), .str [0xd800, 0x10ffff, 10], .str [], .null]),
        ([], .obj []), (lit "b", .arr []), (lit "c", .bool true)]

-- `String` primitives do not reduce in the kernel, so these are evaluated tests, not proofs
#guard parse (showJ sample) == some sample
#guard showJ (.arr [.int 1, .str (lit "ab"), .obj [(lit "k", .bool false)]]) == "[3 i1 s61.62 {1 s6b f"
#guard parse "[1 [2 d1p0 [2 [0 f" == some (.arr [.arr [.float (.fin 1 0), .arr [.arr [], .bool false]]])
#guard showJ (canonMsg (.obj [(lit "b", .null), (lit "a", .obj [(lit "z", .null), (lit "y", .null)])]))
  == "{2 s61 {2 s79 n s7a n s62 n"
#guard parse "[1 n n" == none
#guard parse "s61." == none
#guard parse "i-5" == some (.int (-5))
#guard parse "{1 s d1p0" == some (.obj [([], .float (.fin 1 0))])

end Aiorpcx.JWire
