import Aiorpcx.C10.Queue
/-! C10 — `completed` is, in every reachable state, the first task popped by the join loop that
counts (not a None-returner under `object`).  Needs: outcomes of finished members never change. -/
namespace Aiorpcx.C09

def G.counts (g : G) (t : Nat) : Bool := countsAsCompleted g.wait (g.outcomeOf t)

/-- relation between a state and a successor: policy unchanged, finished members keep their
outcome and stay finished -/
structure Stable (g g' : G) : Prop where
  wait : g'.wait = g.wait
  keep : ∀ t, g.statusOf t = some .done → g'.statusOf t = some .done ∧ g'.outcomeOf t = g.outcomeOf t

theorem Stable.refl (g : G) : Stable g g := ⟨rfl, fun _ h => ⟨h, rfl⟩⟩

theorem Stable.trans {a b c : G} (h1 : Stable a b) (h2 : Stable b c) : Stable a c :=
  ⟨by rw [h2.wait, h1.wait], fun t ht =>
    ⟨(h2.keep t (h1.keep t ht).1).1, by rw [(h2.keep t (h1.keep t ht).1).2, (h1.keep t ht).2]⟩⟩

/-- any state change that leaves `mem` and `wait` alone -/
theorem Stable.of_mem_eq {g g' : G} (hm : g'.mem = g.mem) (hw : g'.wait = g.wait) : Stable g g' :=
  ⟨hw, fun t ht => by
    have e1 : g'.statusOf t = g.statusOf t := by simp [G.statusOf, G.find, hm]
    have e2 : g'.outcomeOf t = g.outcomeOf t := by simp [G.outcomeOf, G.find, hm]
    exact ⟨by rw [e1]; exact ht, e2⟩⟩

theorem outcomeOf_setMem_ne (g : G) (i j : Nat) (f : Mem → Mem) (hf : ∀ m, (f m).id = m.id)
    (hne : j ≠ i) : (g.setMem i f).outcomeOf j = g.outcomeOf j := by
  unfold G.outcomeOf G.find G.setMem
  simp only [find?_map_update _ _ _ _ hf, Option.map_map]
  cases h : g.mem.find? (·.id == j) with
  | none => rfl
  | some m =>
    have : m.id = j := by simpa using List.find?_some h
    have hmi : ¬ (m.id = i) := by rw [this]; exact hne
    simp [hmi]

theorem stable_setMem (g : G) (i : Nat) (f : Mem → Mem) (hf : ∀ m, (f m).id = m.id)
    (hnd : g.statusOf i ≠ some .done) : Stable g (g.setMem i f) :=
  ⟨rfl, fun t ht => by
    have hne : t ≠ i := by intro h; rw [h] at ht; exact hnd ht
    exact ⟨by rw [statusOf_setMem_ne g i t f hf hne]; exact ht, outcomeOf_setMem_ne g i t f hf hne⟩⟩

theorem stable_wake (g : G) (w : Waiter) : Stable g (g.wake w).1 := by
  unfold G.wake
  cases w with
  | joiner => exact Stable.of_mem_eq rfl rfl
  | consumer k => cases g.doneq <;> exact Stable.of_mem_eq rfl rfl

theorem stable_release (g : G) : Stable g g.release.1 := by
  unfold G.release
  cases hw : g.waiters with
  | nil => exact Stable.of_mem_eq rfl rfl
  | cons w ws =>
    simp only []
    exact Stable.trans (Stable.of_mem_eq (g' := { g with waiters := ws }) rfl rfl) (stable_wake _ w)

theorem stable_finishMem (g : G) (i : Nat) (o : Outcome) : Stable g (g.finishMem i o).1 := by
  unfold G.finishMem
  cases hf : g.find i with
  | none => exact Stable.refl g
  | some m =>
    simp only []
    split
    · exact Stable.refl g
    · rename_i hnd
      have hst : g.statusOf i ≠ some .done := by
        simp only [G.statusOf, hf, Option.map_some, ne_eq, Option.some.injEq]
        intro h; rw [h] at hnd; simp at hnd
      have h1 := stable_setMem g i (fun m => { m with status := .done, outcome := o })
        (by intro m; rfl) hst
      split
      · exact h1
      · refine Stable.trans (Stable.trans h1 ?_) (stable_release _)
        exact Stable.of_mem_eq rfl rfl

theorem stable_add {g g' : G} {i : Nat} {d : Bool} {ch : List Child} (ha : g.add i d ch = some g') :
    Stable g g' := by
  unfold G.add at ha
  split at ha
  · cases ha
  · split at ha
    · cases ha
    · simp only [Option.some.injEq] at ha
      subst ha
      refine ⟨rfl, fun t ht => ?_⟩
      have key : ∀ (x : Mem), (g.mem ++ [x]).find? (·.id == t) = g.mem.find? (·.id == t) := by
        intro x
        simp only [List.find?_append]
        cases hft : g.mem.find? (·.id == t) with
        | none => simp [G.statusOf, G.find, hft] at ht
        | some m => simp
      simp only [G.statusOf, G.outcomeOf, G.find, key]
      exact ⟨ht, trivial⟩

theorem stable_addChildren (g : G) (cs : List Child) : Stable g (g.addChildren cs).1 := by
  induction cs generalizing g with
  | nil => exact Stable.refl g
  | cons c cs ih =>
    unfold G.addChildren
    cases ha : g.add c.id c.daemon [] with
    | none => exact Stable.refl g
    | some g' => exact Stable.trans (stable_add ha) (ih g')

theorem stable_deliverCancel (g : G) (i : Nat) : Stable g (g.deliverCancel i).1 := by
  unfold G.deliverCancel
  cases hf : g.find i with
  | none => exact Stable.refl g
  | some m =>
    simp only []
    cases hs : m.status with
    | done => exact Stable.refl g
    | canc => exact stable_finishMem g i .cancelled
    | run =>
      simp only []
      have hst : g.statusOf i ≠ some .done := by simp [G.statusOf, hf, hs]
      have h1 := stable_setMem g i (fun m => { m with status := .canc }) (by intro m; rfl) hst
      have h2 := stable_addChildren (g.setMem i fun m => { m with status := .canc }) m.children
      generalize (g.setMem i fun m => { m with status := .canc }).addChildren m.children = r at h2 ⊢
      obtain ⟨g2, refused⟩ := r
      cases refused with
      | nil => exact Stable.trans h1 h2
      | cons c cs => exact Stable.trans (Stable.trans h1 h2) (stable_finishMem _ i .exc)

theorem stable_deliverCancels (g : G) (l : List Nat) : Stable g (g.deliverCancels l).1 := by
  induction l generalizing g with
  | nil => exact Stable.refl g
  | cons i is ih => unfold G.deliverCancels; exact Stable.trans (stable_deliverCancel g i) (ih _)

/-- the invariant: `completed` is the first join-popped task that counts; everything the join
popped has finished -/
structure PInv (g : G) : Prop where
  completedFirst : g.completed = g.joinPopped.find? g.counts
  poppedDone : ∀ t ∈ g.joinPopped, g.statusOf t = some .done

theorem find?_ext {α : Type} (p q : α → Bool) : ∀ (l : List α), (∀ x ∈ l, p x = q x) →
    l.find? p = l.find? q
  | [], _ => rfl
  | x :: xs, h => by
    simp only [List.find?_cons, h x (by simp)]
    cases q x
    · exact find?_ext p q xs (fun y hy => h y (by simp [hy]))
    · rfl

theorem pinv_of_stable {g g' : G} (hs : Stable g g') (hjp : g'.joinPopped = g.joinPopped)
    (hc : g'.completed = g.completed) (h : PInv g) : PInv g' := by
  refine ⟨?_, ?_⟩
  · rw [hc, hjp, h.completedFirst]
    apply find?_ext
    intro t ht
    have := (hs.keep t (h.poppedDone t ht)).2
    simp [G.counts, hs.wait, this]
  · intro t ht; rw [hjp] at ht; exact (hs.keep t (h.poppedDone t ht)).1

theorem pinv_joinerPop (g : G) (j : Joiner) (hl : LInv g) (h : PInv g) : PInv (g.joinerPop j).1 := by
  unfold G.joinerPop
  cases hd : g.doneq with
  | nil => exact pinv_of_stable (g := g) (Stable.of_mem_eq rfl rfl) rfl rfl h
  | cons t rest =>
    simp only []
    have htlog : t ∈ g.log := by rw [← hl.queue, hd]; simp
    have htdone := hl.logDone t htlog
    have hcounts : ∀ (jj : Joiner) x, G.counts (setJ (g.popT t rest) jj) x = g.counts x :=
      fun _ _ => rfl
    refine ⟨?_, ?_⟩
    · show (g.popT t rest).completed = (g.joinPopped ++ [t]).find? (G.counts (setJ (g.popT t rest) _))
      rw [find?_ext _ g.counts _ (fun x _ => hcounts _ x)]
      simp only [List.find?_append, List.find?_cons, List.find?_nil, ← h.completedFirst, G.popT]
      cases hc : g.completed with
      | some c => simp
      | none => simp only [G.counts]; cases countsAsCompleted g.wait (g.outcomeOf t) <;> simp
    · intro x hx
      have hx' : x ∈ g.joinPopped ++ [t] := hx
      simp only [List.mem_append, List.mem_singleton] at hx'
      rcases hx' with hx' | rfl
      · exact h.poppedDone x hx'
      · exact htdone

end Aiorpcx.C09

namespace Aiorpcx.C09

/-- steps that do not touch what the join loop recorded -/
structure PStep (g g' : G) : Prop where
  stable : Stable g g'
  jp : g'.joinPopped = g.joinPopped
  comp : g'.completed = g.completed

theorem PStep.refl (g : G) : PStep g g := ⟨Stable.refl g, rfl, rfl⟩
theorem PStep.trans {a b c : G} (h1 : PStep a b) (h2 : PStep b c) : PStep a c :=
  ⟨h1.stable.trans h2.stable, by rw [h2.jp, h1.jp], by rw [h2.comp, h1.comp]⟩
theorem PStep.of_eq {g g' : G} (hm : g'.mem = g.mem) (hw : g'.wait = g.wait)
    (hj : g'.joinPopped = g.joinPopped) (hc : g'.completed = g.completed) : PStep g g' :=
  ⟨Stable.of_mem_eq hm hw, hj, hc⟩
theorem PStep.pinv {g g' : G} (hs : PStep g g') (h : PInv g) : PInv g' :=
  pinv_of_stable hs.stable hs.jp hs.comp h

theorem pstep_wake (g : G) (w : Waiter) : PStep g (g.wake w).1 := by
  unfold G.wake
  cases w with
  | joiner => exact PStep.of_eq rfl rfl rfl rfl
  | consumer k => cases g.doneq <;> exact PStep.of_eq rfl rfl rfl rfl

theorem pstep_release (g : G) : PStep g g.release.1 := by
  unfold G.release
  cases hw : g.waiters with
  | nil => exact PStep.of_eq rfl rfl rfl rfl
  | cons w ws =>
    simp only []
    exact PStep.trans (PStep.of_eq (g := g) (g' := { g with waiters := ws }) rfl rfl rfl rfl) (pstep_wake _ w)

theorem pstep_setMem (g : G) (i : Nat) (f : Mem → Mem) (hf : ∀ m, (f m).id = m.id)
    (hnd : g.statusOf i ≠ some .done) : PStep g (g.setMem i f) :=
  ⟨stable_setMem g i f hf hnd, rfl, rfl⟩

theorem pstep_finishMem (g : G) (i : Nat) (o : Outcome) : PStep g (g.finishMem i o).1 := by
  unfold G.finishMem
  cases hf : g.find i with
  | none => exact PStep.refl g
  | some m =>
    simp only []
    split
    · exact PStep.refl g
    · rename_i hnd
      have hst : g.statusOf i ≠ some .done := by
        simp only [G.statusOf, hf, Option.map_some, ne_eq, Option.some.injEq]
        intro h; rw [h] at hnd; simp at hnd
      have h1 := pstep_setMem g i (fun m => { m with status := .done, outcome := o })
        (by intro m; rfl) hst
      split
      · exact h1
      · refine PStep.trans h1 ?_
        refine PStep.trans ?_ (pstep_release _)
        exact PStep.of_eq rfl rfl rfl rfl

theorem pstep_add {g g' : G} {i : Nat} {d : Bool} {ch : List Child} (ha : g.add i d ch = some g') :
    PStep g g' := by
  refine ⟨stable_add ha, ?_, ?_⟩ <;>
  · unfold G.add at ha
    split at ha
    · cases ha
    · split at ha
      · cases ha
      · simp only [Option.some.injEq] at ha; subst ha; rfl

theorem pstep_addChildren (g : G) (cs : List Child) : PStep g (g.addChildren cs).1 := by
  induction cs generalizing g with
  | nil => exact PStep.refl g
  | cons c cs ih =>
    unfold G.addChildren
    cases ha : g.add c.id c.daemon [] with
    | none => exact PStep.refl g
    | some g' => exact PStep.trans (pstep_add ha) (ih g')

theorem pstep_deliverCancel (g : G) (i : Nat) : PStep g (g.deliverCancel i).1 := by
  unfold G.deliverCancel
  cases hf : g.find i with
  | none => exact PStep.refl g
  | some m =>
    simp only []
    cases hs : m.status with
    | done => exact PStep.refl g
    | canc => exact pstep_finishMem g i .cancelled
    | run =>
      simp only []
      have hst : g.statusOf i ≠ some .done := by simp [G.statusOf, hf, hs]
      have h1 := pstep_setMem g i (fun m => { m with status := .canc }) (by intro m; rfl) hst
      have h2 := pstep_addChildren (g.setMem i fun m => { m with status := .canc }) m.children
      generalize (g.setMem i fun m => { m with status := .canc }).addChildren m.children = r at h2 ⊢
      obtain ⟨g2, refused⟩ := r
      cases refused with
      | nil => exact PStep.trans h1 h2
      | cons c cs => exact PStep.trans (PStep.trans h1 h2) (pstep_finishMem _ i .exc)

theorem pstep_deliverCancels (g : G) (l : List Nat) : PStep g (g.deliverCancels l).1 := by
  induction l generalizing g with
  | nil => exact PStep.refl g
  | cons i is ih => unfold G.deliverCancels; exact PStep.trans (pstep_deliverCancel g i) (ih _)

theorem pstep_setJ (g : G) (j : Joiner) : PStep g (setJ g j) := PStep.of_eq rfl rfl rfl rfl

theorem pinv_joinerStep (g : G) (perm : List Nat) (hl : LInv g) (h : PInv g) {g' : G} {o : List Obs}
    (hs : g.joinerStep perm = some (g', o)) : PInv g' := by
  unfold G.joinerStep at hs
  cases hj : g.joiner with
  | none => simp [hj] at hs
  | some j =>
    simp only [hj] at hs
    split at hs
    · cases hs
    · cases hp : j.phase with
      | exited => simp [hp] at hs
      | cancelrem =>
        simp only [hp] at hs
        cases hsn : j.snapshot with
        | none =>
          simp only [hsn, Option.some.injEq, Prod.mk.injEq] at hs
          rw [← hs.1]
          exact (PStep.trans (pstep_deliverCancels g _) (pstep_setJ _ _)).pinv h
        | some snap =>
          simp only [hsn] at hs
          split at hs
          · simp only [Option.some.injEq, Prod.mk.injEq] at hs
            rw [← hs.1]; exact (pstep_setJ _ _).pinv h
          · cases hs
      | next =>
        simp only [hp] at hs
        split at hs
        · simp only [Option.some.injEq] at hs
          have : g' = (g.joinerPop j).1 := by rw [hs]
          rw [this]; exact pinv_joinerPop g j hl h
        · split at hs
          · simp only [Option.some.injEq, Prod.mk.injEq] at hs
            rw [← hs.1]; exact (pstep_setJ _ _).pinv h
          · split at hs
            · simp only [Option.some.injEq, Prod.mk.injEq] at hs
              rw [← hs.1]; exact (pstep_setJ _ _).pinv h
            · split at hs
              · simp only [Option.some.injEq, Prod.mk.injEq] at hs
                rw [← hs.1]
                exact (PStep.trans (PStep.of_eq (g := g) (g' := { g with waiters := g.waiters ++ [.joiner] })
                  rfl rfl rfl rfl) (pstep_setJ _ _)).pinv h
              · simp only [Option.some.injEq, Prod.mk.injEq] at hs
                rw [← hs.1]
                exact (PStep.trans (PStep.of_eq (g := g) (g' := { g with sem := g.sem - 1 })
                  rfl rfl rfl rfl) (pstep_setJ _ _)).pinv h
      | fin =>
        simp only [hp] at hs
        cases hsn : j.snapshot with
        | none =>
          simp only [hsn] at hs
          split at hs
          · split at hs
            · simp only [Option.some.injEq, Prod.mk.injEq] at hs
              rw [← hs.1]
              exact (PStep.trans (PStep.of_eq (g := g) (g' := { g with joined := true }) rfl rfl rfl rfl)
                (pstep_setJ _ _)).pinv h
            · simp only [Option.some.injEq, Prod.mk.injEq] at hs
              rw [← hs.1]
              exact (PStep.trans (pstep_deliverCancels g _) (pstep_setJ _ _)).pinv h
          · split at hs
            · simp only [Option.some.injEq, Prod.mk.injEq] at hs
              rw [← hs.1]
              exact (PStep.trans (PStep.of_eq (g := g) (g' := { g with joined := true }) rfl rfl rfl rfl)
                (pstep_setJ _ _)).pinv h
            · simp only [Option.some.injEq, Prod.mk.injEq] at hs
              rw [← hs.1]
              exact (PStep.trans (pstep_deliverCancels g _) (pstep_setJ _ _)).pinv h
        | some snap =>
          simp only [hsn] at hs
          split at hs
          · split at hs
            · simp only [Option.some.injEq, Prod.mk.injEq] at hs
              rw [← hs.1]; exact (pstep_setJ _ _).pinv h
            · simp only [Option.some.injEq, Prod.mk.injEq] at hs
              rw [← hs.1]
              exact (PStep.trans (PStep.of_eq (g := g) (g' := { g with joined := true }) rfl rfl rfl rfl)
                (pstep_setJ _ _)).pinv h
          · cases hs

theorem pinv_runJoiner (perm : List Nat) : ∀ (fuel : Nat) (g : G), LInv g → PInv g →
    PInv (g.runJoiner perm fuel).1
  | 0, _, _, h => h
  | fuel + 1, g, hl, h => by
    unfold G.runJoiner
    cases hs : g.joinerStep perm with
    | none => exact h
    | some r =>
      obtain ⟨g1, o1⟩ := r
      exact pinv_runJoiner perm fuel g1 (linv_joinerStep g perm hl hs) (pinv_joinerStep g perm hl h hs)

theorem pstep_apply (g : G) (a : Action) : PStep g (g.apply a).1 := by
  unfold G.apply
  cases a with
  | spawn i d ch =>
    simp only []
    cases ha : g.add i d ch with
    | none => exact PStep.refl g
    | some g' => exact pstep_add ha
  | finish i o p => simp only []; split; exact pstep_finishMem g i o; exact PStep.refl g
  | extCancel i p => simp only []; split; exact pstep_deliverCancel g i; exact PStep.refl g
  | finCancel i p => simp only []; split; exact pstep_finishMem g i _; exact PStep.refl g
  | join p => simp only []; split; exact pstep_setJ _ _; exact PStep.refl g
  | ctxExit r p => simp only []; split; exact pstep_setJ _ _; exact PStep.refl g
  | cancelJoiner p =>
    simp only []
    cases hj : g.joiner with
    | none => exact PStep.refl g
    | some j =>
      simp only []
      cases hp : j.phase with
      | exited => exact PStep.refl g
      | next =>
        simp only []
        refine PStep.trans ?_ (pstep_setJ _ _)
        split
        · refine PStep.trans ?_ (pstep_release _)
          exact PStep.of_eq rfl rfl rfl rfl
        · exact PStep.of_eq rfl rfl rfl rfl
      | fin => exact pstep_setJ _ _
      | cancelrem => exact pstep_setJ _ _
  | nextDone k p =>
    simp only []
    split
    · exact PStep.refl g
    · split
      · exact PStep.of_eq rfl rfl rfl rfl
      · exact PStep.trans (PStep.of_eq (g := g) (g' := { g with sem := g.sem - 1 }) rfl rfl rfl rfl)
          (pstep_wake _ _)
  | cancelRem p => exact pstep_deliverCancels g _

theorem pinv_react (g : G) (a : Action) (hl : LInv g) (h : PInv g) : PInv (react g a).1 := by
  unfold react
  exact pinv_runJoiner _ _ _ (linv_apply g a hl) ((pstep_apply g a).pinv h)

theorem pinv_runAll (g : G) (as : List Action) (hl : LInv g) (h : PInv g) : PInv (runAll g as).1 := by
  induction as generalizing g with
  | nil => exact h
  | cons a as ih => simp only [runAll]; exact ih _ (linv_react g a hl) (pinv_react g a hl h)

end Aiorpcx.C09
