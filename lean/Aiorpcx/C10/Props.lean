import Aiorpcx.C10.Queue
import Aiorpcx.C10.Completed
import Aiorpcx.C10.Stop
import Aiorpcx.C10.Sem
import Aiorpcx.C09.Props
/-!
# C10 — join follows its wait policy and reports the first finisher

Same reactive model as C09.  Global theorems (all action sequences, all policies, all set
orders): the done queue is a FIFO over the completion log, nothing is yielded twice, everything
yielded has finished.  Decision theorems (any state): what one iteration of the `join()` loop
does with the task it pops - when `completed` is set, when the loop stops.  The liveness clause
that fails on the code (F12) is a kernel-checked witness.
-/
namespace Aiorpcx.C09

theorem linv_init (p : Policy) : LInv (init p) :=
  ⟨rfl, by simp [init], by intro i hi; simp [init] at hi⟩

/-- **Queue discipline.**  In every reachable state: what has been handed out by `next_done`
(to the joiner or to any other caller), followed by what is still queued, is exactly the
completion order of the non-daemon members; that order has no repetition, and every task in it
has finished. -/
theorem queue_discipline (p : Policy) (as : List Action) :
    let g := (runAll (init p) as).1
    g.popped ++ g.doneq = g.log ∧ g.log.Nodup ∧ ∀ i ∈ g.log, g.statusOf i = some .done :=
  let h := linv_runAll _ as (linv_init p)
  ⟨h.queue, h.nodup, h.logDone⟩

/-- `next_done`/`next_result`/iteration yield members **in completion order, each at most
once**: the sequence handed out so far is a duplicate-free prefix of the completion log. -/
theorem next_done_exactly_once_in_order (p : Policy) (as : List Action) :
    let g := (runAll (init p) as).1
    g.popped <+: g.log ∧ g.popped.Nodup := by
  obtain ⟨hq, hn, _⟩ := queue_discipline p as
  refine ⟨⟨_, hq⟩, ?_⟩
  rw [← hq] at hn
  exact (List.nodup_append.1 hn).1

/-- a caller of `next_done` that gets a permit receives the *head* of the queue (the earliest
finisher not yet handed out), which leaves the queue -/
theorem next_done_pops_head (g : G) (k t : Nat) (rest : List Nat) (h : g.doneq = t :: rest) :
    (g.wake (.consumer k)).2 = [Obs.nextDone k (some t)] ∧
    (g.wake (.consumer k)).1.doneq = rest ∧ (g.wake (.consumer k)).1.popped = g.popped ++ [t] := by
  simp [G.wake, h]

/-- `next_done` answers None only when nothing is queued (and it did not have to wait) -/
theorem next_done_none (g : G) (k : Nat) (p : List Nat)
    (h : Obs.nextDone k none ∈ (g.apply (.nextDone k p)).2) : g.doneq = [] := by
  unfold G.apply at h
  simp only [] at h
  split at h
  · rename_i he; simp at he; exact he.1
  · split at h
    · simp at h
    · unfold G.wake at h
      simp only [] at h
      cases hd : g.doneq with
      | nil => rfl
      | cons t rest => simp [hd] at h

theorem pinv_init (p : Policy) : PInv (init p) :=
  ⟨by simp [init], by intro t ht; simp [init] at ht⟩

/-- **`completed` is the first finisher that counts.**  In every reachable state, `completed`
is the first task - in the order the join loop took them off the done queue, i.e. in completion
order among the non-daemon members no other `next_done` caller had taken - whose outcome counts
(under `object`: not a plain None return); it is `none` exactly while no such task has been
popped.  Everything the join loop popped has finished, and is part of the completion log. -/
theorem completed_is_first (p : Policy) (as : List Action) :
    let g := (runAll (init p) as).1
    g.completed = g.joinPopped.find? (fun t => countsAsCompleted g.wait (g.outcomeOf t)) ∧
    (∀ t ∈ g.joinPopped, g.statusOf t = some .done) := by
  have h := pinv_runAll (init p) as (linv_init p) (pinv_init p)
  exact ⟨h.completedFirst, h.poppedDone⟩

/-- hence `completed`, once set, is a finished non-daemon member whose outcome counts -/
theorem completed_counts (p : Policy) (as : List Action) (c : Nat)
    (h : (runAll (init p) as).1.completed = some c) :
    c ∈ (runAll (init p) as).1.joinPopped ∧
    countsAsCompleted (runAll (init p) as).1.wait ((runAll (init p) as).1.outcomeOf c) = true ∧
    (runAll (init p) as).1.statusOf c = some .done := by
  obtain ⟨h1, h2⟩ := completed_is_first p as
  rw [h] at h1
  have hm := List.mem_of_find?_eq_some h1.symm
  have hp := List.find?_some h1.symm
  exact ⟨hm, hp, h2 c hm⟩

/-! ## One iteration of the `join()` loop (decision logic, any state) -/

/-- the outcome of the task at the head of the queue -/
def headOutcome (g : G) : Outcome :=
  match g.doneq with
  | [] => .none
  | t :: _ => ((g.find t).map (·.outcome)).getD .none

/-- **`completed` is set once, to the first popped task that counts**: a daemon never gets
here (it is never queued); under `object` a task that returned None does not count. -/
theorem pop_completed (g : G) (j : Joiner) (t : Nat) (rest : List Nat) (h : g.doneq = t :: rest) :
    (g.joinerPop j).1.completed =
      (match g.completed with
       | some c => some c
       | none => if countsAsCompleted g.wait (headOutcome g) then some t else none) := by
  unfold G.joinerPop headOutcome
  simp only [h, setJ]
  cases hc : g.completed <;> simp [G.popT, G.outcomeOf, hc]

theorem counts_spec (p : Policy) (o : Outcome) :
    countsAsCompleted p o = true ↔ ¬ (p = .object ∧ o = .none) := by
  cases p <;> cases o <;> simp [countsAsCompleted, failed]

/-- **When the loop stops**: after popping `t` the joiner leaves the waiting loop exactly when
`t` raised or was cancelled, or the policy is `any`, or the policy is `object` and a completed
task is now known; otherwise it waits for the next finisher. -/
theorem pop_stops_iff (g : G) (j : Joiner) (t : Nat) (rest : List Nat) (h : g.doneq = t :: rest) :
    ((g.joinerPop j).1.joiner.map (·.phase)) =
      some (if failed (headOutcome g) ∨ g.wait = .any ∨
               (g.wait = .object ∧ (g.joinerPop j).1.completed.isSome)
            then .fin else .next) := by
  unfold G.joinerPop headOutcome
  simp only [h, setJ, Option.map_some, G.stopAfter, G.outcomeOf]
  congr 1
  simp only [Bool.or_eq_true, Bool.and_eq_true, beq_iff_eq]
  congr 1
  simp [or_assoc, G.popT, G.outcomeOf]

/-- under `all` a successful finisher never stops the wait -/
example (g : G) (j : Joiner) (t : Nat) (rest : List Nat) (h : g.doneq = t :: rest)
    (hw : g.wait = .all) (ho : failed (headOutcome g) = false) :
    ((g.joinerPop j).1.joiner.map (·.phase)) = some .next := by
  rw [pop_stops_iff g j t rest h]; simp [hw, ho]

/-- the joiner asks for the next finisher only while something is pending or queued; with
nothing left (policy `all`: everybody consumed) it goes on to the clean-up -/
theorem nothing_left_ends_wait (g : G) (perm : List Nat) (j : Joiner) (hj : g.joiner = some j)
    (hb : j.blocked = false) (hp : j.phase = .next) (hperm : j.hasPermit = false)
    (hw : g.wait ≠ .nowait) (hd : g.doneq = []) (hpend : g.pending = []) :
    (g.joinerStep perm).map (fun r => r.1.joiner.map (·.phase)) = some (some .fin) := by
  unfold G.joinerStep
  simp [hj, hb, hp, hperm, hd, hpend, setJ]

/-- policy `None`: join waits for nobody -/
theorem nowait_goes_straight_to_cleanup (g : G) (perm : List Nat) (j : Joiner)
    (hj : g.joiner = some j) (hb : j.blocked = false) (hp : j.phase = .next)
    (hperm : j.hasPermit = false) (hw : g.wait = .nowait) :
    (g.joinerStep perm).map (fun r => r.1.joiner.map (·.phase)) = some (some .fin) := by
  unfold G.joinerStep
  simp [hj, hb, hp, hperm, hw, setJ]

/-! ## F12 (known finding): join can wait for ever when another task sits in `next_done()` -/

/-- "once every member has finished, join() returns" - as a statement about the model -/
def join_terminates_full : Prop :=
  ∀ (p : Policy) (as : List Action) (j : Joiner),
    (runAll (init p) as).1.joiner = some j → j.abandoned = false →
    (∀ m ∈ (runAll (init p) as).1.mem, m.status = .done) → j.phase = .exited

/-- the witness: a consumer is already parked in `next_done()` when `join()` starts; the only
member finishes; the permit goes to the consumer (FIFO), which takes the member; the joiner stays
parked on the semaphore although nothing is pending any more. -/
theorem join_terminates_full_fails : ¬ join_terminates_full := by
  intro h
  have := h .all [.spawn 0 false [], .nextDone 0 [], .join [], .finish 0 .val []]
    { phase := .next, snapshot := none, exc := false, blocked := true, hasPermit := false,
      abandoned := false } (by decide) rfl (by decide)
  cases this

/-- without a competing consumer the same history ends with `joined` and `completed = 0` -/
example :
    let g := (runAll (init .all) [.spawn 0 false [], .join [], .finish 0 .val []]).1
    g.joined = true ∧ g.completed = some 0 := by decide

/-- object policy: None-returners are skipped, the first real result stops the wait and the
rest are cancelled -/
example :
    let r := runAll (init .object)
      [.spawn 0 false [], .spawn 1 false [], .spawn 2 false [], .join [],
       .finish 0 .none [], .finish 1 .val [2], .finCancel 2 []]
    r.1.completed = some 1 ∧ r.1.joined = true ∧ r.1.log = [0, 1, 2] ∧
    r.2.getLast? = some [Obs.joinExit false] := by decide

/-! ## Termination and exit-exactly-at-stop: the positive theorems

Supporting files: `C09/Fuel.lean` (termination measure), `C09/NoConsumer.lean` (semaphore
accounting without a competing consumer), `C10/Stop.lean` (`stops`, `LoopInv`, `stay_in_loop`). -/

theorem pinv_reachable (p : Policy) (as : List Action) : PInv (runAll (init p) as).1 :=
  pinv_runAll (init p) as (linv_init p) (pinv_init p)

theorem loopinv_reachable (p : Policy) (as : List Action) : LoopInv (runAll (init p) as).1 :=
  loopinv_runAll _ as (good_init p) (pinv_init p) (loopinv_init p)

/-- **`join()` terminates** - the positive half of `join_terminates_full`: in a history in which
no other task ever had to wait in `next_done()` (`NoParking` - the F12 situation, a caller parked
on the group's semaphore, is what is excluded; callers served at once are fine), once every
member has finished a joiner that was not abandoned (F11: cancelled again while awaiting the
members it had cancelled) has left `join()`, and `joined` is set.  Derived from the
no-stuck-state theorem `joiner_waits_only_for_unfinished_of_noParking`, which rests on
`fuel_adequate`. -/
theorem join_terminates_of_noParking (p : Policy) (as : List Action)
    (hnp : NoParking (init p) as) (j : Joiner)
    (hj : (runAll (init p) as).1.joiner = some j) (hab : j.abandoned = false)
    (hall : ∀ m ∈ (runAll (init p) as).1.mem, m.status = .done) :
    j.phase = .exited ∧ (runAll (init p) as).1.joined = true := by
  have hex : j.phase = .exited := by
    by_cases hne : j.phase = .exited
    · exact hne
    · rcases joiner_waits_only_for_unfinished_of_noParking p as hnp j hj hne with
        ⟨_, _, m, hm, _, _, hs⟩ | ⟨_, snap, _, m, hm, _, hs⟩
      · exact absurd (hall m hm) hs
      · exact absurd (hall m hm) hs
  exact ⟨hex, (reach_runAll _ as (reach_init p)).exitClean j hj hex hab⟩

/-- ... in particular in histories containing no `Action.nextDone` at all -/
theorem join_terminates_partial (p : Policy) (as : List Action)
    (hnc : ∀ a ∈ as, a.isNextDone = false) (j : Joiner)
    (hj : (runAll (init p) as).1.joiner = some j) (hab : j.abandoned = false)
    (hall : ∀ m ∈ (runAll (init p) as).1.mem, m.status = .done) :
    j.phase = .exited ∧ (runAll (init p) as).1.joined = true :=
  join_terminates_of_noParking p as (noParking_of_noNextDone _ as hnc) j hj hab hall

/-- the F12 witness violates exactly the side condition: its consumer has to wait -/
example : ¬ NoParking (init .all) [.spawn 0 false [], .nextDone 0 [], .join [], .finish 0 .val []] := by
  simp only [NoParking, Action.isNextDone]
  decide

/-- non-vacuity: a history meeting every hypothesis (no consumer, joiner cancelled once - not
abandoned -, three members and a daemon all finished) -/
example :
    let as : List Action := [.spawn 0 false [⟨100, false⟩], .spawn 1 true [], .spawn 2 false [],
      .join [], .cancelJoiner [0, 1, 2], .finCancel 0 [], .finCancel 1 [], .finCancel 2 [],
      .finCancel 100 []]
    let g := (runAll (init .all) as).1
    (∀ a ∈ as, a.isNextDone = false) ∧ g.joiner.map (·.abandoned) = some false ∧
    (∀ m ∈ g.mem, m.status = .done) ∧ g.mem.length = 4 ∧ g.joined = true := by decide

/-- **The loop is left at the stop condition** (any history, also with competing consumers):
in every reachable state in which the stop condition of the policy has been met - policy `None`:
as soon as `join()` proper runs; otherwise: by a member the join loop has popped (any failed
member; any member under `any`; a member with a non-None result under `object`) - the joiner is
in the clean-up or has exited.  As this holds after every reaction, it holds in particular in
the state after the very reaction in which the condition became true: the joiner never goes
back to waiting for further members. -/
theorem join_returns_at_stop (p : Policy) (as : List Action) (j : Joiner)
    (hj : (runAll (init p) as).1.joiner = some j) (hph : j.phase ≠ .cancelrem)
    (hs : (runAll (init p) as).1.stopMet = true) : j.phase = .fin ∨ j.phase = .exited := by
  have hji := jinv_reachable p as
  have hloop := loopinv_reachable p as
  have hq : (runAll (init p) as).1.Quiescent :=
    runAll_quiescent _ as (good_init p) (by simp [G.Quiescent, init])
  generalize (runAll (init p) as).1 = g at *
  cases hp : j.phase with
  | fin => exact Or.inl rfl
  | exited => exact Or.inr rfl
  | cancelrem => exact absurd hp hph
  | next =>
    exfalso
    simp only [G.Quiescent, hj] at hq
    rcases hq with hb | hx | ⟨hcf, _⟩
    · have hw := (hji.blockedNext j hj hb).2
      have hsp := hloop.inLoop j hj (Or.inl hp)
      simp only [G.stopMet, hsp, Bool.or_false, beq_iff_eq] at hs
      exact hw hs
    · rw [hp] at hx; cases hx
    · rcases hcf with h | h <;> rw [hp] at h <;> cases h

/-- **... stated on the completion log** (no competing consumer): as soon as a member whose
outcome meets the stop condition of the policy *has finished* - it is in the completion log of
the non-daemon members - the joiner, in the state after that same reaction, is in the clean-up
or has exited: the finisher was popped and acted upon in the reaction in which it finished. -/
theorem join_returns_at_stop_log (p : Policy) (as : List Action)
    (hnc : ∀ a ∈ as, a.isNextDone = false) (j : Joiner)
    (hj : (runAll (init p) as).1.joiner = some j) (hph : j.phase ≠ .cancelrem)
    (hs : (runAll (init p) as).1.wait = .nowait ∨
      ∃ t ∈ (runAll (init p) as).1.log,
        stops (runAll (init p) as).1.wait ((runAll (init p) as).1.outcomeOf t) = true) :
    j.phase = .fin ∨ j.phase = .exited := by
  by_cases hp : j.phase = .next
  · exfalso
    have hji := jinv_reachable p as
    have hloop := loopinv_reachable p as
    have hn := ninv_reachable p as hnc
    have hl := (good_reachable p as).linv
    have hq : (runAll (init p) as).1.Quiescent :=
      runAll_quiescent _ as (good_init p) (by simp [G.Quiescent, init])
    generalize (runAll (init p) as).1 = g at *
    simp only [G.Quiescent, hj] at hq
    rcases hq with hb | hx | ⟨hcf, _⟩
    · have hw := (hji.blockedNext j hj hb).2
      have hsp := hloop.inLoop j hj (Or.inl hp)
      obtain ⟨hperm, hs0, _⟩ := hn.blocked j hj hb
      have hsem := hn.sem
      simp only [hpNat, hj, hperm, hs0] at hsem
      have hdq : g.doneq = [] := List.eq_nil_of_length_eq_zero (by simpa using hsem.symm)
      have hlog : g.log = g.joinPopped := by rw [← hl.queue, hdq, hn.popped rfl]; simp
      rcases hs with h | ⟨t, ht, hst⟩
      · exact hw h
      · rw [hlog] at ht
        have : g.stopPopped = true := by
          simp only [G.stopPopped, List.any_eq_true]
          exact ⟨t, ht, hst⟩
        rw [hsp] at this; cases this
    · rw [hp] at hx; cases hx
    · rcases hcf with h | h <;> rw [hp] at h <;> cases h
  · cases hp' : j.phase with
    | fin => exact Or.inl rfl
    | exited => exact Or.inr rfl
    | cancelrem => exact absurd hp' hph
    | next => exact absurd hp' hp

/-- non-vacuity (`object`): member 0 returned None - no stop, still in the loop; member 1
returns a value - in that same reaction the joiner is in the clean-up -/
example :
    let as : List Action := [.spawn 0 false [], .spawn 1 false [], .spawn 2 false [], .join [],
      .finish 0 .none []]
    let g := (runAll (init .object) as).1
    let g' := (react g (.finish 1 .val [2])).1
    g.stopMet = false ∧ g.joiner.map (·.phase) = some .next ∧
    g'.stopMet = true ∧ g'.joiner.map (·.phase) = some .fin ∧ g'.log = [0, 1] := by decide

theorem wait_reachable (p : Policy) (as : List Action) : (runAll (init p) as).1.wait = p := by
  have key : ∀ (as : List Action) (g : G), Good g → (runAll g as).1.wait = g.wait := by
    intro as
    induction as with
    | nil => intro g _; rfl
    | cons a as ih =>
      intro g hg
      simp only [runAll]
      rw [ih _ (good_react g a hg), react_fst,
        wait_runJoiner _ _ _ (good_apply g a hg).fixed, (pstep_apply g a).stable.wait]
  exact key as _ (good_init p)

/-- **The loop is not left early** (no competing consumer).  If, after an action of the
environment, the joiner is in the `next_done` loop and some member is pending, then after the
reaction it is *still in the loop* - unless the stop condition of the policy has been met: while
the stop condition has not been met and members are pending, `join()` keeps waiting. -/
theorem join_stays_in_loop_of_noParking (p : Policy) (as : List Action) (a : Action)
    (hnp : NoParking (init p) (as ++ [a])) (j1 : Joiner)
    (hj1 : ((runAll (init p) as).1.apply a).1.joiner = some j1) (hp1 : j1.phase = .next)
    (hpend : ((runAll (init p) as).1.apply a).1.pending ≠ [])
    (hstop : (react (runAll (init p) as).1 a).1.stopMet = false) :
    ∃ j', (react (runAll (init p) as).1 a).1.joiner = some j' ∧ j'.phase = .next := by
  rw [noParking_append] at hnp
  have hg := good_reachable p as
  have hn := ninv_reachable_noParking p as hnp.1
  have hji := jinv_reachable p as
  have hpi := pinv_reachable p as
  have hpark := hnp.2
  generalize (runAll (init p) as).1 = g at *
  have hg1 := good_apply g a hg
  rw [react_fst] at hstop ⊢
  simp only [G.stopMet, Bool.or_eq_false_iff, beq_eq_false_iff_ne] at hstop
  have hw : (g.apply a).1.wait ≠ .nowait := by
    rw [← wait_runJoiner a.perm (g.apply a).1.fuel _ hg1.fixed]; exact hstop.1
  have hna : a.isNextDone = false ∨ ((false : Bool) = false ∧ g.consumerWouldPark = false) := by
    cases hn' : a.isNextDone with
    | false => exact Or.inl rfl
    | true => exact Or.inr ⟨rfl, hpark hn'⟩
  exact stay_in_loop a.perm _ _ hg1.fixed hg1.tinv hg1.linv ((pstep_apply g a).pinv hpi)
    (ninv_apply g a hna hn) (jinv_apply g a hji hg.tinv) j1 hj1 hp1 hw hpend hstop.2

/-- ... in particular in histories without any `next_done()` caller -/
theorem join_stays_in_loop (p : Policy) (as : List Action) (a : Action)
    (hnc : ∀ b ∈ as, b.isNextDone = false) (hna : a.isNextDone = false) (j1 : Joiner)
    (hj1 : ((runAll (init p) as).1.apply a).1.joiner = some j1) (hp1 : j1.phase = .next)
    (hpend : ((runAll (init p) as).1.apply a).1.pending ≠ [])
    (hstop : (react (runAll (init p) as).1 a).1.stopMet = false) :
    ∃ j', (react (runAll (init p) as).1 a).1.joiner = some j' ∧ j'.phase = .next :=
  join_stays_in_loop_of_noParking p as a
    (noParking_of_noNextDone _ _ (by
      intro b hb
      simp only [List.mem_append, List.mem_singleton] at hb
      rcases hb with hb | rfl
      · exact hnc b hb
      · exact hna)) j1 hj1 hp1 hpend hstop

/-- non-vacuity (`all`): three members; 0 finishes fine: the joiner pops it and is back in the
loop waiting for 1 and 2 -/
example :
    let as : List Action := [.spawn 0 false [], .spawn 1 false [], .spawn 2 false [], .join []]
    let g := (runAll (init .all) as).1
    (g.apply (.finish 0 .val [])).1.joiner.map (·.phase) = some .next ∧
    (g.apply (.finish 0 .val [])).1.pending = [1, 2] ∧
    (react g (.finish 0 .val [])).1.stopMet = false ∧
    (react g (.finish 0 .val [])).1.joinPopped = [0] := by decide

/-- The naive state-level converse - "a joiner that was never cancelled is in the loop (or in
`cancel_remaining()`) whenever the stop condition has not been met and members are pending" - is
**false** of the model and of the code: `join()` also leaves the loop when nothing is left to
wait for, and members can appear afterwards (spawned by a member while it is being cancelled, or
added from outside while the clean-up waits); they are then cancelled by the clean-up, not
waited for.  `join_stays_in_loop` is the correct form. -/
def join_in_loop_full : Prop :=
  ∀ (p : Policy) (as : List Action) (j : Joiner), (∀ a ∈ as, a.isNextDone = false) →
    (runAll (init p) as).1.joiner = some j → j.exc = false →
    (runAll (init p) as).1.stopMet = false → (runAll (init p) as).1.pending ≠ [] →
    j.phase = .next ∨ j.phase = .cancelrem

/-- witness: a group with only a daemon that spawns a member when cancelled.  `join()` finds
nothing to wait for, cancels the daemon, which spawns member 100: pending, no stop condition,
and the joiner is in the clean-up awaiting the daemon. -/
theorem join_in_loop_full_fails : ¬ join_in_loop_full := by
  intro h
  have := h .all [.spawn 0 true [⟨100, false⟩], .join [0]]
    { phase := .fin, snapshot := some [0], exc := false, blocked := false, hasPermit := false,
      abandoned := false } (by decide) (by decide) rfl (by decide) (by decide)
  rcases this with h | h <;> cases h

/-! ## Semaphore accounting in all histories -/

theorem sinv_reachable (p : Policy) (as : List Action) : SInv (runAll (init p) as).1 :=
  sinv_runAll _ as (good_init p) (sinv_init p)

/-- **`sem_invariant`** (every history, any number of competing `next_done()` callers): permits
banked in the group's semaphore + the permit held by the joiner = length of the done queue. -/
theorem sem_invariant (p : Policy) (as : List Action) :
    (runAll (init p) as).1.sem + hpNat (runAll (init p) as).1 =
      (runAll (init p) as).1.doneq.length :=
  (sinv_reachable p as).sem

/-- hence a joiner that holds a permit always finds a task to pop: the join loop never takes
the "`next_done()` returned None after acquiring" exit -/
theorem permit_finds_task (p : Policy) (as : List Action) (j : Joiner)
    (hj : (runAll (init p) as).1.joiner = some j) (hp : j.hasPermit = true) :
    (runAll (init p) as).1.doneq ≠ [] := by
  have h := sem_invariant p as
  simp only [hpNat, hj, hp, ↓reduceIte] at h
  intro he
  rw [he] at h
  simp at h

/-- **`next_done()` answers None only when no task remains** (every history): the observation
`nextDone k none` is made only by the caller's own action, on a group with nothing queued and
nothing pending - never by a caller that had to acquire the semaphore, whether at once or after
waiting.  (With the queue discipline this is "no member is omitted".) -/
theorem next_done_none_only_when_nothing_left (p : Policy) (as : List Action) (a : Action) (k : Nat)
    (hm : Obs.nextDone k none ∈ (react (runAll (init p) as).1 a).2) :
    (∃ perm, a = .nextDone k perm) ∧ (runAll (init p) as).1.doneq = [] ∧
      (runAll (init p) as).1.pending = [] := by
  have hg := good_reachable p as
  have hs := sinv_reachable p as
  generalize (runAll (init p) as).1 = g at *
  rw [react_snd, List.mem_append] at hm
  rcases hm with hm | hm
  · exact nn_apply g a hs k hm
  · exact absurd hm (nn_runJoiner a.perm _ _ (good_apply g a hg).fixed (sinv_apply g a hs) k)

/-- non-vacuity: two consumers; the first takes the only member, the second - nothing queued,
nothing pending - is told None; sem = 0 = |doneq| -/
example :
    let r := runAll (init .all) [.spawn 0 false [], .finish 0 .val [], .nextDone 0 [], .nextDone 1 []]
    r.2 = [[], [], [Obs.nextDone 0 (some 0)], [Obs.nextDone 1 none]] ∧ r.1.sem = 0 ∧
      r.1.doneq = [] := by decide

/-! ## Facts tie: the decision table of the `join()` loop and of `next_done()`, probed on the
real class on every run (`tools/facts/c09.py`: real tasks on a real loop, public API only) -/

def policyOfName : String → Option Policy
  | "all" => some .all | "any" => some .any | "object" => some .object | "none" => some .nowait
  | _ => none

def outcomeOfName : String → Option Outcome
  | "n" => some .none | "v" => some .val | "e" => some .exc | "c" => some .cancelled
  | _ => none

/-- the model's answer for one row: member 0 has finished with outcome `o` and is queued, member
1 is running, `completed` was preset or not: (the loop stops, `completed` becomes member 0) -/
def modelStopRow (p : Policy) (o : Outcome) (before : Bool) : Bool × Bool :=
  let g : G := { wait := p, mem := [⟨0, false, .done, o, []⟩, ⟨1, false, .run, .none, []⟩],
                 pending := [1], doneq := [0], sem := 1, log := [0],
                 completed := if before then some 9 else none }
  (g.stopAfter 0 [], (g.popT 0 []).completed == some 0)

/-- the same scenario end to end through `react` (rows in which `completed` was not preset):
(member 1 was cancelled by the group, `completed` is member 0) -/
def modelStopHistory (p : Policy) (o : Outcome) : Bool × Bool :=
  let fin : List Action := match o with
    | .cancelled => [.extCancel 0 [], .finCancel 0 []]
    | o => [.finish 0 o []]
  let g := (runAll (init p) ([.spawn 0 false [], .spawn 1 false []] ++ fin ++ [.join [1]])).1
  (g.statusOf 1 == some .canc, g.completed == some 0)

/-- **tie**: every row of the probed table (3 looping policies × 4 outcomes × `completed` preset
or not - all 24 present) is what `G.stopAfter` / `G.popT` say, and - where `completed` was not
preset - what the whole reactive model does on that history.  A change of the stop test or of
the `completed` rule in `join()` changes a row and breaks this obligation. -/
theorem facts_stop_table :
    Facts.C09.stopTable.map (fun r => (r.1, r.2.1, r.2.2.1)) =
      (["all", "any", "object"].flatMap fun p => ["n", "v", "e", "c"].flatMap fun o =>
        [false, true].map fun b => (p, o, b)) ∧
    Facts.C09.stopTable.all (fun r =>
      match policyOfName r.1, outcomeOfName r.2.1 with
      | some p, some o =>
        modelStopRow p o r.2.2.1 == (r.2.2.2.1, r.2.2.2.2) &&
          (r.2.2.1 || modelStopHistory p o == (r.2.2.2.1, r.2.2.2.2))
      | _, _ => false) = true := by
  decide

/-- **tie**: `next_done()` on an idle group - nothing there: None at once; a finished member:
that member; only a pending member: the caller has to wait - as `G.apply (.nextDone ..)` -/
theorem facts_next_done_table :
    Facts.C09.nextDoneTable = [("empty", "none"), ("one-done", "head"), ("one-pending", "blocks")] ∧
    ((init .all).apply (.nextDone 0 [])).2 = [Obs.nextDone 0 none] ∧
    ((runAll (init .all) [.spawn 0 false [], .finish 0 .val []]).1.apply (.nextDone 0 [])).2 =
      [Obs.nextDone 0 (some 0)] ∧
    ((runAll (init .all) [.spawn 0 false []]).1.apply (.nextDone 0 [])).2 =
      [Obs.nextDoneBlocked 0] := by
  decide

end Aiorpcx.C09
