import Aiorpcx.C10.Queue
import Aiorpcx.C10.Completed
import Aiorpcx.C09.Props
/-!
# C10 — join follows its wait policy and reports the first finisher

Same reactive model as C09.  Global theorems (all action sequences, all policies, all set
orders): the done queue is a FIFO over the completion log, nothing is yielded twice, everything
yielded has finished.  Decision theorems (any state): what one iteration of the `join()` loop
does with the task it pops - when `completed` is set, when the loop stops.  The liveness clause
that fails on the code (F12) is a kernel-checked witness.
-/
namespace Aiorpcx.C09

theorem linv_init (p : Policy) : LInv (init p) :=
  ⟨rfl, by simp [init], by intro i hi; simp [init] at hi⟩

/-- **Queue discipline.**  In every reachable state: what has been handed out by `next_done`
(to the joiner or to any other caller), followed by what is still queued, is exactly the
completion order of the non-daemon members; that order has no repetition, and every task in it
has finished. -/
theorem queue_discipline (p : Policy) (as : List Action) :
    let g := (runAll (init p) as).1
    g.popped ++ g.doneq = g.log ∧ g.log.Nodup ∧ ∀ i ∈ g.log, g.statusOf i = some .done :=
  let h := linv_runAll _ as (linv_init p)
  ⟨h.queue, h.nodup, h.logDone⟩

/-- `next_done`/`next_result`/iteration yield members **in completion order, each at most
once**: the sequence handed out so far is a duplicate-free prefix of the completion log. -/
theorem next_done_exactly_once_in_order (p : Policy) (as : List Action) :
    let g := (runAll (init p) as).1
    g.popped <+: g.log ∧ g.popped.Nodup := by
  obtain ⟨hq, hn, _⟩ := queue_discipline p as
  refine ⟨⟨_, hq⟩, ?_⟩
  rw [← hq] at hn
  exact (List.nodup_append.1 hn).1

/-- a caller of `next_done` that gets a permit receives the *head* of the queue (the earliest
finisher not yet handed out), which leaves the queue -/
theorem next_done_pops_head (g : G) (k t : Nat) (rest : List Nat) (h : g.doneq = t :: rest) :
    (g.wake (.consumer k)).2 = [Obs.nextDone k (some t)] ∧
    (g.wake (.consumer k)).1.doneq = rest ∧ (g.wake (.consumer k)).1.popped = g.popped ++ [t] := by
  simp [G.wake, h]

/-- `next_done` answers None only when nothing is queued (and it did not have to wait) -/
theorem next_done_none (g : G) (k : Nat) (p : List Nat)
    (h : Obs.nextDone k none ∈ (g.apply (.nextDone k p)).2) : g.doneq = [] := by
  unfold G.apply at h
  simp only [] at h
  split at h
  · rename_i he; simp at he; exact he.1
  · split at h
    · simp at h
    · unfold G.wake at h
      simp only [] at h
      cases hd : g.doneq with
      | nil => rfl
      | cons t rest => simp [hd] at h

theorem pinv_init (p : Policy) : PInv (init p) :=
  ⟨by simp [init], by intro t ht; simp [init] at ht⟩

/-- **`completed` is the first finisher that counts.**  In every reachable state, `completed`
is the first task - in the order the join loop took them off the done queue, i.e. in completion
order among the non-daemon members no other `next_done` caller had taken - whose outcome counts
(under `object`: not a plain None return); it is `none` exactly while no such task has been
popped.  Everything the join loop popped has finished, and is part of the completion log. -/
theorem completed_is_first (p : Policy) (as : List Action) :
    let g := (runAll (init p) as).1
    g.completed = g.joinPopped.find? (fun t => countsAsCompleted g.wait (g.outcomeOf t)) ∧
    (∀ t ∈ g.joinPopped, g.statusOf t = some .done) := by
  have h := pinv_runAll (init p) as (linv_init p) (pinv_init p)
  exact ⟨h.completedFirst, h.poppedDone⟩

/-- hence `completed`, once set, is a finished non-daemon member whose outcome counts -/
theorem completed_counts (p : Policy) (as : List Action) (c : Nat)
    (h : (runAll (init p) as).1.completed = some c) :
    c ∈ (runAll (init p) as).1.joinPopped ∧
    countsAsCompleted (runAll (init p) as).1.wait ((runAll (init p) as).1.outcomeOf c) = true ∧
    (runAll (init p) as).1.statusOf c = some .done := by
  obtain ⟨h1, h2⟩ := completed_is_first p as
  rw [h] at h1
  have hm := List.mem_of_find?_eq_some h1.symm
  have hp := List.find?_some h1.symm
  exact ⟨hm, hp, h2 c hm⟩

/-! ## One iteration of the `join()` loop (decision logic, any state) -/

/-- the outcome of the task at the head of the queue -/
def headOutcome (g : G) : Outcome :=
  match g.doneq with
  | [] => .none
  | t :: _ => ((g.find t).map (·.outcome)).getD .none

/-- **`completed` is set once, to the first popped task that counts**: a daemon never gets
here (it is never queued); under `object` a task that returned None does not count. -/
theorem pop_completed (g : G) (j : Joiner) (t : Nat) (rest : List Nat) (h : g.doneq = t :: rest) :
    (g.joinerPop j).1.completed =
      (match g.completed with
       | some c => some c
       | none => if countsAsCompleted g.wait (headOutcome g) then some t else none) := by
  unfold G.joinerPop headOutcome
  simp only [h, setJ]
  cases hc : g.completed <;> simp [G.popT, G.outcomeOf, hc]

theorem counts_spec (p : Policy) (o : Outcome) :
    countsAsCompleted p o = true ↔ ¬ (p = .object ∧ o = .none) := by
  cases p <;> cases o <;> simp [countsAsCompleted, failed]

/-- **When the loop stops**: after popping `t` the joiner leaves the waiting loop exactly when
`t` raised or was cancelled, or the policy is `any`, or the policy is `object` and a completed
task is now known; otherwise it waits for the next finisher. -/
theorem pop_stops_iff (g : G) (j : Joiner) (t : Nat) (rest : List Nat) (h : g.doneq = t :: rest) :
    ((g.joinerPop j).1.joiner.map (·.phase)) =
      some (if failed (headOutcome g) ∨ g.wait = .any ∨
               (g.wait = .object ∧ (g.joinerPop j).1.completed.isSome)
            then .fin else .next) := by
  unfold G.joinerPop headOutcome
  simp only [h, setJ, Option.map_some, G.stopAfter, G.outcomeOf]
  congr 1
  simp only [Bool.or_eq_true, Bool.and_eq_true, beq_iff_eq]
  congr 1
  simp [or_assoc, G.popT, G.outcomeOf]

/-- under `all` a successful finisher never stops the wait -/
example (g : G) (j : Joiner) (t : Nat) (rest : List Nat) (h : g.doneq = t :: rest)
    (hw : g.wait = .all) (ho : failed (headOutcome g) = false) :
    ((g.joinerPop j).1.joiner.map (·.phase)) = some .next := by
  rw [pop_stops_iff g j t rest h]; simp [hw, ho]

/-- the joiner asks for the next finisher only while something is pending or queued; with
nothing left (policy `all`: everybody consumed) it goes on to the clean-up -/
theorem nothing_left_ends_wait (g : G) (perm : List Nat) (j : Joiner) (hj : g.joiner = some j)
    (hb : j.blocked = false) (hp : j.phase = .next) (hperm : j.hasPermit = false)
    (hw : g.wait ≠ .nowait) (hd : g.doneq = []) (hpend : g.pending = []) :
    (g.joinerStep perm).map (fun r => r.1.joiner.map (·.phase)) = some (some .fin) := by
  unfold G.joinerStep
  simp [hj, hb, hp, hperm, hd, hpend, setJ]

/-- policy `None`: join waits for nobody -/
theorem nowait_goes_straight_to_cleanup (g : G) (perm : List Nat) (j : Joiner)
    (hj : g.joiner = some j) (hb : j.blocked = false) (hp : j.phase = .next)
    (hperm : j.hasPermit = false) (hw : g.wait = .nowait) :
    (g.joinerStep perm).map (fun r => r.1.joiner.map (·.phase)) = some (some .fin) := by
  unfold G.joinerStep
  simp [hj, hb, hp, hperm, hw, setJ]

/-! ## F12 (known finding): join can wait for ever when another task sits in `next_done()` -/

/-- "once every member has finished, join() returns" - as a statement about the model -/
def join_terminates_full : Prop :=
  ∀ (p : Policy) (as : List Action) (j : Joiner),
    (runAll (init p) as).1.joiner = some j → j.abandoned = false →
    (∀ m ∈ (runAll (init p) as).1.mem, m.status = .done) → j.phase = .exited

/-- the witness: a consumer is already parked in `next_done()` when `join()` starts; the only
member finishes; the permit goes to the consumer (FIFO), which takes the member; the joiner stays
parked on the semaphore although nothing is pending any more. -/
theorem join_terminates_full_fails : ¬ join_terminates_full := by
  intro h
  have := h .all [.spawn 0 false [], .nextDone 0 [], .join [], .finish 0 .val []]
    { phase := .next, snapshot := none, exc := false, blocked := true, hasPermit := false,
      abandoned := false } (by decide) rfl (by decide)
  cases this

/-- without a competing consumer the same history ends with `joined` and `completed = 0` -/
example :
    let g := (runAll (init .all) [.spawn 0 false [], .join [], .finish 0 .val []]).1
    g.joined = true ∧ g.completed = some 0 := by decide

/-- object policy: None-returners are skipped, the first real result stops the wait and the
rest are cancelled -/
example :
    let r := runAll (init .object)
      [.spawn 0 false [], .spawn 1 false [], .spawn 2 false [], .join [],
       .finish 0 .none [], .finish 1 .val [2], .finCancel 2 []]
    r.1.completed = some 1 ∧ r.1.joined = true ∧ r.1.log = [0, 1, 2] ∧
    r.2.getLast? = some [Obs.joinExit false] := by decide

end Aiorpcx.C09
