import Aiorpcx.C09.Model
/-! C10 — the done queue is a FIFO over the completion log: `popped ++ doneq = log`, the log has
no duplicates, and everything in the log has finished. -/
namespace Aiorpcx.C09

structure LInv (g : G) : Prop where
  queue : g.popped ++ g.doneq = g.log
  nodup : g.log.Nodup
  logDone : ∀ i ∈ g.log, g.statusOf i = some .done

theorem find?_map_update (ms : List Mem) (i j : Nat) (f : Mem → Mem) (hf : ∀ m, (f m).id = m.id) :
    (ms.map (fun m => if m.id == i then f m else m)).find? (·.id == j) =
      (ms.find? (·.id == j)).map (fun m => if m.id == i then f m else m) := by
  induction ms with
  | nil => rfl
  | cons m ms ih =>
    simp only [List.map_cons, List.find?_cons]
    have hid : (if (m.id == i) = true then f m else m).id = m.id := by split <;> simp [hf]
    rw [hid]
    split
    · simp
    · exact ih

theorem statusOf_setMem_ne (g : G) (i j : Nat) (f : Mem → Mem) (hf : ∀ m, (f m).id = m.id)
    (hne : j ≠ i) : (g.setMem i f).statusOf j = g.statusOf j := by
  unfold G.statusOf G.find G.setMem
  simp only [find?_map_update _ _ _ _ hf, Option.map_map]
  cases h : g.mem.find? (·.id == j) with
  | none => rfl
  | some m =>
    have : m.id = j := by simpa using List.find?_some h
    have hmi : ¬ (m.id = i) := by rw [this]; exact hne
    simp [hmi]

theorem statusOf_setMem_self (g : G) (i : Nat) (f : Mem → Mem) (hf : ∀ m, (f m).id = m.id)
    (m : Mem) (hm : g.find i = some m) : (g.setMem i f).statusOf i = some (f m).status := by
  unfold G.statusOf G.find G.setMem
  unfold G.find at hm
  simp only [find?_map_update _ _ _ _ hf, hm]
  have : m.id = i := by simpa using List.find?_some hm
  simp [this]

theorem linv_wake (g : G) (w : Waiter) (h : LInv g) : LInv (g.wake w).1 := by
  unfold G.wake
  cases w with
  | joiner => exact ⟨h.queue, h.nodup, h.logDone⟩
  | consumer k =>
    cases hd : g.doneq with
    | nil => simp only []; exact h
    | cons t rest =>
      simp only []
      refine ⟨?_, h.nodup, h.logDone⟩
      have := h.queue; rw [hd] at this
      simpa using this

theorem linv_release (g : G) (h : LInv g) : LInv g.release.1 := by
  unfold G.release
  cases hw : g.waiters with
  | nil => exact ⟨h.queue, h.nodup, h.logDone⟩
  | cons w ws => simp only []; exact linv_wake _ w ⟨h.queue, h.nodup, h.logDone⟩

theorem linv_finishMem (g : G) (i : Nat) (o : Outcome) (h : LInv g) : LInv (g.finishMem i o).1 := by
  unfold G.finishMem
  cases hf : g.find i with
  | none => exact h
  | some m =>
    simp only []
    split
    · exact h
    · rename_i hnd
      have hst : g.statusOf i = some m.status := by simp [G.statusOf, hf]
      have hnotlog : i ∉ g.log := by
        intro hi
        have := h.logDone i hi
        rw [hst] at this
        simp only [Option.some.injEq] at this
        rw [this] at hnd; simp at hnd
      have hself : (g.setMem i fun m => { m with status := .done, outcome := o }).statusOf i =
          some .done := by
        rw [statusOf_setMem_self g i _ (by intro m; rfl) m hf]
      have hother : ∀ j ∈ g.log,
          (g.setMem i fun m => { m with status := .done, outcome := o }).statusOf j = some .done := by
        intro j hj
        have hne : j ≠ i := by intro hji; rw [hji] at hj; exact hnotlog hj
        rw [statusOf_setMem_ne g i j _ (by intro m; rfl) hne]
        exact h.logDone j hj
      split
      · exact ⟨h.queue, h.nodup, hother⟩
      · apply linv_release
        refine ⟨?_, ?_, ?_⟩
        · show g.popped ++ (g.doneq ++ [i]) = g.log ++ [i]
          rw [← List.append_assoc, h.queue]
        · show (g.log ++ [i]).Nodup
          rw [List.nodup_append]
          refine ⟨h.nodup, by simp, ?_⟩
          intro a ha b hb hab
          simp at hb; subst hb; subst hab; exact hnotlog ha
        · intro j hj
          have hj' : j ∈ g.log ++ [i] := hj
          simp only [List.mem_append, List.mem_singleton] at hj'
          show G.statusOf _ j = some .done
          rcases hj' with hj' | rfl
          · exact hother j hj'
          · exact hself

theorem linv_add {g g' : G} {i : Nat} {d : Bool} {ch : List Child} (ha : g.add i d ch = some g')
    (h : LInv g) : LInv g' := by
  unfold G.add at ha
  split at ha
  · cases ha
  · split at ha
    · cases ha
    · simp only [Option.some.injEq] at ha
      subst ha
      refine ⟨h.queue, h.nodup, ?_⟩
      intro j hj
      have := h.logDone j hj
      unfold G.statusOf G.find at this ⊢
      simp only [List.find?_append]
      cases hfj : g.mem.find? (·.id == j) with
      | none => rw [hfj] at this; simp at this
      | some m => rw [hfj] at this; simpa using this

theorem linv_addChildren (g : G) (cs : List Child) (h : LInv g) : LInv (g.addChildren cs).1 := by
  induction cs generalizing g with
  | nil => exact h
  | cons c cs ih =>
    unfold G.addChildren
    cases ha : g.add c.id c.daemon [] with
    | none => exact h
    | some g' => exact ih g' (linv_add ha h)

theorem linv_deliverCancel (g : G) (i : Nat) (h : LInv g) : LInv (g.deliverCancel i).1 := by
  unfold G.deliverCancel
  cases hf : g.find i with
  | none => exact h
  | some m =>
    simp only []
    cases hs : m.status with
    | done => exact h
    | canc => exact linv_finishMem g i .cancelled h
    | run =>
      simp only []
      have hst : g.statusOf i = some .run := by simp [G.statusOf, hf, hs]
      have h1 : LInv (g.setMem i fun m => { m with status := .canc }) := by
        refine ⟨h.queue, h.nodup, ?_⟩
        intro j hj
        have hne : j ≠ i := by
          intro hji; rw [hji] at hj
          have := h.logDone i hj; rw [hst] at this; simp at this
        show G.statusOf _ j = some .done
        rw [statusOf_setMem_ne g i j _ (by intro m; rfl) hne]
        exact h.logDone j hj
      have h2 := linv_addChildren _ m.children h1
      generalize (g.setMem i fun m => { m with status := .canc }).addChildren m.children = r at h2 ⊢
      obtain ⟨g2, refused⟩ := r
      cases refused with
      | nil => exact h2
      | cons c cs => exact linv_finishMem _ i .exc h2

theorem linv_deliverCancels (g : G) (l : List Nat) (h : LInv g) : LInv (g.deliverCancels l).1 := by
  induction l generalizing g with
  | nil => exact h
  | cons i is ih => unfold G.deliverCancels; exact ih _ (linv_deliverCancel g i h)

theorem linv_setJ (g : G) (j : Joiner) (h : LInv g) : LInv (setJ g j) := ⟨h.queue, h.nodup, h.logDone⟩

theorem linv_joinerPop (g : G) (j : Joiner) (h : LInv g) : LInv (g.joinerPop j).1 := by
  unfold G.joinerPop
  cases hd : g.doneq with
  | nil => exact linv_setJ _ _ h
  | cons t rest =>
    simp only []
    apply linv_setJ
    refine ⟨?_, h.nodup, h.logDone⟩
    have := h.queue; rw [hd] at this
    show (g.popped ++ [t]) ++ rest = g.log
    simpa using this

theorem linv_joinerStep (g : G) (perm : List Nat) (h : LInv g) {g' : G} {o : List Obs}
    (hs : g.joinerStep perm = some (g', o)) : LInv g' := by
  unfold G.joinerStep at hs
  cases hj : g.joiner with
  | none => simp [hj] at hs
  | some j =>
    simp only [hj] at hs
    split at hs
    · cases hs
    · cases hp : j.phase with
      | exited => simp [hp] at hs
      | cancelrem =>
        simp only [hp] at hs
        cases hsn : j.snapshot with
        | none =>
          simp only [hsn, Option.some.injEq, Prod.mk.injEq] at hs
          rw [← hs.1]; exact linv_setJ _ _ (linv_deliverCancels g _ h)
        | some snap =>
          simp only [hsn] at hs
          split at hs
          · simp only [Option.some.injEq, Prod.mk.injEq] at hs
            rw [← hs.1]; exact linv_setJ _ _ h
          · cases hs
      | next =>
        simp only [hp] at hs
        split at hs
        · simp only [Option.some.injEq] at hs
          have : g' = (g.joinerPop j).1 := by rw [hs]
          rw [this]; exact linv_joinerPop g j h
        · split at hs
          · simp only [Option.some.injEq, Prod.mk.injEq] at hs
            rw [← hs.1]; exact linv_setJ _ _ h
          · split at hs
            · simp only [Option.some.injEq, Prod.mk.injEq] at hs
              rw [← hs.1]; exact linv_setJ _ _ h
            · split at hs
              · simp only [Option.some.injEq, Prod.mk.injEq] at hs
                rw [← hs.1]; exact linv_setJ _ _ ⟨h.queue, h.nodup, h.logDone⟩
              · simp only [Option.some.injEq, Prod.mk.injEq] at hs
                rw [← hs.1]; exact linv_setJ _ _ ⟨h.queue, h.nodup, h.logDone⟩
      | fin =>
        simp only [hp] at hs
        cases hsn : j.snapshot with
        | none =>
          simp only [hsn] at hs
          split at hs
          · split at hs
            · simp only [Option.some.injEq, Prod.mk.injEq] at hs
              rw [← hs.1]; exact linv_setJ _ _ ⟨h.queue, h.nodup, h.logDone⟩
            · simp only [Option.some.injEq, Prod.mk.injEq] at hs
              rw [← hs.1]; exact linv_setJ _ _ (linv_deliverCancels g _ h)
          · split at hs
            · simp only [Option.some.injEq, Prod.mk.injEq] at hs
              rw [← hs.1]; exact linv_setJ _ _ ⟨h.queue, h.nodup, h.logDone⟩
            · simp only [Option.some.injEq, Prod.mk.injEq] at hs
              rw [← hs.1]; exact linv_setJ _ _ (linv_deliverCancels g _ h)
        | some snap =>
          simp only [hsn] at hs
          split at hs
          · split at hs
            · simp only [Option.some.injEq, Prod.mk.injEq] at hs
              rw [← hs.1]; exact linv_setJ _ _ h
            · simp only [Option.some.injEq, Prod.mk.injEq] at hs
              rw [← hs.1]; exact linv_setJ _ _ ⟨h.queue, h.nodup, h.logDone⟩
          · cases hs

theorem linv_runJoiner (perm : List Nat) : ∀ (fuel : Nat) (g : G), LInv g →
    LInv (g.runJoiner perm fuel).1
  | 0, _, h => h
  | fuel + 1, g, h => by
    unfold G.runJoiner
    cases hs : g.joinerStep perm with
    | none => exact h
    | some r =>
      obtain ⟨g1, o1⟩ := r
      exact linv_runJoiner perm fuel g1 (linv_joinerStep g perm h hs)

theorem linv_apply (g : G) (a : Action) (h : LInv g) : LInv (g.apply a).1 := by
  unfold G.apply
  cases a with
  | spawn i d ch =>
    simp only []
    cases ha : g.add i d ch with
    | none => exact h
    | some g' => exact linv_add ha h
  | finish i o p => simp only []; split; exact linv_finishMem g i o h; exact h
  | extCancel i p => simp only []; split; exact linv_deliverCancel g i h; exact h
  | finCancel i p => simp only []; split; exact linv_finishMem g i _ h; exact h
  | join p => simp only []; split; exact linv_setJ _ _ h; exact h
  | ctxExit r p => simp only []; split; exact linv_setJ _ _ h; exact h
  | cancelJoiner p =>
    simp only []
    cases hj : g.joiner with
    | none => exact h
    | some j =>
      simp only []
      cases hp : j.phase with
      | exited => exact h
      | next =>
        simp only []
        apply linv_setJ
        split
        · exact linv_release _ ⟨h.queue, h.nodup, h.logDone⟩
        · exact ⟨h.queue, h.nodup, h.logDone⟩
      | fin => exact linv_setJ _ _ h
      | cancelrem => exact linv_setJ _ _ h
  | nextDone k p =>
    simp only []
    split
    · exact h
    · split
      · exact ⟨h.queue, h.nodup, h.logDone⟩
      · exact linv_wake _ _ ⟨h.queue, h.nodup, h.logDone⟩
  | cancelRem p => exact linv_deliverCancels g _ h

theorem linv_react (g : G) (a : Action) (h : LInv g) : LInv (react g a).1 := by
  unfold react
  exact linv_runJoiner _ _ _ (linv_apply g a h)

theorem linv_runAll (g : G) (as : List Action) (h : LInv g) : LInv (runAll g as).1 := by
  induction as generalizing g with
  | nil => exact h
  | cons a as ih => simp only [runAll]; exact ih _ (linv_react g a h)

end Aiorpcx.C09
