import Aiorpcx.C10.Completed
import Aiorpcx.C09.NoConsumer
/-! C10 — the `join()` loop leaves exactly at the stop condition of the wait policy.

`stops p o`: does a popped member with outcome `o` end the wait under policy `p` (from the
property text: any failure under every policy; any finisher under `any`; a non-None result
under `object`).  `stopPopped`: some member the join loop has popped meets it.  Invariant
`LoopInv`: while the joiner is still in the loop (or in `cancel_remaining()`), no popped
member meets it. -/
namespace Aiorpcx.C09

def stops (p : Policy) (o : Outcome) : Bool :=
  match p with
  | .all => failed o
  | .any => true
  | .object => o != .none
  | .nowait => false

def G.stopPopped (g : G) : Bool := g.joinPopped.any fun t => stops g.wait (g.outcomeOf t)

/-- the stop condition of the policy has been met: `None` policy at once, otherwise by a member
the join loop has taken off the done queue -/
def G.stopMet (g : G) : Bool := g.wait == .nowait || g.stopPopped

theorem any_ext {α : Type} (p q : α → Bool) : ∀ (l : List α), (∀ x ∈ l, p x = q x) →
    l.any p = l.any q
  | [], _ => rfl
  | x :: xs, h => by
    simp only [List.any_cons, h x (by simp)]
    rw [any_ext p q xs (fun y hy => h y (by simp [hy]))]

theorem stopPopped_pstep {g g' : G} (hs : PStep g g') (h : PInv g) :
    g'.stopPopped = g.stopPopped := by
  unfold G.stopPopped
  rw [hs.jp, hs.stable.wait]
  apply any_ext
  intro t ht
  rw [(hs.stable.keep t (h.poppedDone t ht)).2]

structure LoopInv (g : G) : Prop where
  noJoiner : g.joiner = none → g.joinPopped = []
  inLoop : ∀ j, g.joiner = some j → (j.phase = .next ∨ j.phase = .cancelrem) →
    g.stopPopped = false

theorem loopinv_of_rel {g g' : G} (h : LoopInv g) (hp : PInv g) (hs : PStep g g')
    (hr : JRel g g') : LoopInv g' := by
  refine ⟨?_, ?_⟩
  · intro hn
    rw [hs.jp]
    apply h.noJoiner
    rcases hr.2 with e | e
    · rw [← e]; exact hn
    · rw [e] at hn; cases hgj : g.joiner with
      | none => rfl
      | some j => rw [hgj] at hn; simp at hn
  · intro j' hj' hph
    rw [stopPopped_pstep hs hp]
    rcases hr.2 with e | e
    · rw [e] at hj'; exact h.inLoop j' hj' hph
    · cases hgj : g.joiner with
      | none => rw [hgj] at e; rw [e] at hj'; simp at hj'
      | some j0 =>
        rw [hgj] at e; rw [e] at hj'
        simp only [Option.map_some, Option.some.injEq] at hj'
        subst hj'
        exact h.inLoop j0 hgj hph

theorem loopinv_setJ {g g0 : G} (hp : PInv g) (hs : PStep g g0) (j' : Joiner)
    (hph : (j'.phase = .next ∨ j'.phase = .cancelrem) → g.stopPopped = false) :
    LoopInv (setJ g0 j') := by
  refine ⟨by intro hn; simp [setJ] at hn, ?_⟩
  intro j'' hj'' hph''
  simp only [setJ, Option.some.injEq] at hj''
  subst hj''
  have : (setJ g0 j').stopPopped = g0.stopPopped := rfl
  rw [this, stopPopped_pstep hs hp]
  exact hph hph''

theorem stopPopped_popT (g : G) (t : Nat) (rest : List Nat) (j' : Joiner) :
    (setJ (g.popT t rest) j').stopPopped = (g.stopPopped || stops g.wait (g.outcomeOf t)) := by
  simp [G.stopPopped, setJ, G.popT, G.outcomeOf, G.find, List.any_append]

/-- if the test at the bottom of the loop says "stop", the popped member (or one popped before
it) meets the stop condition of the policy -/
theorem stopAfter_imp (g : G) (t : Nat) (rest : List Nat) (hp : PInv g) (hw : g.wait ≠ .nowait)
    (h : g.stopAfter t rest = true) : (g.stopPopped || stops g.wait (g.outcomeOf t)) = true := by
  simp only [G.stopAfter, Bool.or_eq_true, Bool.and_eq_true, beq_iff_eq] at h
  simp only [Bool.or_eq_true]
  rcases h with (h | h) | h
  · right
    cases hwt : g.wait with
    | all => simpa [stops] using h
    | any => rfl
    | object => cases ho : g.outcomeOf t <;> simp [stops, ho, failed] at h ⊢
    | nowait => exact absurd hwt hw
  · right; rw [h]; rfl
  · obtain ⟨hobj, hc⟩ := h
    simp only [G.popT] at hc
    by_cases hcn : (g.completed.isNone && countsAsCompleted g.wait (g.outcomeOf t)) = true
    · right
      simp only [Bool.and_eq_true] at hcn
      have := hcn.2
      rw [hobj] at this ⊢
      cases ho : g.outcomeOf t <;> simp [stops, countsAsCompleted, failed, ho] at this ⊢
    · left
      rw [if_neg hcn] at hc
      cases hcc : g.completed with
      | none => rw [hcc] at hc; simp at hc
      | some c =>
        have hf := hp.completedFirst
        rw [hcc] at hf
        have hm := List.mem_of_find?_eq_some hf.symm
        have hcount := List.find?_some hf.symm
        simp only [G.stopPopped, List.any_eq_true]
        refine ⟨c, hm, ?_⟩
        simp only [G.counts] at hcount
        rw [hobj] at hcount ⊢
        cases ho : g.outcomeOf c <;> simp [stops, countsAsCompleted, failed, ho] at hcount ⊢

/-- ... and if it says "go on", the popped member does not meet it -/
theorem not_stopAfter_imp (g : G) (t : Nat) (rest : List Nat)
    (h : g.stopAfter t rest = false) : stops g.wait (g.outcomeOf t) = false := by
  simp only [G.stopAfter, Bool.or_eq_false_iff, Bool.and_eq_false_imp, beq_iff_eq] at h
  obtain ⟨⟨hf, hany⟩, hobj⟩ := h
  cases hwt : g.wait with
  | all => simpa [stops] using hf
  | any => rw [hwt] at hany; simp at hany
  | nowait => rfl
  | object =>
    have hc := hobj hwt
    simp only [G.popT] at hc
    cases ho : g.outcomeOf t with
    | none => rfl
    | val =>
      exfalso
      cases hcc : g.completed <;> simp [hcc, hwt, ho, countsAsCompleted, failed] at hc
    | exc => simp [ho, failed] at hf
    | cancelled => simp [ho, failed] at hf

theorem pstep_jstep_nonpop {g : G} {perm : List Nat} {j : Joiner} {g' : G} {o : List Obs}
    (hs : JStep g perm j g' o) (hnp : ¬ (j.phase = .next ∧ j.hasPermit = true)) : PStep g g' := by
  cases hs with
  | crSweep _ _ => exact PStep.trans (pstep_deliverCancels g _) (pstep_setJ _ _)
  | crDone _ _ _ _ => exact pstep_setJ _ _
  | pop hp hperm => exact absurd ⟨hp, hperm⟩ hnp
  | nowait _ _ _ => exact pstep_setJ _ _
  | nothingLeft _ _ _ _ _ => exact pstep_setJ _ _
  | park _ _ _ _ _ =>
    exact PStep.trans (PStep.of_eq (g' := { g with waiters := g.waiters ++ [.joiner] })
      rfl rfl rfl rfl) (pstep_setJ _ _)
  | acquire _ _ _ _ _ _ =>
    exact PStep.trans (PStep.of_eq (g' := { g with sem := g.sem - 1 }) rfl rfl rfl rfl)
      (pstep_setJ _ _)
  | finExit _ _ _ =>
    exact PStep.trans (PStep.of_eq (g' := { g with joined := true }) rfl rfl rfl rfl)
      (pstep_setJ _ _)
  | finSweep _ _ _ => exact PStep.trans (pstep_deliverCancels g _) (pstep_setJ _ _)
  | finClear _ _ _ _ => exact pstep_setJ _ _

/-- once met, the stop condition stays met -/
theorem stop_mono_jstep {g : G} {perm : List Nat} {j : Joiner} {g' : G} {o : List Obs}
    (hp : PInv g) (hs : JStep g perm j g' o) (h : g.stopPopped = true) : g'.stopPopped = true := by
  by_cases hnp : j.phase = .next ∧ j.hasPermit = true
  · cases hs with
    | pop _ _ =>
      cases hd : g.doneq with
      | nil => rw [joinerPop_nil j hd]; exact h
      | cons t rest => rw [joinerPop_cons j hd]; simp only []; rw [stopPopped_popT, h]; rfl
    | crSweep hp' _ => rw [hp'] at hnp; cases hnp.1
    | crDone _ hp' _ _ => rw [hp'] at hnp; cases hnp.1
    | nowait _ hperm _ => rw [hperm] at hnp; cases hnp.2
    | nothingLeft _ hperm _ _ _ => rw [hperm] at hnp; cases hnp.2
    | park _ hperm _ _ _ => rw [hperm] at hnp; cases hnp.2
    | acquire _ hperm _ _ _ _ => rw [hperm] at hnp; cases hnp.2
    | finExit hp' _ _ => rw [hp'] at hnp; cases hnp.1
    | finSweep hp' _ _ => rw [hp'] at hnp; cases hnp.1
    | finClear _ hp' _ _ => rw [hp'] at hnp; cases hnp.1
  · rw [stopPopped_pstep (pstep_jstep_nonpop hs hnp) hp]; exact h

theorem loopinv_jstep {g : G} {perm : List Nat} {j : Joiner} {g' : G} {o : List Obs}
    (hj : g.joiner = some j) (h : LoopInv g) (hp : PInv g) (hs : JStep g perm j g' o) :
    LoopInv g' := by
  cases hs with
  | crSweep hph _ =>
    exact loopinv_setJ hp (pstep_deliverCancels g _) _ (fun _ => h.inLoop j hj (Or.inr hph))
  | crDone _ hph _ _ =>
    exact loopinv_setJ hp (PStep.refl g) _ (fun _ => h.inLoop j hj (Or.inr hph))
  | pop hph hperm =>
    cases hd : g.doneq with
    | nil =>
      rw [joinerPop_nil j hd]
      exact loopinv_setJ hp (PStep.refl g) _ (fun hx => by rcases hx with hx | hx <;> cases hx)
    | cons t rest =>
      rw [joinerPop_cons j hd]
      refine ⟨by intro hn; simp [setJ] at hn, ?_⟩
      intro j' hj' hph'
      simp only [setJ, Option.some.injEq] at hj'
      subst hj'
      rw [stopPopped_popT, h.inLoop j hj (Or.inl hph)]
      cases hst : g.stopAfter t rest with
      | true => simp [hst] at hph'
      | false => simp [not_stopAfter_imp g t rest hst]
  | nowait _ _ _ =>
    exact loopinv_setJ hp (PStep.refl g) _ (fun hx => by rcases hx with hx | hx <;> cases hx)
  | nothingLeft _ _ _ _ _ =>
    exact loopinv_setJ hp (PStep.refl g) _ (fun hx => by rcases hx with hx | hx <;> cases hx)
  | park hph _ _ _ _ =>
    exact loopinv_setJ hp (PStep.of_eq (g' := { g with waiters := g.waiters ++ [.joiner] })
      rfl rfl rfl rfl) _ (fun _ => h.inLoop j hj (Or.inl hph))
  | acquire hph _ _ _ _ _ =>
    exact loopinv_setJ hp (PStep.of_eq (g' := { g with sem := g.sem - 1 }) rfl rfl rfl rfl) _
      (fun _ => h.inLoop j hj (Or.inl hph))
  | finExit _ _ _ =>
    exact loopinv_setJ hp (PStep.of_eq (g' := { g with joined := true }) rfl rfl rfl rfl) _
      (fun hx => by rcases hx with hx | hx <;> cases hx)
  | finSweep hph _ _ =>
    exact loopinv_setJ hp (pstep_deliverCancels g _) _
      (fun hx => by rcases hx with hx | hx <;> rw [hph] at hx <;> cases hx)
  | finClear _ hph _ _ =>
    exact loopinv_setJ hp (PStep.refl g) _
      (fun hx => by rcases hx with hx | hx <;> rw [hph] at hx <;> cases hx)

theorem loopinv_runJoiner (perm : List Nat) : ∀ (fuel : Nat) (g : G), g.fixed = true → LInv g →
    PInv g → LoopInv g → LoopInv (g.runJoiner perm fuel).1
  | 0, _, _, _, _, h => h
  | fuel + 1, g, hfix, hl, hp, h => by
    unfold G.runJoiner
    cases hs : g.joinerStep perm with
    | none => exact h
    | some r =>
      obtain ⟨g1, o1⟩ := r
      obtain ⟨j, hj, _, hstep⟩ := joinerStep_inv hfix hs
      have hfix1 : g1.fixed = true := by
        have := (tstep_jstep hstep).fixed_eq; simp only [G.core] at this; rw [this, hfix]
      exact loopinv_runJoiner perm fuel g1 hfix1 (linv_joinerStep g perm hl hs)
        (pinv_joinerStep g perm hl hp hs) (loopinv_jstep hj h hp hstep)

theorem loopinv_apply (g : G) (a : Action) (h : LoopInv g) (hp : PInv g) :
    LoopInv (g.apply a).1 := by
  by_cases hja : a.isJoinerAct = false
  · exact loopinv_of_rel h hp (pstep_apply g a) (jrel_apply g a hja)
  · unfold G.apply
    cases a with
    | spawn i d ch => simp [Action.isJoinerAct] at hja
    | finish i o p => simp [Action.isJoinerAct] at hja
    | extCancel i p => simp [Action.isJoinerAct] at hja
    | finCancel i p => simp [Action.isJoinerAct] at hja
    | nextDone k p => simp [Action.isJoinerAct] at hja
    | cancelRem p => simp [Action.isJoinerAct] at hja
    | join p =>
      simp only []
      split
      · rename_i hn
        have hjp := h.noJoiner (by simpa using hn)
        exact loopinv_setJ hp (PStep.refl g) _ (fun _ => by simp [G.stopPopped, hjp])
      · exact h
    | ctxExit r p =>
      simp only []
      split
      · rename_i hn
        have hjp := h.noJoiner (by simpa using hn)
        exact loopinv_setJ hp (PStep.refl g) _ (fun _ => by simp [G.stopPopped, hjp])
      · exact h
    | cancelJoiner p =>
      simp only []
      cases hj : g.joiner with
      | none => exact h
      | some j =>
        simp only []
        cases hph : j.phase with
        | exited => exact h
        | next =>
          simp only []
          refine loopinv_setJ (g := g) hp ?_ _ (fun hx => by rcases hx with hx | hx <;> cases hx)
          split
          · refine PStep.trans ?_ (pstep_release _)
            exact PStep.of_eq rfl rfl rfl rfl
          · exact PStep.of_eq rfl rfl rfl rfl
        | fin =>
          exact loopinv_setJ hp (PStep.refl g) _ (fun hx => by rcases hx with hx | hx <;> cases hx)
        | cancelrem =>
          exact loopinv_setJ hp (PStep.refl g) _ (fun hx => by rcases hx with hx | hx <;> cases hx)

theorem loopinv_init (p : Policy) : LoopInv { wait := p } :=
  ⟨fun _ => rfl, by intro j hj; simp at hj⟩

theorem stop_mono_runJoiner (perm : List Nat) : ∀ (fuel : Nat) (g : G), g.fixed = true → LInv g →
    PInv g → g.stopPopped = true → (g.runJoiner perm fuel).1.stopPopped = true
  | 0, _, _, _, _, h => h
  | fuel + 1, g, hfix, hl, hp, h => by
    unfold G.runJoiner
    cases hs : g.joinerStep perm with
    | none => exact h
    | some r =>
      obtain ⟨g1, o1⟩ := r
      obtain ⟨j, hj, _, hstep⟩ := joinerStep_inv hfix hs
      have hfix1 : g1.fixed = true := by
        have := (tstep_jstep hstep).fixed_eq; simp only [G.core] at this; rw [this, hfix]
      exact stop_mono_runJoiner perm fuel g1 hfix1 (linv_joinerStep g perm hl hs)
        (pinv_joinerStep g perm hl hp hs) (stop_mono_jstep hp hstep h)

/-- **the loop is not left early** (no competing consumer): a joiner that is in the `next_done`
loop of a waiting policy while some member is pending is still in the loop when its algorithm
comes to rest - unless a member it popped meanwhile met the stop condition -/
theorem stay_in_loop {s : Bool} (perm : List Nat) : ∀ (fuel : Nat) (g : G), g.fixed = true →
    TInv g.core → LInv g → PInv g → NInv s g → JInv g →
    ∀ j, g.joiner = some j → j.phase = .next → g.wait ≠ .nowait → g.pending ≠ [] →
    (g.runJoiner perm fuel).1.stopPopped = false →
    ∃ j', (g.runJoiner perm fuel).1.joiner = some j' ∧ j'.phase = .next
  | 0, g, _, _, _, _, _, _ => fun j hj hp _ _ _ => ⟨j, hj, hp⟩
  | fuel + 1, g, hfix, ht, hl, hpi, hn, hji => by
    intro j hj hph hw hpend hstop
    unfold G.runJoiner at hstop ⊢
    cases hs : g.joinerStep perm with
    | none => exact ⟨j, hj, hph⟩
    | some r =>
      obtain ⟨g1, o1⟩ := r
      simp only [hs] at hstop ⊢
      obtain ⟨j0, hj0, hb, hstep⟩ := joinerStep_inv hfix hs
      rw [hj] at hj0; simp only [Option.some.injEq] at hj0; subst hj0
      have hts := tstep_jstep hstep
      have hfix1 : g1.fixed = true := by
        have := hts.fixed_eq; simp only [G.core] at this; rw [this, hfix]
      have ht1 := hts.preserves ht
      have hl1 := linv_joinerStep g perm hl hs
      have hpi1 := pinv_joinerStep g perm hl hpi hs
      have hn1 := ninv_jstep hj hb hn hstep
      have hji1 := jinv_jstep hj hb hji ht hstep
      have ih := stay_in_loop perm fuel g1 hfix1 ht1 hl1 hpi1 hn1 hji1
      cases hstep with
      | crSweep hp' _ => rw [hph] at hp'; cases hp'
      | crDone _ hp' _ _ => rw [hph] at hp'; cases hp'
      | finExit hp' _ _ => rw [hph] at hp'; cases hp'
      | finSweep hp' _ _ => rw [hph] at hp'; cases hp'
      | finClear _ hp' _ _ => rw [hph] at hp'; cases hp'
      | nowait _ _ hw' => exact absurd hw' hw
      | nothingLeft _ _ _ _ hp0 => exact absurd hp0 hpend
      | park _ _ _ _ _ => exact ih _ rfl hph hw hpend hstop
      | acquire _ _ _ _ _ _ => exact ih _ rfl hph hw hpend hstop
      | pop _ hperm =>
        have hsem := hn.sem
        simp only [hpNat, hj, hperm, ↓reduceIte] at hsem
        cases hd : g.doneq with
        | nil => rw [hd] at hsem; simp at hsem
        | cons t rest =>
          rw [joinerPop_cons j hd] at hstop ih hfix1 hl1 hpi1 ⊢
          simp only [] at hstop ih hfix1 hl1 hpi1 ⊢
          by_cases hst : g.stopAfter t rest = true
          · exfalso
            have h1 : (setJ (g.popT t rest)
                { j with phase := if g.stopAfter t rest then .fin else .next,
                         hasPermit := false }).stopPopped = true := by
              rw [stopPopped_popT]; exact stopAfter_imp g t rest hpi hw hst
            have := stop_mono_runJoiner perm fuel _ hfix1 hl1 hpi1 h1
            rw [this] at hstop; cases hstop
          · exact ih _ rfl (by simp [hst]) hw hpend hstop

theorem loopinv_react (g : G) (a : Action) (hg : Good g) (hp : PInv g) (h : LoopInv g) :
    LoopInv (react g a).1 := by
  rw [react_fst]
  exact loopinv_runJoiner _ _ _ (good_apply g a hg).fixed (linv_apply g a hg.linv)
    ((pstep_apply g a).pinv hp) (loopinv_apply g a h hp)

theorem loopinv_runAll (g : G) (as : List Action) (hg : Good g) (hp : PInv g) (h : LoopInv g) :
    LoopInv (runAll g as).1 := by
  induction as generalizing g with
  | nil => exact h
  | cons a as ih =>
    simp only [runAll]
    exact ih _ (good_react g a hg) (pinv_react g a hg.linv hp) (loopinv_react g a hg hp h)

/-! the wait policy never changes -/

theorem wait_jstep {g : G} {perm : List Nat} {j : Joiner} {g' : G} {o : List Obs}
    (hs : JStep g perm j g' o) : g'.wait = g.wait := by
  cases hs with
  | crSweep _ _ => exact (jrel_deliverCancels g _).1
  | finSweep _ _ _ => exact (jrel_deliverCancels g _).1
  | pop _ _ => unfold G.joinerPop; cases g.doneq <;> rfl
  | crDone _ _ _ _ => rfl
  | nowait _ _ _ => rfl
  | nothingLeft _ _ _ _ _ => rfl
  | park _ _ _ _ _ => rfl
  | acquire _ _ _ _ _ _ => rfl
  | finExit _ _ _ => rfl
  | finClear _ _ _ _ => rfl

theorem wait_runJoiner (perm : List Nat) : ∀ (fuel : Nat) (g : G), g.fixed = true →
    (g.runJoiner perm fuel).1.wait = g.wait
  | 0, _, _ => rfl
  | fuel + 1, g, hfix => by
    unfold G.runJoiner
    cases hs : g.joinerStep perm with
    | none => rfl
    | some r =>
      obtain ⟨g1, o1⟩ := r
      obtain ⟨j, _, _, hstep⟩ := joinerStep_inv hfix hs
      have hfix1 : g1.fixed = true := by
        have := (tstep_jstep hstep).fixed_eq; simp only [G.core] at this; rw [this, hfix]
      simp only []
      rw [wait_runJoiner perm fuel g1 hfix1, wait_jstep hstep]

end Aiorpcx.C09
