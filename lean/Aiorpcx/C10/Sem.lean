import Aiorpcx.C09.NoConsumer
/-! C10 — semaphore accounting in **all** histories (any number of competing `next_done()`
callers): permits banked in the group's semaphore + the permit held by the joiner = length of
the done queue.  Consequences: whoever obtains a permit finds a task in the queue - `next_done()`
never answers None to a caller that had to acquire, and the join loop never pops an empty queue. -/
namespace Aiorpcx.C09

structure SInv (g : G) : Prop where
  sem : g.sem + hpNat g = g.doneq.length
  /-- the joiner sits in the waiter list only while it is parked ... -/
  jw : Waiter.joiner ∈ g.waiters → isBlocked g = true
  /-- ... and at most once -/
  jcount : g.waiters.count Waiter.joiner ≤ 1
  /-- a parked joiner holds no permit -/
  bhp : ∀ j, g.joiner = some j → j.blocked = true → j.hasPermit = false

/-- the state in which `Semaphore.release()` is called: one more entry than permits -/
structure SRelPre (g : G) : Prop where
  sem : g.sem + hpNat g + 1 = g.doneq.length
  jw : Waiter.joiner ∈ g.waiters → isBlocked g = true
  jcount : g.waiters.count Waiter.joiner ≤ 1
  bhp : ∀ j, g.joiner = some j → j.blocked = true → j.hasPermit = false

def SStep (g g' : G) : Prop := SInv g' ∧ (isBlocked g = false → g'.joiner = g.joiner)

theorem SStep.refl {g : G} (h : SInv g) : SStep g g := ⟨h, fun _ => rfl⟩

theorem SStep.trans {a b c : G} (h1 : SStep a b) (h2 : SStep b c) : SStep a c := by
  refine ⟨h2.1, ?_⟩
  intro hb
  have e1 := h1.2 hb
  have hb' : isBlocked b = false := by simp only [isBlocked, e1] at hb ⊢; exact hb
  rw [h2.2 hb', e1]

theorem sinv_release (g : G) (h : SRelPre g) : SStep g g.release.1 := by
  obtain ⟨hsem, hjw, hjc, hbhp⟩ := h
  obtain ⟨wait, fixed, mem, pending, daemons, doneq, sem, waiters, completed, joined, joiner, log,
    popped, joinPopped⟩ := g
  simp only [] at hjw hjc hbhp hsem
  cases waiters with
  | nil =>
    refine ⟨⟨?_, ?_, ?_, ?_⟩, fun _ => rfl⟩
    · simp only [G.release, hpNat] at hsem ⊢; omega
    · intro hm; simp [G.release] at hm
    · simp [G.release]
    · intro j hj hb; exact hbhp j hj hb
  | cons w ws =>
    cases w with
    | joiner =>
      have hbl : isBlocked _ = true := hjw (by simp)
      cases joiner with
      | none => simp [isBlocked] at hbl
      | some j =>
        obtain ⟨ph, sn, ex, bl, hpm, ab⟩ := j
        simp only [isBlocked] at hbl
        subst hbl
        have hpf := hbhp _ rfl rfl
        simp only [] at hpf
        subst hpf
        have hnot : Waiter.joiner ∉ ws := by
          intro hm
          have : 2 ≤ (Waiter.joiner :: ws).count Waiter.joiner := by
            rw [List.count_cons_self]
            have := List.count_pos_iff.2 hm
            omega
          omega
        refine ⟨⟨?_, ?_, ?_, ?_⟩, ?_⟩
        · simp only [hpNat, Bool.false_eq_true, ↓reduceIte] at hsem
          simp only [G.release, G.wake, hpNat, Option.map_some, ↓reduceIte]; omega
        · intro hm; simp only [G.release, G.wake] at hm; exact absurd hm hnot
        · simp only [G.release, G.wake]
          rw [List.count_cons_self] at hjc; omega
        · intro j hj hb
          simp only [G.release, G.wake, Option.map_some, Option.some.injEq] at hj
          subst hj; simp at hb
        · intro hb; simp [isBlocked] at hb
    | consumer k =>
      have hjw' : Waiter.joiner ∈ ws → isBlocked
          (⟨wait, fixed, mem, pending, daemons, doneq, sem, Waiter.consumer k :: ws, completed,
            joined, joiner, log, popped, joinPopped⟩ : G) = true :=
        fun hm => hjw (by simp [hm])
      have hjc' : ws.count Waiter.joiner ≤ 1 := by
        have : (Waiter.consumer k :: ws).count Waiter.joiner = ws.count Waiter.joiner := by
          rw [List.count_cons_of_ne (by simp)]
        omega
      cases doneq with
      | nil => simp at hsem
      | cons t rest =>
        refine ⟨⟨?_, ?_, ?_, ?_⟩, fun _ => rfl⟩
        · simp only [G.release, G.wake, hpNat, List.length_cons] at hsem ⊢; omega
        · intro hm
          simp only [G.release, G.wake] at hm
          have := hjw' hm
          simpa [isBlocked, G.release, G.wake] using this
        · simpa [G.release, G.wake] using hjc'
        · intro j hj hb; exact hbhp j hj hb

/-- a state change that leaves the semaphore, the queue, the waiters and the joiner alone -/
theorem sinv_frame {g g' : G} (h : SInv g) (hw : g'.waiters = g.waiters) (hs : g'.sem = g.sem)
    (hd : g'.doneq = g.doneq) (hj : g'.joiner = g.joiner) : SStep g g' := by
  refine ⟨⟨?_, ?_, ?_, ?_⟩, fun _ => hj⟩
  · rw [hs, hd, ← h.sem]; unfold hpNat; rw [hj]
  · rw [hw]; intro hm; have := h.jw hm; unfold isBlocked at this ⊢; rw [hj]; exact this
  · rw [hw]; exact h.jcount
  · intro j hj' hb; rw [hj] at hj'; exact h.bhp j hj' hb

theorem sinv_finishMem (g : G) (i : Nat) (o : Outcome) (h : SInv g) :
    SStep g (g.finishMem i o).1 := by
  unfold G.finishMem
  cases hf : g.find i with
  | none => exact SStep.refl h
  | some m =>
    simp only []
    split
    · exact SStep.refl h
    · split
      · exact sinv_frame h rfl rfl rfl rfl
      · have pre : SRelPre
            { (g.setMem i fun m => { m with status := .done, outcome := o }) with
              pending := (g.setMem i fun m => { m with status := .done, outcome := o }).pending.filter (· != i),
              doneq := (g.setMem i fun m => { m with status := .done, outcome := o }).doneq ++ [i],
              log := (g.setMem i fun m => { m with status := .done, outcome := o }).log ++ [i] } := by
          refine ⟨?_, h.jw, h.jcount, h.bhp⟩
          have := h.sem
          simp only [G.setMem, List.length_append, List.length_cons, List.length_nil] at this ⊢
          simp only [hpNat] at this ⊢
          omega
        have hr := sinv_release _ pre
        exact ⟨hr.1, fun hb => hr.2 hb⟩

theorem add_frame {g g' : G} {i : Nat} {d : Bool} {ch : List Child}
    (ha : g.add i d ch = some g') : g'.waiters = g.waiters ∧ g'.sem = g.sem ∧
      g'.doneq = g.doneq ∧ g'.joiner = g.joiner := by
  obtain ⟨a, b, c, d', _⟩ := pending_add_ne_nil ha
  exact ⟨a, b, c, d'⟩

theorem sinv_addChildren (g : G) (cs : List Child) (h : SInv g) : SStep g (g.addChildren cs).1 := by
  induction cs generalizing g with
  | nil => exact SStep.refl h
  | cons c cs ih =>
    unfold G.addChildren
    cases ha : g.add c.id c.daemon [] with
    | none => exact SStep.refl h
    | some g' =>
      obtain ⟨a, b, c', d⟩ := add_frame ha
      have h1 := sinv_frame h a b c' d
      exact SStep.trans h1 (ih g' h1.1)

theorem sinv_deliverCancel (g : G) (i : Nat) (h : SInv g) : SStep g (g.deliverCancel i).1 := by
  unfold G.deliverCancel
  cases hf : g.find i with
  | none => exact SStep.refl h
  | some m =>
    simp only []
    cases hs : m.status with
    | done => exact SStep.refl h
    | canc => exact sinv_finishMem g i .cancelled h
    | run =>
      simp only []
      have h1 : SStep g (g.setMem i fun m => { m with status := .canc }) :=
        sinv_frame h rfl rfl rfl rfl
      have h2 := sinv_addChildren (g.setMem i fun m => { m with status := .canc }) m.children h1.1
      generalize (g.setMem i fun m => { m with status := .canc }).addChildren m.children = r at h2 ⊢
      obtain ⟨g2, refused⟩ := r
      cases refused with
      | nil => exact SStep.trans h1 h2
      | cons c cs => exact SStep.trans (SStep.trans h1 h2) (sinv_finishMem _ i .exc h2.1)

theorem sinv_deliverCancels (g : G) (l : List Nat) (h : SInv g) :
    SStep g (g.deliverCancels l).1 := by
  induction l generalizing g with
  | nil => exact SStep.refl h
  | cons i is ih =>
    rw [deliverCancels_cons]
    have h1 := sinv_deliverCancel g i h
    exact SStep.trans h1 (ih _ h1.1)

/-- replacing the record of a joiner that is not parked by one with the same permit flag -/
theorem sinv_setJ {g : G} {j : Joiner} (h : SInv g) (hj : g.joiner = some j)
    (hb : j.blocked = false) (j' : Joiner) (hb' : j'.blocked = false)
    (hp' : j'.hasPermit = j.hasPermit) : SInv (setJ g j') := by
  refine ⟨?_, ?_, h.jcount, ?_⟩
  · have := h.sem
    simp only [hpNat, hj] at this
    simp only [setJ, hpNat, hp']
    exact this
  · intro hm
    have := h.jw hm
    simp [isBlocked, hj, hb] at this
  · intro j'' hj'' hbb
    simp only [setJ, Option.some.injEq] at hj''
    subst hj''
    rw [hb'] at hbb; cases hbb

theorem sinv_jstep {g : G} {perm : List Nat} {j : Joiner} {g' : G} {o : List Obs}
    (hj : g.joiner = some j) (hb : j.blocked = false) (h : SInv g)
    (hs : JStep g perm j g' o) : SInv g' := by
  have hnb : isBlocked g = false := by simp [isBlocked, hj, hb]
  have hnotin : Waiter.joiner ∉ g.waiters := by
    intro hm; have := h.jw hm; rw [hnb] at this; cases this
  cases hs with
  | crSweep hp hsn =>
    have h1 := sinv_deliverCancels g (orderBy perm g.pending) h
    exact sinv_setJ h1.1 ((h1.2 hnb).trans hj) hb _ hb rfl
  | crDone snap hp hsn _ => exact sinv_setJ h hj hb _ hb rfl
  | pop hp hperm =>
    have hsem := h.sem
    simp only [hpNat, hj, hperm, ↓reduceIte] at hsem
    cases hd : g.doneq with
    | nil => rw [hd] at hsem; simp at hsem
    | cons t rest =>
      rw [joinerPop_cons j hd]
      refine ⟨?_, ?_, ?_, ?_⟩
      · rw [hd] at hsem
        simp only [setJ, G.popT, hpNat, List.length_cons] at hsem ⊢
        simp; omega
      · intro hm; exact absurd hm hnotin
      · exact h.jcount
      · intro j' hj' hbb
        simp only [setJ, Option.some.injEq] at hj'
        subst hj'
        simp [hb] at hbb
  | nowait hp hperm _ => exact sinv_setJ h hj hb _ hb rfl
  | nothingLeft hp hperm _ _ _ => exact sinv_setJ h hj hb _ hb rfl
  | park hp hperm hw hne hsw =>
    have hsem := h.sem
    simp only [hpNat, hj, hperm, Bool.false_eq_true, ↓reduceIte, Nat.add_zero] at hsem
    refine ⟨?_, ?_, ?_, ?_⟩
    · simp only [setJ, hpNat, hperm]; simpa using hsem
    · intro _; simp [setJ, isBlocked]
    · simp only [setJ, List.count_append, List.count_cons_self, List.count_nil]
      have : g.waiters.count Waiter.joiner = 0 := List.count_eq_zero.2 hnotin
      omega
    · intro j' hj' _
      simp only [setJ, Option.some.injEq] at hj'
      subst hj'
      exact hperm
  | acquire hp hperm _ _ hs0 hw0 =>
    have hsem := h.sem
    simp only [hpNat, hj, hperm, Bool.false_eq_true, ↓reduceIte, Nat.add_zero] at hsem
    refine ⟨?_, ?_, ?_, ?_⟩
    · simp only [setJ, hpNat]; simp; omega
    · intro hm; exact absurd hm hnotin
    · exact h.jcount
    · intro j' hj' hbb
      simp only [setJ, Option.some.injEq] at hj'
      subst hj'
      simp [hb] at hbb
  | finExit hp hsn _ =>
    have h0 : SInv { g with joined := true } := ⟨h.sem, h.jw, h.jcount, h.bhp⟩
    exact sinv_setJ (g := { g with joined := true }) h0 hj hb _ hb rfl
  | finSweep hp hsn _ =>
    have h1 := sinv_deliverCancels g (orderBy perm g.rem) h
    exact sinv_setJ h1.1 ((h1.2 hnb).trans hj) hb _ hb rfl
  | finClear snap hp hsn _ => exact sinv_setJ h hj hb _ hb rfl

theorem sinv_runJoiner (perm : List Nat) : ∀ (fuel : Nat) (g : G), g.fixed = true →
    SInv g → SInv (g.runJoiner perm fuel).1
  | 0, _, _, h => h
  | fuel + 1, g, hfix, h => by
    unfold G.runJoiner
    cases hs : g.joinerStep perm with
    | none => exact h
    | some r =>
      obtain ⟨g1, o1⟩ := r
      obtain ⟨j, hj, hb, hstep⟩ := joinerStep_inv hfix hs
      have hts := tstep_jstep hstep
      have hfix1 : g1.fixed = true := by
        have := hts.fixed_eq; simp only [G.core] at this; rw [this, hfix]
      exact sinv_runJoiner perm fuel g1 hfix1 (sinv_jstep hj hb h hstep)

theorem mem_filter_ne_joiner (ws : List Waiter) :
    Waiter.joiner ∉ ws.filter (· != Waiter.joiner) := by
  simp [List.mem_filter]

theorem sinv_apply (g : G) (a : Action) (h : SInv g) : SInv (g.apply a).1 := by
  unfold G.apply
  cases a with
  | spawn i d ch =>
    simp only []
    cases ha : g.add i d ch with
    | none => exact h
    | some g' =>
      obtain ⟨a, b, c, d'⟩ := add_frame ha
      exact (sinv_frame h a b c d').1
  | finish i o p => simp only []; split; exact (sinv_finishMem g i o h).1; exact h
  | extCancel i p => simp only []; split; exact (sinv_deliverCancel g i h).1; exact h
  | finCancel i p => simp only []; split; exact (sinv_finishMem g i _ h).1; exact h
  | join p =>
    simp only []
    split
    · rename_i hn
      have hjn : g.joiner = none := by simpa using hn
      have hsem := h.sem
      simp only [hpNat, hjn] at hsem
      have hnotin : Waiter.joiner ∉ g.waiters := by
        intro hm; have := h.jw hm; simp [isBlocked, hjn] at this
      refine ⟨?_, ?_, h.jcount, ?_⟩
      · simp [setJ, hpNat, newJoiner]; omega
      · intro hm; exact absurd hm hnotin
      · intro j hj hb; simp only [setJ, Option.some.injEq] at hj; subst hj; simp [newJoiner] at hb
    · exact h
  | ctxExit r p =>
    simp only []
    split
    · rename_i hn
      have hjn : g.joiner = none := by simpa using hn
      have hsem := h.sem
      simp only [hpNat, hjn] at hsem
      have hnotin : Waiter.joiner ∉ g.waiters := by
        intro hm; have := h.jw hm; simp [isBlocked, hjn] at this
      refine ⟨?_, ?_, h.jcount, ?_⟩
      · simp [setJ, hpNat, newJoiner]; omega
      · intro hm; exact absurd hm hnotin
      · intro j hj hb; simp only [setJ, Option.some.injEq] at hj; subst hj; simp [newJoiner] at hb
    · exact h
  | cancelJoiner p =>
    simp only []
    cases hj : g.joiner with
    | none => exact h
    | some j =>
      simp only []
      have hsem := h.sem
      simp only [hpNat, hj] at hsem
      cases hp : j.phase with
      | exited => exact h
      | next =>
        simp only []
        have hcount0 : (g.waiters.filter (· != Waiter.joiner)).count Waiter.joiner = 0 :=
          List.count_eq_zero.2 (mem_filter_ne_joiner g.waiters)
        cases hperm : j.hasPermit with
        | false =>
          simp only [Bool.false_eq_true, ↓reduceIte]
          rw [hperm] at hsem
          refine ⟨?_, ?_, ?_, ?_⟩
          · simp [setJ, hpNat]; simpa using hsem
          · intro hm; exact absurd hm (mem_filter_ne_joiner g.waiters)
          · simp only [setJ]; omega
          · intro j' hj' hbb; simp only [setJ, Option.some.injEq] at hj'; subst hj'; simp at hbb
        | true =>
          simp only [↓reduceIte]
          rw [hperm] at hsem
          simp only [↓reduceIte] at hsem
          unfold G.release
          cases hfw : g.waiters.filter (· != Waiter.joiner) with
          | nil =>
            simp only []
            refine ⟨?_, ?_, ?_, ?_⟩
            · simp [setJ, hpNat]; omega
            · intro hm; simp [setJ] at hm
            · simp [setJ]
            · intro j' hj' hbb; simp only [setJ, Option.some.injEq] at hj'; subst hj'; simp at hbb
          | cons w ws =>
            have hwne : w ≠ Waiter.joiner := by
              intro he
              have : Waiter.joiner ∈ g.waiters.filter (· != Waiter.joiner) := by
                rw [hfw, he]; simp
              exact mem_filter_ne_joiner g.waiters this
            have hws : Waiter.joiner ∉ ws := by
              intro hm
              have : Waiter.joiner ∈ g.waiters.filter (· != Waiter.joiner) := by
                rw [hfw]; simp [hm]
              exact mem_filter_ne_joiner g.waiters this
            cases w with
            | joiner => exact absurd rfl hwne
            | consumer k =>
              simp only [G.wake]
              cases hd : g.doneq with
              | nil => rw [hd] at hsem; simp at hsem
              | cons t rest =>
                simp only []
                rw [hd] at hsem
                refine ⟨?_, ?_, ?_, ?_⟩
                · simp only [setJ, hpNat, List.length_cons] at hsem ⊢; simp; omega
                · intro hm; simp only [setJ] at hm; exact absurd hm hws
                · simp only [setJ]; rw [List.count_eq_zero.2 hws]; omega
                · intro j' hj' hbb
                  simp only [setJ, Option.some.injEq] at hj'; subst hj'; simp at hbb
      | fin =>
        simp only []
        refine ⟨?_, ?_, h.jcount, ?_⟩
        · simp only [setJ, hpNat]; exact hsem
        · intro hm
          have := h.jw hm
          simpa [isBlocked, hj, setJ] using this
        · intro j' hj' hbb
          simp only [setJ, Option.some.injEq] at hj'; subst hj'
          exact h.bhp j hj hbb
      | cancelrem =>
        simp only []
        refine ⟨?_, ?_, h.jcount, ?_⟩
        · simp only [setJ, hpNat]; exact hsem
        · intro hm
          have := h.jw hm
          simpa [isBlocked, hj, setJ] using this
        · intro j' hj' hbb
          simp only [setJ, Option.some.injEq] at hj'; subst hj'
          exact h.bhp j hj hbb
  | nextDone k p =>
    simp only []
    split
    · exact h
    · split
      · refine ⟨h.sem, ?_, ?_, h.bhp⟩
        · intro hm
          simp only [List.mem_append, List.mem_singleton] at hm
          rcases hm with hm | hm
          · exact h.jw hm
          · cases hm
        · simp only [List.count_append]
          have : [Waiter.consumer k].count Waiter.joiner = 0 := by simp
          have := h.jcount
          omega
      · rename_i h1 h2
        have h2' : g.sem ≠ 0 ∧ g.waiters = [] := by simpa [List.isEmpty_iff] using h2
        have hsem := h.sem
        unfold G.wake
        cases hd : g.doneq with
        | nil =>
          exfalso
          rw [hd] at hsem
          simp at hsem
          exact h2'.1 hsem.1
        | cons t rest =>
          simp only []
          rw [hd] at hsem
          refine ⟨?_, h.jw, h.jcount, h.bhp⟩
          simp only [hpNat, List.length_cons] at hsem ⊢; omega
  | cancelRem p => exact (sinv_deliverCancels g _ h).1

theorem sinv_init (p : Policy) : SInv { wait := p } :=
  ⟨by simp [hpNat], by intro hm; simp at hm, by simp, by intro j hj; simp at hj⟩

theorem sinv_react (g : G) (a : Action) (hfix : g.fixed = true) (h : SInv g) :
    SInv (react g a).1 := by
  rw [react_fst]
  have hfix1 : (g.apply a).1.fixed = true := by
    have := (tstep_apply g a).fixed_eq; simp only [G.core] at this; rw [this, hfix]
  exact sinv_runJoiner _ _ _ hfix1 (sinv_apply g a h)

theorem sinv_runAll (g : G) (as : List Action) (hg : Good g) (h : SInv g) :
    SInv (runAll g as).1 := by
  induction as generalizing g with
  | nil => exact h
  | cons a as ih =>
    simp only [runAll]
    exact ih _ (good_react g a hg) (sinv_react g a hg.fixed h)

/-! ## `next_done()` never answers None to a caller that acquired a permit -/

def NoNoneObs (o : List Obs) : Prop := ∀ k, Obs.nextDone k none ∉ o

theorem nn_nil : NoNoneObs [] := by intro k; simp

theorem nn_append {a b : List Obs} (ha : NoNoneObs a) (hb : NoNoneObs b) : NoNoneObs (a ++ b) := by
  intro k hm
  simp only [List.mem_append] at hm
  rcases hm with hm | hm
  · exact ha k hm
  · exact hb k hm

theorem nn_release (g : G) (h : SRelPre g) : NoNoneObs g.release.2 := by
  unfold G.release
  cases hw : g.waiters with
  | nil => exact nn_nil
  | cons w ws =>
    simp only []
    cases w with
    | joiner => exact nn_nil
    | consumer k =>
      unfold G.wake
      simp only []
      cases hd : g.doneq with
      | nil => have := h.sem; rw [hd] at this; simp at this
      | cons t rest => intro k'; simp

theorem srelpre_finish (g : G) (i : Nat) (o : Outcome) (h : SInv g) : SRelPre
    { (g.setMem i fun m => { m with status := .done, outcome := o }) with
      pending := (g.setMem i fun m => { m with status := .done, outcome := o }).pending.filter (· != i),
      doneq := (g.setMem i fun m => { m with status := .done, outcome := o }).doneq ++ [i],
      log := (g.setMem i fun m => { m with status := .done, outcome := o }).log ++ [i] } := by
  refine ⟨?_, h.jw, h.jcount, h.bhp⟩
  have := h.sem
  simp only [G.setMem, List.length_append, List.length_cons, List.length_nil] at this ⊢
  simp only [hpNat] at this ⊢
  omega

theorem nn_finishMem (g : G) (i : Nat) (o : Outcome) (h : SInv g) :
    NoNoneObs (g.finishMem i o).2 := by
  unfold G.finishMem
  cases hf : g.find i with
  | none => exact nn_nil
  | some m =>
    simp only []
    split
    · exact nn_nil
    · split
      · exact nn_nil
      · exact nn_release _ (srelpre_finish g i o h)

theorem nn_deliverCancel (g : G) (i : Nat) (h : SInv g) : NoNoneObs (g.deliverCancel i).2 := by
  unfold G.deliverCancel
  cases hf : g.find i with
  | none => exact nn_nil
  | some m =>
    simp only []
    cases hs : m.status with
    | done => exact nn_nil
    | canc => exact nn_finishMem g i .cancelled h
    | run =>
      simp only []
      have h1 : SStep g (g.setMem i fun m => { m with status := .canc }) :=
        sinv_frame h rfl rfl rfl rfl
      have h2 := sinv_addChildren (g.setMem i fun m => { m with status := .canc }) m.children h1.1
      generalize (g.setMem i fun m => { m with status := .canc }).addChildren m.children = r at h2 ⊢
      obtain ⟨g2, refused⟩ := r
      cases refused with
      | nil => intro k; simp
      | cons c cs =>
        simp only []
        refine nn_append (a := [Obs.cancelReceived i, Obs.spawnRefused c.id]) ?_
          (nn_finishMem g2 i .exc h2.1)
        intro k; simp

theorem nn_deliverCancels (g : G) (l : List Nat) (h : SInv g) :
    NoNoneObs (g.deliverCancels l).2 := by
  induction l generalizing g with
  | nil => exact nn_nil
  | cons i is ih =>
    rw [deliverCancels_cons]
    exact nn_append (nn_deliverCancel g i h) (ih _ (sinv_deliverCancel g i h).1)

theorem nn_jstep {g : G} {perm : List Nat} {j : Joiner} {g' : G} {o : List Obs} (h : SInv g)
    (hs : JStep g perm j g' o) : NoNoneObs o := by
  cases hs with
  | crSweep _ _ => exact nn_deliverCancels g _ h
  | finSweep _ _ _ => exact nn_deliverCancels g _ h
  | pop _ _ => unfold G.joinerPop; cases g.doneq <;> exact nn_nil
  | finExit _ _ _ => intro k; simp
  | crDone _ _ _ _ => exact nn_nil
  | nowait _ _ _ => exact nn_nil
  | nothingLeft _ _ _ _ _ => exact nn_nil
  | park _ _ _ _ _ => exact nn_nil
  | acquire _ _ _ _ _ _ => exact nn_nil
  | finClear _ _ _ _ => exact nn_nil

theorem nn_runJoiner (perm : List Nat) : ∀ (fuel : Nat) (g : G), g.fixed = true → SInv g →
    NoNoneObs (g.runJoiner perm fuel).2
  | 0, _, _, _ => by intro k; simp [G.runJoiner]
  | fuel + 1, g, hfix, h => by
    unfold G.runJoiner
    cases hs : g.joinerStep perm with
    | none => exact nn_nil
    | some r =>
      obtain ⟨g1, o1⟩ := r
      obtain ⟨j, hj, hb, hstep⟩ := joinerStep_inv hfix hs
      have hfix1 : g1.fixed = true := by
        have := (tstep_jstep hstep).fixed_eq; simp only [G.core] at this; rw [this, hfix]
      exact nn_append (nn_jstep h hstep)
        (nn_runJoiner perm fuel g1 hfix1 (sinv_jstep hj hb h hstep))

/-- the environment's action itself reports `nextDone k none` only for a `next_done()` call on
a group with nothing queued and nothing pending -/
theorem nn_apply (g : G) (a : Action) (h : SInv g) (k : Nat)
    (hm : Obs.nextDone k none ∈ (g.apply a).2) :
    (∃ perm, a = .nextDone k perm) ∧ g.doneq = [] ∧ g.pending = [] := by
  unfold G.apply at hm
  cases a with
  | spawn i d ch => simp only [] at hm; cases ha : g.add i d ch <;> simp [ha] at hm
  | finish i o p =>
    simp only [] at hm; split at hm
    · exact absurd hm (nn_finishMem g i o h k)
    · simp at hm
  | extCancel i p =>
    simp only [] at hm; split at hm
    · exact absurd hm (nn_deliverCancel g i h k)
    · simp at hm
  | finCancel i p =>
    simp only [] at hm; split at hm
    · exact absurd hm (nn_finishMem g i _ h k)
    · simp at hm
  | join p => simp only [] at hm; split at hm <;> simp at hm
  | ctxExit r p => simp only [] at hm; split at hm <;> simp at hm
  | cancelJoiner p =>
    simp only [] at hm
    cases hj : g.joiner with
    | none => simp [hj] at hm
    | some j =>
      simp only [hj] at hm
      cases hp : j.phase with
      | exited => simp [hp] at hm
      | fin => simp [hp] at hm
      | cancelrem => simp [hp] at hm
      | next =>
        simp only [hp] at hm
        cases hperm : j.hasPermit with
        | false => simp [hperm] at hm
        | true =>
          simp only [hperm, ↓reduceIte] at hm
          exfalso
          have hsem := h.sem
          simp only [hpNat, hj, hperm, ↓reduceIte] at hsem
          unfold G.release at hm
          cases hfw : g.waiters.filter (· != Waiter.joiner) with
          | nil => simp [hfw] at hm
          | cons w ws =>
            simp only [hfw] at hm
            cases w with
            | joiner => simp [G.wake] at hm
            | consumer k' =>
              simp only [G.wake] at hm
              cases hd : g.doneq with
              | nil => rw [hd] at hsem; simp at hsem
              | cons t rest => simp [hd] at hm
  | nextDone k' p =>
    simp only [] at hm
    split at hm
    · rename_i he
      simp only [Bool.and_eq_true, List.isEmpty_iff] at he
      simp only [List.mem_singleton, Obs.nextDone.injEq, and_true] at hm
      exact ⟨⟨p, by rw [hm]⟩, he.1, he.2⟩
    · split at hm
      · simp at hm
      · rename_i h1 h2
        exfalso
        have h2' : g.sem ≠ 0 ∧ g.waiters = [] := by simpa [List.isEmpty_iff] using h2
        have hsem := h.sem
        unfold G.wake at hm
        cases hd : g.doneq with
        | nil =>
          rw [hd] at hsem
          simp at hsem
          exact h2'.1 hsem.1
        | cons t rest => simp [hd] at hm
  | cancelRem p => exact absurd hm (nn_deliverCancels g _ h k)

end Aiorpcx.C09
