-- Root of the `Aiorpcx` library: imports every property's theorem file.
import Aiorpcx.C06.Props
import Aiorpcx.C01.Props
import Aiorpcx.C02.Props
