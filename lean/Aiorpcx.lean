-- Root of the `Aiorpcx` library: imports every property's theorem file.
import Aiorpcx.C06.Props
import Aiorpcx.C11.Props
import Aiorpcx.C12.Props
import Aiorpcx.C09.Props
import Aiorpcx.C10.Props
import Aiorpcx.C15.Props
import Aiorpcx.C19.Props
import Aiorpcx.C07.Props
import Aiorpcx.C01.Props
import Aiorpcx.C02.Props
import Aiorpcx.C18.Props
import Aiorpcx.C03.Props
import Aiorpcx.C08.Props
