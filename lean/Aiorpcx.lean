-- Root of the `Aiorpcx` library: imports every property's theorem file.
import Aiorpcx.C06.Props
import Aiorpcx.C16.Props
import Aiorpcx.C17.Props
