-- Root of the `Aiorpcx` library: imports every property's theorem file.
import Aiorpcx.C06.Props
import Aiorpcx.C13.Props
import Aiorpcx.C14.Props
import Aiorpcx.C20.Props
