-- Root of the `Aiorpcx` library: imports every property's theorem file.
import Aiorpcx.C06.Props
import Aiorpcx.C04.Props
import Aiorpcx.C05.Props
