"""Common pipeline for every property check (see DESIGN.md §2.2).

    facts -> lake build -> axiom audit + forbidden-token grep -> harness (correspondence + search)
    -> verdict + evidence

Exit codes: 0 property held on everything explored; 1 VIOLATION (unlisted); 2 machinery failure
(toolchain / harness crash / timeout) - never reported as a violation.
"""
import fcntl
import hashlib
import importlib
import json
import os
import random
import re
import subprocess
import sys
import time
import traceback

VERIF = os.path.dirname(os.path.dirname(os.path.abspath(__file__)))
REPO = os.environ.get('AIORPCX_REPO', '/repo')
LEAN = os.path.join(VERIF, 'lean')
WORK = os.path.join(VERIF, '.work')
ALLOWED_AXIOMS = {'propext', 'Classical.choice', 'Quot.sound'}
FORBIDDEN = re.compile(
    r'\b(sorry|admit|native_decide|bv_decide|implemented_by|unsafe)\b|^\s*axiom\s|maxHeartbeats\s+0\b')

sys.path.insert(0, REPO)
sys.path.insert(0, VERIF)


class MachineryError(Exception):
    pass


def load_registry(pid):
    with open(os.path.join(VERIF, 'props', f'{pid}.json')) as f:
        return json.load(f)


def load_known():
    with open(os.path.join(VERIF, 'known_findings.json')) as f:
        return json.load(f)


def strip_lean_comments(text):
    """Remove `--` line comments and nested `/- -/` block comments (strings are left alone:
    none of the forbidden tokens is ever legitimately inside a string in our sources)."""
    out = []
    i, depth, n = 0, 0, len(text)
    while i < n:
        if text.startswith('/-', i):
            depth += 1
            i += 2
        elif depth and text.startswith('-/', i):
            depth -= 1
            i += 2
        elif depth:
            if text[i] == '\n':
                out.append('\n')
            i += 1
        elif text.startswith('--', i):
            while i < n and text[i] != '\n':
                i += 1
        else:
            out.append(text[i])
            i += 1
    return ''.join(out)


class Ctx:
    def __init__(self, pid, tier, seed, reg, facts, driver_path, deep, reasons):
        self.pid = pid
        self.tier = tier
        self.seed = seed
        self.rng = random.Random(seed)
        self.reg = reg
        self.facts = facts
        self.driver_path = driver_path
        # deep: explore at thorough depth (thorough tier, fingerprint drift, broken proof)
        self.deep = deep
        self.deep_reasons = reasons
        self.t0 = time.time()
        self.repo = REPO
        self.verif = VERIF
        self.work = WORK
        self.model_calls = 0
        self.model_lines = 0

    @property
    def have_model(self):
        return self.driver_path is not None

    def model(self, lines, driver=None, args=()):
        """Run the compiled Lean driver on `lines`; returns the list of output lines (same
        length) or None when the driver could not be built."""
        path = driver or self.driver_path
        if path is None:
            return None
        if not lines:
            return []
        data = ('\n'.join(lines) + '\n').encode()
        p = subprocess.run([path, *args], input=data, stdout=subprocess.PIPE,
                           stderr=subprocess.PIPE, timeout=1800)
        if p.returncode != 0:
            raise MachineryError(f'driver {path} exited {p.returncode}: {p.stderr.decode()[:400]}')
        out = p.stdout.decode().split('\n')
        if out and out[-1] == '':
            out.pop()
        if len(out) != len(lines):
            raise MachineryError(f'driver returned {len(out)} lines for {len(lines)} inputs')
        self.model_calls += 1
        self.model_lines += len(lines)
        return out

    def elapsed(self):
        return time.time() - self.t0


def run_cmd(cmd, cwd=None, timeout=3600, env=None):
    p = subprocess.run(cmd, cwd=cwd, stdout=subprocess.PIPE, stderr=subprocess.STDOUT,
                       timeout=timeout, env=env)
    return p.returncode, p.stdout.decode(errors='replace')


def extract_facts(pid):
    """Run tools/facts/<pid>.py against the current /repo tree.  Returns (facts, changed_file)."""
    modname = f'tools.facts.{pid.lower()}'
    try:
        mod = importlib.import_module(modname)
    except ModuleNotFoundError as e:
        if e.name == modname:
            return {}, False
        raise
    facts = mod.extract(REPO)
    try:
        # remembered so that harnesses still have their parameters if a later extraction fails
        write_json(os.path.join(WORK, f'facts_{pid}.json'), facts)
    except (TypeError, ValueError):
        pass
    changed = False
    render = getattr(mod, 'render', None)
    if render:
        text = render(facts)
        if text is not None:
            path = os.path.join(LEAN, 'Aiorpcx', 'Facts', f'{pid}.lean')
            os.makedirs(os.path.dirname(path), exist_ok=True)
            old = open(path).read() if os.path.exists(path) else None
            if old != text:
                with open(path, 'w') as f:
                    f.write(text)
                changed = True
    return facts, changed


def nearest_decl(path, line):
    try:
        lines = open(path).read().split('\n')
    except OSError:
        return None
    for i in range(min(line, len(lines)) - 1, -1, -1):
        m = re.match(r'\s*(?:private\s+|protected\s+)?(theorem|lemma|def|example|instance|abbrev)\s*([^\s:(\[{]*)', lines[i])
        if m:
            return f'{m.group(1)} {m.group(2)}'.strip()
    return None


def lake_build(targets):
    rc, out = run_cmd(['lake', 'build', *targets], cwd=LEAN, timeout=3000)
    errors = []
    for m in re.finditer(r'^error: ([^\s:]+\.lean):(\d+):(\d+): (.*)$', out, re.M):
        f, ln, col, msg = m.group(1), int(m.group(2)), int(m.group(3)), m.group(4)
        errors.append({'file': f, 'line': ln, 'msg': msg[:300],
                       'decl': nearest_decl(os.path.join(LEAN, f), ln)})
    return rc, out, errors


def audit(pid, reg):
    """#print axioms on every registered theorem; grep the property's sources."""
    os.makedirs(WORK, exist_ok=True)
    names = reg['theorems']
    src = ''.join(f'import {m}\n' for m in reg['lean_modules'])
    src += ''.join(f'#print axioms {n}\n' for n in names)
    path = os.path.join(WORK, f'Audit_{pid}.lean')
    with open(path, 'w') as f:
        f.write(src)
    rc, out = run_cmd(['lake', 'env', 'lean', path], cwd=LEAN, timeout=1800)
    results = {}
    flat = re.sub(r'\s+', ' ', out)
    for m in re.finditer(r"'([^']+)' depends on axioms: \[([^\]]*)\]", flat):
        results[m.group(1)] = sorted(a.strip() for a in m.group(2).split(',') if a.strip())
    for m in re.finditer(r"'([^']+)' does not depend on any axioms", flat):
        results[m.group(1)] = []
    problems = []
    for n in names:
        if n not in results:
            problems.append(f'{n}: not found / not checked')
        else:
            bad = [a for a in results[n] if a not in ALLOWED_AXIOMS]
            if bad:
                problems.append(f'{n}: depends on non-standard axioms {bad}')
    if rc != 0 and not problems:
        problems.append(f'audit file failed to elaborate: {out[-400:]}')
    # forbidden tokens
    hits = []
    for d in reg.get('lean_dirs', []):
        full = os.path.join(LEAN, d)
        files = []
        if os.path.isdir(full):
            for root, _dirs, fs in os.walk(full):
                files += [os.path.join(root, x) for x in fs if x.endswith('.lean')]
        elif os.path.isfile(full):
            files = [full]
        for fp in sorted(files):
            text = strip_lean_comments(open(fp).read())
            for i, line in enumerate(text.split('\n'), 1):
                if FORBIDDEN.search(line):
                    hits.append(f'{os.path.relpath(fp, LEAN)}:{i}: {line.strip()[:120]}')
    for h in hits:
        problems.append('forbidden token: ' + h)
    return results, problems


def fingerprint_drift(pid, facts):
    path = os.path.join(VERIF, 'props', 'fingerprints.json')
    try:
        base = json.load(open(path)).get(pid, {})
    except OSError:
        base = {}
    cur = facts.get('fingerprints', {}) if isinstance(facts, dict) else {}
    return sorted(k for k in set(base) | set(cur) if base.get(k) != cur.get(k))


def write_json(path, obj):
    os.makedirs(os.path.dirname(path), exist_ok=True)
    tmp = path + '.tmp'
    with open(tmp, 'w') as f:
        json.dump(obj, f, indent=1, sort_keys=True, default=str)
        f.write('\n')
    os.replace(tmp, path)


def main(argv=None):
    import argparse
    ap = argparse.ArgumentParser()
    ap.add_argument('pid')
    ap.add_argument('--tier', default=os.environ.get('VERIF_TIER') or 'quick',
                    choices=['quick', 'thorough'])
    ap.add_argument('--replay')
    ap.add_argument('--no-build', action='store_true', help='skip lake (debugging only)')
    args = ap.parse_args(argv)
    pid = args.pid.upper()
    seed = int(os.environ.get('VERIF_SEED') or 0)
    t0 = time.time()
    try:
        return _main(pid, args, seed, t0)
    except subprocess.TimeoutExpired as e:
        print(f'MACHINERY-TIMEOUT {pid}: {e}')
        return 2
    except MachineryError as e:
        print(f'MACHINERY-ERROR {pid}: {e}')
        return 2
    except Exception:
        traceback.print_exc()
        print(f'MACHINERY-ERROR {pid}: harness crashed (see traceback); not a verdict')
        return 2


def _main(pid, args, seed, t0):
    reg = load_registry(pid)
    known = load_known()
    os.makedirs(WORK, exist_ok=True)
    tier = args.tier

    # ---- 1-3: facts, build, audit (serialised: lake and the Facts files are shared) ----------
    build_ok, build_errors, audit_results, audit_problems = True, [], {}, []
    leanchecker = 'not run (quick tier)'
    with open(os.path.join(VERIF, '.lock'), 'w') as lockf:
        fcntl.flock(lockf, fcntl.LOCK_EX)
        facts_error = None
        try:
            facts, facts_changed = extract_facts(reg.get('facts_pid', pid))
        except Exception as e:      # noqa
            # the extractor could not read what it needs from the current source (e.g. a helper
            # it runs was renamed or removed): the tie between model and code is broken; go on
            # with the (stale-facts) driver and the oracle to look for a failing input
            facts_error = f'{type(e).__name__}: {e}'
            cache = os.path.join(WORK, f'facts_{reg.get("facts_pid", pid)}.json')
            if not os.path.exists(cache):
                raise MachineryError('facts extraction failed and no earlier facts are cached: '
                                     + facts_error)
            facts, facts_changed = json.load(open(cache)), False
        targets = list(reg['lean_modules'])
        drv = reg.get('driver')
        if not args.no_build:
            rc, out, build_errors = lake_build(targets)
            build_ok = rc == 0
            if not build_ok and not build_errors:
                # toolchain trouble rather than a failed proof
                raise MachineryError('lake build failed without a Lean error:\n' + out[-1500:])
            if build_ok:
                audit_results, audit_problems = audit(pid, reg)
                if tier == 'thorough' and not os.environ.get('VERIF_NO_LEANCHECKER'):
                    # independent re-check of the compiled proof modules by the toolchain's
                    # stand-alone kernel checker
                    rc3, out3 = run_cmd(['lake', 'env', 'leanchecker', *reg['lean_modules']],
                                        cwd=LEAN, timeout=2400)
                    leanchecker = 'ok' if rc3 == 0 else 'FAILED: ' + out3[-300:]
                    if rc3 != 0:
                        audit_problems.append('leanchecker rejected the compiled modules: ' + out3[-300:])
            driver_path = None
            if drv:
                rc2, out2, drv_errors = lake_build([drv])
                cand = os.path.join(LEAN, '.lake', 'build', 'bin', drv)
                if rc2 == 0 and os.path.exists(cand):
                    # private copy so that a concurrent rebuild cannot pull it from under us
                    driver_path = os.path.join(WORK, f'{drv}.{os.getpid()}')
                    subprocess.run(['cp', cand, driver_path], check=True)
                elif drv_errors:
                    # the model's driver no longer compiles against the regenerated facts: the
                    # tie is broken; the oracle still searches for a failing input
                    audit_problems = list(audit_problems) + [
                        f'the model driver {drv} no longer builds against the current facts: '
                        + '; '.join(f"{e['file']}:{e['line']}: {e['msg']}" for e in drv_errors[:3])]
                else:
                    # never run silently without the model
                    raise MachineryError(f'lake could not build the driver {drv}:\n' + out2[-1500:])
        else:
            cand = os.path.join(LEAN, '.lake', 'build', 'bin', drv) if drv else None
            driver_path = cand if cand and os.path.exists(cand) else None
    try:
        if facts_error:
            audit_problems = list(audit_problems) + [
                'facts could not be regenerated from the current source (' + facts_error + ')']
        return _after_build(pid, args, seed, t0, reg, known, tier, facts, facts_changed,
                            build_ok, build_errors, audit_results, audit_problems, driver_path,
                            leanchecker)
    finally:
        if driver_path and driver_path.startswith(WORK) and os.path.exists(driver_path):
            os.unlink(driver_path)


def _after_build(pid, args, seed, t0, reg, known, tier, facts, facts_changed, build_ok,
                 build_errors, audit_results, audit_problems, driver_path, leanchecker='n/a'):
    drift = fingerprint_drift(reg.get('facts_pid', pid), facts)
    reasons = []
    if tier == 'thorough':
        reasons.append('thorough tier')
    if drift:
        reasons.append('source fingerprint drift: ' + ', '.join(drift))
    if not build_ok:
        reasons.append('proof obligations no longer check')
    if audit_problems:
        reasons.append('axiom audit problems')
    deep = bool(reasons)

    ctx = Ctx(pid, tier, seed, reg, facts, driver_path, deep, reasons)
    hmod = importlib.import_module(f'harness.{pid.lower()}')
    try:
        if args.replay:
            case = json.load(open(args.replay))
            res = hmod.replay(ctx, case)
        elif deep and tier != 'thorough':
            # source drift / broken obligation on the quick tier: look at quick depth first and
            # go deep only if that finds nothing (a failing tree is then reported fast)
            ctx.deep = False
            res = hmod.run(ctx)
            listed_keys = {k['key'] for k in known.get('known', []) if k['property'] == pid}
            if not ([v for v in res.get('violations', []) if v.get('key') not in listed_keys]
                    or res.get('disagreements')):
                first = res.get('evaluations', 0)
                ctx.deep = True
                ctx.rng = random.Random(seed + 1)
                res = hmod.run(ctx)
                res['evaluations'] = res.get('evaluations', 0) + first
        else:
            res = hmod.run(ctx)
    except (MachineryError, subprocess.TimeoutExpired):
        raise
    except Exception as e:
        # An exception that comes out of the code under test (innermost frames inside the
        # repository) and that the harness did not expect is a behaviour of the implementation,
        # not a machinery failure: the property is no longer shown to hold on this tree.  An
        # exception raised by the harness's own code stays a machinery error (exit 2).
        tb = traceback.extract_tb(e.__traceback__)
        repo_prefix = os.path.realpath(REPO) + os.sep
        inner = [f for f in tb if os.path.realpath(f.filename).startswith(repo_prefix)]
        last_in_verif = os.path.realpath(tb[-1].filename).startswith(VERIF + os.sep)
        # an exception re-raised from a multiprocessing worker carries the remote traceback as text
        remote = str(getattr(e, '__cause__', '') or '')
        if remote:
            frames = re.findall(r'File "([^"]+)", line \d+', remote)
            if frames:
                inner = [f for f in frames if os.path.realpath(f).startswith(repo_prefix)]
                last_in_verif = os.path.realpath(frames[-1]).startswith(VERIF + os.sep)
        if not inner or last_in_verif:
            raise
        text = remote or ''.join(traceback.format_exception(type(e), e, e.__traceback__))
        res = {'violations': [], 'evaluations': 0,
               'disagreements': [{'case': 'the harness could not complete',
                                  'impl': f'{type(e).__name__} raised inside the code under test: {text[-1500:]}',
                                  'model': 'n/a'}]}

    # ---- verdict -------------------------------------------------------------------------
    known_keys = {k['key']: k for k in known.get('known', []) if k['property'] == pid}
    violations = res.get('violations', [])
    disagreements = res.get('disagreements', [])
    unlisted = [v for v in violations if v.get('key') not in known_keys]
    listed = [v for v in violations if v.get('key') in known_keys]
    lines = []
    seen = set()
    for v in listed:
        if v['key'] not in seen:
            seen.add(v['key'])
            lines.append(f"KNOWN-FINDING: property={pid} {known_keys[v['key']]['what']}")
    exit_code = 0
    replay_path = None
    broken = []
    if not build_ok:
        broken += [f"theorem no longer checks: {e['decl']} ({e['file']}:{e['line']}: {e['msg']})"
                   for e in build_errors]
    broken += audit_problems
    if disagreements:
        broken.append(f'correspondence model/implementation differs on {len(disagreements)} case(s)')
    if unlisted or broken:
        exit_code = 1
        rp = os.path.join(VERIF, 'replays', f'{pid}-{tier}-{seed}.json')
        replay = {'property': pid, 'tier': tier, 'seed': seed,
                  'broken_obligations': broken,
                  'violations': unlisted[:5],
                  'disagreements': disagreements[:5]}
        if unlisted:
            replay['case'] = unlisted[0].get('case')
            replay['why'] = unlisted[0].get('why')
        write_json(rp, replay)
        replay_path = os.path.relpath(rp, VERIF)
        suffix = '' if unlisted else ' no-failing-input-found'
        lines.append(f'VIOLATION property={pid} replay={replay_path}{suffix}')

    # ---- evidence ------------------------------------------------------------------------
    names = reg['theorems']
    discharged = 0
    if build_ok:
        for n in names:
            ax = audit_results.get(n)
            if ax is not None and all(a in ALLOWED_AXIOMS for a in ax):
                discharged += 1
    cov = {
        'obligations': len(names),
        'discharged': discharged,
        'checker_cmd': f'cd lean && lake build {" ".join(reg["lean_modules"])} && lake env lean ../.work/Audit_{pid}.lean  (#print axioms on each obligation)',
        'trusted_base': reg.get('trusted_base', []),
        'theorems': {n: audit_results.get(n) for n in names},
        'facts_regenerated': bool(facts),
        'facts_changed_this_run': facts_changed,
        'fingerprint_drift': drift,
        'deep_reasons': reasons,
        'model_driver_lines': ctx.model_lines,
        'broken_obligations': broken,
        'known_findings_confirmed': sorted(seen),
        'leanchecker': leanchecker,
    }
    for k in ('evaluations', 'distinct_nontrivial', 'rule', 'samples', 'exhaustive',
              'traces_validated_against_impl', 'disagreements_checked', 'histogram',
              'scopes', 'explanation'):
        if k in res:
            cov[k] = res[k]
    cov.setdefault('disagreements_checked', ctx.model_lines)
    cov['disagreements_found'] = len(disagreements)
    ev = {
        'property_id': pid, 'tier': tier, 'seed': seed, 'level': 'proof',
        'coverage': cov,
        'assumptions': reg.get('assumptions', []),
        'wall_s': round(time.time() - t0, 2),
        'violations': len(unlisted),
    }
    if not args.replay:
        # evidence/ describes runs against /repo itself; a run against another tree (candidate
        # repair, seeded change) leaves its record under .work/ instead
        evdir = os.path.join(VERIF, 'evidence') if os.path.realpath(REPO) == '/repo' \
            else os.path.join(WORK, 'evidence-other-tree')
        write_json(os.path.join(evdir, f'{pid}.json'), ev)
    for ln in lines:
        print(ln)
    print(f'{pid} {tier} seed={seed}: obligations {discharged}/{len(names)} discharged, '
          f'{res.get("evaluations", 0)} cases, {len(disagreements)} disagreements, '
          f'{res.get("histogram", {}).get("violations_total", len(violations))} property failures ({len(listed)} known recorded), '
          f'{time.time() - t0:.1f}s -> exit {exit_code}')
    return exit_code
