#!/bin/bash
# tools/try_fix.sh <fix.diff> <Cxx> [Cyy...] : apply a candidate repair to a scratch copy of /repo,
# run the given quick checks against it and compare the pinned suite.
F=$1; shift
W=/var/tmp/rf
rm -rf $W; rsync -a --exclude .git /repo/ $W/
(cd $W && patch -p1 -s < $F) || { echo PATCH-FAILED; exit 3; }
for p in "$@"; do (cd /verif && AIORPCX_REPO=$W timeout 1200 ./check $p 2>&1 | grep -E "VIOLATION|exit|MACHINERY" ); done
/verif/tools/baseline.sh $W > /var/tmp/base_rf.txt; /verif/tools/baseline.sh /repo > /var/tmp/base_repo.txt
if diff -q /var/tmp/base_repo.txt /var/tmp/base_rf.txt > /dev/null; then echo "suite: same ($(grep -c PASSED /var/tmp/base_rf.txt) passed)"; else echo "suite: DIFFERS"; diff /var/tmp/base_repo.txt /var/tmp/base_rf.txt | head; fi
