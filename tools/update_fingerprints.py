#!/venv/bin/python
"""Record the normalised-AST fingerprints of the modelled functions for the *current* /repo
tree as the baseline (props/fingerprints.json).  Run after a deliberate change to /repo (a
`fix:` commit) once the checks pass; never run by a check."""
import glob
import importlib
import json
import os
import sys
VERIF = os.path.dirname(os.path.dirname(os.path.abspath(__file__)))
sys.path.insert(0, VERIF)
REPO = os.environ.get('AIORPCX_REPO', '/repo')
out = {}
for p in sorted(glob.glob(os.path.join(VERIF, 'props', 'C*.json'))):
    pid = os.path.basename(p)[:-5]
    try:
        mod = importlib.import_module(f'tools.facts.{pid.lower()}')
    except ModuleNotFoundError:
        continue
    out[pid] = mod.extract(REPO).get('fingerprints', {})
with open(os.path.join(VERIF, 'props', 'fingerprints.json'), 'w') as f:
    json.dump(out, f, indent=1, sort_keys=True)
    f.write('\n')
print('recorded', {k: len(v) for k, v in out.items()})
