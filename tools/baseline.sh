#!/bin/sh
# Run the repository's pinned suite on a tree and print a canonical pass/fail summary:
#   tools/baseline.sh [tree]   (default /repo)
# Used to confirm that a `fix:` commit leaves the suite's result unchanged.
T=${1:-/repo}
cd "$T" && /venv/bin/python -m pytest -q -p no:cacheprovider --timeout=900 \
  --continue-on-collection-errors -rA 2>&1 | grep -E '^(PASSED|FAILED|ERROR) tests/' | sed 's/ - .*//' | sort
