#!/bin/bash
# tools/try_mutant.sh <dir with patch.diff [demo.py]> <Cxx> [Cyy ...]
# Applies the patch to a scratch copy of /repo, confirms the demonstration (fails with, passes
# without) and the pinned suite (same result), runs the given quick checks against the copy.
D=$(realpath $1); shift
W=/var/tmp/mut.$$
rsync -a --exclude .git /repo/ $W/
if ! (cd $W && patch -p1 -s < $D/patch.diff); then echo "PATCH-FAILED $D"; rm -rf $W; exit 3; fi
if [ -f $D/demo.py ]; then
  (cd $W && PYTHONPATH=$W timeout 300 /venv/bin/python $D/demo.py >/dev/null 2>&1); a=$?
  (cd /repo && PYTHONPATH=/repo timeout 300 /venv/bin/python $D/demo.py >/dev/null 2>&1); b=$?
  echo "demo: with-change exit=$a  without exit=$b"
fi
/verif/tools/baseline.sh $W > $W.base
# the unmodified tree's list is computed once per /repo HEAD (+ working-tree state)
BK=/var/tmp/base0.$(git -C /repo rev-parse --short HEAD).$(git -C /repo status --porcelain | md5sum | cut -c1-8).txt
if [ ! -s $BK ]; then /verif/tools/baseline.sh /repo > $BK.tmp.$$ && mv $BK.tmp.$$ $BK; fi
cp $BK $W.base0
if ! diff -q $W.base0 $W.base >/dev/null; then
  # timing-sensitive tests (test_curio under load): re-run only the tests that differ, on both trees
  ids=$(diff $W.base0 $W.base | grep -E '^[<>]' | awk '{print $3}' | sort -u)
  for t in $W /repo; do
    (cd $t && PYTHONPATH=$t timeout 600 /venv/bin/python -m pytest -q -p no:cacheprovider --timeout=60 -rA $ids 2>&1 | grep -E '^(PASSED|FAILED|ERROR) tests/' | sort) > $W.re.$(basename $t)
  done
  if diff -q $W.re.$(basename $W) $W.re.repo >/dev/null; then echo "suite: same (after re-running $(echo $ids | wc -w) timing-sensitive tests)"; else echo "suite: DIFFERS"; diff $W.re.repo $W.re.$(basename $W) | head -5; fi
  rm -f $W.re.*
else echo "suite: same"; fi
for p in "$@"; do
  out=$(cd /verif && AIORPCX_REPO=$W VERIF_SEED=${VERIF_SEED:-0} timeout 900 ./check $p 2>&1 | grep -E "VIOLATION|KNOWN|exit|MACHINERY" | grep -v "^KNOWN" | tr '\n' ' ')
  echo "$p: $out"
  if [ -f /verif/replays/$p-quick-${VERIF_SEED:-0}.json ]; then cp /verif/replays/$p-quick-${VERIF_SEED:-0}.json $W.replay.$p; fi
done
rm -rf $W $W.base $W.base0
