#!/bin/bash
# Validate MANIFEST.json and every evidence file against the given schemas (needs jsonschema: the
# tooling venv python3-vt has it).
python3-vt - <<'PY'
import json, jsonschema, glob, sys
bad = 0
m = json.load(open('/verif/MANIFEST.json')); jsonschema.validate(m, json.load(open('/root/.vp/MANIFEST.schema.json')))
es = json.load(open('/root/.vp/EVIDENCE.schema.json'))
for p in sorted(glob.glob('/verif/evidence/C*.json')):
    try:
        jsonschema.validate(json.load(open(p)), es)
    except jsonschema.ValidationError as e:
        bad += 1; print(p, 'INVALID:', e.message[:200], list(e.absolute_path))
print('MANIFEST ok,', len(m['checks']), 'checks;', 'evidence ok' if not bad else f'{bad} evidence files invalid')
sys.exit(1 if bad else 0)
PY
