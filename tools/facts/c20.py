"""Facts for C20 (outgoing requests) - BEHAVIOURAL (tools/facts/limprobe.py): obtained by running a
real client `RPCSession` with a scripted peer under virtual time, through the public API only
(`send_request`, `send_batch`, bytes on the transport, class attributes, `max_concurrent` of the
outgoing limiter found by duck typing).  Nothing looks at the source text of `_recalc_concurrency`
or `_send_concurrent`, at `_req_times`, or at the names of private helpers.

* constants: sent_request_timeout, target_response_time, recalibrate_count, max_send_delay (class
  attributes), the initial outgoing limit (read from a live client session);
* `flowTable`: sequences of send operations (single requests and batches) answered by the peer
  after chosen delays, for several (target_response_time, recalibrate_count): the outgoing limit
  after every completion.  This is what `_send_concurrent`'s bookkeeping (one sample per request,
  a batch contributing its per-request share once per member, recalibration once enough samples
  are in, inside the limiter) and `_recalc_concurrency` (average, step bounds, rounding) compute
  together.  Delays are chosen so that every float operation is exact and no rounding tie occurs.
  Some waits end by the response wait limit instead of an answer (they count as measured response
  times); every other walk has its settings assigned on the INSTANCE after construction.
* `outcomeTable`: what a caller gets and when: silent peer -> TaskTimeout exactly
  sent_request_timeout after the write; answer -> result at that moment; connection lost ->
  cancellation at that moment; more callers than the limit -> the excess is written only when a
  slot frees (write times).
Props.lean proves that the model computes exactly these tables."""
import asyncio
import json
from fractions import Fraction

from . import common
from . import limprobe as lp

WALL = float(2 ** 30)      # time.time() is a wall clock far away from loop.time()


def q(x):
    f = Fraction(x)
    return f'({f.numerator} : Rat) / {f.denominator}' if f.denominator != 1 else f'({f.numerator} : Rat)'


def _mods(repo):
    return {'session': common.fresh_import(repo, 'aiorpcx.session'),
            'rawsocket': common.fresh_import(repo, 'aiorpcx.rawsocket'),
            'framing': common.fresh_import(repo, 'aiorpcx.framing'),
            'jsonrpc': common.fresh_import(repo, 'aiorpcx.jsonrpc'),
            'curio': common.fresh_import(repo, 'aiorpcx.curio')}


class WallClock:
    def __init__(self, loop):
        self.loop = loop

    def time(self):
        return WALL + self.loop.time()


class Client:
    """a live client session + scripted peer on the virtual loop"""

    def __init__(self, mods, bench, attrs):
        self.mods, self.bench = mods, bench
        mods['session'].time = WallClock(bench.loop)
        cls = type('C', (mods['session'].RPCSession,), dict(attrs))
        self.proto, self.tr, self.s = bench.session(mods, cls, 'client')
        _inc, self.lim = lp.find_limiters(self.s)
        self.delay_of = {}
        self.written = {}
        self.outcome = {}
        self.env_log = []       # what the environment did: (time, 0 call / 1 answer / 2 lose, id, count)
        real_write = self.tr.write

        def write(data):
            real_write(data)
            self.on_write(bytes(data))
        self.tr.write = write

    def on_write(self, data):
        for line in data.split(b'\n'):
            if not line.strip():
                continue
            msg = json.loads(line)
            items = msg if isinstance(msg, list) else [msg]
            key = items[0]['params'][0]
            self.written[key] = self.bench.loop.time()
            d = self.delay_of.get(key)
            if d is None:
                continue
            rep = [{'jsonrpc': '2.0', 'result': m['params'], 'id': m['id']} for m in items if 'id' in m]
            out = json.dumps(rep if isinstance(msg, list) else rep[0]).encode() + b'\n'
            self.bench.loop.call_later(d, self.deliver, out, key)

    def deliver(self, data, key=None):
        if not self.tr.closing:
            self.env_log.append((self.bench.loop.time(), 1, key, 0))
            self.proto.data_received(data)

    def start(self, key, count):
        self.env_log.append((self.bench.loop.time(), 0, key, count))
        return self.bench.loop.create_task(self.call(key, count))

    def lose(self):
        self.env_log.append((self.bench.loop.time(), 2, 0, 0))
        self.tr.close()

    async def call(self, key, count):
        TaskTimeout = self.mods['curio'].TaskTimeout
        try:
            if count == 1:
                await self.s.send_request('m', [key])
            else:
                async with self.s.send_batch() as b:
                    for j in range(count):
                        b.add_request('m', [key, j])
            self.outcome[key] = (0, self.bench.loop.time())          # result
        except TaskTimeout:
            self.outcome[key] = (2, self.bench.loop.time())
        except asyncio.CancelledError:
            self.outcome[key] = (3, self.bench.loop.time())
        except Exception:      # noqa
            self.outcome[key] = (1, self.bench.loop.time())          # error


FLOW_TIMEOUT = 16.0


def run_flow(mods, trt, recal, steps, on_instance=False):
    """steps: (request_count, delay) processed one after the other -> limit after each completion;
    delay None = the peer never answers, the wait ends by the response wait limit (FLOW_TIMEOUT).
    The three settings are given as subclass attributes, or (on_instance) assigned on the instance
    after the session factory constructed it, the subclass carrying decoy values."""
    saved = mods['session'].time
    bench = lp.VBench()
    try:
        given = dict(target_response_time=trt, recalibrate_count=recal, sent_request_timeout=FLOW_TIMEOUT)
        decoy = dict(target_response_time=97.0, recalibrate_count=977, sent_request_timeout=977.0)
        c = Client(mods, bench, decoy if on_instance else given)
        if on_instance:
            for name, value in given.items():
                setattr(c.s, name, value)
        out = []
        for k, (count, delay) in enumerate(steps):
            c.delay_of[k] = delay
            t = bench.loop.create_task(c.call(k, count))
            bench.advance((FLOW_TIMEOUT if delay is None else delay) + 1.0)
            if not t.done():
                raise RuntimeError('flow probe: call did not complete')
            out.append(int(c.lim.max_concurrent))
        return out
    finally:
        mods['session'].time = saved
        bench.close()


def flow_rows(mods):
    plans = []
    # up: instant answers -> the cap every time; down: very slow answers -> the floor every time
    plans.append((3.0, 1, [(1, 0.0)] * 36))
    plans.append((3.0, 1, [(1, 64.0)] * 22 + [(1, 0.0)] * 12))
    # between the bounds (ratios with an odd denominator: no rounding tie is possible)
    plans.append((3.0, 1, [(1, 3.25)] * 12 + [(1, 2.5)] * 12 + [(1, 3.5)] * 8))
    plans.append((3.0, 1, [(1, 0.75)] * 6 + [(1, 3.0)] * 3 + [(1, 3.25)] * 25))
    plans.append((0.25, 1, [(1, 0.25)] * 3 + [(1, 0.3125)] * 10 + [(1, 0.125)] * 5))
    # several samples per recalibration; batches contribute their per-request share per member
    plans.append((3.0, 3, [(1, 3.25), (1, 3.25), (1, 3.25), (2, 6.5), (1, 3.25), (4, 13.0), (2, 1.0), (1, 0.0),
                           (1, 64.0), (1, 64.0), (1, 64.0), (4, 256.0), (1, 0.5), (2, 128.0), (1, 64.0)]))
    plans.append((3.0, 5, [(2, 6.5), (4, 13.0), (1, 3.25), (1, 3.25), (1, 3.25), (1, 3.25), (1, 3.25), (1, 3.25),
                           (3, 9.0), (3, 9.0), (1, 64.0), (1, 64.0), (1, 64.0), (1, 64.0), (1, 64.0)]))
    plans.append((3.0, 30, [(1, 64.0)] * 29 + [(4, 256.0)] + [(1, 64.0)] * 30 + [(1, 0.0)] * 31))
    # degenerate configurations: recalibrate every time (count 0), target_response_time 0 / negative
    plans.append((3.0, 0, [(1, 64.0)] * 4 + [(1, 0.0)] * 3))
    plans.append((0.0, 1, [(1, 1.0)] * 5))
    plans.append((-1.0, 2, [(1, 1.0)] * 6))
    # waits that end by the response wait limit are measured response times too (None = no answer):
    # a peer answering one request in four at once
    plans.append((0.25, 4, ([(1, 0.0)] + [(1, None)] * 3) * 5))
    plans.append((3.0, 2, [(1, None), (1, 0.0), (2, None), (1, 3.25), (1, None), (1, None), (4, None), (1, 0.0)]))
    rows = []
    for n, (trt, recal, steps) in enumerate(plans):
        targets = run_flow(mods, trt, recal, steps, on_instance=(n % 2 == 1))
        rows.append((trt, recal, [(cnt, FLOW_TIMEOUT if d is None else d) for cnt, d in steps], targets))
    return rows


def flat_flow_row(r):
    trt, recal, steps, targets = r
    out = lp.rat_ints(trt) + [recal, len(steps)]
    for count, delay in steps:
        out += [count] + lp.rat_ints(delay)
    return out + list(targets)


def settle(c, bench, L):
    """bring the outgoing limiter of a live session to limit L with exactly L permits in
    circulation, through the public API only: with recalibrate_count 1, slow answers walk the
    limit down (50, 40, 32, ... 3, 2, 1), answers taking exactly target_response_time keep it where
    it is, and every completion above the limit retires one permit"""
    c.s.recalibrate_count = 1
    real_timeout = c.s.sent_request_timeout
    c.s.sent_request_timeout = 10.0 ** 6
    trt = c.s.target_response_time
    start = int(c.lim.max_concurrent)
    done = 0
    key = 10 ** 6
    while done < start + 5 and (int(c.lim.max_concurrent) != L or done < start - L + 1):
        cur = int(c.lim.max_concurrent)
        if cur < L:
            raise RuntimeError(f'settle: limit {cur} fell below {L}')
        delay = 64.0 * trt if cur > L else trt
        c.delay_of[key] = delay
        t = bench.loop.create_task(c.call(key, 1))
        bench.advance(delay + 1.0)
        if not t.done():
            raise RuntimeError('settle: call did not complete')
        key += 1
        done += 1
    if int(c.lim.max_concurrent) != L:
        raise RuntimeError(f'settle: could not reach limit {L}')
    c.s.recalibrate_count = 10 ** 6
    c.s.sent_request_timeout = real_timeout
    c.env_log.clear()
    c.written.clear()
    c.outcome.clear()


def outcome_rows(mods):
    """limit L, sent_request_timeout (num den), then what the environment did in time order:
    #actions, (time num den, 0 call / 1 the peer's answer is delivered / 2 connection lost, id,
    request_count)*; then per caller 0..n-1: written? write time (num den), outcome (0 result
    1 error 2 TaskTimeout 3 cancelled; 9 none), outcome time (num den).  Times count from the start of
    the scenario."""
    rows = []
    saved = mods['session'].time
    try:
        # (L, callers, timeout, scenario, scenario time): 0 silent peer; 1 every request is answered
        # `time` after it was written; 2 silent peer, connection lost at `time`; 3 like 1 but only
        # even callers are answered
        for L, n, tmo, scen, st in ((50, 1, 2.0, 0, 0.0), (50, 3, 0.5, 0, 0.0), (2, 3, 2.0, 0, 0.0), (1, 3, 0.5, 0, 0.0),
                                    (2, 5, 2.0, 0, 0.0), (50, 2, 2.0, 1, 0.75), (2, 4, 2.0, 1, 0.25), (1, 3, 2.0, 1, 1.5),
                                    (50, 2, 2.0, 2, 1.25), (2, 4, 2.0, 2, 0.5), (1, 2, 30.0, 2, 7.0), (3, 3, 30.0, 0, 0.0),
                                    (2, 5, 2.0, 3, 0.75), (1, 4, 4.0, 3, 1.0), (3, 7, 2.0, 2, 2.5)):
            bench = lp.VBench()
            try:
                c = Client(mods, bench, dict(sent_request_timeout=tmo, recalibrate_count=1, target_response_time=3.0))
                if L != int(c.lim.max_concurrent):
                    settle(c, bench, L)
                c.s.recalibrate_count = 10 ** 6
                t0 = bench.loop.time()
                for k in range(n):
                    c.delay_of[k] = st if scen == 1 or (scen == 3 and k % 2 == 0) else None
                    c.start(k, 1)
                bench.idle()
                if scen == 2:
                    bench.advance(st)
                    c.lose()
                bench.advance(tmo * (n + 2) + st * (n + 2) + 1)
                row = [L] + lp.rat_ints(tmo) + [len(c.env_log)]
                for t, kind, key, count in sorted(c.env_log, key=lambda e: e[0]):
                    row += lp.rat_ints(t - t0) + [kind, key, count]
                row.append(n)
                for k in range(n):
                    w = c.written.get(k)
                    row += ([1] + lp.rat_ints(w - t0)) if w is not None else [0, 0, 1]
                    kind, t = c.outcome.get(k, (9, t0))
                    row += [kind] + lp.rat_ints(t - t0)
                rows.append(row)
            finally:
                bench.close()
    finally:
        mods['session'].time = saved
    return rows


def outgoing_initial(mods):
    bench = lp.Bench()
    try:
        _p, _t, s = bench.session(mods, mods['session'].RPCSession, 'client')
        _inc, out = lp.find_limiters(s)
        return int(out.max_concurrent) if out is not None else 0
    finally:
        bench.close()


def extract(repo):
    mods = _mods(repo)
    session = mods['session']
    R = session.RPCSession
    f = {}
    f['sent_request_timeout'] = R.sent_request_timeout
    f['target_response_time'] = R.target_response_time
    f['recalibrate_count'] = R.recalibrate_count
    f['max_send_delay'] = session.SessionBase.max_send_delay
    f['outgoing_initial'] = outgoing_initial(mods)
    f['flow_rows'] = [flat_flow_row(r) for r in flow_rows(mods)]
    f['outcome_rows'] = outcome_rows(mods)
    f['fingerprints'] = common.fingerprints(repo, {
        'aiorpcx/session.py': ['RPCSession.__init__', 'RPCSession._recalc_concurrency',
                               'RPCSession._send_concurrent', 'RPCSession.connection_lost',
                               'RPCSession.send_request', 'BatchRequest.__aexit__',
                               'SessionBase._send_message', 'Concurrency']})
    return f


def render(f):
    return (
        'import Aiorpcx.C13.IntRows\n'
        '/-! GENERATED by tools/facts/c20.py by RUNNING the current tree - do not edit. -/\n'
        'namespace Aiorpcx.Facts.C20\n'
        f'/-- `max_concurrent` of the outgoing limiter of a fresh client `RPCSession` -/\n'
        f'def outgoingInitial : Nat := {int(f["outgoing_initial"])}\n'
        f'def sentRequestTimeout : Rat := {q(f["sent_request_timeout"])}\n'
        f'def targetResponseTime : Rat := {q(f["target_response_time"])}\n'
        f'def recalibrateCount : Nat := {int(f["recalibrate_count"])}\n'
        f'def maxSendDelay : Rat := {q(f["max_send_delay"])}\n'
        '/-- send operations answered one after the other on a live client session: target_response_time\n'
        '    (num den), recalibrate_count, #steps, steps (request_count, response time num den), then the\n'
        '    outgoing limit after each completion -/\n'
        f'def flowTable : List (List Int) := {lp.lean_int_rows(f["flow_rows"])}\n'
        '/-- what callers get and when, on a live client session whose outgoing limiter was brought to\n'
        '    limit L first: L, sent_request_timeout (num den), #environment actions, (time num den,\n'
        '    0 call / 1 answer delivered / 2 connection lost, id, request_count)*, #callers, per caller:\n'
        '    written?, write time (num den), outcome (0 result 1 error 2 TaskTimeout 3 cancelled),\n'
        '    outcome time (num den); times count from the start of the scenario -/\n'
        f'def outcomeTable : List (List Int) := {lp.lean_int_rows(f["outcome_rows"])}\n'
        'end Aiorpcx.Facts.C20\n')
