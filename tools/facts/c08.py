"""Facts for C08 (connection lifecycle), regenerated from the current tree on every run.

Everything here is obtained by RUNNING the real code through its public interfaces on stubs
(nothing is read from the shape of the source, no private attribute is touched):

* the transport protocols RSTransport / USTransport, created with their public constructor
  `(session_factory, framer, kind)` and driven through the asyncio.Protocol callbacks
  (`connection_made`, `connection_lost`, `pause_writing`) and their session-facing API (`write`,
  `close(force_after)`, `abort()`, `is_closing()`), with a stub asyncio transport, a stub framer
  and a stub session:
  - `connection_lost`: fails the framer with ConnectionLostError (which ends message processing)
    and releases a writer blocked on a full send buffer;
  - `is_closing()` for message processing ended or not x asyncio transport closing or not;
  - `close(force_after)` on the virtual loop in eight scenarios (already closed / graceful close
    completes after 0, 3, 9 s with force_after 7 / never completes with force_after 7 and 1 /
    never completes and the caller is cancelled after 3 s / before connection_made);
  - message processing ending in four ways (return, ConnectionLostError, another exception,
    cancellation): is the transport "closed" afterwards, what comes out of the task, is the
    asyncio transport aborted;
* the sessions RPCSession / MessageSession on a stub transport: `process_messages(recv)` with a
  `recv` that fails / the task cancelled -> how often the public `connection_lost` hook runs;
  `RPCSession.connection_lost()` cancels the pending request futures; `send_request` without an
  answer ends with TaskTimeout at `sent_request_timeout` (also when that attribute is changed);
  how many of 60 simultaneous `send_request` calls are written at once (the outgoing limit);
  `close()` hands `force_after` (default value observed) to `transport.close`;
* `JSONRPCConnection.cancel_pending_requests` on answered / pending / cancelled / batch futures;
* constants (public class attributes): `sent_request_timeout`, `processing_timeout`;
* fingerprints of every modelled function (a drift only deepens the exploration).
"""
import asyncio
import logging

from . import common


class _Stub:
    """asyncio transport stand-in.  A graceful close completes (connection_lost is delivered)
    `graceful_after` seconds after close() - None = never -, an abort `abort_after` seconds after
    abort() (0 = in the next loop iteration, as asyncio does)."""
    def __init__(self, loop, closing=False, graceful_after=None, abort_after=2):
        self.loop = loop
        self.closing = closing
        self.graceful_after = graceful_after
        self.abort_after = abort_after
        self.proto = None
        self.calls = []
        self._handle = None
        self._delivered = False

    def is_closing(self):
        return self.closing

    def get_extra_info(self, *a, **k):
        return None

    def _lost(self):
        if not self._delivered:
            self._delivered = True
            self.calls.append(('connection_lost', int(self.loop.time())))
            self.proto.connection_lost(None)

    def _finish(self, delay, force=False):
        if self.proto is None or self._delivered:
            return
        if self._handle is not None:
            if not force:
                return
            self._handle.cancel()
        self._handle = self.loop.call_later(delay, self._lost)

    def close(self):
        self.calls.append(('close', int(self.loop.time())))
        self.closing = True
        if self.graceful_after is not None:
            self._finish(self.graceful_after)

    def abort(self):
        self.calls.append(('abort', int(self.loop.time())))
        self.closing = True
        self._finish(self.abort_after, force=True)

    def write(self, data):
        self.calls.append(('write', int(self.loop.time())))

    def pause_reading(self):
        pass

    def resume_reading(self):
        pass


class _Framer:
    """framer stand-in: receive_message blocks until fail(exc) is called, then raises exc"""
    def __init__(self, loop):
        self.failed = None
        self._fut = loop.create_future()

    def fail(self, exc):
        self.failed = type(exc).__name__
        if not self._fut.done():
            self._fut.set_exception(exc)

    def frame(self, m):
        return m

    def received_bytes(self, d):
        pass

    async def receive_message(self):
        return await asyncio.shield(self._fut)


class _Session:
    """session stand-in as seen by the transport: reads messages until that fails, then takes
    `linger` more seconds to end (as handlers reacting to their cancellation would); `how` makes
    message processing end in another way"""
    def __init__(self, loop, how='read', linger=0):
        self.loop = loop
        self.how = how
        self.linger = linger
        self.go = loop.create_future()

    def default_framer(self):
        return _Framer(self.loop)

    def data_received(self, data):
        pass

    async def process_messages(self, recv):
        if self.how == 'read':
            try:
                while True:
                    await recv()
            finally:
                if self.linger:
                    await asyncio.sleep(self.linger)
        await self.go                      # how in (return, other, cancel): wait for the signal
        if self.how == 'other':
            raise KeyError('x')


def _with_loop(fn):
    from harness import vloop
    loop = vloop.VLoop()
    asyncio.set_event_loop(loop)
    try:
        return fn(loop)
    finally:
        try:
            for t in asyncio.all_tasks(loop):
                t.cancel()
            loop.run_until_complete(asyncio.sleep(0))
        except BaseException:      # noqa
            pass
        asyncio.set_event_loop(None)
        loop.close()


def _make(mod, clsname, kind, loop, stub, how='read', linger=0):
    sess = _Session(loop, how, linger)
    framer = _Framer(loop)
    proto = getattr(mod, clsname)(lambda transport: sess, framer, kind)
    stub.proto = proto
    proto.connection_made(stub)
    return proto, sess, framer


def lost_table(mod, clsname, kind):
    """connection_lost(None) with the send buffer full or not: is the framer failed with
    ConnectionLostError, is a blocked writer released"""
    rows = []
    for paused in (False, True):
        def go(loop, paused=paused):
            stub = _Stub(loop)
            proto, _sess, framer = _make(mod, clsname, kind, loop, stub)
            out = {}

            async def main():
                if paused:
                    proto.pause_writing()
                w = loop.create_task(proto.write(b'm'))
                await asyncio.sleep(1)
                out['blocked_before'] = not w.done()
                proto.connection_lost(None)
                await asyncio.sleep(1)
                out['released'] = w.done()
                if not w.done():
                    w.cancel()
            loop.run_until_complete(main())
            return {'paused': paused, 'blocked_before': out['blocked_before'],
                    'framer_failed': framer.failed, 'writer_released': out['released']}
        rows.append(_with_loop(go))
    return rows


def closing_table(mod, clsname, kind):
    """is_closing() for (message processing ended, asyncio transport closing)"""
    rows = []
    for closed in (False, True):
        for tclosing in (False, True):
            def go(loop, closed=closed, tclosing=tclosing):
                stub = _Stub(loop)
                proto, sess, _framer = _make(mod, clsname, kind, loop, stub, how='return')

                async def main():
                    if closed:
                        sess.go.set_result(None)
                    await asyncio.sleep(1)
                    # (the repaired transport aborts a transport whose message processing ended
                    # without a loss; this table is about is_closing() alone)
                    stub.closing = tclosing
                    return bool(proto.is_closing())
                return {'closed': closed, 'transport_closing': tclosing,
                        'result': loop.run_until_complete(main())}
            rows.append(_with_loop(go))
    return rows


CLOSE_SCENARIOS = [
    # (already closed, graceful close completes after .. s (None = never), force_after,
    #  the caller is cancelled after .. s (None = not))
    (True, None, 7, None), (False, 0, 7, None), (False, 3, 7, None), (False, 9, 7, None),
    (False, None, 7, None), (False, None, 1, None), (False, None, 7, 3),
]


def close_table(mod, clsname, kind):
    """run the real close(force_after) on the virtual loop"""
    rows = []
    for already, graceful, fa, cancel_at in CLOSE_SCENARIOS:
        def go(loop, already=already, graceful=graceful, fa=fa, cancel_at=cancel_at):
            stub = _Stub(loop, graceful_after=graceful, abort_after=0)
            proto, _sess, _framer = _make(mod, clsname, kind, loop, stub, linger=2)
            out = {}

            async def main():
                if already:
                    stub.closing = True
                    proto.connection_lost(None)
                    await asyncio.sleep(5)
                mark = len(stub.calls)
                t0 = out['t0'] = int(loop.time())
                t = loop.create_task(proto.close(fa))
                if cancel_at is not None:
                    loop.call_later(cancel_at, t.cancel)
                try:
                    await asyncio.wait_for(asyncio.shield(t), 500)
                    out['returned_at'] = int(loop.time()) - t0
                    out['raised'] = None
                except asyncio.TimeoutError:
                    out['returned_at'] = None
                    out['raised'] = None
                    t.cancel()
                except asyncio.CancelledError:
                    out['returned_at'] = None
                    out['raised'] = 'CancelledError'
                except Exception as e:     # noqa
                    out['returned_at'] = None
                    out['raised'] = type(e).__name__
                await asyncio.sleep(30)
                out['calls'] = stub.calls[mark:]
            loop.run_until_complete(main())
            first_abort = None
            for c, when in out['calls']:
                if c == 'connection_lost':
                    break
                if c == 'abort':
                    first_abort = when - out['t0']
                    break
            return {'already': already, 'graceful': graceful, 'force_after': fa,
                    'cancel_at': cancel_at, 'first_abort': first_abort,
                    'closes': len([1 for c, _ in out['calls'] if c == 'close']),
                    'returned_at': out['returned_at'], 'raised': out['raised']}
        rows.append(_with_loop(go))
    return rows


def no_transport(mod, clsname, kind):
    """close()/abort() before connection_made: nothing to do, must simply return"""
    def go(loop):
        proto = getattr(mod, clsname)(lambda t: _Session(loop), _Framer(loop), kind)
        res = []
        for name, args in (('close', (7,)), ('abort', ())):
            async def main(name=name, args=args):
                await asyncio.wait_for(getattr(proto, name)(*args), 100)
                return True
            try:
                res.append(bool(loop.run_until_complete(main())))
            except Exception:      # noqa
                res.append(False)
        return res
    return _with_loop(go)


def process_messages_table(mod, clsname, kind):
    """message processing (the task started by connection_made) ends because the session's
    process_messages returns / raises ConnectionLostError (the connection is lost) / raises
    another exception / is cancelled: is the transport closed afterwards (is_closing() with an
    asyncio transport that is not closing), how does the task end, was the asyncio transport
    aborted"""
    rows = []
    for how in ('return', 'cle', 'other', 'cancel'):
        def go(loop, how=how):
            stub = _Stub(loop, abort_after=1000)
            before = set(asyncio.all_tasks(loop))
            proto, sess, _framer = _make(mod, clsname, kind, loop, stub,
                                         how='read' if how == 'cle' else how)

            async def main():
                tasks = [t for t in asyncio.all_tasks(loop)
                         if t not in before and t is not asyncio.current_task()]
                await asyncio.sleep(1)
                if how == 'cle':
                    proto.connection_lost(None)
                elif how == 'cancel':
                    for t in tasks:
                        t.cancel()
                else:
                    sess.go.set_result(None)
                await asyncio.sleep(1)
                outcome = 'pending'
                for t in tasks:
                    if t.done():
                        if t.cancelled():
                            outcome = 'cancelled'
                        elif t.exception() is not None:
                            outcome = type(t.exception()).__name__
                        else:
                            outcome = 'returned'
                aborted = any(c == 'abort' for c, _ in stub.calls)
                stub.closing = False
                return {'how': how, 'closed': bool(proto.is_closing()), 'outcome': outcome,
                        'aborted': aborted}
            return loop.run_until_complete(main())
        rows.append(_with_loop(go))
    return rows


class _T:
    """transport stand-in as seen by a session"""
    def __init__(self, kind):
        self.kind = kind
        self.calls = []
        self.written = 0

    async def write(self, message):
        self.written += 1

    async def close(self, force_after):
        self.calls.append(('close', force_after))

    async def abort(self):
        self.calls.append(('abort',))

    def is_closing(self):
        return False

    def proxy(self):
        return None

    def remote_address(self):
        return None


class _Fail(Exception):
    pass


def hook_table(sess):
    """`process_messages(recv)` of the real sessions with a `recv` that raises at once (as the
    transports' does after a loss) / raises something else / never returns and the task is
    cancelled: how often does the `connection_lost` hook run?"""
    rows = []
    for clsname in ('RPCSession', 'MessageSession'):
        for how in ('fail', 'other', 'cancel'):
            def go(loop, how=how, clsname=clsname):
                calls = []

                class Sess(getattr(sess, clsname)):
                    async def connection_lost(self):
                        calls.append(1)
                        await super().connection_lost()
                s = Sess(_T(sess.SessionKind.SERVER))

                async def recv():
                    if how == 'fail':
                        raise _Fail()
                    if how == 'other':
                        raise KeyError('x')
                    await loop.create_future()

                async def main():
                    t = loop.create_task(s.process_messages(recv))
                    await asyncio.sleep(1)
                    if how == 'cancel':
                        t.cancel()
                    try:
                        await asyncio.wait_for(t, 100)
                    except BaseException:     # noqa
                        pass
                loop.run_until_complete(main())
                return {'session': clsname, 'how': how, 'hook_runs': len(calls)}
            rows.append(_with_loop(go))
    return rows


def rpc_hook_table(sess):
    """RPCSession.connection_lost(): what happens to request futures that are answered / pending
    / already cancelled"""
    def go(loop):
        s = sess.RPCSession(_T(sess.SessionKind.SERVER))
        jr = common.fresh_import(_REPO[0], 'aiorpcx.jsonrpc')
        futs = []
        for i in range(3):
            _m, f = s.connection.send_request(jr.Request('m', [i]))
            futs.append(f)
        futs[0].set_result(1)
        futs[2].cancel()

        async def main():
            await s.connection_lost()
        loop.run_until_complete(main())
        return ['pending' if not f.done() else 'cancelled' if f.cancelled() else 'result'
                for f in futs]
    return _with_loop(go)


def request_timeout_table(sess):
    """send_request that is never answered: outcome and instant, with the class default
    sent_request_timeout and with the attribute set to 7"""
    rows = []
    for override in (None, 7):
        def go(loop, override=override):
            class Sess(sess.RPCSession):
                pass
            if override is not None:
                Sess.sent_request_timeout = override
            s = Sess(_T(sess.SessionKind.SERVER))

            async def main():
                try:
                    await asyncio.wait_for(s.send_request('m'), 10000)
                    return 'returned'
                except asyncio.TimeoutError:
                    return 'never'
                except Exception as e:     # noqa
                    return type(e).__name__
            out = loop.run_until_complete(main())
            return {'override': override, 'outcome': out, 'at_ms': int(round(loop.time() * 1000))}
        rows.append(_with_loop(go))
    return rows


def outgoing_limit(sess):
    """how many of 60 simultaneous send_request calls are written before any is answered"""
    def go(loop):
        tr = _T(sess.SessionKind.SERVER)
        s = sess.RPCSession(tr)

        async def main():
            ts = [loop.create_task(s.send_request('m', [i])) for i in range(60)]
            await asyncio.sleep(1)
            n = tr.written
            for t in ts:
                t.cancel()
            await asyncio.sleep(0)
            return n
        return loop.run_until_complete(main())
    return _with_loop(go)


def session_close_table(sess):
    """SessionBase.close(): what reaches transport.close with force_after=5 and by default"""
    def go(loop):
        tr = _T(sess.SessionKind.SERVER)
        s = sess.RPCSession(tr)

        async def main():
            await s.close(force_after=5)
            await s.close()
            await s.abort()
        loop.run_until_complete(main())
        return tr.calls
    return _with_loop(go)


def cancel_table(jr):
    """cancel_pending_requests on a connection with one answered, one pending, one already
    cancelled request and one pending batch"""
    def go(loop):
        conn = jr.JSONRPCConnection(jr.JSONRPCv2)
        futs = []
        for i in range(3):
            _m, f = conn.send_request(jr.Request('m', [i]))
            futs.append(f)
        _m, fb = conn.send_batch(jr.Batch([jr.Request('a', []), jr.Request('b', [])]))
        futs.append(fb)
        futs[0].set_result(1)
        futs[2].cancel()
        conn.cancel_pending_requests()
        after = []
        for f in futs:
            if not f.done():
                after.append('pending')
            elif f.cancelled():
                after.append('cancelled')
            else:
                after.append('result')
        return {'after': after, 'left': len(conn.pending_requests())}
    return _with_loop(go)


_REPO = [None]


def extract(repo):
    logging.disable(logging.CRITICAL)
    _REPO[0] = repo
    try:
        rs = common.fresh_import(repo, 'aiorpcx.rawsocket')
        us = common.fresh_import(repo, 'aiorpcx.unixsocket')
        sess = common.fresh_import(repo, 'aiorpcx.session')
        jr = common.fresh_import(repo, 'aiorpcx.jsonrpc')
        kind = sess.SessionKind.SERVER
        sc = session_close_table(sess)
        closes = [c[1] for c in sc if c[0] == 'close']
        facts = {
            'lost_rs': lost_table(rs, 'RSTransport', kind),
            'lost_us': lost_table(us, 'USTransport', kind),
            'closing_rs': closing_table(rs, 'RSTransport', kind),
            'closing_us': closing_table(us, 'USTransport', kind),
            'close_rs': close_table(rs, 'RSTransport', kind),
            'close_us': close_table(us, 'USTransport', kind),
            'no_transport_rs': no_transport(rs, 'RSTransport', kind),
            'no_transport_us': no_transport(us, 'USTransport', kind),
            'pm_rs': process_messages_table(rs, 'RSTransport', kind),
            'pm_us': process_messages_table(us, 'USTransport', kind),
            'hook_table': hook_table(sess),
            'rpc_hook': rpc_hook_table(sess),
            'cancel_table': cancel_table(jr),
            'request_timeout': request_timeout_table(sess),
            'outgoing_limit': outgoing_limit(sess),
            'session_close': [list(c) for c in sc],
            'default_force_after': closes[1] if len(closes) > 1 else None,
            'sent_request_timeout': float(sess.RPCSession.sent_request_timeout),
            'processing_timeout': float(sess.SessionBase.processing_timeout),
        }
    finally:
        logging.disable(logging.NOTSET)
    facts['fingerprints'] = common.fingerprints(repo, {
        'aiorpcx/rawsocket.py': ['RSTransport.__init__', 'RSTransport.process_messages',
                                 'RSTransport.receive_message', 'RSTransport.connection_made',
                                 'RSTransport.connection_lost', 'RSTransport.data_received',
                                 'RSTransport.close', 'RSTransport.abort', 'RSTransport.is_closing'],
        'aiorpcx/unixsocket.py': ['USTransport.__init__', 'USTransport.process_messages',
                                  'USTransport.receive_message', 'USTransport.connection_made',
                                  'USTransport.connection_lost', 'USTransport.data_received',
                                  'USTransport.close', 'USTransport.abort', 'USTransport.is_closing'],
        'aiorpcx/session.py': ['SessionBase.__init__', 'SessionBase._process_messages',
                               'SessionBase.process_messages', 'SessionBase.close',
                               'SessionBase.abort', 'SessionBase.is_closing',
                               'SessionBase.connection_lost', 'SessionBase._send_message',
                               'MessageSession._process_messages_loop',
                               'MessageSession._throttled_message',
                               'RPCSession._process_messages_loop', 'RPCSession._throttled_request',
                               'RPCSession._send_concurrent', 'RPCSession.connection_lost',
                               'RPCSession.send_request', 'BatchRequest.__aexit__'],
        'aiorpcx/jsonrpc.py': ['JSONRPCConnection.cancel_pending_requests',
                               'JSONRPCConnection._future', 'JSONRPCConnection.send_request',
                               'JSONRPCConnection._receive_response'],
        'aiorpcx/curio.py': ['TaskGroup._on_done', 'TaskGroup._add_task', 'TaskGroup.spawn',
                             'TaskGroup.next_done', 'TaskGroup.join', 'TaskGroup._cancel_tasks',
                             'TaskGroup.cancel_remaining', 'TaskGroup.__aexit__',
                             'TimeoutAfter.__aenter__', 'TimeoutAfter.__aexit__',
                             '_set_new_deadline', '_set_task_deadline', '_unset_task_deadline'],
        'aiorpcx/framing.py': ['NewlineFramer.fail', 'NewlineFramer.receive_message',
                               'ByteQueue.fail', 'ByteQueue.receive', 'BitcoinFramer.fail'],
    })
    return facts


# ------------------------------------------------------------------------------- rendering
def _b(x):
    return 'true' if x else 'false'


def _opt(x):
    return 'none' if x is None else f'(some {int(x)})'


def _nats(xs):
    return '[' + ', '.join(str(int(x)) for x in xs) + ']'


def _strs(xs):
    return '[' + ', '.join(f'"{x}"' for x in xs) + ']'


def _lost_rows(tab):
    return '[' + ', '.join(
        f'⟨{_b(r["paused"])}, {_b(r["blocked_before"])}, '
        f'{_b(r["framer_failed"] == "ConnectionLostError")}, {_b(r["writer_released"])}⟩'
        for r in tab) + ']'


def _closing_rows(tab):
    return '[' + ', '.join(
        f'⟨{_b(r["closed"])}, {_b(r["transport_closing"])}, {_b(r["result"])}⟩' for r in tab) + ']'


def _close_rows(tab):
    return '[\n  ' + ',\n  '.join(
        f'⟨{_b(r["already"])}, {_opt(r["graceful"])}, {r["force_after"]}, {_opt(r["cancel_at"])}, '
        f'{r["closes"]}, {_opt(r["first_abort"])}, {_opt(r["returned_at"])}, '
        f'"{r["raised"] or ""}"⟩'
        for r in tab) + ']'


def _pm_rows(tab):
    return '[' + ', '.join(
        f'⟨"{r["how"]}", {_b(r["closed"])}, "{r["outcome"]}", {_b(r["aborted"])}⟩' for r in tab) + ']'


def _ms(x):
    return max(0, int(round(float(x) * 1000)))


def render(f):
    fa = f['default_force_after']
    sc = f['session_close']
    return (
        '/-! GENERATED by tools/facts/c08.py by running the code of /repo on every check - do not edit. -/\n'
        'namespace Aiorpcx.Facts.C08\n'
        '/-- `connection_lost(None)` with the send buffer full or not: (paused, a writer was blocked\n'
        '    before, the framer was failed with ConnectionLostError, the writer is released) -/\n'
        'structure LostRow where\n  paused : Bool\n  blockedBefore : Bool\n  framerFailedCLE : Bool\n'
        '  writerReleased : Bool\n  deriving DecidableEq, Repr\n'
        f'def lostRS : List LostRow := {_lost_rows(f["lost_rs"])}\n'
        f'def lostUS : List LostRow := {_lost_rows(f["lost_us"])}\n'
        '/-- `is_closing()` for (message processing ended, asyncio transport closing) -/\n'
        'structure ClosingRow where\n  closedEvent : Bool\n  transportClosing : Bool\n  result : Bool\n'
        '  deriving DecidableEq, Repr\n'
        f'def isClosingRS : List ClosingRow := {_closing_rows(f["closing_rs"])}\n'
        f'def isClosingUS : List ClosingRow := {_closing_rows(f["closing_us"])}\n'
        '/-- the real `close(force_after)` run on the virtual loop against a stub transport whose\n'
        '    graceful close completes (connection_lost delivered) `graceful` seconds after `close()`\n'
        '    - `none` = never -, at once after `abort()`, and whose message processing takes 2 s to\n'
        '    end after the loss; `cancelAt`: the caller is cancelled after that many seconds.  Number of transport.close() calls, instant of the first\n'
        '    transport.abort() before connection_lost, instant close() returned, what it raised -/\n'
        'structure CloseRow where\n  already : Bool\n  graceful : Option Nat\n  forceAfter : Nat\n'
        '  cancelAt : Option Nat\n  closes : Nat\n  firstAbort : Option Nat\n  returnedAt : Option Nat\n'
        '  raised : String\n  deriving DecidableEq, Repr\n'
        f'def closeRS : List CloseRow := {_close_rows(f["close_rs"])}\n'
        f'def closeUS : List CloseRow := {_close_rows(f["close_us"])}\n'
        '/-- close() / abort() before connection_made return normally -/\n'
        f'def noTransportRS : List Bool := [{", ".join(_b(x) for x in f["no_transport_rs"])}]\n'
        f'def noTransportUS : List Bool := [{", ".join(_b(x) for x in f["no_transport_us"])}]\n'
        '/-- message processing ends because the session\'s process_messages returns / raises\n'
        '    ConnectionLostError / raises KeyError / is cancelled: (closed afterwards, outcome of\n'
        '    the task, asyncio transport aborted) -/\n'
        'structure PmRow where\n  how : String\n  closed : Bool\n  outcome : String\n  aborted : Bool\n'
        '  deriving DecidableEq, Repr\n'
        f'def pmRS : List PmRow := {_pm_rows(f["pm_rs"])}\n'
        f'def pmUS : List PmRow := {_pm_rows(f["pm_us"])}\n'
        '/-- `process_messages(recv)` of RPCSession (first three) and MessageSession with a recv that\n'
        '    fails / raises KeyError / the task cancelled: number of connection_lost hook runs -/\n'
        f'def hookRuns : List Nat := {_nats(r["hook_runs"] for r in f["hook_table"])}\n'
        '/-- `RPCSession.connection_lost()` on request futures [answered, pending, already cancelled] -/\n'
        f'def rpcHookAfter : List String := {_strs(f["rpc_hook"])}\n'
        '/-- `cancel_pending_requests` on [answered, pending, already cancelled, pending batch] -/\n'
        f'def cancelAfter : List String := {_strs(f["cancel_table"]["after"])}\n'
        f'def cancelLeft : Nat := {f["cancel_table"]["left"]}\n'
        '/-- an unanswered `send_request`: outcome and instant (ms), with the default\n'
        '    sent_request_timeout and with the attribute set to 7 -/\n'
        f'def requestOutcome : List String := {_strs(r["outcome"] for r in f["request_timeout"])}\n'
        f'def requestTimedOutAtMs : List Nat := {_nats(r["at_ms"] for r in f["request_timeout"])}\n'
        '/-- how many of 60 simultaneous `send_request` calls are written at once -/\n'
        f'def outgoingLimit : Nat := {int(f["outgoing_limit"])}\n'
        '/-- `session.close(force_after=5)`, `session.close()`, `session.abort()` as they reach the\n'
        '    transport; the default force_after (0 if not a number) -/\n'
        f'def sessionCloseCalls : List String := {_strs(" ".join(str(x) for x in c) for c in sc)}\n'
        f'def defaultForceAfter : Nat := {int(fa) if isinstance(fa, (int, float)) and fa >= 0 else 0}\n'
        '/-- `RPCSession.sent_request_timeout`, `SessionBase.processing_timeout`, in milliseconds -/\n'
        f'def sentRequestTimeoutMs : Nat := {_ms(f["sent_request_timeout"])}\n'
        f'def processingTimeoutMs : Nat := {_ms(f["processing_timeout"])}\n'
        'end Aiorpcx.Facts.C08\n')
