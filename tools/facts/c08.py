"""Facts for C08 (connection lifecycle), regenerated from the current tree on every run:

* decision tables obtained by *running* the real callbacks of RSTransport / USTransport on a
  stub asyncio transport: `connection_lost` (send gate opened, framer failed with
  ConnectionLostError), `is_closing` for the 4 flag combinations, `close(force_after)` and
  `abort()` in six scenarios on the virtual loop (already closed / graceful close completes after
  0, 3, 9 s with force_after 7 / never completes / no transport), `process_messages` (sets
  `_closed_event` whatever `session.process_messages` does), `SessionBase._process_messages`
  (hook runs once whatever the loop does), `cancel_pending_requests`;
* AST facts: where `_closed_event.set()` and the hook sit, which exception the receive task
  swallows, that `RPCSession.connection_lost` cancels the pending requests, that `close()`
  bounds its wait with `timeout_after(force_after)` and aborts on TaskTimeout, that
  `process_messages` runs inside `async with self._group`, that `_send_concurrent` bounds the wait
  for the response with `sent_request_timeout`;
* constants: default `force_after`, `sent_request_timeout`;
* fingerprints of every modelled function.
"""
import ast
import asyncio
import inspect
import logging

from . import common


class _Stub:
    """asyncio transport stand-in for the table runs"""
    def __init__(self, loop, closing=False, graceful_after=None, abort_after=2, proto=None):
        self.loop = loop
        self.closing = closing
        self.graceful_after = graceful_after
        self.abort_after = abort_after
        self.proto = proto
        self.calls = []
        self._armed = False

    def is_closing(self):
        return self.closing

    def get_extra_info(self, *a, **k):
        return None

    def _finish(self, delay):
        if not self._armed:
            self._armed = True
            self.loop.call_later(delay, self.proto._closed_event.set)

    def close(self):
        self.calls.append(('close', int(self.loop.time())))
        self.closing = True
        if self.graceful_after is not None:
            self._finish(self.graceful_after)

    def abort(self):
        self.calls.append(('abort', int(self.loop.time())))
        self.closing = True
        self._finish(self.abort_after)

    def write(self, data):
        self.calls.append(('write', int(self.loop.time())))

    def pause_reading(self):
        pass

    def resume_reading(self):
        pass


class _Framer:
    def __init__(self):
        self.failed = None

    def fail(self, exc):
        self.failed = type(exc).__name__

    def frame(self, m):
        return m

    def received_bytes(self, d):
        pass

    async def receive_message(self):
        await asyncio.get_event_loop().create_future()


def _with_loop(fn):
    from harness import vloop
    loop = vloop.VLoop()
    asyncio.set_event_loop(loop)
    try:
        return fn(loop)
    finally:
        asyncio.set_event_loop(None)
        loop.close()


def lost_table(mod, clsname, kind):
    def go(loop):
        rows = []
        for closing in (False, True):
            for can_send in (False, True):
                proto = getattr(mod, clsname)(lambda t: None, _Framer(), kind)
                proto._asyncio_transport = _Stub(loop, closing, proto=proto)
                if can_send:
                    proto._can_send.set()
                else:
                    proto._can_send.clear()
                proto.connection_lost(None)
                rows.append({'closing': closing, 'can_send': can_send,
                             'can_send_after': proto._can_send.is_set(),
                             'framer_failed': proto._framer.failed,
                             'closed_event_after': proto._closed_event.is_set()})
        return rows
    return _with_loop(go)


def closing_table(mod, clsname, kind):
    def go(loop):
        rows = []
        for closed in (False, True):
            for tclosing in (False, True):
                proto = getattr(mod, clsname)(lambda t: None, _Framer(), kind)
                proto._asyncio_transport = _Stub(loop, tclosing, proto=proto)
                if closed:
                    proto._closed_event.set()
                rows.append({'closed_event': closed, 'transport_closing': tclosing,
                             'result': bool(proto.is_closing())})
        return rows
    return _with_loop(go)


CLOSE_SCENARIOS = [
    # (already closed, graceful close completes after .. s (None = never), force_after)
    (True, None, 7), (False, 0, 7), (False, 3, 7), (False, 9, 7), (False, None, 7), (False, None, 1),
]


def close_table(mod, clsname, kind):
    """run the real close(force_after) on the virtual loop"""
    rows = []
    for already, graceful, fa in CLOSE_SCENARIOS:
        def go(loop, already=already, graceful=graceful, fa=fa):
            proto = getattr(mod, clsname)(lambda t: None, _Framer(), kind)
            stub = _Stub(loop, closing=already, graceful_after=graceful, abort_after=2, proto=proto)
            proto._asyncio_transport = stub
            if already:
                proto._closed_event.set()
            out = {}

            async def main():
                t = loop.create_task(proto.close(fa))
                try:
                    await asyncio.wait_for(asyncio.shield(t), 500)
                    out['returned_at'] = int(loop.time())
                    out['raised'] = None
                except asyncio.TimeoutError:
                    out['returned_at'] = None
                    out['raised'] = None
                    t.cancel()
                except Exception as e:     # noqa
                    out['returned_at'] = None
                    out['raised'] = type(e).__name__
            loop.run_until_complete(main())
            return {'already': already, 'graceful': graceful, 'force_after': fa,
                    'aborts': [t for c, t in stub.calls if c == 'abort'],
                    'closes': len([1 for c, _ in stub.calls if c == 'close']),
                    'returned_at': out['returned_at'], 'raised': out['raised']}
        rows.append(_with_loop(go))
    return rows


def no_transport(mod, clsname, kind):
    """close()/abort() before connection_made: nothing to do, must simply return"""
    def go(loop):
        proto = getattr(mod, clsname)(lambda t: None, _Framer(), kind)
        res = []
        for name, args in (('close', (7,)), ('abort', ())):
            async def main(name=name, args=args):
                await asyncio.wait_for(getattr(proto, name)(*args), 100)
                return True
            try:
                res.append(bool(loop.run_until_complete(main())))
            except Exception:      # noqa
                res.append(False)
        return res
    return _with_loop(go)


def process_messages_table(mod, clsname, kind, cle_name='ConnectionLostError'):
    """RSTransport.process_messages with a stub session whose process_messages returns / raises
    ConnectionLostError / raises another exception / is cancelled: is `_closed_event` set, and
    what comes out of the task?"""
    rows = []
    for how in ('return', 'cle', 'other', 'cancel'):
        def go(loop, how=how):
            proto = getattr(mod, clsname)(lambda t: None, _Framer(), kind)
            cle = getattr(mod, cle_name)

            class Sess:
                async def process_messages(self, recv):
                    if how == 'return':
                        return
                    if how == 'cle':
                        raise cle()
                    if how == 'other':
                        raise KeyError('x')
                    await loop.create_future()
            proto.session = Sess()

            async def main():
                t = loop.create_task(proto.process_messages())
                await asyncio.sleep(0)
                if how == 'cancel':
                    t.cancel()
                try:
                    await t
                    return 'returned'
                except asyncio.CancelledError:
                    return 'cancelled'
                except Exception as e:     # noqa
                    return type(e).__name__
            out = loop.run_until_complete(main())
            return {'how': how, 'closed_event': proto._closed_event.is_set(), 'outcome': out}
        rows.append(_with_loop(go))
    return rows


def hook_table(sess):
    """SessionBase._process_messages with a loop that returns / raises / is cancelled: how often
    does the connection_lost hook run?"""
    rows = []
    for how in ('return', 'raise', 'cancel'):
        def go(loop, how=how):
            calls = []

            class T:
                kind = sess.SessionKind.SERVER

            class S(sess.SessionBase):
                async def connection_lost(self):
                    calls.append(1)

                async def _process_messages_loop(self, recv):
                    if how == 'return':
                        return
                    if how == 'raise':
                        raise KeyError('x')
                    await loop.create_future()
            s = S(T())

            async def main():
                t = loop.create_task(s._process_messages(None))
                await asyncio.sleep(0)
                if how == 'cancel':
                    t.cancel()
                try:
                    await t
                except BaseException:     # noqa
                    pass
            loop.run_until_complete(main())
            return {'how': how, 'hook_runs': len(calls)}
        rows.append(_with_loop(go))
    return rows


def cancel_table(jr):
    """cancel_pending_requests on a connection with one answered, one pending, one already
    cancelled request and one pending batch"""
    def go(loop):
        conn = jr.JSONRPCConnection(jr.JSONRPCv2)
        futs = []
        for i in range(3):
            _m, f = conn.send_request(jr.Request('m', [i]))
            futs.append(f)
        _m, fb = conn.send_batch(jr.Batch([jr.Request('a', []), jr.Request('b', [])]))
        futs.append(fb)
        futs[0].set_result(1)
        futs[2].cancel()
        before = [('done' if f.done() else 'pending') for f in futs]
        conn.cancel_pending_requests()
        after = []
        for f in futs:
            if not f.done():
                after.append('pending')
            elif f.cancelled():
                after.append('cancelled')
            else:
                after.append('result')
        return {'before': before, 'after': after, 'left': len(conn.pending_requests())}
    return _with_loop(go)


# ------------------------------------------------------------------------------- AST facts
def _calls(node):
    out = []
    for n in ast.walk(node):
        if isinstance(n, ast.Call):
            out.append(ast.unparse(n.func))
    return out


def _handler_names(h):
    if h.type is None:
        return ['*']
    if isinstance(h.type, ast.Tuple):
        return [ast.unparse(e) for e in h.type.elts]
    return [ast.unparse(h.type)]


def closed_event_attr(tree, cls):
    """the attribute whose .set() sits in the `finally` of process_messages (`_closed_event`)"""
    node = common.find(tree, f'{cls}.process_messages')
    if node is not None:
        for n in ast.walk(node):
            if isinstance(n, ast.Try):
                for s in n.finalbody:
                    for c in _calls(s):
                        if c.startswith('self.') and c.endswith('.set') and c.count('.') == 2:
                            return c[:-len('.set')]
    return 'self.<none>'


def process_messages_shape(tree, cls):
    node = common.find(tree, f'{cls}.process_messages')
    out = {'finally_sets_closed': False, 'catches': [], 'awaits_session': False}
    if node is None:
        return out
    ev = closed_event_attr(tree, cls)
    for n in ast.walk(node):
        if isinstance(n, ast.Try):
            if any(c == ev + '.set' for s in n.finalbody for c in _calls(s)):
                out['finally_sets_closed'] = True
            for h in n.handlers:
                out['catches'] += _handler_names(h)
            if any(c == 'self.session.process_messages' for s in n.body for c in _calls(s)):
                out['awaits_session'] = True
    out['catches'] = sorted(set(out['catches']))
    return out


def close_shape(tree, cls):
    """close(): transport.close() first; the wait for _closed_event inside `async with
    timeout_after(force_after)` inside a try whose `except TaskTimeout` aborts and waits again"""
    node = common.find(tree, f'{cls}.close')
    out = {'closes_transport': False, 'bounded_wait': False, 'timeout_arg': None,
           'on_timeout_aborts': False, 'on_timeout_waits_again': False, 'catches': []}
    if node is None:
        return out
    ev = closed_event_attr(tree, cls)
    params = [a.arg for a in node.args.args]
    out['param'] = params[1] if len(params) > 1 else None
    out['closes_transport'] = 'self._asyncio_transport.close' in _calls(node)
    for n in ast.walk(node):
        if isinstance(n, ast.Try):
            for b in n.body:
                for w in ast.walk(b):
                    if isinstance(w, ast.AsyncWith):
                        for item in w.items:
                            ce = item.context_expr
                            if isinstance(ce, ast.Call) and ast.unparse(ce.func) == 'timeout_after':
                                if any(c == ev + '.wait' for s in w.body for c in _calls(s)):
                                    out['bounded_wait'] = True
                                    arg = ast.unparse(ce.args[0]) if ce.args else None
                                    out['timeout_arg'] = 'force_after' if arg == out['param'] else arg
            for h in n.handlers:
                out['catches'] += _handler_names(h)
                cs = [c for s in h.body for c in _calls(s)]
                if 'self.abort' in cs or 'self._asyncio_transport.abort' in cs:
                    out['on_timeout_aborts'] = True
                if ev + '.wait' in cs:
                    out['on_timeout_waits_again'] = True
    out['catches'] = sorted(set(out['catches']))
    return out


def hook_shape(tree):
    node = common.find(tree, 'SessionBase._process_messages')
    out = {'hook_in_finally': False, 'loop_in_try': False}
    if node is not None:
        for n in ast.walk(node):
            if isinstance(n, ast.Try):
                if any(c == 'self.connection_lost' for s in n.finalbody for c in _calls(s)):
                    out['hook_in_finally'] = True
                if any(c == 'self._process_messages_loop' for s in n.body for c in _calls(s)):
                    out['loop_in_try'] = True
    return out


def group_shape(tree):
    node = common.find(tree, 'SessionBase.process_messages')
    out = {'in_group_context': False, 'spawns_loop_in_group': False}
    if node is not None:
        for n in ast.walk(node):
            if isinstance(n, ast.AsyncWith):
                if any(ast.unparse(i.context_expr) == 'self._group' for i in n.items):
                    out['in_group_context'] = True
                    for w in ast.walk(n):
                        if isinstance(w, ast.Call) and ast.unparse(w.func).endswith('.spawn') \
                                and w.args and ast.unparse(w.args[0]) == 'self._process_messages':
                            out['spawns_loop_in_group'] = True
    return out


def spawn_sites(tree, qual):
    """do the handler tasks go into self._group?"""
    node = common.find(tree, qual)
    if node is None:
        return []
    return sorted(set(c for c in _calls(node) if c.endswith('.spawn')))


def send_concurrent_shape(tree):
    node = common.find(tree, 'RPCSession._send_concurrent')
    out = {'bounded': False, 'arg': None}
    if node is not None:
        params = [a.arg for a in node.args.args]
        fut = params[2] if len(params) > 2 else 'future'
        for n in ast.walk(node):
            if isinstance(n, ast.AsyncWith):
                for item in n.items:
                    ce = item.context_expr
                    if isinstance(ce, ast.Call) and ast.unparse(ce.func) == 'timeout_after':
                        if any(isinstance(w, ast.Await) and ast.unparse(w.value) == fut
                               for s in n.body for w in ast.walk(s)):
                            out['bounded'] = True
                            out['arg'] = ast.unparse(ce.args[0]) if ce.args else None
    return out


def extract(repo):
    logging.disable(logging.CRITICAL)
    try:
        rs = common.fresh_import(repo, 'aiorpcx.rawsocket')
        us = common.fresh_import(repo, 'aiorpcx.unixsocket')
        sess = common.fresh_import(repo, 'aiorpcx.session')
        jr = common.fresh_import(repo, 'aiorpcx.jsonrpc')
        kind = sess.SessionKind.SERVER
        t_rs = common.parse(repo, 'aiorpcx/rawsocket.py')
        t_us = common.parse(repo, 'aiorpcx/unixsocket.py')
        t_se = common.parse(repo, 'aiorpcx/session.py')
        hook_node = common.find(t_se, 'RPCSession.connection_lost')
        sig = inspect.signature(sess.SessionBase.close)
        fa = sig.parameters['force_after'].default if 'force_after' in sig.parameters else None
        facts = {
            'lost_rs': lost_table(rs, 'RSTransport', kind),
            'lost_us': lost_table(us, 'USTransport', kind),
            'closing_rs': closing_table(rs, 'RSTransport', kind),
            'closing_us': closing_table(us, 'USTransport', kind),
            'close_rs': close_table(rs, 'RSTransport', kind),
            'close_us': close_table(us, 'USTransport', kind),
            'no_transport_rs': no_transport(rs, 'RSTransport', kind),
            'no_transport_us': no_transport(us, 'USTransport', kind),
            'pm_rs': process_messages_table(rs, 'RSTransport', kind),
            'pm_us': process_messages_table(us, 'USTransport', kind),
            'hook_table': hook_table(sess),
            'cancel_table': cancel_table(jr),
            'pm_shape_rs': process_messages_shape(t_rs, 'RSTransport'),
            'pm_shape_us': process_messages_shape(t_us, 'USTransport'),
            'close_shape_rs': close_shape(t_rs, 'RSTransport'),
            'close_shape_us': close_shape(t_us, 'USTransport'),
            'hook_shape': hook_shape(t_se),
            'group_shape': group_shape(t_se),
            'rpc_spawns': spawn_sites(t_se, 'RPCSession._process_messages_loop'),
            'msg_spawns': spawn_sites(t_se, 'MessageSession._process_messages_loop'),
            'rpc_hook_cancels_pending': hook_node is not None and
            'self.connection.cancel_pending_requests' in _calls(hook_node),
            'send_concurrent': send_concurrent_shape(t_se),
            'default_force_after': fa,
            'session_close_passes_force_after': 'self.transport.close' in _calls(
                common.find(t_se, 'SessionBase.close') or ast.Module(body=[], type_ignores=[])),
            'sent_request_timeout': float(sess.RPCSession.sent_request_timeout),
        }
    finally:
        logging.disable(logging.NOTSET)
    facts['fingerprints'] = common.fingerprints(repo, {
        'aiorpcx/rawsocket.py': ['RSTransport.__init__', 'RSTransport.process_messages',
                                 'RSTransport.receive_message', 'RSTransport.connection_made',
                                 'RSTransport.connection_lost', 'RSTransport.data_received',
                                 'RSTransport.close', 'RSTransport.abort', 'RSTransport.is_closing'],
        'aiorpcx/unixsocket.py': ['USTransport.__init__', 'USTransport.process_messages',
                                  'USTransport.receive_message', 'USTransport.connection_made',
                                  'USTransport.connection_lost', 'USTransport.data_received',
                                  'USTransport.close', 'USTransport.abort', 'USTransport.is_closing'],
        'aiorpcx/session.py': ['SessionBase.__init__', 'SessionBase._process_messages',
                               'SessionBase.process_messages', 'SessionBase.close',
                               'SessionBase.abort', 'SessionBase.is_closing',
                               'SessionBase.connection_lost', 'SessionBase._send_message',
                               'MessageSession._process_messages_loop',
                               'MessageSession._throttled_message',
                               'RPCSession._process_messages_loop', 'RPCSession._throttled_request',
                               'RPCSession._send_concurrent', 'RPCSession.connection_lost',
                               'RPCSession.send_request', 'BatchRequest.__aexit__'],
        'aiorpcx/jsonrpc.py': ['JSONRPCConnection.cancel_pending_requests',
                               'JSONRPCConnection._future', 'JSONRPCConnection.send_request',
                               'JSONRPCConnection._receive_response'],
        'aiorpcx/curio.py': ['TaskGroup._on_done', 'TaskGroup._add_task', 'TaskGroup.spawn',
                             'TaskGroup.next_done', 'TaskGroup.join', 'TaskGroup._cancel_tasks',
                             'TaskGroup.cancel_remaining', 'TaskGroup.__aexit__',
                             'TimeoutAfter.__aenter__', 'TimeoutAfter.__aexit__',
                             '_set_new_deadline', '_set_task_deadline', '_unset_task_deadline'],
        'aiorpcx/framing.py': ['NewlineFramer.fail', 'NewlineFramer.receive_message',
                               'ByteQueue.fail', 'ByteQueue.receive', 'BitcoinFramer.fail'],
    })
    return facts


# ------------------------------------------------------------------------------- rendering
def _b(x):
    return 'true' if x else 'false'


def _opt(x):
    return 'none' if x is None else f'(some {int(x)})'


def _nats(xs):
    return '[' + ', '.join(str(int(x)) for x in xs) + ']'


def _lost_rows(tab):
    return '[\n  ' + ',\n  '.join(
        f'⟨{_b(r["closing"])}, {_b(r["can_send"])}, {_b(r["can_send_after"])}, '
        f'{_b(r["framer_failed"] == "ConnectionLostError")}, {_b(r["closed_event_after"])}⟩'
        for r in tab) + ']'


def _closing_rows(tab):
    return '[' + ', '.join(
        f'⟨{_b(r["closed_event"])}, {_b(r["transport_closing"])}, {_b(r["result"])}⟩' for r in tab) + ']'


def _close_rows(tab):
    return '[\n  ' + ',\n  '.join(
        f'⟨{_b(r["already"])}, {_opt(r["graceful"])}, {r["force_after"]}, {r["closes"]}, '
        f'{_nats(r["aborts"])}, {_opt(r["returned_at"])}, {_b(r["raised"] is None)}⟩'
        for r in tab) + ']'


def _pm_rows(tab):
    return '[' + ', '.join(
        f'⟨"{r["how"]}", {_b(r["closed_event"])}, "{r["outcome"]}"⟩' for r in tab) + ']'


def _strs(xs):
    return '[' + ', '.join(f'"{x}"' for x in xs) + ']'


def render(f):
    ps, pu = f['pm_shape_rs'], f['pm_shape_us']
    cs, cu = f['close_shape_rs'], f['close_shape_us']
    fa = f['default_force_after']
    return (
        '/-! GENERATED by tools/facts/c08.py from /repo on every run - do not edit. -/\n'
        'namespace Aiorpcx.Facts.C08\n'
        '/-- `connection_lost(None)` run on a stub: (transport closing, `_can_send` before,\n'
        '    `_can_send` after, framer failed with ConnectionLostError, `_closed_event` set by it) -/\n'
        'structure LostRow where\n  closing : Bool\n  canSend : Bool\n  canSendAfter : Bool\n'
        '  framerFailedCLE : Bool\n  closedEventAfter : Bool\n  deriving DecidableEq, Repr\n'
        f'def lostRS : List LostRow := {_lost_rows(f["lost_rs"])}\n'
        f'def lostUS : List LostRow := {_lost_rows(f["lost_us"])}\n'
        '/-- `is_closing()` for (`_closed_event` set, asyncio transport closing) -/\n'
        'structure ClosingRow where\n  closedEvent : Bool\n  transportClosing : Bool\n  result : Bool\n'
        '  deriving DecidableEq, Repr\n'
        f'def isClosingRS : List ClosingRow := {_closing_rows(f["closing_rs"])}\n'
        f'def isClosingUS : List ClosingRow := {_closing_rows(f["closing_us"])}\n'
        '/-- the real `close(force_after)` run on the virtual loop against a stub transport whose\n'
        '    graceful close completes (`_closed_event` set) `graceful` seconds after `close()` -\n'
        '    `none` = never - and 2 s after `abort()`: number of transport.close() calls, instants\n'
        '    of transport.abort(), instant close() returned, and that it did not raise -/\n'
        'structure CloseRow where\n  already : Bool\n  graceful : Option Nat\n  forceAfter : Nat\n'
        '  closes : Nat\n  aborts : List Nat\n  returnedAt : Option Nat\n  noRaise : Bool\n'
        '  deriving DecidableEq, Repr\n'
        f'def closeRS : List CloseRow := {_close_rows(f["close_rs"])}\n'
        f'def closeUS : List CloseRow := {_close_rows(f["close_us"])}\n'
        '/-- close() / abort() before connection_made return normally -/\n'
        f'def noTransportRS : List Bool := [{", ".join(_b(x) for x in f["no_transport_rs"])}]\n'
        f'def noTransportUS : List Bool := [{", ".join(_b(x) for x in f["no_transport_us"])}]\n'
        '/-- `process_messages()` run with a session whose process_messages returns / raises\n'
        '    ConnectionLostError / raises KeyError / is cancelled: (`_closed_event` set, outcome) -/\n'
        'structure PmRow where\n  how : String\n  closedEvent : Bool\n  outcome : String\n'
        '  deriving DecidableEq, Repr\n'
        f'def pmRS : List PmRow := {_pm_rows(f["pm_rs"])}\n'
        f'def pmUS : List PmRow := {_pm_rows(f["pm_us"])}\n'
        '/-- `SessionBase._process_messages` with a loop that returns / raises / is cancelled:\n'
        '    number of connection_lost hook runs -/\n'
        f'def hookRuns : List Nat := {_nats(r["hook_runs"] for r in f["hook_table"])}\n'
        '/-- `cancel_pending_requests` on [answered, pending, already cancelled, pending batch] -/\n'
        f'def cancelAfter : List String := {_strs(f["cancel_table"]["after"])}\n'
        f'def cancelLeft : Nat := {f["cancel_table"]["left"]}\n'
        '/-- AST: `process_messages` has `finally: self._closed_event.set()`, awaits\n'
        '    `self.session.process_messages` in the try, and catches exactly these -/\n'
        f'def pmFinallySetsClosedRS : Bool := {_b(ps["finally_sets_closed"] and ps["awaits_session"])}\n'
        f'def pmFinallySetsClosedUS : Bool := {_b(pu["finally_sets_closed"] and pu["awaits_session"])}\n'
        f'def pmCatchesRS : List String := {_strs(ps["catches"])}\n'
        f'def pmCatchesUS : List String := {_strs(pu["catches"])}\n'
        '/-- the `_closed_event` flags of the four `process_messages` runs -/\n'
        f'def pmClosedRS : List Bool := [{", ".join(_b(r["closed_event"]) for r in f["pm_rs"])}]\n'
        f'def pmClosedUS : List Bool := [{", ".join(_b(r["closed_event"]) for r in f["pm_us"])}]\n'
        '/-- AST: close() = transport.close(); try: async with timeout_after(force_after): await\n'
        '    _closed_event.wait(); except TaskTimeout: abort; await _closed_event.wait() -/\n'
        f'def closeShapeRS : Bool := {_b(cs["closes_transport"] and cs["bounded_wait"] and cs["timeout_arg"] == "force_after" and cs["on_timeout_aborts"] and cs["on_timeout_waits_again"] and cs["catches"] == ["TaskTimeout"])}\n'
        f'def closeShapeUS : Bool := {_b(cu["closes_transport"] and cu["bounded_wait"] and cu["timeout_arg"] == "force_after" and cu["on_timeout_aborts"] and cu["on_timeout_waits_again"] and cu["catches"] == ["TaskTimeout"])}\n'
        '/-- AST: `_process_messages` = try: loop; finally: await self.connection_lost() -/\n'
        f'def hookInFinally : Bool := {_b(f["hook_shape"]["hook_in_finally"] and f["hook_shape"]["loop_in_try"])}\n'
        '/-- AST: `process_messages` spawns `_process_messages` inside `async with self._group` -/\n'
        f'def loopInGroup : Bool := {_b(f["group_shape"]["in_group_context"] and f["group_shape"]["spawns_loop_in_group"])}\n'
        '/-- AST: both message loops spawn their handlers into `self._group` only -/\n'
        f'def handlersInGroup : Bool := {_b(f["rpc_spawns"] == ["self._group.spawn"] and f["msg_spawns"] == ["self._group.spawn"])}\n'
        '/-- AST: `RPCSession.connection_lost` calls `self.connection.cancel_pending_requests()` -/\n'
        f'def rpcHookCancelsPending : Bool := {_b(f["rpc_hook_cancels_pending"])}\n'
        '/-- AST: `_send_concurrent` awaits the future inside `timeout_after(self.sent_request_timeout)` -/\n'
        f'def requestWaitBounded : Bool := {_b(f["send_concurrent"]["bounded"] and f["send_concurrent"]["arg"] == "self.sent_request_timeout")}\n'
        '/-- `SessionBase.close(*, force_after=..)` default (0 if absent / not a number), and that it\n'
        '    hands over to `transport.close` -/\n'
        f'def defaultForceAfter : Nat := {int(fa) if isinstance(fa, (int, float)) and fa >= 0 else 0}\n'
        f'def sessionCloseDelegates : Bool := {_b(f["session_close_passes_force_after"])}\n'
        '/-- `RPCSession.sent_request_timeout`, in milliseconds -/\n'
        f'def sentRequestTimeoutMs : Nat := {max(0, int(round(f["sent_request_timeout"] * 1000)))}\n'
        'end Aiorpcx.Facts.C08\n')
