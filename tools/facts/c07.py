"""Facts for C07 (Bitcoin framer + MessageSession error policy), regenerated from the current
tree on every run.

Everything here is *behavioural*: the real classes are RUN through their public surface
(`BitcoinFramer(magic=, max_block_size=)`, `max_payload_size`, `frame`, `received_bytes`,
`receive_message`, the three exception classes, `MessageSession` on a fake transport) over small
grids, and what they did is written down as tables; `Props.lean` proves that the model
reproduces every row.  No private name (`_pad_command`, `_unpack`, `_build_header`, `_checksum`,
`_receive_header`, `_bump_errors`, ...), no struct format string and no source shape is read; the
`ast` module is used for the fingerprints only (they merely select the exploration depth).

  sizeFirst   which error a header with wrong magic AND over-limit length raises
  frameTable  frame((cmd, payload)) for commands of 0..14 bytes (leading / embedded / trailing
              NUL), several payload sizes and magics, long commands before short ones on ONE
              framer instance; fake-length payloads probe the 2^32 boundary of the length field
  recvGrid    successive receive_message() outcomes on ~580 one-item streams (every raw command
              field variant x every declared length 0..limit+2 x 3 limit configurations, good
              and bad checksum, truncated; every single-bit corruption of the magic, also
              combined with an over-limit length), followed by a tail message
  sessTable   a MessageSession fed every sequence of <= 3 items of the kinds valid / bad
              checksum / bad magic / oversize (+ a final valid message), with the transport
              reporting the loss at once / after 2.5 ms / never: errors, close requested?,
              messages that reached handle_message
"""
import asyncio
import hashlib
import itertools
import logging

from . import common

FRAMING = 'aiorpcx/framing.py'
SESSION = 'aiorpcx/session.py'
GRID_MAGIC = bytes.fromhex('a1b2c3d4')
GRID_CFGS = [(5, 9), (9, 5), (0, 3)]            # (max_payload_size, max_block_size)
# raw 12-byte command fields: plain, prefix / extension of b'block', empty, case, NUL in front /
# inside / NUL then a byte at the very end, no NUL at all
GRID_FIELDS = [b'block', b'blocks', b'bloc', b'', b'Block', b'\0block', b'blo\0ck',
               b'block\0\0\0\0\0\0x', b'blockblockbl', b'x']
CODE = {'BadMagicError': 1, 'OversizedPayloadError': 2, 'BadChecksumError': 3}
G_NEVER = 1000000


def dsha4(p):
    return hashlib.sha256(hashlib.sha256(p).digest()).digest()[:4]


def mk_header(magic, field, n, ck):
    return magic + field.ljust(12, b'\0') + n.to_bytes(4, 'little') + ck


def mk_frame(magic, field, payload):
    return mk_header(magic, field, len(payload), dsha4(payload)) + payload


def _run(coro):
    from harness import vloop
    return vloop.run(coro)


def _enc(out):
    """outcome -> (code, cmd, payload); 0 delivered, 1/2/3 the three errors, 9 anything else"""
    res = []
    for o in out:
        if o[0] == 'M':
            res.append((0, list(o[1]), list(o[2])))
        elif o[0] == 'E':
            res.append((CODE[o[1]], [], []))
        else:
            res.append((9, [], []))
    return res


def _payload_candidates(stream):
    """every byte string the decoder could be asked to checksum on this stream, whatever it
    decides at each header (both continuations are followed)"""
    out, seen, todo = set(), set(), [0]
    while todo:
        pos = todo.pop()
        if pos in seen or len(stream) - pos < 24:
            continue
        seen.add(pos)
        n = int.from_bytes(stream[pos + 16:pos + 20], 'little')
        todo.append(pos + 24)
        if len(stream) - pos - 24 >= n:
            out.add(stream[pos + 24:pos + 24 + n])
            todo.append(pos + 24 + n)
    return out


def recv_streams():
    rows = []
    tail = mk_frame(GRID_MAGIC, b'tl', b'\x07')
    for mp, mb in GRID_CFGS:
        top = max(mp, mb) + 2
        for field in GRID_FIELDS:
            for n in range(0, top + 1):
                payload = bytes((3 * i + n + 1) % 256 for i in range(n))
                rows.append((mp, mb, mk_frame(GRID_MAGIC, field, payload) + tail))
        for field in (b'block', b'x'):
            for n in (0, 1, mp, mb):
                payload = bytes((5 * i + n + 2) % 256 for i in range(n))
                ck = bytes([dsha4(payload)[0] ^ 1]) + dsha4(payload)[1:]
                rows.append((mp, mb, mk_header(GRID_MAGIC, field, n, ck) + payload + tail))
                # truncated: one byte short of the declared payload; header alone; 23 bytes
                rows.append((mp, mb, (mk_frame(GRID_MAGIC, field, payload + b'\x09'))[:-1]))
        rows.append((mp, mb, mk_frame(GRID_MAGIC, b'x', b'')[:23]))
        # declared lengths far beyond the limits (all 32 bits of the field count, unsigned)
        for field in (b'block', b'x'):
            for n in (255, 256, 65536, 2 ** 31 - 1, 2 ** 31, 2 ** 32 - 1):
                rows.append((mp, mb, mk_header(GRID_MAGIC, field, n, bytes(4)) + tail))
        # wrong magic, alone and together with an over-limit length (order of the two tests)
        for bit in range(32):
            m = bytearray(GRID_MAGIC)
            m[bit // 8] ^= 1 << (bit % 8)
            for n in (0, top):
                rows.append((mp, mb, mk_header(bytes(m), b'block', n, dsha4(b'')) + tail))
    return rows


def large_rows():
    """(payload size, cut positions, stream, sent): a large message, a small one and an empty
    one; the chunk that completes the large payload ends at the frame boundary -1 / 0 / +1"""
    rows = []
    for n in (65535, 65536, 65537, 200000):
        payload = bytes((i * 11 + n) % 253 for i in range(n))
        sent = [(b'big', payload), (b'next', b'1'), (b'last', b'')]
        stream = b''.join(mk_frame(GRID_MAGIC, c, p) for c, p in sent)
        end = 24 + n
        for pre in ([24], list(range(16384, end - 1, 16384))):
            for d in (-1, 0, 1):
                rows.append((n, [c for c in pre if c < end + d] + [end + d], stream, sent))
    return rows


def _cut(stream, cuts):
    out, start = [], 0
    for c in cuts:
        out.append(stream[start:c])
        start = c
    out.append(stream[start:])
    return out


def _desc(out):
    """outcomes as (code, command, payload length, payload checksum): enough to tell whether a
    payload came out intact without writing it down"""
    res = []
    for o in out:
        if o[0] == 'M':
            res.append((0, list(o[1]), len(o[2]), list(dsha4(o[2]))))
        else:
            res.append((CODE.get(o[1], 9) if o[0] == 'E' else 9, [], 0, []))
    return res


def _frame_calls():
    """(magic, [(cmd, payload), ...]) - the calls are made in this order on ONE framer per magic
    (a long command directly before a shorter one)"""
    cmds = [b'', b'a', b'ab', b'version', b'getheaders', b'123456789012', b'ab', b'1234567890123',
            b'12345678901234', b'\0', b'\0a', b'a\0', b'a\0b', b'ab\0\0', b'\0' * 12, b'x' * 11 + b'\0',
            b'\0' * 13, b'block', b'']
    payloads = [b'', b'\x01', b'\x01\x02\x03', bytes(range(256)) + b'\x00\x01']
    calls = []
    for i, c in enumerate(cmds):
        calls.append((c, payloads[i % len(payloads)]))
    calls.append((b'verack', b''))
    calls.append((b'tx', bytes(70)))
    return [(GRID_MAGIC, calls), (b'abc', calls[:6]), (b'', calls[:3]), (b'12345', calls[:3])]


class FakeLen(bytes):
    """bytes whose len() lies: lets frame() be asked for a 4 GiB payload without having one"""
    fake = 0

    def __len__(self):
        return self.fake


def _exc_code(e):
    if isinstance(e, ValueError):
        return 1
    if type(e).__name__ == 'error' and type(e).__module__ in ('struct', '_struct'):
        return 2
    return 3


def frame_table(framing):
    rows = []
    for magic, calls in _frame_calls():
        fr = framing.BitcoinFramer(magic=magic)
        for cmd, payload in calls:
            try:
                rows.append((magic, cmd, payload, 0, bytes(fr.frame((cmd, payload)))))
            except Exception as e:      # noqa
                rows.append((magic, cmd, payload, _exc_code(e), b''))
    return rows


def pack_probe(framing):
    """(n, code, frame bytes) for payloads that claim len() == n; [] when frame() does not take
    the length from len() (then the 2^32 boundary cannot be probed without 4 GiB of data)"""
    fr = framing.BitcoinFramer(magic=GRID_MAGIC)

    def call(n):
        p = FakeLen(b'')
        p.fake = n
        try:
            return 0, bytes(fr.frame((b'p', p)))
        except Exception as e:      # noqa
            return _exc_code(e), b''
    code, b = call(0x04030201)
    if code != 0 or b[16:20] != bytes([1, 2, 3, 4]):
        return []
    rows = []
    for k in (8, 16, 24, 31, 32, 33, 40):
        for n in (2 ** k - 1, 2 ** k):
            code, b = call(n)
            rows.append((n, code, b))
    return rows


SESS_LIMITS = (4, 4)
LATE = 0.0025
PROBE_FATALS = 40


def _sess_items():
    return {
        'm': lambda i: mk_frame(GRID_MAGIC, b'm%d' % i, bytes([i, i])),
        'c': lambda i: mk_header(GRID_MAGIC, b'c%d' % i, 1, bytes(4)) + b'\x55',
        # (commands that are not valid UTF-8 / ASCII: the handlers must cope with any bytes)
        'g': lambda i: mk_header(b'\xa1\xb2\xc3\xd5', b'g\xff%d' % i, 0, dsha4(b'')),
        's': lambda i: mk_header(GRID_MAGIC, b'\xfes%d' % i, 5, bytes(4)),
    }


def grace_probe_stream():
    """PROBE_FATALS bad-magic headers and a valid message: how many of them does a session count
    before the transport has reported the loss?"""
    items = _sess_items()
    return b''.join(items['g'](i % 10) for i in range(PROBE_FATALS)) + mk_frame(GRID_MAGIC, b'end', b'')


def session_streams(g_soon, g_late):
    """(mp, mb, lose, g, stream); items keep the framer in sync (no payload behind a rejected
    header)"""
    mp, mb = SESS_LIMITS
    items = _sess_items()
    seqs = [''.join(t) for k in (1, 2, 3) for t in itertools.product('mcgs', repeat=k)]
    seqs += ['gggg', 'sgsgs', 'mgmsmgm', 'ssssss']
    rows = []
    for seq in seqs:
        stream = b''.join(items[k](i) for i, k in enumerate(seq)) + mk_frame(GRID_MAGIC, b'end', b'')
        for lose, g in ((0, g_soon), (LATE, g_late), (None, G_NEVER)):
            rows.append((mp, mb, lose, g, stream))
    return rows


def extract(repo):
    from harness import c07_fake
    logging.disable(logging.CRITICAL)
    framing = common.fresh_import(repo, 'aiorpcx.framing')
    session = common.fresh_import(repo, 'aiorpcx.session')
    rawsocket = common.fresh_import(repo, 'aiorpcx.rawsocket')
    mods = (framing, session, rawsocket)

    # ---- defaults of BitcoinFramer(): the magic is what frame() puts in front; the two limits
    # are found by bisection on the declared length the default framer still accepts
    fr = framing.BitcoinFramer()
    empty = bytes(fr.frame((b'', b'')))
    default_magic = empty[:-20] if len(empty) >= 20 else b''

    async def accepts(cmd, n):
        out = await c07_fake.recv_outcomes(
            framing, framing.BitcoinFramer(), [mk_header(default_magic, cmd, n, dsha4(b''))])
        return not (out and out[0] == ('E', 'OversizedPayloadError'))

    async def threshold(cmd):
        """largest declared length accepted for `cmd` (acceptance is downward closed)"""
        if not await accepts(cmd, 0):
            return 0
        lo, hi = 0, 2 ** 32 - 1
        if await accepts(cmd, hi):
            return hi
        while hi - lo > 1:
            mid = (lo + hi) // 2
            if await accepts(cmd, mid):
                lo = mid
            else:
                hi = mid
        return lo

    async def probes():
        if not await c07_fake.limit_takes_effect(framing):
            raise c07_fake.ProbeError('setting max_payload_size on a BitcoinFramer instance '
                                      'does not move the limit')
        # which test wins on a header that fails both
        both = mk_header(b'\xa1\xb2\xc3\xd5', b'x', 100, bytes(4))
        o = await c07_fake.recv_outcomes(framing, c07_fake.new_framer(framing, GRID_MAGIC, 5, 9), [both])
        first = o[0] if o else ('X', 'nothing')
        grid = []
        for mp, mb, stream in recv_streams():
            out = await c07_fake.recv_outcomes(
                framing, c07_fake.new_framer(framing, GRID_MAGIC, mp, mb), [stream])
            grid.append((mp, mb, stream, _enc(out)))
        # how many further magic/size errors the loop processes before a loss that is reported
        # at once / LATE seconds after close() reaches it (it sleeps a little after each one):
        # measured, not assumed - the text says nothing about that timing
        grace = {}
        for lose in (0, LATE):
            obs = await c07_fake.sess_observe(
                mods, c07_fake.new_framer(framing, GRID_MAGIC, *SESS_LIMITS), [grace_probe_stream()],
                kind='client', lose=lose)
            grace[lose] = G_NEVER if obs['errors'] >= PROBE_FATALS else max(0, obs['errors'] - 1)
        large = []
        for n, cuts, stream, sent in large_rows():
            out = await c07_fake.recv_outcomes(
                framing, c07_fake.new_framer(framing, GRID_MAGIC, 300000, 300000), _cut(stream, cuts))
            large.append((n, cuts, _desc([('M', c, p) for c, p in sent]), _desc(out)))
        sess = []
        for mp, mb, lose, g, stream in session_streams(grace[0], grace[LATE]):
            outs = await c07_fake.recv_outcomes(
                framing, c07_fake.new_framer(framing, GRID_MAGIC, mp, mb), [stream])
            obs = await c07_fake.sess_observe(
                mods, c07_fake.new_framer(framing, GRID_MAGIC, mp, mb), [stream],
                kind='client', lose=lose)
            sess.append((g, _enc(outs), obs['errors'], obs['closed'],
                         [(list(c), list(p)) for c, p in obs['delivered']]))
        _proto, fake, dsess = c07_fake.connect(rawsocket, session.MessageSession, None,
                                               session.SessionKind.CLIENT, None)
        dflt = type(dsess.default_framer()).__name__
        fake.abort()
        await asyncio.sleep(0.01)
        return first, grid, sess, grace, await threshold(b'x'), await threshold(b'block'), dflt, large
    first, grid, sess, grace, mp_default, mb_default, default_framer, large = _run(probes())

    ftab = frame_table(framing)
    pprobe = pack_probe(framing)
    payloads = set()
    for _mp, _mb, stream, _o in grid:
        payloads |= _payload_candidates(stream)
    for _m, _c, p, _code, _b in ftab:
        payloads.add(bytes(p))
    payloads.add(b'')
    ck_table = sorted((p, dsha4(p)) for p in payloads)
    classes = {k: getattr(framing, k, None) for k in CODE}
    return {
        'size_first': first == ('E', 'OversizedPayloadError'),
        'both_wrong_outcome': list(first),
        'default_magic': list(default_magic),
        'max_payload_size': mp_default if isinstance(mp_default, int) else 0,
        'max_block_size': mb_default if isinstance(mb_default, int) else 0,
        'grid_magic': list(GRID_MAGIC),
        'ck_table': [(list(p), list(c)) for p, c in ck_table],
        'recv_grid': [(mp, mb, list(s), o) for mp, mb, s, o in grid],
        'frame_table': [(list(m), list(c), list(p), code, list(b)) for m, c, p, code, b in ftab],
        'pack_probe': [(n, code, list(b)) for n, code, b in pprobe],
        'sess_table': sess,
        'large_table': large,
        'g_never': G_NEVER,
        'g_soon': grace[0],
        'g_late': grace[LATE],
        'late_delay': LATE,
        'costs': {k: getattr(c, 'cost', None) for k, c in classes.items()},
        'default_framer': default_framer,
        # whole classes: a drift (also an extracted helper) selects the deeper exploration
        'fingerprints': common.fingerprints(repo, {
            FRAMING: ['ByteQueue', 'BinaryFramer', 'BitcoinFramer', 'double_sha256', 'sha256'],
            SESSION: ['MessageSession', 'SessionBase._bump_errors']}),
    }


def _bool(b):
    return 'true' if b else 'false'


def _outs(outs):
    return '[' + ', '.join(f'({k}, {lb(c)}, {lb(p)})' for k, c, p in outs) + ']'


def lb(b):
    """bytes as a Lean term: `bytes! "<hex>"` (Aiorpcx/Common/BytesLit.lean assembles the list
    literal directly; the ordinary list-literal / numeral elaborators need about a millisecond
    per byte)"""
    return f'bytes! "{bytes(b).hex()}"'


def render(f):
    cks = ',\n  '.join(f'({lb(p)}, {lb(c)})' for p, c in f['ck_table'])
    grid = ',\n  '.join(f'({mp}, {mb}, {lb(s)}, {_outs(o)})' for mp, mb, s, o in f['recv_grid'])
    frames = ',\n  '.join(f'({lb(m)}, {lb(c)}, {lb(p)}, {code}, {lb(b)})'
                          for m, c, p, code, b in f['frame_table'])
    packs = ',\n  '.join(f'({n}, {code}, {lb(b)})' for n, code, b in f['pack_probe'])
    sess = ',\n  '.join(
        f'({g}, {_outs(o)}, {e}, {_bool(cl)}, [' + ', '.join(f'({lb(c)}, {lb(p)})' for c, p in d) + '])'
        for g, o, e, cl, d in f['sess_table'])
    dsc = lambda ds: '[' + ', '.join(f'({k}, {lb(c)}, {n}, {lb(ck)})' for k, c, n, ck in ds) + ']'
    larges = ',\n  '.join(f'({n}, {cuts}, {dsc(sent)}, {dsc(out)})' for n, cuts, sent, out in f['large_table'])
    costs = f['costs']
    cost_ok = all(isinstance(v, (int, float)) and v == int(v) and v >= 0 for v in costs.values())
    cost_list = [int(costs[k]) for k in ('BadMagicError', 'OversizedPayloadError', 'BadChecksumError')] \
        if cost_ok else []
    return (
        'import Aiorpcx.Common.BytesLit\n'
        '/-! GENERATED by tools/facts/c07.py from /repo on every run - do not edit.\n'
        '    Every table was obtained by RUNNING the real classes through their public API. -/\n'
        'namespace Aiorpcx.Facts.C07\n'
        'set_option maxRecDepth 100000\n'
        '/-- a header with wrong magic AND an over-limit length raised `OversizedPayloadError`\n'
        '    (false: `BadMagicError`) -/\n'
        f'def sizeFirst : Bool := {_bool(f["size_first"])}\n'
        '/-- `BitcoinFramer().frame((b"", b""))` without its last 20 bytes -/\n'
        f'def defaultMagic : List UInt8 := {lb(f["default_magic"])}\n'
        '/-- largest declared length `BitcoinFramer()` accepts for an ordinary command / for `block`\n'
        '    (found by bisection on the running code) -/\n'
        f'def maxPayloadSize : Nat := {f["max_payload_size"]}\n'
        f'def maxBlockSize : Nat := {f["max_block_size"]}\n'
        f'def gridMagic : List UInt8 := {lb(f["grid_magic"])}\n'
        '/-- (payload, first four bytes of its double SHA-256 computed with hashlib) for every byte\n'
        '    string that can be checksummed on the streams / messages below -/\n'
        f'noncomputable def ckTable : List (List UInt8 × List UInt8) := [\n  {cks}]\n'
        '/-- (max_payload_size, max_block_size, stream, outcomes of successive `receive_message()`\n'
        '    calls of a `BitcoinFramer(magic=gridMagic)` fed the stream); an outcome is\n'
        '    (0, command, payload) delivered / (1,_,_) BadMagicError / (2,_,_) OversizedPayloadError /\n'
        '    (3,_,_) BadChecksumError / (9,_,_) anything else -/\n'
        f'noncomputable def recvGrid : List (Nat × Nat × List UInt8 × List (Nat × List UInt8 × List UInt8)) := [\n  {grid}]\n'
        '/-- (magic, command, payload, code, bytes): `BitcoinFramer(magic=magic).frame((command,\n'
        '    payload))` returned `bytes` (code 0) / raised ValueError (1) / struct.error (2) /\n'
        '    something else (3); consecutive rows of one magic were calls on the same instance -/\n'
        f'noncomputable def frameTable : List (List UInt8 × List UInt8 × List UInt8 × Nat × List UInt8) := [\n  {frames}]\n'
        '/-- (n, code, bytes): `frame((b"p", payload))` for a payload whose `len()` is n (and whose\n'
        '    content is empty); empty when frame() does not consult `len()` -/\n'
        f'noncomputable def packProbe : List (Nat × Nat × List UInt8) := [\n  {packs}]\n'
        '/-- how many further magic/size errors a session counted (on a stream of 40 of them) before\n'
        '    a loss reported at once / 2.5 ms after `close()` reached its read loop (measured: the\n'
        '    property text says nothing about this timing); gNever stands for "all of them" -/\n'
        f'def gSoon : Nat := {f["g_soon"]}\n'
        f'def gLate : Nat := {f["g_late"]}\n'
        f'def gNever : Nat := {f["g_never"]}\n'
        '/-- (g, outcomes of the framer alone on the stream, `session.errors`, transport closing?,\n'
        '    messages that reached `handle_message`) for a `MessageSession` on a fake transport that\n'
        '    reports the loss at once (g = gSoon), 2.5 ms after `close()` (g = gLate) or not before\n'
        '    `abort()` (g = gNever) -/\n'
        'noncomputable def sessTable : List (Nat × List (Nat × List UInt8 × List UInt8) × Nat × Bool ×\n'
        f'    List (List UInt8 × List UInt8)) := [\n  {sess}]\n'
        '/-- (payload size n, cut positions, what was sent, outcomes): frames of a payload of n bytes, a\n'
        '    1-byte and an empty payload, cut so that the chunk completing the large payload ends at\n'
        '    the frame boundary -1 / 0 / +1; messages as (0, command, payload length, payload checksum),\n'
        '    errors as (1|2|3|9, [], 0, []) -/\n'
        'noncomputable def largeTable : List (Nat × List Nat × List (Nat × List UInt8 × Nat × List UInt8) ×\n'
        f'    List (Nat × List UInt8 × Nat × List UInt8)) := [\n  {larges}]\n'
        '/-- `cost` attributes of BadMagicError, OversizedPayloadError, BadChecksumError\n'
        '    (parameters; no theorem depends on their values) -/\n'
        f'def costs : List Nat := {cost_list}\n'
        f'def defaultFramerIsBitcoin : Bool := {_bool(f["default_framer"] == "BitcoinFramer")}\n'
        'end Aiorpcx.Facts.C07\n')
