"""Facts for C07 (Bitcoin framer + MessageSession error policy), regenerated from the current
tree on every run.  Everything is a *semantic normal form*: struct layouts are read from the
live `Struct` objects, the size/magic decisions are tabulated by running the real
`_receive_header` on a small grid of headers, the `except` ladder of
`MessageSession._process_messages_loop` is resolved against the live exception classes."""
import ast
import hashlib
import re
import struct

from . import common

FRAMING = 'aiorpcx/framing.py'
SESSION = 'aiorpcx/session.py'
GRID_MAGIC = bytes.fromhex('a1b2c3d4')
GRID_CFGS = [(5, 9), (9, 5), (0, 3)]            # (max_payload_size, max_block_size)
GRID_CMDS = [b'block', b'blocks', b'bloc', b'', b'Block', b'block\0\0']


def _fmt_items(fmt):
    """'<4s12sI4s' -> ('<', [(4,'s'),(12,'s'),(1,'I'),(4,'s')])"""
    order = fmt[0] if fmt and fmt[0] in '@=<>!' else '@'
    body = fmt[1:] if fmt and fmt[0] in '@=<>!' else fmt
    items = [(int(n) if n else 1, c) for n, c in re.findall(r'(\d*)([a-zA-Z?])', body)]
    return order, items


def _drive(coro):
    """Run a coroutine on the virtual loop; a coroutine that would wait forever is reported as
    the string 'blocked' (never waits in real time)."""
    from harness import vloop
    try:
        return vloop.run(coro)
    except (vloop.Deadlock, vloop.Livelock):
        return 'blocked'


def _header_outcome(framing, mp, mb, header):
    """0 returned, 1 BadMagicError, 2 OversizedPayloadError, 4 would block, 5 anything else"""
    async def go():
        cls = type('GridFramer', (framing.BitcoinFramer,), {'max_payload_size': mp})
        fr = cls(magic=GRID_MAGIC, max_block_size=mb)
        fr.received_bytes(header)
        try:
            await fr._receive_header()
            return 0
        except framing.BadMagicError:
            return 1
        except framing.OversizedPayloadError:
            return 2
    try:
        r = _drive(go())
    except Exception:
        return 5
    return 4 if r == 'blocked' else r


def _names(node):
    if node is None:
        return ['BaseException']
    if isinstance(node, ast.Tuple):
        return [n for e in node.elts for n in _names(e)]
    if isinstance(node, ast.Name):
        return [node.id]
    if isinstance(node, ast.Attribute):
        return [node.attr]
    return ['?']


def _is_close_ref(n):
    return isinstance(n, ast.Attribute) and n.attr == 'close'


def _handler_facts(body):
    bumps, closes, leaves = 0, 0, 0
    for st in body:
        for n in ast.walk(st):
            if isinstance(n, ast.Call) and isinstance(n.func, ast.Attribute):
                if n.func.attr == '_bump_errors':
                    bumps += 1
                elif n.func.attr == 'close':
                    closes += 1
                elif n.func.attr == 'spawn' and any(
                        _is_close_ref(a) or (isinstance(a, ast.Call) and _is_close_ref(a.func))
                        for a in n.args):
                    closes += 1
            if isinstance(n, (ast.Break, ast.Return, ast.Raise)):
                leaves += 1
    return bumps, closes, leaves


def _ladder(repo, framing, session):
    tree = common.parse(repo, SESSION)
    fn = common.find(tree, 'MessageSession._process_messages_loop')
    out = {'found': False}
    if fn is None:
        return out
    loops = [n for n in ast.walk(fn) if isinstance(n, ast.While)]
    trys = [n for n in ast.walk(fn) if isinstance(n, ast.Try)
            and any(isinstance(c, ast.Call) and isinstance(c.func, ast.Name)
                    and c.func.id == 'recv_message' for s in n.body for c in ast.walk(s))]
    if len(trys) != 1:
        return out
    t = trys[0]
    out['found'] = True
    out['loop_forever'] = any(
        isinstance(l.test, ast.Constant) and l.test.value is True and t in list(ast.walk(l))
        for l in loops)
    ns = vars(session)
    resolved = []
    for h in t.handlers:
        classes = [ns.get(n) for n in _names(h.type)]
        resolved.append([c for c in classes if isinstance(c, type)])
    arms = {}
    for key, cls in (('badMagic', framing.BadMagicError),
                     ('oversized', framing.OversizedPayloadError),
                     ('badChecksum', framing.BadChecksumError)):
        idx = next((i for i, cs in enumerate(resolved) if any(issubclass(cls, c) for c in cs)),
                   None)
        if idx is None:
            arms[key] = {'handler': -1, 'bumps': 0, 'closes': 0, 'leaves': 0, 'unpack': -1}
        else:
            b, c, l = _handler_facts(t.handlers[idx].body)
            arms[key] = {'handler': idx, 'bumps': b, 'closes': c, 'leaves': l,
                         'unpack': _unpack_arity(t.handlers[idx])}
    out['arms'] = arms
    out['catches_generic'] = any(issubclass(Exception, c) for cs in resolved for c in cs)
    # else branch: the received message is handed to _throttled_message / handle_message
    eb, ec, el = _handler_facts(t.orelse)
    spawned = [n for s in t.orelse for n in ast.walk(s)
               if isinstance(n, ast.Call) and isinstance(n.func, ast.Attribute)
               and n.func.attr == '_throttled_message']
    out['else'] = {'bumps': eb, 'closes': ec, 'leaves': el, 'throttled_calls': len(spawned)}
    tm = common.find(tree, 'MessageSession._throttled_message')
    out['throttled_calls_handle_message'] = sum(
        1 for n in ast.walk(tm) if isinstance(n, ast.Call) and isinstance(n.func, ast.Attribute)
        and n.func.attr == 'handle_message') if tm is not None else 0
    return out


def _raise_arities(repo):
    """number of positional arguments at each `raise <Class>(...)` site in framing.py"""
    tree = common.parse(repo, FRAMING)
    out = {}
    for n in ast.walk(tree):
        if isinstance(n, ast.Raise) and isinstance(n.exc, ast.Call) and isinstance(n.exc.func, ast.Name):
            out.setdefault(n.exc.func.id, set()).add(len(n.exc.args))
    return {k: sorted(v) for k, v in out.items()}


def _unpack_arity(handler):
    """length of the tuple `e.args` is unpacked into inside the handler (-1: not unpacked)"""
    name = handler.name
    for st in handler.body:
        for n in ast.walk(st):
            if isinstance(n, ast.Assign) and isinstance(n.value, ast.Attribute) and n.value.attr == 'args' \
                    and isinstance(n.value.value, ast.Name) and n.value.value.id == name \
                    and len(n.targets) == 1 and isinstance(n.targets[0], (ast.Tuple, ast.List)):
                return len(n.targets[0].elts)
    return -1


def _bump_increment(session):
    class Stub:
        errors = 0
        error_base_cost = session.SessionBase.error_base_cost
        delta = None

        def bump_cost(self, d):
            self.delta = d
    s = Stub()
    session.SessionBase._bump_errors(s, None)
    return s.errors


def extract(repo):
    framing = common.fresh_import(repo, 'aiorpcx.framing')
    session = common.fresh_import(repo, 'aiorpcx.session')
    tree = common.parse(repo, FRAMING)
    fr = framing.BitcoinFramer()
    unpack_fmt = fr._unpack.__self__.format
    order, items = _fmt_items(unpack_fmt)
    pack_fmt = framing.pack_le_uint32.__self__.format

    def pack_ok(n):
        try:
            framing.pack_le_uint32(n)
            return True
        except struct.error:
            return False
    pack_max_ok = max([n for k in range(0, 70) for n in (2 ** k - 1, 2 ** k) if pack_ok(n)],
                      default=0)
    pack_first_bad = min([n for k in range(0, 70) for n in (2 ** k - 1, 2 ** k) if not pack_ok(n)],
                         default=0)

    def pad(c):
        try:
            return fr._pad_command(c)
        except ValueError:
            return 'ValueError'
    pad_ok = [n for n in range(0, 40) if pad(b'x' * n) != 'ValueError']
    pad_sample = pad(b'ab')
    samples = [b'', b'a', b'hello world', bytes(range(256))]
    ck_is_dsha = all(fr._checksum(p) == hashlib.sha256(hashlib.sha256(p).digest()).digest()[:4]
                     for p in samples)
    ck_len = sorted({len(fr._checksum(p)) for p in samples})
    # literals of _receive_header
    rh = common.find(tree, 'BitcoinFramer._receive_header')
    rstrip_args, bytes_literals, recv_sizes = [], [], []
    if rh is not None:
        for n in ast.walk(rh):
            if isinstance(n, ast.Call) and isinstance(n.func, ast.Attribute):
                if n.func.attr == 'rstrip':
                    rstrip_args += [list(a.value) for a in n.args
                                    if isinstance(a, ast.Constant) and isinstance(a.value, bytes)]
                if n.func.attr == 'receive':
                    recv_sizes += [a.value for a in n.args if isinstance(a, ast.Constant)]
            if isinstance(n, ast.Compare):
                for c in [n.left] + n.comparators:
                    if isinstance(c, ast.Constant) and isinstance(c.value, bytes):
                        bytes_literals.append(list(c.value))
    # decision grid of the real _receive_header
    grid = []
    for mp, mb in GRID_CFGS:
        top = max(mp, mb) + 2
        for cmd in GRID_CMDS:
            for n in range(0, top + 1):
                h = GRID_MAGIC + cmd.ljust(12, b'\0') + n.to_bytes(4, 'little') + b'\x11\x22\x33\x44'
                grid.append((mp, mb, list(h), _header_outcome(framing, mp, mb, h)))
        # wrong magic, with and without an over-limit length (order of the two tests)
        for bit in range(32):
            m = bytearray(GRID_MAGIC)
            m[bit // 8] ^= 1 << (bit % 8)
            for n in (0, top):
                h = bytes(m) + b'block'.ljust(12, b'\0') + n.to_bytes(4, 'little') + bytes(4)
                grid.append((mp, mb, list(h), _header_outcome(framing, mp, mb, h)))
    # a header built by the real code, field by field
    gf = framing.BitcoinFramer(magic=GRID_MAGIC)
    sample_payload = b'\x01\x02\x03'
    sample_header = gf._build_header(b'ver', sample_payload)
    sample_ck = gf._checksum(sample_payload)
    classes = {'badMagic': framing.BadMagicError, 'oversized': framing.OversizedPayloadError,
               'badChecksum': framing.BadChecksumError}
    return {
        'unpack_format': unpack_fmt,
        'unpack_order': order,
        'unpack_items': items,
        'unpack_item_sizes': [struct.calcsize(order + (str(n) if c == 's' else '') + c) * (1 if c == 's' else n)
                              for n, c in items],
        'unpack_size': fr._unpack.__self__.size,
        'pack_format': pack_fmt,
        'pack_max_ok': pack_max_ok,
        'pack_first_bad': pack_first_bad,
        'pack_sample': list(framing.pack_le_uint32(0x04030201)),
        'default_magic': list(fr._magic),
        'max_payload_size': framing.BitcoinFramer.max_payload_size,
        'max_block_size': fr._max_block_size,
        'pad_ok_lengths': pad_ok,
        'pad_sample': list(pad_sample) if pad_sample != 'ValueError' else [],
        'checksum_is_double_sha256_4': ck_is_dsha,
        'checksum_lengths': ck_len,
        'rstrip_args': rstrip_args,
        'compare_literals': bytes_literals,
        'header_receive_sizes': recv_sizes,
        'grid_magic': list(GRID_MAGIC),
        'grid': grid,
        'sample_header': list(sample_header),
        'sample_frame': list(gf.frame((b'ver', sample_payload))),
        'raise_arities': _raise_arities(repo),
        'sample_checksum': list(sample_ck),
        'sample_payload': list(sample_payload),
        'ladder': _ladder(repo, framing, session),
        'errors_per_bump': _bump_increment(session),
        'costs': {k: getattr(c, 'cost', None) for k, c in classes.items()},
        'error_base_cost': session.SessionBase.error_base_cost,
        'exception_bases': {k: [b.__name__ for b in c.__mro__[1:-1]] for k, c in classes.items()},
        'default_framer': type(session.MessageSession.default_framer(None)).__name__,
        'fingerprints': common.fingerprints(repo, {
            FRAMING: ['ByteQueue.__init__', 'ByteQueue.receive', 'BinaryFramer.__init__',
                      'BinaryFramer.frame', 'BinaryFramer.receive_message',
                      'BitcoinFramer.__init__', 'BitcoinFramer._checksum',
                      'BitcoinFramer._build_header', 'BitcoinFramer._receive_header',
                      'double_sha256', 'sha256'],
            SESSION: ['MessageSession._process_messages_loop', 'MessageSession._throttled_message',
                      'SessionBase._bump_errors']}),
    }


def _bool(b):
    return 'true' if b else 'false'


def _arm(a):
    return f'({a["handler"]}, {a["bumps"]}, {a["closes"]}, {a["leaves"]})'


def render(f):
    lb = common.lean_bytes
    items = ', '.join(f"({n}, '{c}')" for n, c in f['unpack_items'])
    grid = ',\n  '.join(f'({mp}, {mb}, {lb(h)}, {code})' for mp, mb, h, code in f['grid'])
    lad = f['ladder']
    arms = lad.get('arms') or {k: {'handler': -1, 'bumps': 0, 'closes': 0, 'leaves': 0, 'unpack': -1}
                               for k in ('badMagic', 'oversized', 'badChecksum')}
    els = lad.get('else') or {'bumps': 0, 'closes': 0, 'leaves': 0, 'throttled_calls': 0}
    costs = f['costs']
    cost_ok = all(isinstance(v, (int, float)) and v == int(v) and v >= 0 for v in costs.values())
    cost_list = [int(costs[k]) for k in ('badMagic', 'oversized', 'badChecksum')] if cost_ok else []
    single = lambda xs: xs[0] if len(xs) == 1 else []
    ar = lambda k: f['raise_arities'].get(k, [])
    return (
        '/-! GENERATED by tools/facts/c07.py from /repo on every run - do not edit. -/\n'
        'namespace Aiorpcx.Facts.C07\n'
        f'/-- byte order character of the `Struct` behind `BitcoinFramer()._unpack` -/\n'
        f"def unpackOrder : Char := '{f['unpack_order']}'\n"
        f'/-- its items as (repeat count, format code) -/\n'
        f'def unpackItems : List (Nat × Char) := [{items}]\n'
        f'/-- bytes occupied by each item -/\n'
        f'def unpackItemSizes : List Nat := {f["unpack_item_sizes"]}\n'
        f'def unpackSize : Nat := {f["unpack_size"]}\n'
        f'/-- sizes passed to `byte_queue.receive(<literal>)` in `_receive_header` -/\n'
        f'def headerReceiveSizes : List Nat := {[x for x in f["header_receive_sizes"] if isinstance(x, int)]}\n'
        f'/-- `pack_le_uint32`: format string is `<I` -/\n'
        f'def packIsLE32 : Bool := {_bool(f["pack_format"] == "<I")}\n'
        f'/-- largest probed `n` (2^k-1, 2^k) that packs, smallest that raises `struct.error` -/\n'
        f'def packMaxOk : Nat := {f["pack_max_ok"]}\n'
        f'def packFirstBad : Nat := {f["pack_first_bad"]}\n'
        f'/-- `pack_le_uint32(0x04030201)` -/\n'
        f'def packSample : List UInt8 := {lb(f["pack_sample"])}\n'
        f'def defaultMagic : List UInt8 := {lb(f["default_magic"])}\n'
        f'def maxPayloadSize : Nat := {f["max_payload_size"]}\n'
        f'def maxBlockSize : Nat := {f["max_block_size"]}\n'
        f'/-- command lengths `_pad_command` accepts (probed 0..39) -/\n'
        f'def padOkLengths : List Nat := {f["pad_ok_lengths"]}\n'
        f'/-- `_pad_command(b"ab")` -/\n'
        f'def padSample : List UInt8 := {lb(f["pad_sample"])}\n'
        f'/-- `_checksum(p) == sha256(sha256(p))[:4]` on the probe payloads -/\n'
        f'def checksumIsDoubleSha4 : Bool := {_bool(f["checksum_is_double_sha256_4"])}\n'
        f'def checksumLengths : List Nat := {f["checksum_lengths"]}\n'
        f'/-- the argument of `command.rstrip(..)` -/\n'
        f'def rstripArg : List UInt8 := {lb(single(f["rstrip_args"]))}\n'
        f'/-- the bytes literal the command is compared with -/\n'
        f'def blockLiteral : List UInt8 := {lb(single(f["compare_literals"]))}\n'
        f'def gridMagic : List UInt8 := {lb(f["grid_magic"])}\n'
        f'/-- (max_payload_size, max_block_size, 24 header bytes, outcome of the real\n'
        f'    `_receive_header`: 0 returned, 1 BadMagicError, 2 OversizedPayloadError) -/\n'
        f'def grid : List (Nat × Nat × List UInt8 × Nat) := [\n  {grid}]\n'
        f'/-- `BitcoinFramer(magic=gridMagic)._build_header(b"ver", samplePayload)` -/\n'
        f'def sampleHeader : List UInt8 := {lb(f["sample_header"])}\n'
        f'/-- `BitcoinFramer(magic=gridMagic).frame((b"ver", samplePayload))` -/\n'
        f'def sampleFrame : List UInt8 := {lb(f["sample_frame"])}\n'
        f'def samplePayload : List UInt8 := {lb(f["sample_payload"])}\n'
        f'def sampleChecksum : List UInt8 := {lb(f["sample_checksum"])}\n'
        f'/-- `MessageSession._process_messages_loop`: the try around `recv_message()` was found,\n'
        f'    sits in `while True`, and no handler catches plain `Exception` -/\n'
        f'def ladderFound : Bool := {_bool(lad.get("found"))}\n'
        f'def loopForever : Bool := {_bool(lad.get("loop_forever"))}\n'
        f'def catchesGeneric : Bool := {_bool(lad.get("catches_generic"))}\n'
        f'/-- per raised class: (index of the first handler that catches it or -1, number of\n'
        f'    `_bump_errors` calls, number of close requests, number of break/return/raise) -/\n'
        f'def armBadMagic : Int × Nat × Nat × Nat := {_arm(arms["badMagic"])}\n'
        f'def armOversized : Int × Nat × Nat × Nat := {_arm(arms["oversized"])}\n'
        f'def armBadChecksum : Int × Nat × Nat × Nat := {_arm(arms["badChecksum"])}\n'
        f'/-- per class: (numbers of arguments at its `raise` sites in framing.py, length of the\n'
        f'    tuple the handler unpacks `e.args` into, -1 if it does not) -/\n'
        f'def argsBadMagic : List Nat × Int := ({ar("BadMagicError")}, {arms["badMagic"].get("unpack", -1)})\n'
        f'def argsOversized : List Nat × Int := ({ar("OversizedPayloadError")}, {arms["oversized"].get("unpack", -1)})\n'
        f'def argsBadChecksum : List Nat × Int := ({ar("BadChecksumError")}, {arms["badChecksum"].get("unpack", -1)})\n'
        f'/-- else branch: (bumps, closes, leaves, calls of `_throttled_message`) -/\n'
        f'def armElse : Nat × Nat × Nat × Nat := ({els["bumps"]}, {els["closes"]}, {els["leaves"]}, {els["throttled_calls"]})\n'
        f'def throttledCallsHandleMessage : Nat := {lad.get("throttled_calls_handle_message", 0)}\n'
        f'/-- `self.errors` after one `_bump_errors` on a fresh object -/\n'
        f'def errorsPerBump : Nat := {f["errors_per_bump"]}\n'
        f'/-- `cost` attributes of BadMagicError, OversizedPayloadError, BadChecksumError\n'
        f'    (parameters; no theorem depends on their values) -/\n'
        f'def costs : List Nat := {cost_list}\n'
        f'def defaultFramerIsBitcoin : Bool := {_bool(f["default_framer"] == "BitcoinFramer")}\n'
        'end Aiorpcx.Facts.C07\n')
