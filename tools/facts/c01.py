"""Facts for C01 (request/response matching in JSONRPCConnection).

Behavioural normal forms read from the *current* tree: the id counter (start, step), which id
types each protocol's `_message_id` admits, whether a bool id can select a request, which
exception an unhashable / unsortable id ends in, `allow_batches`, the sort key of
`_receive_response_batch` (AST) and fingerprints of every modelled function."""
import ast
import asyncio
import json

from . import common

ID_SAMPLES = [('int', 1), ('float', 1.5), ('str', 'a'), ('null', None), ('bool', True),
              ('list', [1]), ('dict', {'a': 1})]
PROTOS = ['JSONRPCv1', 'JSONRPCv2', 'JSONRPCLoose']

FUNCS = {
    'aiorpcx/jsonrpc.py': [
        'JSONRPCConnection.__init__', 'JSONRPCConnection._receive_response',
        'JSONRPCConnection._receive_response_batch', 'JSONRPCConnection._future',
        'JSONRPCConnection.send_request', 'JSONRPCConnection.send_batch',
        'JSONRPCConnection.receive_message', 'JSONRPCConnection.cancel_pending_requests',
        'JSONRPCConnection.pending_requests', 'JSONRPC._process_response', 'JSONRPC._error',
        'JSONRPC.message_to_item', 'JSONRPC.batch_message',
        'JSONRPCv1._message_id', 'JSONRPCv2._message_id', 'JSONRPCLoose',
        'JSONRPCAutoDetect.detect_protocol', 'ProtocolError.__init__'],
    'aiorpcx/session.py': [
        'RPCSession.send_request', 'RPCSession._send_concurrent', 'RPCSession.send_batch',
        'RPCSession.connection_lost', 'BatchRequest.__aexit__', 'BatchRequest.add_request',
        'BatchRequest.add_notification', 'BatchError.__init__'],
}


def _exc_name(fn):
    try:
        fn()
        return 'none'
    except Exception as e:   # noqa
        return type(e).__name__


def _sort_key_facts(tree):
    node = common.find(tree, 'JSONRPCConnection._receive_response_batch')
    out = {'sorted_calls': 0, 'key_index': -1, 'reverse': False}
    if node is None:
        return out
    for n in ast.walk(node):
        if isinstance(n, ast.Call) and isinstance(n.func, ast.Name) and n.func.id == 'sorted':
            out['sorted_calls'] += 1
            for kw in n.keywords:
                if kw.arg == 'reverse' and not (isinstance(kw.value, ast.Constant)
                                                and kw.value.value is False):
                    out['reverse'] = True
                if kw.arg == 'key' and isinstance(kw.value, ast.Lambda):
                    body = kw.value.body
                    if isinstance(body, ast.Subscript) and isinstance(body.slice, ast.Constant) \
                            and isinstance(body.slice.value, int):
                        out['key_index'] = body.slice.value
    return out


def extract(repo):
    jr = common.fresh_import(repo, 'aiorpcx.jsonrpc')
    tree = common.parse(repo, 'aiorpcx/jsonrpc.py')
    facts = {}
    loop = asyncio.new_event_loop()
    asyncio.set_event_loop(loop)
    try:
        # ---- id counter: ids seen in the messages of 3 singles, a batch, 1 single
        ids = []
        try:
            conn = jr.JSONRPCConnection(jr.JSONRPCv2)
            for _ in range(3):
                msg, _f = conn.send_request(jr.Request('m', []))
                ids.append(json.loads(msg)['id'])
            msg, _f = conn.send_batch(jr.Batch([jr.Request('a', []), jr.Notification('n', []),
                                                jr.Request('b', [])]))
            ids += [p['id'] for p in json.loads(msg) if 'id' in p]
            msg, _f = conn.send_request(jr.Request('m', []))
            ids.append(json.loads(msg)['id'])
        except Exception:   # noqa: no usable id sequence on this tree
            ids = []
        good = len(ids) == 6 and all(isinstance(i, int) and not isinstance(i, bool) for i in ids)
        diffs = {b - a for a, b in zip(ids, ids[1:])} if good else {0}
        facts['id_start'] = ids[0] if good and ids[0] >= 0 else 0
        facts['id_step'] = diffs.pop() if len(diffs) == 1 and min(diffs) > 0 else 0
        facts['ids_seen'] = ids
        # ---- which id values _message_id admits (in a response)
        table = {}
        for pname in PROTOS:
            proto = getattr(jr, pname)
            row = []
            for _tname, val in ID_SAMPLES:
                payload = {'jsonrpc': '2.0', 'id': val, 'result': 1, 'error': None}
                row.append(_exc_name(lambda: proto._message_id(payload, True)) == 'none')
            table[pname] = row
        facts['admit'] = table
        facts['allow_batches'] = {p: bool(getattr(jr, p).allow_batches)
                                  for p in PROTOS + ['JSONRPCAutoDetect']}

        # ---- can a bool id select a request (1.0: ids are unconstrained)?
        def v1_probe(idval):
            c = jr.JSONRPCConnection(jr.JSONRPCv1)
            c.send_request(jr.Request('m', []))
            _m, fut = c.send_request(jr.Request('m', []))       # id 1 (or start+step)
            raw = json.dumps({'result': 5, 'error': None, 'id': idval}).encode()
            name = _exc_name(lambda: c.receive_message(raw))
            return name, fut.done()
        try:
            name, done = v1_probe(True)
        except Exception as e:   # noqa
            name, done = type(e).__name__, True
        facts['conn_rejects_bool'] = (name == 'ProtocolError' and not done)
        try:
            name, _done = v1_probe([1])
        except Exception as e:   # noqa
            name = type(e).__name__
        facts['unhashable_exc'] = name

        # ---- unsortable response batch
        c = jr.JSONRPCConnection(jr.JSONRPCv2)
        try:
            c.send_batch(jr.Batch([jr.Request('a', []), jr.Request('b', [])]))
        except Exception:   # noqa
            pass
        raw = json.dumps([{'jsonrpc': '2.0', 'id': 0, 'result': 1},
                          {'jsonrpc': '2.0', 'id': 'x', 'result': 2}]).encode()
        facts['unsortable_exc'] = _exc_name(lambda: c.receive_message(raw))
    finally:
        asyncio.set_event_loop(None)
        loop.close()
    facts['sort'] = _sort_key_facts(tree)
    facts['fingerprints'] = common.fingerprints(repo, FUNCS)
    return facts


def _b(x):
    return 'true' if x else 'false'


def _row(r):
    return '[' + ', '.join(_b(x) for x in r) + ']'


def render(f):
    a = f['admit']
    return (
        '/-! GENERATED by tools/facts/c01.py from /repo on every run - do not edit. -/\n'
        'namespace Aiorpcx.Facts.C01\n'
        '/-- first id drawn by a fresh connection, and the difference between consecutive ids\n'
        '    (0 when the ids seen were not an arithmetic progression of ints) -/\n'
        f'def idStart : Nat := {f["id_start"]}\n'
        f'def idStep : Nat := {f["id_step"]}\n'
        '/-- does `_message_id` accept a response id of type\n'
        '    int, float, str, null, bool, list, dict (in this order) -/\n'
        f'def admitV1 : List Bool := {_row(a["JSONRPCv1"])}\n'
        f'def admitV2 : List Bool := {_row(a["JSONRPCv2"])}\n'
        f'def admitLoose : List Bool := {_row(a["JSONRPCLoose"])}\n'
        '/-- `allow_batches` of v1, v2, Loose, AutoDetect -/\n'
        f'def allowBatches : List Bool := {_row([f["allow_batches"][p] for p in PROTOS + ["JSONRPCAutoDetect"]])}\n'
        '/-- a 1.0 response with `"id": true` while request 1 is outstanding is rejected with\n'
        '    ProtocolError and leaves the request pending -/\n'
        f'def connRejectsBool : Bool := {_b(f["conn_rejects_bool"])}\n'
        '/-- an unhashable response id / an unsortable response batch ends in ProtocolError\n'
        '    (false: TypeError escapes - F4/F5, owned by C05) -/\n'
        f'def lookupGuarded : Bool := {_b(f["unhashable_exc"] == "ProtocolError")}\n'
        f'def sortGuarded : Bool := {_b(f["unsortable_exc"] == "ProtocolError")}\n'
        '/-- `sorted(zip(ids, results), key=lambda t: t[<index>])` in `_receive_response_batch` -/\n'
        f'def sortedCalls : Nat := {f["sort"]["sorted_calls"]}\n'
        f'def sortKeyIndex : Int := {f["sort"]["key_index"]}\n'
        f'def sortReverse : Bool := {_b(f["sort"]["reverse"])}\n'
        'end Aiorpcx.Facts.C01\n')
