"""Facts for C01 (request/response matching in JSONRPCConnection).

Every fact is BEHAVIOURAL: obtained by running the public API of the *current* tree
(`JSONRPCConnection.send_request / send_batch / receive_message`, the protocol classes'
`message_to_item`, a real `RPCSession` on a fake transport) and recording what came out - ids
are decoded from the message bytes the connection returned, never read from an attribute.
Nothing depends on an AST shape, on the layout of `_requests`, on `_id_counter` or on any other
private name.  `ast` is used for the fingerprints only (they merely decide how deep the quick
tier explores; a missing function is recorded as 'missing', it is not an error).

  id counter         ids seen in the messages of 3 singles, a 2-request batch, 1 single
  process table      protocol x id type x {result, error, malformed, no id}: what
                     `message_to_item` answers (Response / ProtocolError and its recoverable id)
  batches allowed    `send_batch` on a fresh connection of each protocol: message or ProtocolError
  bool / unhashable / unsortable ids   the exception `receive_message` ends in, and whether
                     anything outstanding moved
  sort probes        a batch of 3 (4) requests - also with ids straddling 9/10 and 99/100 after
                     warm-up singles - answered in every (some) member order with results that
                     cannot be compared with `<`: the order in which the future delivers them;
                     duplicated / missing / foreign member ids: exception and whether the batch
                     future moved
  notification-only batch   `async with session.send_batch()` with notifications only, on a real
                     RPCSession over a fake transport: returns quietly with results == ()"""
import asyncio
import itertools
import json

from . import common

ID_SAMPLES = [('int', 1), ('float', 1.5), ('str', 'a'), ('null', None), ('bool', True),
              ('list', [1]), ('dict', {'a': 1})]
ID_LEAN = ['.int 1', '.half 3', '.str [97]', '.null', '.bool true', '.unhashable 0',
           '.unhashable 1']
PROTOS = ['JSONRPCv1', 'JSONRPCv2', 'JSONRPCLoose']
SHAPES = ['val', 'err', 'mal', 'noid']

FUNCS = {
    'aiorpcx/jsonrpc.py': [
        'JSONRPCConnection.__init__', 'JSONRPCConnection._receive_response',
        'JSONRPCConnection._receive_response_batch', 'JSONRPCConnection._future',
        'JSONRPCConnection.send_request', 'JSONRPCConnection.send_batch',
        'JSONRPCConnection.receive_message', 'JSONRPCConnection.cancel_pending_requests',
        'JSONRPCConnection.pending_requests', 'JSONRPC._process_response', 'JSONRPC._error',
        'JSONRPC.message_to_item', 'JSONRPC.batch_message',
        'JSONRPCv1._message_id', 'JSONRPCv2._message_id', 'JSONRPCLoose',
        'JSONRPCAutoDetect.detect_protocol', 'ProtocolError.__init__'],
    'aiorpcx/session.py': [
        'RPCSession.send_request', 'RPCSession._send_concurrent', 'RPCSession.send_batch',
        'RPCSession.connection_lost', 'BatchRequest.__aexit__', 'BatchRequest.add_request',
        'BatchRequest.add_notification', 'BatchError.__init__'],
}


def _exc_name(fn):
    try:
        fn()
        return 'none'
    except Exception as e:   # noqa
        return type(e).__name__


def _is_int(i):
    return isinstance(i, int) and not isinstance(i, bool)


def wire_ids(message):
    """the ids in a message returned by send_request / send_batch, in message order"""
    p = json.loads(message)
    return [m['id'] for m in (p if isinstance(p, list) else [p]) if isinstance(m, dict) and 'id' in m]


def response(pname, idv, shape, n=1):
    """a response payload of the protocol: a result, an error, a malformed one, one without id"""
    err = {'code': n, 'message': f'm{n}'}
    if pname == 'JSONRPCv1':
        p = {'val': {'result': n, 'error': None}, 'err': {'result': None, 'error': err},
             'mal': {'result': n, 'error': err}, 'noid': {'result': n, 'error': None}}[shape]
    elif pname == 'JSONRPCv2':
        p = {'val': {'jsonrpc': '2.0', 'result': n}, 'err': {'jsonrpc': '2.0', 'error': err},
             'mal': {'jsonrpc': '2.0', 'result': n, 'error': err},
             'noid': {'jsonrpc': '2.0', 'result': n}}[shape]
    else:
        p = {'val': {'result': n}, 'err': {'error': err}, 'mal': {'result': n, 'error': err},
             'noid': {'result': n}}[shape]
    p = dict(p)
    if shape != 'noid':
        p['id'] = idv
    return p


# ------------------------------------------------------------------ the probes
def probe_id_counter(jr):
    ids = []
    try:
        conn = jr.JSONRPCConnection(jr.JSONRPCv2)
        for _ in range(3):
            msg, _f = conn.send_request(jr.Request('m', []))
            ids += wire_ids(msg)
        msg, _f = conn.send_batch(jr.Batch([jr.Request('a', []), jr.Notification('n', []),
                                            jr.Request('b', [])]))
        ids += wire_ids(msg)
        msg, _f = conn.send_request(jr.Request('m', []))
        ids += wire_ids(msg)
    except Exception:   # noqa: no usable id sequence on this tree
        ids = []
    good = len(ids) == 6 and all(_is_int(i) for i in ids)
    diffs = {b - a for a, b in zip(ids, ids[1:])} if good else {0}
    return {'id_start': ids[0] if good and ids[0] >= 0 else 0,
            'id_step': diffs.pop() if len(diffs) == 1 and min(diffs) > 0 else 0,
            'ids_seen': ids}


class _Unencodable:
    pass


def probe_fail_draws(jr, step):
    """does a send that raises use up the ids it drew?  (ids before / after, from the wire)"""
    step = step or 1

    def gap(proto, failing):
        c = jr.JSONRPCConnection(proto)
        a = wire_ids(c.send_request(jr.Request('m', []))[0])[0]
        name = _exc_name(lambda: failing(c))
        b = wire_ids(c.send_request(jr.Request('m', []))[0])[0]
        return name, (b - a) // step - 1
    out = {}
    try:
        name, g = gap(jr.JSONRPCv2, lambda c: c.send_request(jr.Request('m', [_Unencodable()])))
        out['single'] = (name, g)
    except Exception as e:   # noqa
        out['single'] = ('!' + type(e).__name__, 1)
    two = lambda bad: jr.Batch([jr.Request('a', [_Unencodable()] if bad else []),   # noqa: E731
                                jr.Request('b', [])])
    try:
        out['batch_v1'] = gap(jr.JSONRPCv1, lambda c: c.send_batch(two(False)))
    except Exception as e:   # noqa
        out['batch_v1'] = ('!' + type(e).__name__, 2)
    try:
        out['batch_unencodable'] = gap(jr.JSONRPCv2, lambda c: c.send_batch(two(True)))
    except Exception as e:   # noqa
        out['batch_unencodable'] = ('!' + type(e).__name__, 2)
    return out


def probe_process_table(jr):
    """[proto][id sample][shape] -> (ok?, recovered id sample index or -1)"""
    table = {}
    for pname in PROTOS:
        proto = getattr(jr, pname)
        rows = []
        for _tname, val in ID_SAMPLES:
            row = []
            for shape in SHAPES:
                raw = json.dumps(response(pname, val, shape)).encode()
                try:
                    _item, rid = proto.message_to_item(raw)
                    ok = True
                except jr.ProtocolError as e:
                    ok = False
                    rid = getattr(e, 'response_msg_id', None)
                    if rid is id:       # the class's "no response id" marker
                        rid = None
                except Exception as e:   # noqa
                    ok, rid = False, ('!', type(e).__name__)
                rec = -1
                for k, (_t, v) in enumerate(ID_SAMPLES):
                    if type(v) is type(rid) and v == rid:
                        rec = k
                row.append((ok, rec))
            rows.append(row)
        table[pname] = rows
    return table


def probe_allow_batches(jr):
    out = {}
    for pname in PROTOS + ['JSONRPCAutoDetect']:
        def go(pname=pname):
            conn = jr.JSONRPCConnection(getattr(jr, pname))
            conn.send_batch(jr.Batch([jr.Request('a', []), jr.Request('b', [])]))
        out[pname] = _exc_name(go) == 'none'
    return out


def probe_odd_ids(jr):
    """bool / unhashable response ids on 1.0 (which does not constrain the id type)"""
    def v1_probe(make_id):
        c = jr.JSONRPCConnection(jr.JSONRPCv1)
        sent = []
        for _ in range(2):
            msg, fut = c.send_request(jr.Request('m', []))
            sent.append((wire_ids(msg)[0], fut))
        idval = make_id([i for i, _f in sent])
        raw = json.dumps({'result': 5, 'error': None, 'id': idval}).encode()
        name = _exc_name(lambda: c.receive_message(raw))
        return name, any(f.done() for _i, f in sent), len(c.pending_requests())

    def bool_for(ids):
        # True == 1, False == 0: aim at an outstanding id if one is 0 or 1
        return True if 1 in ids else False
    try:
        name, moved, pending = v1_probe(bool_for)
    except Exception as e:   # noqa
        name, moved, pending = type(e).__name__, True, -1
    rejects_bool = (name == 'ProtocolError' and not moved and pending == 2)
    try:
        name, _moved, _p = v1_probe(lambda ids: [ids[-1]])
    except Exception as e:   # noqa
        name = type(e).__name__
    unhashable = name
    c = jr.JSONRPCConnection(jr.JSONRPCv2)
    ids = [0, 1]
    try:
        msg, _f = c.send_batch(jr.Batch([jr.Request('a', []), jr.Request('b', [])]))
        ids = wire_ids(msg)
    except Exception:   # noqa
        pass
    raw = json.dumps([{'jsonrpc': '2.0', 'id': ids[0], 'result': 1},
                      {'jsonrpc': '2.0', 'id': 'x', 'result': 2}]).encode()
    unsortable = _exc_name(lambda: c.receive_message(raw))
    return {'conn_rejects_bool': rejects_bool, 'unhashable_exc': unhashable,
            'unsortable_exc': unsortable}


def _batch_after_warmup(jr, warm, size):
    """a 2.0 connection on which `warm` singles were sent and answered, then a batch of `size`
    requests: (connection, ids of the batch in member order, its future)"""
    c = jr.JSONRPCConnection(jr.JSONRPCv2)
    for _ in range(warm):
        msg, _f = c.send_request(jr.Request('w', []))
        c.receive_message(json.dumps({'jsonrpc': '2.0', 'id': wire_ids(msg)[0],
                                      'result': 0}).encode())
    msg, fut = c.send_batch(jr.Batch([jr.Request('m', [j]) for j in range(size)]))
    return c, wire_ids(msg), fut


def _member_result(j):
    # dicts are not comparable with `<`: a sort that ever looks at the results raises
    return {'member': j}


def probe_sort(jr):
    """[(warm, size, ids, answer order (member indices), delivered order | exception name)]"""
    plans = []
    for warm, size in ((0, 3), (8, 3), (98, 3)):
        plans += [(warm, size, list(p)) for p in itertools.permutations(range(size))]
    plans += [(7, 4, [3, 0, 2, 1]), (7, 4, [1, 3, 0, 2]), (97, 4, [2, 3, 1, 0]), (0, 1, [0]),
              (9, 2, [1, 0]), (99, 2, [1, 0])]
    out = []
    for warm, size, order in plans:
        try:
            c, ids, fut = _batch_after_warmup(jr, warm, size)
            if not all(_is_int(i) and i >= 0 for i in ids) or len(ids) != size:
                out.append({'warm': warm, 'size': size, 'ids': [], 'order': order, 'got': 'ids?'})
                continue
            raw = json.dumps([{'jsonrpc': '2.0', 'id': ids[j], 'result': _member_result(j)}
                              for j in order]).encode()
            name = _exc_name(lambda: c.receive_message(raw))
            if name != 'none' or not fut.done() or fut.cancelled() or fut.exception():
                got = name if name != 'none' else 'not-completed'
            else:
                res = fut.result()
                got = [r.get('member') if isinstance(r, dict) else -1 for r in res]
                if len(c.pending_requests()):
                    got = 'still-pending'
        except Exception as e:   # noqa
            ids, got = [], '!' + type(e).__name__
        out.append({'warm': warm, 'size': size, 'ids': ids, 'order': order, 'got': got})
    return out


def probe_mismatch(jr):
    """answers that are not a permutation of the batch's ids: (kind, exception, batch moved?)"""
    out = []
    for kind in ('duplicate', 'missing', 'foreign', 'single'):
        try:
            c, ids, fut = _batch_after_warmup(jr, 0, 3)
            unused = max(ids) + 7
            sel = {'duplicate': [ids[2], ids[0], ids[0], ids[1]], 'missing': [ids[2], ids[0]],
                   'foreign': [ids[2], unused, ids[0]], 'single': [ids[1]]}[kind]
            members = [{'jsonrpc': '2.0', 'id': i, 'result': _member_result(j)}
                       for j, i in enumerate(sel)]
            raw = json.dumps(members[0] if kind == 'single' else members).encode()
            name = _exc_name(lambda: c.receive_message(raw))
            moved = fut.done() or len(c.pending_requests()) != 1
        except Exception as e:   # noqa
            name, moved = '!' + type(e).__name__, True
        out.append({'kind': kind, 'exc': name, 'moved': moved})
    return out


def probe_notification_only_batch(repo, jr):
    """`async with session.send_batch() as b: b.add_notification(..)` on a real RPCSession"""
    try:
        from harness import c01_fake
        rawsocket = common.fresh_import(repo, 'aiorpcx.rawsocket')
        session_mod = common.fresh_import(repo, 'aiorpcx.session')

        async def go():
            _p, tr, session = c01_fake.make_session(rawsocket, session_mod.RPCSession,
                                                    session_mod.SessionKind.CLIENT)
            async with session.send_batch() as b:
                b.add_notification('n', [1])
                b.add_notification('n', [2])
            written = tr.take_messages()
            ok = b.results == () and len(written) == 1 and isinstance(written[0], list) \
                and len(written[0]) == 2
            await session.close()
            return ok
        loop = asyncio.get_event_loop()
        return bool(loop.run_until_complete(asyncio.wait_for(go(), 5)))
    except Exception:   # noqa: F19 unrepaired (TypeError) or anything else that is not quiet
        return False


def extract(repo):
    jr = common.fresh_import(repo, 'aiorpcx.jsonrpc')
    facts = {}
    loop = asyncio.new_event_loop()
    asyncio.set_event_loop(loop)
    try:
        # first, so that a counter shared between connections still hands out 0 and 1 here
        facts.update(probe_odd_ids(jr))
        facts.update(probe_id_counter(jr))
        facts['fail_draws'] = probe_fail_draws(jr, facts['id_step'])
        fd = facts['fail_draws']
        # a failed send uses up all of its ids (as in the tree) or none; anything else cannot be
        # expressed by the model and shows up as a disagreement
        facts['fail_draws_single'] = fd['single'][1] != 0
        facts['fail_draws_batch'] = not (fd['batch_v1'][1] == 0 and fd['batch_unencodable'][1] == 0)
        facts['process'] = probe_process_table(jr)
        facts['admit'] = {p: [row[0][0] for row in rows] for p, rows in facts['process'].items()}
        facts['allow_batches'] = probe_allow_batches(jr)
        facts['sort_probes'] = probe_sort(jr)
        facts['mismatch_probes'] = probe_mismatch(jr)
        facts['notif_batch_quiet'] = probe_notification_only_batch(repo, jr)
    finally:
        asyncio.set_event_loop(None)
        loop.close()
    facts['fingerprints'] = common.fingerprints(repo, FUNCS)
    return facts


# ------------------------------------------------------------------ rendering
def _b(x):
    return 'true' if x else 'false'


def _row(r):
    return '[' + ', '.join(_b(x) for x in r) + ']'


def _nats(l):
    return '[' + ', '.join(str(int(x)) for x in l) + ']'


def _cell(c):
    ok, rec = c
    return f'({_b(ok)}, {ID_LEAN[rec] if rec >= 0 else ".null"})'


def _ptable(rows):
    return '[' + ',\n   '.join('[' + ', '.join(_cell(c) for c in row) + ']' for row in rows) + ']'


def _probe(p):
    if isinstance(p['got'], list) and all(isinstance(x, int) and x >= 0 for x in p['got']):
        got = f'some {_nats(p["got"])}'
    else:
        got = 'none'
    return f'({_nats(p["ids"])}, {_nats(p["order"])}, {got})'


def render(f):
    a = f['admit']
    pt = f['process']
    mm = {m['kind']: m for m in f['mismatch_probes']}
    return (
        'import Aiorpcx.C01.Ids\n'
        '/-! GENERATED by tools/facts/c01.py from /repo on every run - do not edit.\n'
        '    Every value was obtained by running the public API of the tree. -/\n'
        'namespace Aiorpcx.Facts.C01\n'
        'open Aiorpcx.C01\n'
        '/-- first id drawn by a fresh connection, and the difference between consecutive ids\n'
        '    (0 when the ids seen were not an arithmetic progression of ints) -/\n'
        f'def idStart : Nat := {f["id_start"]}\n'
        f'def idStep : Nat := {f["id_step"]}\n'
        '/-- a `send_request` / `send_batch` that raises (unencodable argument, protocol without\n'
        '    batches) still uses up the ids it drew: the next id on the wire skips them -/\n'
        f'def failDrawsSingle : Bool := {_b(f["fail_draws_single"])}\n'
        f'def failDrawsBatch : Bool := {_b(f["fail_draws_batch"])}\n'
        '/-- is a valid response with an id of type\n'
        '    int, float, str, null, bool, list, dict (in this order) accepted by `message_to_item` -/\n'
        f'def admitV1 : List Bool := {_row(a["JSONRPCv1"])}\n'
        f'def admitV2 : List Bool := {_row(a["JSONRPCv2"])}\n'
        f'def admitLoose : List Bool := {_row(a["JSONRPCLoose"])}\n'
        '/-- `message_to_item` on a response with each of those ids (rows) that carries a result,\n'
        '    an error, both (malformed), or has no id (columns): (returned a Response?, the id\n'
        '    returned / recoverable from the ProtocolError; null when there is none) -/\n'
        f'def processV1 : List (List (Bool × Id)) :=\n  {_ptable(pt["JSONRPCv1"])}\n'
        f'def processV2 : List (List (Bool × Id)) :=\n  {_ptable(pt["JSONRPCv2"])}\n'
        f'def processLoose : List (List (Bool × Id)) :=\n  {_ptable(pt["JSONRPCLoose"])}\n'
        '/-- does `send_batch` work on a fresh connection of v1, v2, Loose, AutoDetect -/\n'
        f'def allowBatches : List Bool := {_row([f["allow_batches"][p] for p in PROTOS + ["JSONRPCAutoDetect"]])}\n'
        '/-- a 1.0 response with a bool id equal (`==`) to an outstanding id is rejected with\n'
        '    ProtocolError and leaves everything pending -/\n'
        f'def connRejectsBool : Bool := {_b(f["conn_rejects_bool"])}\n'
        '/-- an unhashable response id / an unsortable response batch ends in ProtocolError\n'
        '    (false: TypeError escapes - the repairs F4/F5 are missing) -/\n'
        f'def lookupGuarded : Bool := {_b(f["unhashable_exc"] == "ProtocolError")}\n'
        f'def sortGuarded : Bool := {_b(f["unsortable_exc"] == "ProtocolError")}\n'
        '/-- batches answered in a permuted member order with results that cannot be compared:\n'
        '    (ids of the batch in member order as read from the wire, answer order as member\n'
        '    indices, member indices in the order the future delivered them; none: not delivered) -/\n'
        'def sortProbes : List (List Nat × List Nat × Option (List Nat)) :=\n  ['
        + ',\n   '.join(_probe(p) for p in f['sort_probes']) + ']\n'
        '/-- a batch answer with a duplicated / missing / foreign member id, and a single response\n'
        '    to a member id: rejected with ProtocolError, the batch untouched -/\n'
        'def mismatchRejected : List Bool := '
        + _row([mm[k]['exc'] == 'ProtocolError' and not mm[k]['moved']
                for k in ('duplicate', 'missing', 'foreign', 'single')]) + '\n'
        '/-- a notification-only batch sent through a real RPCSession returns quietly with\n'
        '    `results == ()` (false: F19 unrepaired, `await None` raises TypeError) -/\n'
        f'def notifBatchQuiet : Bool := {_b(f["notif_batch_quiet"])}\n'
        'end Aiorpcx.Facts.C01\n')
