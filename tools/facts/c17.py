"""Facts for C17 (SOCKS reply parsing / handshake), regenerated from the current tree on
every run.

  * decision tables: for every value 0..255 of every decision byte of every reply (version,
    status / method, reserved, address type, length) what the real protocol object does when
    the reply stream is fed to it one byte at a time: (verdict, number of bytes it asked for
    before deciding).  verdict: 0 = next_message() returned None, 1 = SOCKSFailure,
    2 = SOCKSProtocolError, 3 = any other exception, 4 = still NeedData when the stream ended.
    Obtained through the public surface (constructor, next_message, receive_data) so a
    reformat/rename does not change them.
  * REPLY_CODES / ERROR_CODES keys, the exception hierarchy, the classes `_connect_one`
    catches (AST, sorted), fingerprints of the modelled functions."""
import ast
from ipaddress import IPv4Address

from . import common

FUNCS = {
    'aiorpcx/socks.py': [
        'SOCKSBase.__init__', 'SOCKSBase._read', 'SOCKSBase.receive_data', 'SOCKSBase.next_message',
        'SOCKS4._first_response', 'SOCKS5._first_response', 'SOCKS5._auth_response',
        'SOCKS5._request_connection', 'SOCKS5._connect_response', 'SOCKS5._connect_response_rest',
        'SOCKSProxy._handshake', 'SOCKSProxy._connect_one', 'SOCKSProxy._connect',
        'SOCKSProxy._detect_proxy'],
}

# table name -> (protocol, with credentials, function byte -> reply stream[, feeding mode])
# feeding mode: 'bytewise' (default: one byte per NeedData) or 'exact' (as many bytes as the
# NeedData asked for; used for the long domain-name replies)
TAIL = [0] * 300


def _streams():
    ok5 = [5, 0, 0, 1, 9, 9, 9, 9, 0, 80]
    return {
        's4Vn': ('4', False, lambda b: [b, 90, 0, 0, 0, 0, 0, 0, 7]),
        's4Cd': ('4', False, lambda b: [0, b, 1, 2, 3, 4, 5, 6, 7]),
        's5Ver': ('5', False, lambda b: [b, 0] + ok5 + [7]),
        's5MethodNoAuth': ('5', False, lambda b: [5, b] + ok5 + [7]),
        's5MethodAuth': ('5', True, lambda b: [5, b] + ok5 + [7]),
        's5AuthVer': ('5', True, lambda b: [5, 2, b, 0] + ok5 + [7]),
        's5AuthStatus': ('5', True, lambda b: [5, 2, 1, b] + ok5 + [7]),
        's5ConnVer': ('5', False, lambda b: [5, 0, b, 0, 0, 1, 9, 9, 9, 9, 0, 80, 7]),
        's5ConnRep': ('5', False, lambda b: [5, 0, 5, b, 0, 1, 9, 9, 9, 9, 0, 80, 7]),
        's5ConnRsv': ('5', False, lambda b: [5, 0, 5, 0, b, 1, 9, 9, 9, 9, 0, 80, 7]),
        's5ConnAtyp': ('5', False, lambda b: [5, 0, 5, 0, 0, b, 2] + [9] * 20),
        's5ConnAtypRefused': ('5', False, lambda b: [5, 0, 5, 1, 0, b, 2] + [9] * 20),
        's5ConnLen': ('5', False, lambda b: [5, 0, 5, 0, 0, 3, b] + TAIL[:b + 3], 'exact'),
        's5ConnLenAuth': ('5', True, lambda b: [5, 2, 1, 0, 5, 0, 0, 3, b] + TAIL[:b + 3], 'exact'),
        's5ConnLenShort': ('5', False, lambda b: [5, 0, 5, 0, 0, 3, b] + TAIL[:b + 1], 'exact'),
    }


def summary(socks, client, stream, mode='bytewise'):
    """feed `stream` on demand (one byte per NeedData, or exactly the count asked for)
    -> (verdict, bytes fed)"""
    fed = 0
    for _ in range(len(stream) + 8):
        try:
            m = client.next_message()
        except socks.NeedData as e:
            if fed == len(stream):
                return (4, fed)
            k = 1 if mode == 'bytewise' else e.args[0]
            if not isinstance(k, int) or k < 1:
                return (3, fed)
            chunk = bytes(stream[fed:fed + k])
            client.receive_data(chunk)
            fed += len(chunk)
            continue
        except socks.SOCKSFailure:
            return (1, fed)
        except socks.SOCKSProtocolError:
            return (2, fed)
        except Exception:
            return (3, fed)
        if m is None:
            return (0, fed)
    return (3, fed)


def extract(repo):
    socks = common.fresh_import(repo, 'aiorpcx.socks')
    util = common.fresh_import(repo, 'aiorpcx.util')
    addr = util.NetAddress(IPv4Address('1.2.3.4'), 80)
    auth = socks.SOCKSUserAuth('u', 'p')
    tables = {}
    for name, spec in _streams().items():
        proto, creds, fn = spec[:3]
        mode = spec[3] if len(spec) > 3 else 'bytewise'
        cls = socks.SOCKS4 if proto == '4' else socks.SOCKS5
        def entry(b):
            try:
                client = cls(addr, auth if creds else None)
            except Exception:       # a fact, not a crash
                return (3, 0)
            return summary(socks, client, fn(b), mode)
        tables[name] = [entry(b) for b in range(256)]
    tree = common.parse(repo, 'aiorpcx/socks.py')
    caught = []
    node = common.find(tree, 'SOCKSProxy._connect_one')
    if node is not None:
        for n in ast.walk(node):
            if isinstance(n, ast.ExceptHandler) and n.type is not None:
                elts = n.type.elts if isinstance(n.type, ast.Tuple) else [n.type]
                caught += [ast.unparse(e) for e in elts]
    return {
        'tables': tables,
        'reply_codes': sorted(k for k in getattr(socks.SOCKS4, 'REPLY_CODES', {}) if isinstance(k, int)),
        'error_codes': sorted(k for k in getattr(socks.SOCKS5, 'ERROR_CODES', {}) if isinstance(k, int)),
        'protocol_error_is_socks_error': issubclass(socks.SOCKSProtocolError, socks.SOCKSError),
        'failure_is_socks_error': issubclass(socks.SOCKSFailure, socks.SOCKSError),
        'failure_is_protocol_error': issubclass(socks.SOCKSFailure, socks.SOCKSProtocolError),
        'protocol_error_is_failure': issubclass(socks.SOCKSProtocolError, socks.SOCKSFailure),
        'need_data_is_socks_error': issubclass(socks.NeedData, (socks.SOCKSError, OSError)),
        'connect_one_caught': sorted(set(caught)),
        'fingerprints': common.fingerprints(repo, FUNCS),
    }


def render(f):
    def b(x):
        return 'true' if x else 'false'
    out = ['/-! GENERATED by tools/facts/c17.py from /repo on every run - do not edit. -/',
           'namespace Aiorpcx.Facts.C17',
           '/-! decision tables: entry `b` = (verdict, bytes asked for) when decision byte = `b`;',
           '    verdict 0 = done, 1 = SOCKSFailure, 2 = SOCKSProtocolError, 3 = other, 4 = wants more -/']
    for name, tbl in f['tables'].items():
        out.append(f'def {name} : List (Nat × Nat) := [' + ', '.join(f'({v}, {n})' for v, n in tbl) + ']')
    out += [
        '/-- keys of `SOCKS4.REPLY_CODES` -/',
        f'def replyCodes : List Nat := {f["reply_codes"]}',
        '/-- keys of `SOCKS5.ERROR_CODES` -/',
        f'def errorCodes : List Nat := {f["error_codes"]}',
        f'def protocolErrorIsSocksError : Bool := {b(f["protocol_error_is_socks_error"])}',
        f'def failureIsSocksError : Bool := {b(f["failure_is_socks_error"])}',
        f'def failureIsProtocolError : Bool := {b(f["failure_is_protocol_error"])}',
        f'def protocolErrorIsFailure : Bool := {b(f["protocol_error_is_failure"])}',
        f'def needDataIsCaught : Bool := {b(f["need_data_is_socks_error"])}',
        '/-- classes named in the `except` clause of `_connect_one` (sorted) -/',
        'def connectOneCaught : List String := [' + ', '.join(f'"{x}"' for x in f['connect_one_caught']) + ']',
        'end Aiorpcx.Facts.C17', '']
    return '\n'.join(out)
