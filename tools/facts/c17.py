"""Facts for C17 (SOCKS reply parsing / handshake), regenerated from the current tree on
every run.  Everything here is obtained by RUNNING the code through its public surface
(protocol constructors, `next_message`, `receive_data`, `SOCKSProxy.create_connection` on the
fake network of harness/socks_world.py); nothing is read off the syntax tree except the
fingerprints (which only steer exploration depth and degrade to 'missing').

  * verdict tables: for every value 0..255 of every decision byte of every reply (version,
    status / method, reserved, address type) - alone and *together with a second faulty byte of
    the same reply* (which check wins) - WHICH verdict the real protocol object reaches when
    the reply stream is fed to it one byte at a time.  verdict: 0 = next_message() returned
    None, 1 = SOCKSFailure, 2 = SOCKSProtocolError, 3 = any other exception, 4 = still wants
    data when the stream ended.  *When* the verdict is reached (after how many bytes) is not
    part of these tables: a parser that looks at the version byte before asking for the rest
    behaves the same as far as the property is concerned.
  * length tables (fed exactly what each need-more-data exception asks for): for every
    bound-address length 0..255 (verdict, total bytes taken) - on success the total is the
    length of the handshake, i.e. "exactly the bytes that belong to the handshake".
  * the exception hierarchy; which exceptions raised inside one proxy attempt make the client
    go on to the next proxy address and which escape (`caughtTable`), and at which point of an
    attempt a failure is survivable (`tryScope`) - observed on `create_connection`, not read
    from the `except` clause.
  * fingerprints of the modelled functions."""
import struct
from ipaddress import IPv4Address

from . import common

FUNCS = {
    'aiorpcx/socks.py': [
        'SOCKSBase.__init__', 'SOCKSBase._read', 'SOCKSBase.receive_data', 'SOCKSBase.next_message',
        'SOCKS4._first_response', 'SOCKS5._first_response', 'SOCKS5._auth_response',
        'SOCKS5._request_connection', 'SOCKS5._connect_response', 'SOCKS5._connect_response_rest',
        'SOCKSProxy._handshake', 'SOCKSProxy._connect_one', 'SOCKSProxy._connect',
        'SOCKSProxy._detect_proxy'],
}

TAIL = [0] * 300
OK5 = [5, 0, 0, 1, 9, 9, 9, 9, 0, 80]


def _streams():
    """table name -> (protocol, with credentials, byte -> reply stream, feeding mode)"""
    ok5 = OK5
    return {
        # ---- one decision byte, the rest granting
        's4Vn': ('4', False, lambda b: [b, 90, 0, 0, 0, 0, 0, 0, 7], 'bytewise'),
        's4Cd': ('4', False, lambda b: [0, b, 1, 2, 3, 4, 5, 6, 7], 'bytewise'),
        's5Ver': ('5', False, lambda b: [b, 0] + ok5 + [7], 'bytewise'),
        's5MethodNoAuth': ('5', False, lambda b: [5, b] + ok5 + [7], 'bytewise'),
        's5MethodAuth': ('5', True, lambda b: [5, b] + ok5 + [7], 'bytewise'),
        's5AuthVer': ('5', True, lambda b: [5, 2, b, 0] + ok5 + [7], 'bytewise'),
        's5AuthStatus': ('5', True, lambda b: [5, 2, 1, b] + ok5 + [7], 'bytewise'),
        's5ConnVer': ('5', False, lambda b: [5, 0, b, 0, 0, 1, 9, 9, 9, 9, 0, 80, 7], 'bytewise'),
        's5ConnRep': ('5', False, lambda b: [5, 0, 5, b, 0, 1, 9, 9, 9, 9, 0, 80, 7], 'bytewise'),
        's5ConnRsv': ('5', False, lambda b: [5, 0, 5, 0, b, 1, 9, 9, 9, 9, 0, 80, 7], 'bytewise'),
        's5ConnAtyp': ('5', False, lambda b: [5, 0, 5, 0, 0, b, 2] + [9] * 20, 'bytewise'),
        # ---- two faults in the same reply: which check wins
        's4VnRefused': ('4', False, lambda b: [b, 91, 0, 0, 0, 0, 0, 0, 7], 'bytewise'),
        's4CdVnBad': ('4', False, lambda b: [1, b, 0, 0, 0, 0, 0, 0, 7], 'bytewise'),
        's5VerMethodBad': ('5', False, lambda b: [b, 255] + ok5 + [7], 'bytewise'),
        's5MethodVerBad': ('5', True, lambda b: [4, b] + ok5 + [7], 'bytewise'),
        's5AuthVerStatusBad': ('5', True, lambda b: [5, 2, b, 1] + ok5 + [7], 'bytewise'),
        's5AuthStatusVerBad': ('5', True, lambda b: [5, 2, 2, b] + ok5 + [7], 'bytewise'),
        's5ConnVerRefused': ('5', False, lambda b: [5, 0, b, 1, 0, 1, 9, 9, 9, 9, 0, 80, 7], 'bytewise'),
        's5ConnRsvRefused': ('5', False, lambda b: [5, 0, 5, 1, b, 1, 9, 9, 9, 9, 0, 80, 7], 'bytewise'),
        's5ConnAtypRefused': ('5', False, lambda b: [5, 0, 5, 1, 0, b, 2] + [9] * 20, 'bytewise'),
        's5ConnRepVerBad': ('5', False, lambda b: [5, 0, 4, b, 0, 1, 9, 9, 9, 9, 0, 80, 7], 'bytewise'),
        's5ConnRepRsvBad': ('5', False, lambda b: [5, 0, 5, b, 1, 1, 9, 9, 9, 9, 0, 80, 7], 'bytewise'),
        's5ConnRepAtypBad': ('5', False, lambda b: [5, 0, 5, b, 0, 9, 2] + [9] * 20, 'bytewise'),
        's5ConnVerRsvBad': ('5', False, lambda b: [5, 0, b, 0, 1, 1, 9, 9, 9, 9, 0, 80, 7], 'bytewise'),
        # the reply most proxies send: everything zero (BND.ADDR 0.0.0.0:0), then one
        # application byte of every value
        's5ZeroReply': ('5', False, lambda b: [5, 0, 5, 0, 0, 1, 0, 0, 0, 0, 0, 0, b], 'bytewise'),
        # ---- domain-name replies: every bound-address length
        's5ConnLen': ('5', False, lambda b: [5, 0, 5, 0, 0, 3, b] + TAIL[:b + 3], 'exact'),
        's5ConnLenAuth': ('5', True, lambda b: [5, 2, 1, 0, 5, 0, 0, 3, b] + TAIL[:b + 3], 'exact'),
        's5ConnLenShort': ('5', False, lambda b: [5, 0, 5, 0, 0, 3, b] + TAIL[:b + 1], 'exact'),
    }


def summary(socks, need_cls, need_count, client, stream, mode='bytewise'):
    """feed `stream` on demand (one byte per need-more-data, or exactly the count asked for)
    -> (verdict, bytes fed)"""
    fed = 0
    for _ in range(len(stream) + 8):
        try:
            m = client.next_message()
        except need_cls as e:
            if fed == len(stream):
                return (4, fed)
            k = 1 if mode == 'bytewise' else need_count(e)
            if not isinstance(k, int) or k < 1:
                return (3, fed)
            chunk = bytes(stream[fed:fed + k])
            client.receive_data(chunk)
            fed += len(chunk)
            continue
        except socks.SOCKSFailure:
            return (1, fed)
        except socks.SOCKSProtocolError:
            return (2, fed)
        except Exception:
            return (3, fed)
        if m is None:
            return (0, fed)
    return (3, fed)


# exceptions of the model's `PyExc`, in the order of the Lean constructor list
def _exc_kinds(socks):
    def unicode_error():
        try:
            '\ud800'.encode()
        except UnicodeEncodeError as e:
            return e
    return [
        ('socksProtocolError', lambda: socks.SOCKSProtocolError('probe')),
        ('socksFailure', lambda: socks.SOCKSFailure('probe')),
        ('unicodeEncodeError', unicode_error),
        ('assertionError', lambda: AssertionError('probe')),
        ('structError', lambda: struct.error('probe')),
        ('attributeError', lambda: AttributeError('probe')),
        ('osError', lambda: OSError('probe')),
        ('unboundLocalError', lambda: UnboundLocalError('probe')),
        # beyond the model's list: subclasses must behave like their base
        ('connectionReset', lambda: ConnectionResetError('probe')),
        ('timeoutError', lambda: TimeoutError('probe')),
        ('socksErrorSubclass', lambda: type('Custom', (socks.SOCKSError,), {})('probe')),
        ('valueError', lambda: ValueError('probe')),
        ('keyError', lambda: KeyError('probe')),
    ]


GRANT5 = bytes([5, 0, 5, 0, 0, 1, 0, 0, 0, 0, 0, 0])


def _try_probes(repo):
    """-> (caught table, try scope) observed on create_connection over two proxy addresses:
    *survives* = the failure of the first address is followed by an attempt on the second
    (which grants), so the call succeeds."""
    from harness import socks_common as sc, socks_world as sw
    mods = sc.Mods(repo)
    socks = mods.socks

    def run(protocol, groups, auth=None):
        w = sw.World()
        w.add_call(0, groups)
        proxy = socks.SOCKSProxy(mods.util.NetAddress(sw.PROXY_HOST, sw.PROXY_PORT), protocol, auth)
        with sw.patched(mods, w):
            with sw.watchdog(5.0):
                r = sw.run_one(w, 0, proxy.create_connection(sw.Factory(), '1.2.3.4', 80))
        return r, w

    caught = []
    for _name, make in _exc_kinds(socks):
        state = {'n': 0}

        class Stub(socks.SOCKS5):
            """a protocol object whose first instance fails in the handshake"""

            def __init__(self, remote_address, auth):
                super().__init__(remote_address, auth)
                state['n'] += 1
                self._first = state['n'] == 1

            def next_message(self):
                if self._first:
                    raise make()
                return super().next_message()
        try:
            r, w = run(Stub, [[('t', GRANT5, []), ('t', GRANT5, [])]])
            caught.append(r[0] == 'ok' and w.calls[0].sockets == 2)
        except BaseException:       # the probe could not be run: recorded as "escapes"
            caught.append(False)

    def survives(first_attempt, protocol=None):
        try:
            r, w = run(protocol or socks.SOCKS5, [[first_attempt, ('t', GRANT5, [])]])
            return r[0] == 'ok' and w.calls[0].sockets == 2
        except BaseException:
            return False

    class CtorFails(socks.SOCKS5):
        n = 0

        def __init__(self, remote_address, auth):
            CtorFails.n += 1
            if CtorFails.n == 1:
                raise socks.SOCKSProtocolError('probe')
            super().__init__(remote_address, auth)
    scope = [survives(('t', GRANT5, []), CtorFails),      # constructor raises a SOCKSError
             survives(('s',)),                            # socket.socket() raises OSError
             survives(('x',)),                            # sock_connect raises OSError
             survives(('t', b'\x05\xff', [])),            # the handshake raises a SOCKSError
             survives(('p', GRANT5, []))]                 # getpeername() raises OSError
    return caught, scope


def extract(repo):
    from harness import socks_common as sc
    socks = common.fresh_import(repo, 'aiorpcx.socks')
    util = common.fresh_import(repo, 'aiorpcx.util')
    need_cls = sc.need_data_class(socks, util)
    addr = util.NetAddress(IPv4Address('1.2.3.4'), 80)
    auth = socks.SOCKSUserAuth('u', 'p')
    tables = {}
    for name, (proto, creds, fn, mode) in _streams().items():
        cls = socks.SOCKS4 if proto == '4' else socks.SOCKS5

        def entry(b):
            try:
                client = cls(addr, auth if creds else None)
            except Exception:       # a fact, not a crash
                return (3, 0)
            return summary(socks, need_cls, sc.need_count, client, fn(b), mode)
        rows = [entry(b) for b in range(256)]
        tables[name] = rows if mode == 'exact' else [v for v, _n in rows]
    caught, scope = _try_probes(repo)
    return {
        'tables': tables,
        'protocol_error_is_socks_error': issubclass(socks.SOCKSProtocolError, socks.SOCKSError),
        'failure_is_socks_error': issubclass(socks.SOCKSFailure, socks.SOCKSError),
        'failure_is_protocol_error': issubclass(socks.SOCKSFailure, socks.SOCKSProtocolError),
        'protocol_error_is_failure': issubclass(socks.SOCKSProtocolError, socks.SOCKSFailure),
        'socks_error_is_os_error': issubclass(socks.SOCKSError, OSError),
        'caught_table': caught,
        'try_scope': scope,
        'fingerprints': common.fingerprints(repo, FUNCS),
    }


def render(f):
    def b(x):
        return 'true' if x else 'false'

    def bl(xs):
        return '[' + ', '.join(b(x) for x in xs) + ']'
    out = ['/-! GENERATED by tools/facts/c17.py from /repo on every run - do not edit. -/',
           'namespace Aiorpcx.Facts.C17',
           '/-! verdict tables: entry `b` = verdict when the decision byte = `b`;',
           '    0 = done, 1 = SOCKSFailure, 2 = SOCKSProtocolError, 3 = other, 4 = wants more;',
           '    length tables: entry `b` = (verdict, total bytes taken) for bound-address length `b` -/']
    for name, tbl in f['tables'].items():
        if tbl and isinstance(tbl[0], (list, tuple)):
            out.append(f'def {name} : List (Nat × Nat) := [' + ', '.join(f'({v}, {n})' for v, n in tbl) + ']')
        else:
            out.append(f'def {name} : List Nat := {list(tbl)}')
    out += [
        f'def protocolErrorIsSocksError : Bool := {b(f["protocol_error_is_socks_error"])}',
        f'def failureIsSocksError : Bool := {b(f["failure_is_socks_error"])}',
        f'def failureIsProtocolError : Bool := {b(f["failure_is_protocol_error"])}',
        f'def protocolErrorIsFailure : Bool := {b(f["protocol_error_is_failure"])}',
        f'def socksErrorIsOsError : Bool := {b(f["socks_error_is_os_error"])}',
        '/-- for each exception kind (the model\'s `PyExc` constructors in order, then',
        '    ConnectionResetError, TimeoutError, a SOCKSError subclass, ValueError, KeyError):',
        '    raised by the handshake on the first proxy address, is the second address tried? -/',
        f'def caughtTable : List Bool := {bl(f["caught_table"])}',
        '/-- is the next proxy address tried after: the protocol constructor raising a SOCKSError,',
        '    socket.socket() raising OSError, sock_connect raising OSError, the handshake raising',
        '    a SOCKSError, getpeername() raising OSError -/',
        f'def tryScope : List Bool := {bl(f["try_scope"])}',
        'end Aiorpcx.Facts.C17', '']
    return '\n'.join(out)
