"""Behavioural probes shared by the C13 / C14 / C20 facts extractors.

Everything here RUNS the real classes of the current tree (through their public entry points
wherever there is one) on a private event loop with a recording transport and gate-controlled
handlers, and reports what was observed.  Nothing looks at the source text, at private attribute
names of `Concurrency`, or at the names of private helper methods: a behaviour-preserving rewrite
yields the same tables, a behavioural change yields different ones.  Where a private attribute of a
*session* is needed to find an object (`_incoming_concurrency`, `_outgoing_concurrency`) the lookup
degrades to duck typing (`find_limiters`)."""
import asyncio
import json
import logging


class RecTransport(asyncio.Transport):
    """Minimal asyncio transport: records writes; close/abort deliver connection_lost."""

    def __init__(self):
        super().__init__()
        self.out = []
        self.closing = False
        self.proto = None

    def get_extra_info(self, name, default=None):
        return ('1.2.3.4', 5) if name == 'peername' else default

    def write(self, data):
        self.out.append(bytes(data))

    def _lost(self):
        if not self.closing:
            self.closing = True
            asyncio.get_event_loop().call_soon(self.proto.connection_lost, None)

    def close(self):
        self._lost()

    def abort(self):
        self._lost()

    def is_closing(self):
        return self.closing

    def pause_reading(self):
        pass

    def resume_reading(self):
        pass


class ManualClock:
    """stand-in for the `time` module inside aiorpcx.session"""

    def __init__(self, now=0.0):
        self.now = now

    def time(self):
        return self.now


class Bench:
    """a private event loop that is stepped until nothing is ready (timers never fire: the probes
    never wait for time to pass)"""

    def __init__(self):
        logging.disable(logging.CRITICAL)
        self.loop = asyncio.new_event_loop()
        asyncio.set_event_loop(self.loop)

    def idle(self, rounds=200):
        loop = self.loop
        for _ in range(rounds):
            if not loop._ready:
                return
            loop.call_soon(loop.stop)
            loop.run_forever()
        raise RuntimeError('probe loop does not become idle')

    def close(self):
        try:
            for t in asyncio.all_tasks(self.loop):
                t.cancel()
            self.idle()
        except BaseException:      # noqa
            pass
        asyncio.set_event_loop(None)
        self.loop.close()

    def session(self, mods, cls, kind='server', framer=None):
        """mods: dict with 'session' and 'rawsocket' modules of the tree under test"""
        sk = mods['session'].SessionKind.SERVER if kind == 'server' else mods['session'].SessionKind.CLIENT
        proto = mods['rawsocket'].RSTransport(cls, framer, sk)
        tr = RecTransport()
        tr.proto = proto
        proto.connection_made(tr)
        self.idle()
        return proto, tr, proto.session


def find_limiters(session):
    """(incoming, outgoing) limiter objects of a session: by their usual names, else any attribute
    that quacks like a limiter (`max_concurrent` + `set_target`); outgoing may be None"""
    def quacks(o):
        return hasattr(o, 'max_concurrent') and hasattr(o, 'set_target')
    inc = getattr(session, '_incoming_concurrency', None)
    out = getattr(session, '_outgoing_concurrency', None)
    if quacks(inc) and (out is None or quacks(out)):
        return inc, out
    found = [(k, v) for k, v in sorted(vars(session).items()) if quacks(v)]
    inc = next((v for k, v in found if 'in' in k.lower() and 'out' not in k.lower()), None)
    out = next((v for k, v in found if 'out' in k.lower()), None)
    if inc is None and found:
        inc = found[0][1]
    return inc, out


# ------------------------------------------------------------------ the limiter on its own
EV_ENTERED, EV_REFUSED, EV_CANCELLED, EV_BAD = 0, 1, 2, 3
OP_ENTER, OP_EXIT, OP_CANCEL, OP_TARGET = 0, 1, 2, 3


class LimiterProbe:
    """drives a real `Concurrency` with scripted workers; one observation per op:
    (events [(kind, id)], holders sorted, waiting in arrival order, max_concurrent)"""

    def __init__(self, bench, session_mod, init):
        self.bench = bench
        self.c = session_mod.Concurrency(init)
        self.exc = session_mod.ExcessiveSessionCostError
        self.gate, self.task = {}, {}
        self.evs, self.hold, self.waiting = [], [], []

    async def worker(self, i):
        try:
            async with self.c:
                self.evs.append((EV_ENTERED, i))
                self.waiting.remove(i)
                self.hold.append(i)
                try:
                    await self.gate[i]
                finally:
                    self.hold.remove(i)
        except self.exc:
            self.evs.append((EV_REFUSED, i))
            self.waiting.remove(i)
        except asyncio.CancelledError:
            if i in self.waiting:
                self.evs.append((EV_CANCELLED, i))
                self.waiting.remove(i)

    def act(self, code, arg):
        self.evs = []
        loop = self.bench.loop
        if code == OP_ENTER:
            self.gate[arg] = loop.create_future()
            self.waiting.append(arg)
            self.task[arg] = loop.create_task(self.worker(arg))
        elif code == OP_EXIT:
            if arg in self.hold:
                self.gate[arg].set_result(None)
            else:
                self.evs.append((EV_BAD, 0))
        elif code == OP_CANCEL:
            if arg in self.waiting:
                self.task[arg].cancel()
            else:
                self.evs.append((EV_BAD, 0))
        elif code == OP_TARGET:
            self.c.set_target(arg)
        self.bench.idle()
        return (list(self.evs), sorted(self.hold), list(self.waiting), int(self.c.max_concurrent))

    def state(self):
        return sorted(self.hold), list(self.waiting), int(self.c.max_concurrent)


def run_limiter_row(bench, session_mod, init, ops):
    p = LimiterProbe(bench, session_mod, init)
    obs = [p.act(code, arg) for code, arg in ops]
    st = p.state()
    for t in p.task.values():
        t.cancel()
    bench.idle()
    return obs, st


def limiter_grid(session_mod, depth=3, inits=(1, 2), targets=(0, 1, 2, 3), probes=3, extra=()):
    """every op sequence of length `depth` applicable in the state reached (decided from the
    implementation's own state, breadth first) over {enter, exit oldest / newest holder, cancel
    oldest / newest waiter, set_target t (t != current)}, each followed by `probes` entries that
    make the number of free permits observable; plus the hand-written `extra` rows."""
    bench = Bench()
    rows = []
    try:
        frontier = [(i, ()) for i in inits]
        for d in range(depth):
            nxt = []
            for init, ops in frontier:
                _obs, (hold, waiting, target) = run_limiter_row(bench, session_mod, init, ops)
                nid = sum(1 for c, _a in ops if c == OP_ENTER)
                cand = [(OP_ENTER, nid)]
                if hold:
                    cand.append((OP_EXIT, hold[0]))
                    if len(hold) > 1:
                        cand.append((OP_EXIT, hold[-1]))
                if waiting:
                    cand.append((OP_CANCEL, waiting[0]))
                    if len(waiting) > 1:
                        cand.append((OP_CANCEL, waiting[-1]))
                cand += [(OP_TARGET, t) for t in targets if t != target]
                nxt += [(init, ops + (c,)) for c in cand]
            frontier = nxt
        cases = frontier + [(i, tuple(o)) for i, o in extra]
        for init, ops in cases:
            nid = max([a for c, a in ops if c == OP_ENTER], default=-1) + 1
            full = list(ops) + [(OP_ENTER, nid + k) for k in range(probes)]
            obs, _st = run_limiter_row(bench, session_mod, init, full)
            rows.append((init, full, obs))
    finally:
        bench.close()
    return rows


def lean_int_rows(rows):
    """rows of integers as a Lean term of type `List (List Int)`: `int_rows% "1 -2 3;4 5"`
    (lean/Aiorpcx/C13/IntRows.lean builds the term from raw literals at elaboration time -
    elaborating thousands of ordinary numerals would take tens of seconds per facts file)"""
    body = ';'.join(' '.join(str(int(x)) for x in r) for r in rows)
    return f'int_rows% "{body}"'


def rat_ints(x):
    """a float / int / Fraction as exact (numerator, denominator)"""
    from fractions import Fraction
    f = Fraction(x)
    return [f.numerator, f.denominator]


def flat_limiter_row(row):
    """(init, ops, obs) -> flat list of small integers:
    init, #ops, (code, arg)*, then per op: #events, (kind, id)*, #holders, holders*, #queue,
    queue*, max_concurrent"""
    init, ops, obs = row
    out = [init, len(ops)]
    for c, a in ops:
        out += [c, a]
    for evs, hold, waiting, target in obs:
        out.append(len(evs))
        for k, i in evs:
            out += [k, i]
        out.append(len(hold))
        out += hold
        out.append(len(waiting))
        out += waiting
        out.append(target)
    return out


def lean_limiter_rows(rows):
    return lean_int_rows([flat_limiter_row(r) for r in rows])


# ------------------------------------------------------------------ sessions with gated handlers
def gated_classes(mods):
    """RPCSession / MessageSession subclasses whose public handler hook records the start and
    waits for a gate"""
    S = mods['session']

    class Common:
        probe_log = None
        probe_gates = None

        async def _probe(self, key):
            self.probe_log.append(('start', key))
            if self.probe_gates is not None:
                fut = self.probe_gates.setdefault(key, asyncio.get_event_loop().create_future())
                await fut
            self.probe_log.append(('end', key))
            return key

    class Rpc(Common, S.RPCSession):
        def on_disconnect_due_to_excessive_session_cost(self):
            self.probe_log.append(('hook', None))

        async def handle_request(self, request):
            return await self._probe(request.args[0])

    class Msg(Common, S.MessageSession):
        def on_disconnect_due_to_excessive_session_cost(self):
            self.probe_log.append(('hook', None))

        async def handle_message(self, message):
            return await self._probe(int(message[1].decode() or 0))
    return Rpc, Msg


def rpc_bytes(i, request=True):
    d = {'jsonrpc': '2.0', 'method': 'm', 'params': [i]}
    if request:
        d['id'] = i
    return json.dumps(d).encode() + b'\n'


def msg_bytes(mods, i):
    framer = mods['framing'].BitcoinFramer()
    return framer.frame((b'probe', str(i).encode()))


# ------------------------------------------------------------------ virtual time
class VBench(Bench):
    """a Bench on the virtual-time loop of harness/vloop.py: `advance(dt)` fires every timer due
    within dt (sleep / timeout_after of the code under test), `aiorpcx.session.time` can be bound
    to the loop's clock with `bind_clock`"""

    def __init__(self):
        from harness import vloop
        logging.disable(logging.CRITICAL)
        self.loop = vloop.VLoop()
        asyncio.set_event_loop(self.loop)

    def _due(self):
        loop = self.loop
        if loop._ready:
            return True
        for h in loop._scheduled[:1]:
            if not h._cancelled and h._when <= loop.time():
                return True
        return False

    def idle(self, rounds=100000):
        loop = self.loop
        loop._spin = 0
        for _ in range(rounds):
            if not self._due():
                if not loop._scheduled or not loop._scheduled[0]._cancelled:
                    return
            loop.call_soon(loop.stop)
            loop.run_forever()
        raise RuntimeError('probe loop does not become idle')

    def advance(self, dt):
        self.idle()
        if dt > 0:
            self.loop.call_later(dt, self.loop.stop)
            self.loop.run_forever()
        self.idle()


class LoopClock:
    """`time` stand-in that reads the virtual loop's clock"""

    def __init__(self, loop):
        self.loop = loop

    def time(self):
        return self.loop.time()


class StubTransport:
    """all a bare `SessionBase` needs from its transport"""

    def __init__(self, kind):
        self.kind = kind
