"""Helpers for the facts extractors: normalised-AST fingerprints and AST look-ups.

The extractors read /repo's *current working tree* (path given by the caller) on every run."""
import ast
import hashlib
import importlib
import os
import sys


def parse(repo, relpath):
    with open(os.path.join(repo, relpath)) as f:
        return ast.parse(f.read())


def _strip_doc(node):
    for n in ast.walk(node):
        body = getattr(n, 'body', None)
        if isinstance(body, list) and body and isinstance(body[0], ast.Expr) \
                and isinstance(getattr(body[0], 'value', None), ast.Constant) \
                and isinstance(body[0].value.value, str):
            n.body = body[1:] or [ast.Pass()]
    return node


def find(tree, qualname):
    """'Class.method' / 'function' / 'Class' -> ast node (or None)."""
    parts = qualname.split('.')
    cur = tree
    for p in parts:
        nxt = None
        for n in getattr(cur, 'body', []):
            if isinstance(n, (ast.FunctionDef, ast.AsyncFunctionDef, ast.ClassDef)) and n.name == p:
                nxt = n
                break
            if isinstance(n, ast.Assign) and any(isinstance(t, ast.Name) and t.id == p for t in n.targets):
                nxt = n
                break
        if nxt is None:
            return None
        cur = nxt
    return cur


def fingerprint(tree, qualname):
    node = find(tree, qualname)
    if node is None:
        return 'missing'
    import copy
    node = _strip_doc(copy.deepcopy(node))
    return hashlib.sha256(ast.dump(node, include_attributes=False).encode()).hexdigest()[:16]


def fingerprints(repo, spec):
    """spec: {relpath: [qualname, ...]} -> {'relpath::qualname': hash}"""
    out = {}
    for rel, names in spec.items():
        tree = parse(repo, rel)
        for n in names:
            out[f'{rel}::{n}'] = fingerprint(tree, n)
    return out


def fresh_import(repo, modname):
    """Import `modname` from the repo's working tree (no stale module objects)."""
    if repo not in sys.path:
        sys.path.insert(0, repo)
    for k in [k for k in sys.modules if k == 'aiorpcx' or k.startswith('aiorpcx.')]:
        m = sys.modules[k]
        f = getattr(m, '__file__', '') or ''
        if not f.startswith(repo):
            del sys.modules[k]
    return importlib.import_module(modname)


def lean_bytes(b):
    return '[' + ', '.join(str(x) for x in b) + ']'
