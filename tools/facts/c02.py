"""Facts for C02 (reply bookkeeping of the serving side of JSONRPCConnection).

Behavioural normal forms probed on the *current* tree by running the public entry points
(`JSONRPCConnection.receive_message`, `Request.send_result`, `protocol.response_message`,
`protocol.batch_message_from_parts`) - no private name is looked up, nothing is read from the
AST: what is added to the running size per batch entry, whether the error entries of invalid
members are accounted, whether an entry after an overflowing one is still replaced, the
separator/bracket lengths of a batch message, the boundary behaviour of a single response (at
the limit: kept, one byte over: replaced by an error with the same id, limit 0: unlimited);
WHICH limit decides when `max_response_size` (a public attribute "intended to be settable
dynamically") is changed between the receipt of a request / a batch and the moment a result is
supplied, and between the supplies of a batch: the real connection is run through every such
history over a small grid of limits (0, too small, exactly fitting, large) and what was kept /
replaced is tabulated (`single_limit_table`, `batch_limit_table`).
Plus AST fingerprints of the modelled functions (only used to deepen the search after a change;
a function that cannot be found is `missing`, never an error)."""
import asyncio
import json

from . import common

FUNCS = {
    'aiorpcx/jsonrpc.py': [
        'JSONRPCConnection._receive_request_batch', 'JSONRPCConnection._send_result',
        'JSONRPCConnection._oversized_response_message', 'JSONRPCConnection.receive_message',
        'JSONRPCConnection.__init__', 'JSONRPC._process_request', 'JSONRPC._error',
        'JSONRPC.response_message', 'JSONRPC.batch_message_from_parts', 'JSONRPC.message_to_item',
        'Request.send_result'],
    'aiorpcx/session.py': ['RPCSession._throttled_request', 'RPCSession._process_messages_loop',
                           'SessionBase._send_message'],
    'aiorpcx/rawsocket.py': ['RSTransport.write', 'RSTransport.pause_writing',
                             'RSTransport.resume_writing'],
}


def _is_error_with_id(raw, rid):
    try:
        p = json.loads(raw)
    except Exception:   # noqa
        return False
    return isinstance(p, dict) and p.get('id') == rid and p.get('error') is not None \
        and p.get('result') is None


def extract(repo):
    jr = common.fresh_import(repo, 'aiorpcx.jsonrpc')
    facts = {}
    loop = asyncio.new_event_loop()
    asyncio.set_event_loop(loop)
    try:
        proto = jr.JSONRPCv2
        one = proto.batch_message_from_parts([b'a'])
        two = proto.batch_message_from_parts([b'a', b'b'])
        facts['bracket_len'] = len(one) - 1
        facts['join_sep_len'] = len(two) - 2 - (len(one) - 1)

        # ---- single request boundary
        def single(maxsize, result, rid=7):
            c = jr.JSONRPCConnection(proto)
            c.max_response_size = maxsize
            raw = json.dumps({'jsonrpc': '2.0', 'method': 'm', 'id': rid}).encode()
            (req,) = c.receive_message(raw)
            return req.send_result(result)
        result = 'x' * 40
        full = proto.response_message(result, 7)
        L = len(full)

        def probe(fn):
            try:
                return bool(fn())
            except Exception:   # noqa
                return False
        facts['single_at_limit_kept'] = probe(lambda: single(L, result) == full)
        facts['single_over_limit_replaced'] = probe(
            lambda: single(L - 1, result) != full and _is_error_with_id(single(L - 1, result), 7))
        facts['single_zero_unlimited'] = probe(lambda: single(0, result) == full)

        # ---- batch: smallest limit that keeps the first / both entries
        def batch(maxsize, r1, r2):
            c = jr.JSONRPCConnection(proto)
            c.max_response_size = maxsize
            raw = json.dumps([{'jsonrpc': '2.0', 'method': 'm', 'id': 1},
                              {'jsonrpc': '2.0', 'method': 'm', 'id': 2}]).encode()
            a, b = c.receive_message(raw)
            first = a.send_result(r1)
            second = b.send_result(r2)
            out = json.loads(second) if second else (json.loads(first) if first else [])
            # always two entries to look at (missing ones never count as "real")
            return (list(out) + [{}, {}])[:2] if isinstance(out, list) else [{}, {}]
        r1, r2 = 'y' * 30, 'z' * 50
        L1, L2 = len(proto.response_message(r1, 1)), len(proto.response_message(r2, 2))
        first_real, both_real = None, None
        for m in range(max(1, L1 - 3), L1 + L2 + 40):
            try:
                out = batch(m, r1, r2)
            except Exception:   # noqa: a tree on which the probe cannot run has no such fact
                break
            if first_real is None and out[0].get('result') == r1:
                first_real = m
            if both_real is None and out[0].get('result') == r1 and out[1].get('result') == r2:
                both_real = m
                break
        inc1 = first_real - L1 if first_real is not None else -1
        inc2 = (both_real - first_real - L2) if None not in (first_real, both_real) else -1
        facts['size_increment'] = inc1 if inc1 == inc2 and inc1 >= 0 else -1
        facts['size_probe'] = {'L1': L1, 'L2': L2, 'first_real': first_real, 'both_real': both_real}
        try:
            out = batch(max(1, L1 - 1), r1, r2)
            facts['batch_replaced_keeps_ids'] = [e.get('id') for e in out] == [1, 2] and \
                all(e.get('error') is not None for e in out)
        except Exception:   # noqa
            facts['batch_replaced_keeps_ids'] = False

        # ---- what the running size does not contain
        def batch_of(maxsize, members, results):
            c = jr.JSONRPCConnection(proto)
            c.max_response_size = maxsize
            items = c.receive_message(json.dumps(members).encode())
            out = None
            for it, r in zip([i for i in items if isinstance(i, jr.Request)], results):
                out = it.send_result(r)
            return json.loads(out) if out else []
        inc = facts['size_increment']
        req = lambda i: {'jsonrpc': '2.0', 'method': 'm', 'id': i}   # noqa
        # an invalid member next to a request whose response fits exactly: kept <=> the error
        # entry of the invalid member is not accounted
        try:
            out = batch_of(L1 + max(inc, 0), [5, req(1)], [r1])
            kept = any(isinstance(e, dict) and e.get('result') == r1 for e in out)
            facts['invalid_members_accounted'] = not kept
        except Exception:   # noqa
            facts['invalid_members_accounted'] = None
        # a response that does not fit followed by one that would fit on its own: replaced too
        # <=> the running size keeps the length of what was replaced
        try:
            big, small = 'w' * 100, 'v'
            Ls = len(proto.response_message(small, 2))
            out = batch_of(Ls + max(inc, 0) + 5, [req(1), req(2)], [big, small])
            facts['overflow_sticky'] = len(out) == 2 and all(
                isinstance(e, dict) and e.get('error') is not None for e in out) and \
                [e.get('id') for e in out] == [1, 2]
        except Exception:   # noqa
            facts['overflow_sticky'] = None
        # ---- which limit decides?  receive with limit A, set B, supply (single); receive with
        # limit A, set B, supply the first result, set C, supply the second (batch)
        def kept_or_replaced(entry, result, rid):
            """True: the real result, False: an error under the same id, None: anything else"""
            if not isinstance(entry, dict) or entry.get('id') != rid:
                return None
            if entry.get('error') is None and entry.get('result') == result:
                return True
            if entry.get('error') is not None and entry.get('result') is None:
                return False
            return None
        rows = []
        for a in (0, L - 1, L):
            for b in (0, L - 1, L):
                try:
                    c = jr.JSONRPCConnection(proto)
                    c.max_response_size = a
                    (rq,) = c.receive_message(json.dumps(req(7)).encode())
                    c.max_response_size = b
                    k = kept_or_replaced(json.loads(rq.send_result(result)), result, 7)
                except Exception:   # noqa
                    k = None
                if k is not None:
                    rows.append([a, b, L, k])
        facts['single_limit_table'] = rows
        rows = []
        i2 = max(inc, 0)
        grid = (0, L1 + i2 - 1, L1 + i2, L1 + L2 + 2 * i2)
        for a in grid:
            for b in grid:
                for c3 in grid:
                    try:
                        c = jr.JSONRPCConnection(proto)
                        c.max_response_size = a
                        ra, rb = c.receive_message(json.dumps([req(1), req(2)]).encode())
                        c.max_response_size = b
                        first = ra.send_result(r1)
                        c.max_response_size = c3
                        out = json.loads(rb.send_result(r2))
                        k1 = kept_or_replaced(out[0], r1, 1)
                        k2 = kept_or_replaced(out[1], r2, 2)
                        ok = first is None and len(out) == 2
                    except Exception:   # noqa
                        ok = False
                    if ok and k1 is not None and k2 is not None:
                        rows.append([a, b, c3, L1, L2, k1, k2])
        facts['batch_limit_table'] = rows
        # ---- request batch or response batch?  every two-member list over {request,
        # response-looking}: handled as a request batch <=> a Request item comes back, or the
        # ProtocolError raised carries a batch (a JSON list) as the message for the peer
        def as_request_batch(flags):
            members = [({'jsonrpc': '2.0', 'result': k, 'id': 90 + k} if f else req(k + 1))
                       for k, f in enumerate(flags)]
            c = jr.JSONRPCConnection(proto)
            try:
                items = c.receive_message(json.dumps(members).encode())
                return any(isinstance(i, jr.Request) for i in items)
            except jr.ProtocolError as e:
                try:
                    return isinstance(json.loads(e.error_message), list)
                except Exception:   # noqa
                    return False
            except Exception:   # noqa
                return False
        facts['dispatch_table'] = [[a, b, as_request_batch((a, b))]
                                   for a in (False, True) for b in (False, True)]
    finally:
        asyncio.set_event_loop(None)
        loop.close()
    facts['fingerprints'] = common.fingerprints(repo, FUNCS)
    return facts


def _b(x):
    return 'true' if x else 'false'


def _ob(x):
    return 'none' if x is None else 'some ' + _b(x)


def render(f):
    inc = f['size_increment']
    return (
        '/-! GENERATED by tools/facts/c02.py from /repo on every run - do not edit. -/\n'
        'namespace Aiorpcx.Facts.C02\n'
        '/-- `batch_message_from_parts`: bytes between two parts, bytes around the whole -/\n'
        f'def joinSepLen : Nat := {f["join_sep_len"]}\n'
        f'def bracketLen : Nat := {f["bracket_len"]}\n'
        '/-- what `item_send_result` adds to the running size per entry on top of the length of\n'
        '    the entry (probed: smallest limit keeping an entry, minus the lengths); `none` when the\n'
        '    probes were not consistent with a constant -/\n'
        f'def sizeIncrement : Option Nat := {"some " + str(inc) if inc >= 0 else "none"}\n'
        '/-- `_send_result`: a response of exactly `max_response_size` bytes is sent as is; one byte\n'
        '    more is replaced by an error response with the same id; limit 0 never replaces -/\n'
        f'def singleAtLimitKept : Bool := {_b(f["single_at_limit_kept"])}\n'
        f'def singleOverLimitReplaced : Bool := {_b(f["single_over_limit_replaced"])}\n'
        f'def singleZeroUnlimited : Bool := {_b(f["single_zero_unlimited"])}\n'
        '/-- replaced batch entries are error responses carrying their own ids, in order -/\n'
        f'def batchReplacedKeepsIds : Bool := {_b(f["batch_replaced_keeps_ids"])}\n'
        '/-- `[invalid, request]` with a limit of exactly the response + increment: the result is\n'
        '    replaced, i.e. the error entry of the invalid member counts towards the running size\n'
        '    (`none`: the probe could not run) -/\n'
        f'def invalidMembersAccounted : Option Bool := {_ob(f.get("invalid_members_accounted"))}\n'
        '/-- `[request 100 bytes over, request that would fit on its own]`: both are replaced -/\n'
        f'def overflowSticky : Option Bool := {_ob(f.get("overflow_sticky"))}\n'
        '/-- `max_response_size` changed while a single request is in flight: (limit when the\n'
        '    request is received, limit when the result is supplied, length of the response, the\n'
        '    real result was sent) - probed by running the connection; rows whose outcome is neither\n'
        '    "the result" nor "an error under the same id" are left out -/\n'
        'def singleLimitTable : List (Nat × Nat × Nat × Bool) := ['
        + ', '.join(f'({a}, {b}, {l}, {_b(k)})' for a, b, l, k in f.get('single_limit_table', [])) + ']\n'
        '/-- the same for a batch of two requests: (limit at receipt, limit when the first result\n'
        '    is supplied, limit when the second is supplied, length of the first response, of the\n'
        '    second, first entry real, second entry real) -/\n'
        'def batchLimitTable : List (Nat × Nat × Nat × Nat × Nat × Bool × Bool) := ['
        + ', '.join(f'({a}, {b}, {c}, {l1}, {l2}, {_b(k1)}, {_b(k2)})'
                    for a, b, c, l1, l2, k1, k2 in f.get('batch_limit_table', [])) + ']\n'
        '/-- `receive_message` on `[a, b]`: (a looks like a response, b looks like a response,\n'
        '    handled as a request batch) -/\n'
        'def dispatchTable : List (Bool × Bool × Bool) := ['
        + ', '.join(f'({_b(a)}, {_b(b)}, {_b(r)})' for a, b, r in f.get('dispatch_table', [])) + ']\n'
        'end Aiorpcx.Facts.C02\n')
