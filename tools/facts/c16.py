"""Facts for C16 (SOCKS request bytes), regenerated from the current tree on every run.

Semantic normal forms obtained through the public surface only (constructor + next_message()),
so a reformat/rename does not change them and a behavioural edit does:
  * probe requests for fixed inputs (every constant of the wire format shows up in them:
    version/command bytes, the 4a marker address, the NUL terminators, method lists, RFC 1929
    version, ATYP codes, port byte order);
  * the set of accepted user-name / password byte lengths in 0..300 (SOCKS5);
  * which destination kinds each class accepts;
  * fingerprints of the modelled functions."""
from ipaddress import IPv4Address, IPv6Address

from . import common

FUNCS = {
    'aiorpcx/socks.py': [
        'SOCKSBase.__init__', 'SOCKSBase._read', 'SOCKSBase.receive_data', 'SOCKSBase.next_message',
        'SOCKS4.__init__', 'SOCKS4._check_remote_host', 'SOCKS4._start',
        'SOCKS4a._check_remote_host',
        'SOCKS5.__init__', 'SOCKS5._destination_bytes', 'SOCKS5._authentication', 'SOCKS5._start',
        'SOCKS5._first_response', 'SOCKS5._auth_response', 'SOCKS5._request_connection'],
    'aiorpcx/util.py': ['NetAddress.__init__', 'classify_host', 'validate_port'],
}

PORT = 0x0506
V4 = bytes([1, 2, 3, 4])
V6 = bytes(range(16))


def _messages(need_cls, client, chunks):
    """messages emitted by a dialogue (public API only)"""
    out = []
    chunks = list(chunks)
    for _ in range(12):
        try:
            m = client.next_message()
        except need_cls:
            if not chunks:
                break
            client.receive_data(chunks.pop(0))
            continue
        except Exception:
            break
        if m is None:
            break
        out.append(list(m))
    return out


# host names NetAddress is asked to take (C18 bridge): (label, string)
def host_probes():
    lab63 = 'x' * 63
    n253 = '.'.join([lab63, lab63, lab63, 'y' * 61])
    assert len(n253) == 253
    return [('plain', 'a.bc'), ('nul', 'a\0b'), ('nul_label', 'a.b\0'), ('non_ascii', '\xe9.com'),
            ('kelvin', '\u212a.com'), ('len253', n253), ('len253_dot', n253 + '.'),
            ('len254', n253 + 'y'), ('len255_dot', n253 + 'y.'), ('label64', 'x' * 64 + '.com'),
            ('space', 'a b.com'), ('empty', '')]


def _proxy_probe(repo):
    """bytes each proxy connection received when `create_connection` (SOCKS5, credentials
    `ab`/`cde`, destination a.bc:0x0506) meets a proxy whose address resolves to three entries:
    the first selects method 2 and hangs up, the second hangs up after `05`, the third selects
    method 0 and grants"""
    from harness import socks_common as sc, socks_world as sw
    mods = sc.Mods(repo)
    w = sw.World()
    w.add_call(0, [[('t', b'\x05\x02', []), ('t', b'\x05', []),
                    ('t', bytes([5, 0, 5, 0, 0, 1, 0, 0, 0, 0, 0, 0]), [])]])
    proxy = sw.make_proxy(mods, '5', ('ab', 'cde'))
    with sw.patched(mods, w):
        with sw.watchdog(5.0):
            r = sw.run_one(w, 0, proxy.create_connection(sw.Factory(), 'a.bc', PORT))
    return [list(c.received) for c in w.conns], sw.outcome_name(r)


def extract(repo):
    from harness import socks_common as sc
    socks = common.fresh_import(repo, 'aiorpcx.socks')
    util = common.fresh_import(repo, 'aiorpcx.util')
    need_cls = sc.need_data_class(socks, util)
    NA, UA = util.NetAddress, socks.SOCKSUserAuth
    a4 = NA(IPv4Address(V4), PORT)
    a6 = NA(IPv6Address(V6), PORT)
    an = NA('a.bc', PORT)
    am = NA(IPv4Address(bytes([0, 0, 0, 5])), PORT)          # SOCKS4a's host-name marker form
    try:
        az = NA(IPv6Address('fe80::1%eth0'), PORT)           # zone-scoped IPv6
    except Exception:       # an ipaddress without scope support: nothing to probe
        az = None
    auth = UA('ab', 'cde')

    def accepts(cls, addr, au=None):
        try:
            cls(addr, au)
            return True
        except Exception:       # a fact, not a crash: the theorems decide what it means
            return False

    def msgs(cls, addr, au, chunks):
        try:
            return _messages(need_cls, cls(addr, au), chunks)
        except Exception:
            return []

    def first(ms):
        return ms[0] if ms else []

    f = {}
    f['socks4_probe'] = first(msgs(socks.SOCKS4, a4, auth, []))
    f['socks4_noauth_probe'] = first(msgs(socks.SOCKS4, a4, None, []))
    f['socks4a_probe'] = first(msgs(socks.SOCKS4a, an, auth, []))
    f['socks5_noauth_sel0'] = msgs(socks.SOCKS5, a4, None, [b'\5\0'])
    f['socks5_noauth_sel2'] = msgs(socks.SOCKS5, a4, None, [b'\5\2', b'\1\0'])
    f['socks5_auth_sel0'] = msgs(socks.SOCKS5, an, auth, [b'\5\0'])
    f['socks5_auth_sel2'] = msgs(socks.SOCKS5, a6, auth, [b'\5\2', b'\1\0'])
    f['user_len_accepted'] = [n for n in range(0, 301) if accepts(socks.SOCKS5, a4, UA('a' * n, 'p'))]
    f['pass_len_accepted'] = [n for n in range(0, 301) if accepts(socks.SOCKS5, a4, UA('u', 'a' * n))]
    f['socks5_tuple_auth_sel0'] = msgs(socks.SOCKS5, a4, ('ab', 'cde'), [b'\5\0'])
    f['accepts'] = {name: [accepts(cls, a4), accepts(cls, a6), accepts(cls, an), accepts(cls, am),
                           az is not None and accepts(cls, az)]
                    for name, cls in (('socks4', socks.SOCKS4), ('socks4a', socks.SOCKS4a),
                                      ('socks5', socks.SOCKS5))}

    def host_ok(name):
        try:
            return isinstance(NA(name, PORT).host, str)
        except Exception:
            return False
    f['host_accepted'] = [host_ok(name) for _label, name in host_probes()]
    try:
        f['proxy_probe'], f['proxy_probe_result'] = _proxy_probe(repo)
    except BaseException as e:      # the probe could not run: recorded, the theorem decides
        f['proxy_probe'], f['proxy_probe_result'] = [], type(e).__name__
    f['fingerprints'] = common.fingerprints(repo, FUNCS)
    return f


def _b(x):
    return common.lean_bytes(x)


def _bl(xs):
    return '[' + ', '.join(_b(x) for x in xs) + ']'


def _bools(xs):
    return '[' + ', '.join('true' if x else 'false' for x in xs) + ']'


def render(f):
    return (
        '/-! GENERATED by tools/facts/c16.py from /repo on every run - do not edit. -/\n'
        'namespace Aiorpcx.Facts.C16\n'
        '/-- `SOCKS4(1.2.3.4:0x0506, SOCKSUserAuth("ab","cde")).next_message()` -/\n'
        f'def socks4Probe : List UInt8 := {_b(f["socks4_probe"])}\n'
        '/-- the same with `auth = None` -/\n'
        f'def socks4NoAuthProbe : List UInt8 := {_b(f["socks4_noauth_probe"])}\n'
        '/-- `SOCKS4a("a.bc":0x0506, SOCKSUserAuth("ab","cde")).next_message()` -/\n'
        f'def socks4aProbe : List UInt8 := {_b(f["socks4a_probe"])}\n'
        '/-- messages of `SOCKS5(1.2.3.4:0x0506, None)` when the proxy answers `05 00` -/\n'
        f'def socks5NoAuthSel0 : List (List UInt8) := {_bl(f["socks5_noauth_sel0"])}\n'
        '/-- ... when the proxy answers `05 02` (a method that was not offered) -/\n'
        f'def socks5NoAuthSel2 : List (List UInt8) := {_bl(f["socks5_noauth_sel2"])}\n'
        '/-- messages of `SOCKS5("a.bc":0x0506, ("ab","cde"))` when the proxy answers `05 00` -/\n'
        f'def socks5AuthSel0 : List (List UInt8) := {_bl(f["socks5_auth_sel0"])}\n'
        '/-- messages of `SOCKS5([0001:0203:..]:0x0506, ("ab","cde"))`, proxy answers `05 02`, `01 00` -/\n'
        f'def socks5AuthSel2 : List (List UInt8) := {_bl(f["socks5_auth_sel2"])}\n'
        '/-- byte lengths n in 0..300 for which SOCKS5 accepts the user name `"a"*n` -/\n'
        f'def userLenAccepted : List Nat := {f["user_len_accepted"]}\n'
        '/-- the same for the password -/\n'
        f'def passLenAccepted : List Nat := {f["pass_len_accepted"]}\n'
        '/-- `SOCKS5(1.2.3.4:0x0506, ("ab","cde"))` - a plain tuple, not a SOCKSUserAuth - answers `05 00` -/\n'
        f'def socks5TupleAuthSel0 : List (List UInt8) := {_bl(f["socks5_tuple_auth_sel0"])}\n'
        '/-- is each probe host name (tools/facts/c16.py host_probes) taken by NetAddress as a host name -/\n'
        f'def hostAccepted : List Bool := {_bools(f["host_accepted"])}\n'
        '/-- bytes each of the three proxy connections of the proxy probe received; and the result -/\n'
        f'def proxyProbe : List (List UInt8) := {_bl(f["proxy_probe"])}\n'
        f'def proxyProbeResult : String := "{f["proxy_probe_result"]}"\n'
        '/-- does the constructor accept an IPv4 / IPv6 / host-name / 0.0.0.5 / zone-scoped IPv6 destination -/\n'
        f'def socks4Accepts : List Bool := {_bools(f["accepts"]["socks4"])}\n'
        f'def socks4aAccepts : List Bool := {_bools(f["accepts"]["socks4a"])}\n'
        f'def socks5Accepts : List Bool := {_bools(f["accepts"]["socks5"])}\n'
        'end Aiorpcx.Facts.C16\n')
