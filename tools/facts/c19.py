"""Facts for C19 (argument checking): the two error codes, the code carried by every exception
that was OBSERVED leaving `handler_invocation` (grouped by the place in the package that raised
it), behavioural probes of the real `handler_invocation` on every well-formed signature with at
most two parameters, and fingerprints of the modelled functions.

Everything is obtained from the *current* tree by running it: constants by importing it, the
probes and the raise sites by calling the real function and looking at what came out (the
traceback of the exception names the raising line).  `ast` is used for one thing only, which
running cannot show: the `raise` statements of `handler_invocation` that NO probe exercised.
Their code is resolved statically where the expression has a known shape and they are listed -
never dropped silently - in `unexercised_raises` / `unresolved_raises` (reported in the evidence;
an unreachable defensive `raise` is not a behaviour and is not a proof obligation).  The probes are
observable behaviour (accepted / RPCError code), not `SignatureInfo` internals, so a refactor that
keeps the behaviour keeps the facts."""
import ast
import inspect
import itertools
import os

from . import common

KINDS = ('po', 'pk', 'vp', 'ko', 'vk')           # rank 0..4
_INSPECT_KIND = {
    inspect.Parameter.POSITIONAL_ONLY: 0, inspect.Parameter.POSITIONAL_OR_KEYWORD: 1,
    inspect.Parameter.VAR_POSITIONAL: 2, inspect.Parameter.KEYWORD_ONLY: 3,
    inspect.Parameter.VAR_KEYWORD: 4}
_KIND_OF_RANK = {v: k for k, v in _INSPECT_KIND.items()}
PROBE_NAMES = ('a', 'b')
UNKNOWN = 'zz'                                   # name number 9 in the probes


# ------------------------------------------------------------------ signatures (shared with
# harness/c19.py: one definition of "well-formed" and of how a signature becomes a function)
def well_formed(sig):
    """sig: list of (rank, name, has_default).  Python's rules for a `def` parameter list."""
    ranks = [k for k, _, _ in sig]
    if ranks != sorted(ranks):
        return False
    if ranks.count(2) > 1 or ranks.count(4) > 1:
        return False
    seen_default = False
    for k, _, d in sig:
        if k in (0, 1):
            if d:
                seen_default = True
            elif seen_default:
                return False
        if k in (2, 4) and d:
            return False
    names = [n for _, n, _ in sig]
    return len(set(names)) == len(names)


DEFAULTS = ('=None', '=0', '=7', "=''", '=()', '=False')


def source(sig, fname='f', first=None):
    """`def` statement for the signature; the body returns every parameter, so that it cannot
    raise and two calls can be compared.  `first`: an extra leading parameter (for methods);
    it is positional-only exactly when the signature itself starts with positional-only ones."""
    parts, prev = [], None
    names = []
    if first is not None:
        parts.append(first)
        names.append(first)
        prev = 0 if (sig and sig[0][0] == 0) else 1
    for i, (k, nm, d) in enumerate(sig):
        if prev == 0 and k != 0:
            parts.append('/')
        if k == 3 and prev not in (2, 3):
            parts.append('*')
        # default values of different truthiness (a default is "there", whatever its value)
        parts.append({0: nm, 1: nm, 2: '*' + nm, 3: nm, 4: '**' + nm}[k] + (DEFAULTS[i % len(DEFAULTS)] if d else ''))
        names.append(nm)
        prev = k
    if prev == 0:
        parts.append('/')
    ret = ', '.join(n for n in names if n != first)
    return f"def {fname}({', '.join(parts)}): return ({ret},)" if ret else \
           f"def {fname}({', '.join(parts)}): return ()"


def make(sig):
    ns = {}
    exec(source(sig), ns)
    return ns['f']


def all_signatures(n, names):
    """every well-formed signature with exactly n parameters named names[0..n-1]"""
    for kinds in itertools.product(range(5), repeat=n):
        if list(kinds) != sorted(kinds):
            continue
        for defs in itertools.product((False, True), repeat=n):
            sig = [(k, names[i], d) for i, (k, d) in enumerate(zip(kinds, defs))]
            if well_formed(sig):
                yield sig


def sig_of(obj):
    """effective signature as inspect reports it -> [(rank, name, has_default)]"""
    return [(_INSPECT_KIND[p.kind], p.name, p.default is not p.empty)
            for p in inspect.signature(obj).parameters.values()]


# ------------------------------------------------------------------ raise sites
def _resolve_raise(node, jsonrpc):
    """code carried by `raise RPCError(JSONRPC.X, ..)` / `raise RPCError.ctor(..)`; None when
    the expression has another shape (then it is simply not a fact)."""
    exc = node.exc
    if not isinstance(exc, ast.Call):
        return None
    f = exc.func
    try:
        if isinstance(f, ast.Name):
            cls = getattr(jsonrpc, f.id)
            if not (isinstance(cls, type) and issubclass(cls, jsonrpc.CodeMessageError)):
                return None
            a0 = exc.args[0]
            if isinstance(a0, ast.Attribute) and isinstance(a0.value, ast.Name):
                return int(getattr(getattr(jsonrpc, a0.value.id), a0.attr))
            if isinstance(a0, ast.Constant) and isinstance(a0.value, int):
                return int(a0.value)
            if isinstance(a0, ast.UnaryOp) and isinstance(a0.op, ast.USub) \
                    and isinstance(a0.operand, ast.Constant):
                return -int(a0.operand.value)
            return None
        if isinstance(f, ast.Attribute) and isinstance(f.value, ast.Name):
            cls = getattr(jsonrpc, f.value.id)
            ctor = getattr(cls, f.attr)
            n = len(inspect.signature(ctor).parameters)
            return int(ctor(*(['x'] * n)).code)
    except Exception:
        return None
    return None


def raise_statements(tree):
    """[(first line, last line, node)] of the `raise <expr>` statements of `handler_invocation`"""
    fn = common.find(tree, 'handler_invocation')
    if fn is None:
        return []
    return sorted(((n.lineno, getattr(n, 'end_lineno', n.lineno), n) for n in ast.walk(fn)
                   if isinstance(n, ast.Raise) and n.exc is not None), key=lambda t: t[:2])


def raise_site(exc, repo):
    """(file relative to the repo, line, function) of the innermost frame inside the package"""
    site = None
    tb = exc.__traceback__
    root = os.path.realpath(repo) + os.sep
    while tb is not None:
        fname = os.path.realpath(tb.tb_frame.f_code.co_filename)
        if fname.startswith(root):
            site = (fname[len(root):], tb.tb_lineno, tb.tb_frame.f_code.co_name)
        tb = tb.tb_next
    return site


def observed_raises(jsonrpc, repo):
    """{site: set of codes} over the probe grid (and a few larger calls for the plural messages):
    every exception that left the real `handler_invocation`, by the place that raised it.  A code
    is the RPCError code, or the exception's class name for anything else."""
    sites = {}

    def run(handler, args):
        try:
            jsonrpc.handler_invocation(handler, jsonrpc.Request('m', args))
        except Exception as e:      # noqa: BLE001 - every escape is an observation
            code = int(e.code) if isinstance(e, jsonrpc.RPCError) and isinstance(e.code, int) \
                else type(e).__name__
            sites.setdefault(raise_site(e, repo), set()).add(code)
    run(None, [])
    run(None, {'a': 1})
    for n in range(0, 3):
        for sig in all_signatures(n, PROBE_NAMES):
            f = make(sig)
            for kind, a in probe_calls(n):
                run(f, [None] * a if kind == 'P' else {k: None for k in a})
    ns = {}
    exec('def g(a, b, c): return ()', ns)
    for args in ([], [1], [1, 2, 3, 4, 5], {}, {'a': 1}, {'a': 1, 'b': 2, 'c': 3, 'x': 4, 'y': 5}):
        run(ns['g'], args)
    return sites


def raise_facts(tree, jsonrpc, repo):
    """-> (codes observed per raising place, in source order; raise statements of
    handler_invocation no probe exercised: [(line, statically resolved code or None)])"""
    sites = observed_raises(jsonrpc, repo)
    ordered = sorted(sites.items(), key=lambda kv: (kv[0] is None, kv[0] or ()))
    codes = [c for _site, cs in ordered for c in sorted(cs, key=str)]
    hit = {ln for site in sites if site is not None and site[0].endswith('jsonrpc.py') for ln in [site[1]]}
    unexercised = []
    for lo, hi, node in raise_statements(tree):
        if not any(lo <= ln <= hi for ln in hit):
            unexercised.append((lo, _resolve_raise(node, jsonrpc)))
    return codes, unexercised


# ------------------------------------------------------------------ probes
def probe_calls(n):
    pool = list(PROBE_NAMES[:n]) + [UNKNOWN]
    calls = [('P', c) for c in range(0, n + 3)]
    for r in range(len(pool) + 1):
        for sub in itertools.combinations(pool, r):
            calls.append(('K', sub))
    return calls


def observe(jsonrpc, handler, args):
    """0 accepted / RPCError code / 1 any other exception"""
    try:
        jsonrpc.handler_invocation(handler, jsonrpc.Request('m', args))
        return 0
    except jsonrpc.RPCError as e:
        return int(e.code) if isinstance(e.code, int) else 1
    except Exception:
        return 1


def probes(jsonrpc):
    num = {'a': 0, 'b': 1, UNKNOWN: 9}
    out = []
    for n in range(0, 3):
        for sig in all_signatures(n, PROBE_NAMES):
            f = make(sig)
            for kind, a in probe_calls(n):
                if kind == 'P':
                    # list and tuple are both positional containers
                    obs = observe(jsonrpc, f, [None] * a if a % 2 == 0 else (None,) * a)
                    call = (False, a, [])
                else:
                    obs = observe(jsonrpc, f, {k: None for k in a})
                    call = (True, 0, [num[k] for k in a])
                out.append(([(k, num[nm], d) for k, nm, d in sig], call, obs))
    return out


def extract(repo):
    jsonrpc = common.fresh_import(repo, 'aiorpcx.jsonrpc')
    tree = common.parse(repo, 'aiorpcx/jsonrpc.py')
    try:
        invalid_args = int(jsonrpc.RPCError.invalid_args('x').code)
    except Exception:
        invalid_args = 0
    try:
        codes, unexercised = raise_facts(tree, jsonrpc, repo)
        raise_error = None
    except Exception as e:      # noqa: BLE001 - degrade, the probes below carry the behaviour
        codes, unexercised, raise_error = [], [], f'{type(e).__name__}: {e}'
    return {
        'invalid_args': invalid_args,
        'method_not_found': int(jsonrpc.JSONRPC.METHOD_NOT_FOUND),
        'no_handler_code': observe(jsonrpc, None, []),
        # integer codes observed; anything that is not an RPCError shows as code 1 ("other")
        'raise_codes': [c if isinstance(c, int) else 1 for c in codes],
        'raise_other_exceptions': sorted({c for c in codes if not isinstance(c, int)}),
        'unexercised_raises': [[ln, c] for ln, c in unexercised],
        'unresolved_raises': [ln for ln, c in unexercised if c is None],
        'raise_facts_error': raise_error,
        'probes': probes(jsonrpc),
        'fingerprints': common.fingerprints(repo, {
            'aiorpcx/util.py': ['signature_info', 'SignatureInfo'],
            'aiorpcx/jsonrpc.py': ['handler_invocation', 'CodeMessageError.invalid_args',
                                   'CodeMessageError.code', 'RPCError.__init__',
                                   'SingleRequest.__init__']}),
    }


def _b(x):
    return 'true' if x else 'false'


def _int(i):
    return f'({i})' if i < 0 else str(i)


def render(f):
    sites = ', '.join(_int(c) for c in sorted(set(f['raise_codes'])))
    rows = []
    for sig, (named, cnt, names), obs in f['probes']:
        s = '[' + ', '.join(f'({k}, {n}, {_b(d)})' for k, n, d in sig) + ']'
        c = f'({_b(named)}, {cnt}, [{", ".join(str(x) for x in names)}])'
        o = 0 if obs == 0 else 1 if obs == f['invalid_args'] else 2 if obs == f['method_not_found'] else 3
        rows.append(f'  ({s}, {c}, {o})')
    return (
        '/-! GENERATED by tools/facts/c19.py from /repo on every run - do not edit. -/\n'
        'namespace Aiorpcx.Facts.C19\n'
        '/-- `RPCError.invalid_args("x").code` -/\n'
        f'def invalidArgs : Int := {_int(f["invalid_args"])}\n'
        '/-- `JSONRPC.METHOD_NOT_FOUND` -/\n'
        f'def methodNotFound : Int := {_int(f["method_not_found"])}\n'
        '/-- code observed from the real `handler_invocation(None, Request("m", []))` -/\n'
        f'def noHandlerCode : Int := {_int(f["no_handler_code"])}\n'
        '/-- the distinct codes carried by the exceptions OBSERVED leaving the real\n'
        '    `handler_invocation` over the probe grid (1 = an exception that is not an RPCError) -/\n'
        f'def raiseCodes : List Int := [{sites}]\n'
        '/-- the real `handler_invocation` on every well-formed signature with <= 2 parameters\n'
        '    (kind rank po=0 pk=1 vp=2 ko=3 vk=4, name, has default) and every call shape\n'
        '    (named?, positional count, names; 9 = a name the signature does not have):\n'
        '    0 = accepted, 1 = RPCError with code `invalidArgs`, 2 = RPCError with code\n'
        '    `methodNotFound`, 3 = anything else -/\n'
        'def probes : List (List (Nat × Nat × Bool) × (Bool × Nat × List Nat) × Nat) := [\n'
        + ',\n'.join(rows) + ']\n'
        'end Aiorpcx.Facts.C19\n')
