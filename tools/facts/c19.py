"""Facts for C19 (argument checking): the two error codes, the code every `raise` statement of
`handler_invocation` resolves to, behavioural probes of the real `handler_invocation` on every
well-formed signature with at most two parameters, and fingerprints of the modelled functions.

Everything is read from the *current* tree: constants by importing it, raise sites by `ast`,
probes by calling the real function.  The probes are observable behaviour (accepted / RPCError
code), not `SignatureInfo` internals, so a refactor that keeps the behaviour keeps the facts."""
import ast
import inspect
import itertools

from . import common

KINDS = ('po', 'pk', 'vp', 'ko', 'vk')           # rank 0..4
_INSPECT_KIND = {
    inspect.Parameter.POSITIONAL_ONLY: 0, inspect.Parameter.POSITIONAL_OR_KEYWORD: 1,
    inspect.Parameter.VAR_POSITIONAL: 2, inspect.Parameter.KEYWORD_ONLY: 3,
    inspect.Parameter.VAR_KEYWORD: 4}
_KIND_OF_RANK = {v: k for k, v in _INSPECT_KIND.items()}
PROBE_NAMES = ('a', 'b')
UNKNOWN = 'zz'                                   # name number 9 in the probes


# ------------------------------------------------------------------ signatures (shared with
# harness/c19.py: one definition of "well-formed" and of how a signature becomes a function)
def well_formed(sig):
    """sig: list of (rank, name, has_default).  Python's rules for a `def` parameter list."""
    ranks = [k for k, _, _ in sig]
    if ranks != sorted(ranks):
        return False
    if ranks.count(2) > 1 or ranks.count(4) > 1:
        return False
    seen_default = False
    for k, _, d in sig:
        if k in (0, 1):
            if d:
                seen_default = True
            elif seen_default:
                return False
        if k in (2, 4) and d:
            return False
    names = [n for _, n, _ in sig]
    return len(set(names)) == len(names)


def source(sig, fname='f', first=None):
    """`def` statement for the signature; the body returns every parameter, so that it cannot
    raise and two calls can be compared.  `first`: an extra leading parameter (for methods);
    it is positional-only exactly when the signature itself starts with positional-only ones."""
    parts, prev = [], None
    names = []
    if first is not None:
        parts.append(first)
        names.append(first)
        prev = 0 if (sig and sig[0][0] == 0) else 1
    for k, nm, d in sig:
        if prev == 0 and k != 0:
            parts.append('/')
        if k == 3 and prev not in (2, 3):
            parts.append('*')
        parts.append({0: nm, 1: nm, 2: '*' + nm, 3: nm, 4: '**' + nm}[k] + ('=None' if d else ''))
        names.append(nm)
        prev = k
    if prev == 0:
        parts.append('/')
    ret = ', '.join(n for n in names if n != first)
    return f"def {fname}({', '.join(parts)}): return ({ret},)" if ret else \
           f"def {fname}({', '.join(parts)}): return ()"


def make(sig):
    ns = {}
    exec(source(sig), ns)
    return ns['f']


def all_signatures(n, names):
    """every well-formed signature with exactly n parameters named names[0..n-1]"""
    for kinds in itertools.product(range(5), repeat=n):
        if list(kinds) != sorted(kinds):
            continue
        for defs in itertools.product((False, True), repeat=n):
            sig = [(k, names[i], d) for i, (k, d) in enumerate(zip(kinds, defs))]
            if well_formed(sig):
                yield sig


def sig_of(obj):
    """effective signature as inspect reports it -> [(rank, name, has_default)]"""
    return [(_INSPECT_KIND[p.kind], p.name, p.default is not p.empty)
            for p in inspect.signature(obj).parameters.values()]


# ------------------------------------------------------------------ raise sites
def _resolve_raise(node, jsonrpc):
    """code carried by `raise RPCError(JSONRPC.X, ..)` / `raise RPCError.ctor(..)`; None when
    the expression has another shape (then it is simply not a fact)."""
    exc = node.exc
    if not isinstance(exc, ast.Call):
        return None
    f = exc.func
    try:
        if isinstance(f, ast.Name):
            cls = getattr(jsonrpc, f.id)
            if not (isinstance(cls, type) and issubclass(cls, jsonrpc.CodeMessageError)):
                return None
            a0 = exc.args[0]
            if isinstance(a0, ast.Attribute) and isinstance(a0.value, ast.Name):
                return int(getattr(getattr(jsonrpc, a0.value.id), a0.attr))
            if isinstance(a0, ast.Constant) and isinstance(a0.value, int):
                return int(a0.value)
            if isinstance(a0, ast.UnaryOp) and isinstance(a0.op, ast.USub) \
                    and isinstance(a0.operand, ast.Constant):
                return -int(a0.operand.value)
            return None
        if isinstance(f, ast.Attribute) and isinstance(f.value, ast.Name):
            cls = getattr(jsonrpc, f.value.id)
            ctor = getattr(cls, f.attr)
            n = len(inspect.signature(ctor).parameters)
            return int(ctor(*(['x'] * n)).code)
    except Exception:
        return None
    return None


def raise_codes(tree, jsonrpc):
    """the code carried by every resolvable `raise` statement inside `handler_invocation`, in
    source order (guards are not interpreted: which code goes with which situation is a
    behavioural fact, see `no_handler_code` and the probes)"""
    fn = common.find(tree, 'handler_invocation')
    out = []
    if fn is None:
        return out
    for node in ast.walk(fn):
        if isinstance(node, ast.Raise) and node.exc is not None:
            code = _resolve_raise(node, jsonrpc)
            if code is not None:
                out.append((node.lineno, node.col_offset, code))
    return [c for _, _, c in sorted(out)]


# ------------------------------------------------------------------ probes
def probe_calls(n):
    pool = list(PROBE_NAMES[:n]) + [UNKNOWN]
    calls = [('P', c) for c in range(0, n + 3)]
    for r in range(len(pool) + 1):
        for sub in itertools.combinations(pool, r):
            calls.append(('K', sub))
    return calls


def observe(jsonrpc, handler, args):
    """0 accepted / RPCError code / 1 any other exception"""
    try:
        jsonrpc.handler_invocation(handler, jsonrpc.Request('m', args))
        return 0
    except jsonrpc.RPCError as e:
        return int(e.code) if isinstance(e.code, int) else 1
    except Exception:
        return 1


def probes(jsonrpc):
    num = {'a': 0, 'b': 1, UNKNOWN: 9}
    out = []
    for n in range(0, 3):
        for sig in all_signatures(n, PROBE_NAMES):
            f = make(sig)
            for kind, a in probe_calls(n):
                if kind == 'P':
                    # list and tuple are both positional containers
                    obs = observe(jsonrpc, f, [None] * a if a % 2 == 0 else (None,) * a)
                    call = (False, a, [])
                else:
                    obs = observe(jsonrpc, f, {k: None for k in a})
                    call = (True, 0, [num[k] for k in a])
                out.append(([(k, num[nm], d) for k, nm, d in sig], call, obs))
    return out


def extract(repo):
    jsonrpc = common.fresh_import(repo, 'aiorpcx.jsonrpc')
    tree = common.parse(repo, 'aiorpcx/jsonrpc.py')
    try:
        invalid_args = int(jsonrpc.RPCError.invalid_args('x').code)
    except Exception:
        invalid_args = 0
    return {
        'invalid_args': invalid_args,
        'method_not_found': int(jsonrpc.JSONRPC.METHOD_NOT_FOUND),
        'no_handler_code': observe(jsonrpc, None, []),
        'raise_codes': raise_codes(tree, jsonrpc),
        'probes': probes(jsonrpc),
        'fingerprints': common.fingerprints(repo, {
            'aiorpcx/util.py': ['signature_info', 'SignatureInfo'],
            'aiorpcx/jsonrpc.py': ['handler_invocation', 'CodeMessageError.invalid_args',
                                   'CodeMessageError.code', 'RPCError.__init__',
                                   'SingleRequest.__init__']}),
    }


def _b(x):
    return 'true' if x else 'false'


def _int(i):
    return f'({i})' if i < 0 else str(i)


def render(f):
    sites = ', '.join(_int(c) for c in f['raise_codes'])
    rows = []
    for sig, (named, cnt, names), obs in f['probes']:
        s = '[' + ', '.join(f'({k}, {n}, {_b(d)})' for k, n, d in sig) + ']'
        c = f'({_b(named)}, {cnt}, [{", ".join(str(x) for x in names)}])'
        o = 0 if obs == 0 else 1 if obs == f['invalid_args'] else 2 if obs == f['method_not_found'] else 3
        rows.append(f'  ({s}, {c}, {o})')
    return (
        '/-! GENERATED by tools/facts/c19.py from /repo on every run - do not edit. -/\n'
        'namespace Aiorpcx.Facts.C19\n'
        '/-- `RPCError.invalid_args("x").code` -/\n'
        f'def invalidArgs : Int := {_int(f["invalid_args"])}\n'
        '/-- `JSONRPC.METHOD_NOT_FOUND` -/\n'
        f'def methodNotFound : Int := {_int(f["method_not_found"])}\n'
        '/-- code observed from the real `handler_invocation(None, Request("m", []))` -/\n'
        f'def noHandlerCode : Int := {_int(f["no_handler_code"])}\n'
        '/-- the code carried by every resolvable `raise` statement in `handler_invocation`,\n'
        '    in source order -/\n'
        f'def raiseCodes : List Int := [{sites}]\n'
        '/-- the real `handler_invocation` on every well-formed signature with <= 2 parameters\n'
        '    (kind rank po=0 pk=1 vp=2 ko=3 vk=4, name, has default) and every call shape\n'
        '    (named?, positional count, names; 9 = a name the signature does not have):\n'
        '    0 = accepted, 1 = RPCError with code `invalidArgs`, 2 = RPCError with code\n'
        '    `methodNotFound`, 3 = anything else -/\n'
        'def probes : List (List (Nat × Nat × Bool) × (Bool × Nat × List Nat) × Nat) := [\n'
        + ',\n'.join(rows) + ']\n'
        'end Aiorpcx.Facts.C19\n')
