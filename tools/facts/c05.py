"""Facts for C05 (no byte sequence can crash or wedge message processing), read from the current
/repo tree on every run: for each `try` on the receive path, the set of exception classes its
`except` clauses catch (closed under subclassing over the model's exception universe, resolved
through the real class objects), located by the operation it protects:

  payload  JSONRPC._message_to_payload                 json.loads(message.decode())
  lookup   JSONRPCConnection._receive_response         `request_id in self._requests`
  sort     JSONRPCConnection._receive_response_batch   `sorted(...)`
  member   JSONRPCConnection._receive_request_batch    `protocol._process_request(payload)`
  recv     JSONRPCConnection.receive_message           `self._protocol.message_to_item(message)`
  loop     RPCSession._process_messages_loop           `self.connection.receive_message(message)`

An operation that is not inside any `try` of its function has the empty set."""
import ast

from . import common
from . import c04

MODELLED = {
    'aiorpcx/jsonrpc.py': [
        'ProtocolError.__init__', 'JSONRPC._process_request', 'JSONRPC._process_response',
        'JSONRPC._message_to_payload', 'JSONRPC._error', 'JSONRPC.message_to_item',
        'JSONRPCv1._message_id', 'JSONRPCv2._message_id',
        'JSONRPCAutoDetect.detect_protocol',
        'JSONRPCConnection.__init__', 'JSONRPCConnection._receive_response',
        'JSONRPCConnection._receive_request_batch', 'JSONRPCConnection._receive_response_batch',
        'JSONRPCConnection.receive_message'],
    'aiorpcx/session.py': [
        'RPCSession._process_messages_loop', 'SessionBase._process_messages',
        'SessionBase.process_messages', 'SessionBase._bump_errors', 'SessionBase._send_message'],
    'aiorpcx/rawsocket.py': ['RSTransport.process_messages', 'RSTransport.connection_lost',
                             'RSTransport.is_closing'],
}


def _contains(node, pred):
    return any(pred(n) for n in ast.walk(node))


def guard_of(func_node, pred, namespace, univ):
    """caught set of the innermost `try` of `func_node` whose *body* contains a node satisfying
    `pred`; [] if the node is in no try body; None if the node does not exist at all."""
    if func_node is None or not _contains(func_node, pred):
        return None
    best = None
    for t in ast.walk(func_node):
        if isinstance(t, ast.Try):
            body = ast.Module(body=t.body, type_ignores=[])
            if _contains(body, pred):
                size = sum(1 for _ in ast.walk(body))
                if best is None or size < best[0]:
                    best = (size, t)
    if best is None:
        return []
    out = []
    for h in best[1].handlers:
        for name in c04.caught_set(h.type, namespace, univ):
            if name not in out:
                out.append(name)
    return out


def is_requests_membership(n):
    return isinstance(n, ast.Compare) and any(isinstance(op, (ast.In, ast.NotIn)) for op in n.ops) \
        and any(isinstance(c, ast.Attribute) and c.attr == '_requests' for c in n.comparators)


def is_call_named(name):
    def pred(n):
        if not isinstance(n, ast.Call):
            return False
        f = n.func
        return (isinstance(f, ast.Name) and f.id == name) or \
            (isinstance(f, ast.Attribute) and f.attr == name)
    return pred


def extract(repo):
    mod = common.fresh_import(repo, 'aiorpcx.jsonrpc')
    smod = common.fresh_import(repo, 'aiorpcx.session')
    tree = common.parse(repo, 'aiorpcx/jsonrpc.py')
    stree = common.parse(repo, 'aiorpcx/session.py')
    univ = c04.universe(mod)
    ns, sns = vars(mod), vars(smod)
    payload = c04.try_clauses(common.find(tree, 'JSONRPC._message_to_payload'), ns, univ)
    g = {
        'lookup': guard_of(common.find(tree, 'JSONRPCConnection._receive_response'),
                           is_requests_membership, ns, univ),
        'sort': guard_of(common.find(tree, 'JSONRPCConnection._receive_response_batch'),
                         is_call_named('sorted'), ns, univ),
        'member': guard_of(common.find(tree, 'JSONRPCConnection._receive_request_batch'),
                           is_call_named('_process_request'), ns, univ),
        'recv': guard_of(common.find(tree, 'JSONRPCConnection.receive_message'),
                         is_call_named('message_to_item'), ns, univ),
        'loop': guard_of(common.find(stree, 'RPCSession._process_messages_loop'),
                         is_call_named('receive_message'), sns, univ),
    }
    # the batch lookup `ordered_ids not in self._requests` (hashes every id)
    g['batch_lookup'] = guard_of(common.find(tree, 'JSONRPCConnection._receive_response_batch'),
                                 is_requests_membership, ns, univ)
    return {
        'payload_try': payload,
        'guards': g,
        'session_protocol_error_is_jsonrpc': sns.get('ProtocolError') is ns['ProtocolError'],
        'fingerprints': common.fingerprints(repo, MODELLED),
    }


def render(f):
    pt = f['payload_try']
    if len(pt) == 1 and len(pt[0]) == 2:
        c1, c2 = pt[0]
    elif len(pt) == 1 and len(pt[0]) == 1:
        c1, c2 = pt[0][0], []
    else:
        c1, c2 = [], []
    g = f['guards']

    def ex(name):
        v = g[name]
        return c04.lean_excs(v or [])
    located = all(g[k] is not None for k in ('lookup', 'sort', 'member', 'recv', 'loop'))
    return (
        'import Aiorpcx.C05.Model\n'
        '/-! GENERATED by tools/facts/c05.py from /repo on every run - do not edit. -/\n'
        'namespace Aiorpcx.Facts.C05\n'
        'open Aiorpcx.Py Aiorpcx.C04 Aiorpcx.C05\n'
        '/-- exception classes caught around each modelled operation (closed under subclassing) -/\n'
        'def guards : Guards :=\n'
        f'  {{ payload := {{ clause1 := {c04.lean_excs(c1)},\n'
        f'                 clause2 := {c04.lean_excs(c2)} }},\n'
        f'    lookup := {ex("lookup")},\n'
        f'    sort := {ex("sort")},\n'
        f'    recv := {ex("recv")},\n'
        f'    loop := {ex("loop")},\n'
        f'    member := {ex("member")} }}\n'
        '/-- every guarded operation of the model was found in the source -/\n'
        f'def operationsLocated : Bool := {c04.lean_bool(located)}\n'
        '/-- the session catches the very `ProtocolError` class the connection raises -/\n'
        f'def sessionCatchesJsonrpcProtocolError : Bool := '
        f'{c04.lean_bool(f["session_protocol_error_is_jsonrpc"])}\n'
        'end Aiorpcx.Facts.C05\n')
