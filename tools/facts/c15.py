"""Facts for C15 (back-pressure).  Everything here is BEHAVIOURAL: the real functions of the
current tree are run on recording stubs, so helper extraction, aliases, early returns, renamed
locals, the function form vs the context-manager form of timeout_after ... leave the generated
Facts/C15.lean byte-identical, and a change of behaviour changes it.  (`ast` is used for the
fingerprints only, in tools/facts/common.py.)

* decision tables of pause_writing / resume_writing / connection_lost, abort(), close(),
  is_closing() of both transports on a stub asyncio transport;
* write-path traces: the real `write()` coroutine of both transports driven step by step
  (`coro.send(None)`) through six scenarios; per step: which of frame / transport.write (of
  exactly the framed bytes or of something else) / pause_reading / resume_reading happened before
  the next suspension point, and whether the coroutine finished;
* stall rows: the real `_send_message` on the real transport protocol over the fake asyncio
  transport and the virtual loop, blocked on a full buffer, with and without a graceful close
  pending: was the asyncio transport aborted, when, what came out of the sender;
* the same deadline for every kind of sender (notification, request, response, batch);
* max_send_delay, fingerprints."""
import asyncio
from asyncio import events as _events

from . import common


class _Stub:
    def __init__(self, closing):
        self.closing = closing
        self.calls = []

    def is_closing(self):
        return self.closing

    def pause_reading(self):
        self.calls.append('pause_reading')

    def resume_reading(self):
        self.calls.append('resume_reading')

    def get_extra_info(self, *a, **k):
        return None

    def write(self, data):
        self.calls.append('write')

    def abort(self):
        self.calls.append('abort')

    def close(self):
        self.calls.append('close')


class _Framer:
    def __init__(self):
        self.failed = None

    def fail(self, exc):
        self.failed = type(exc).__name__

    def frame(self, m):
        return m

    def received_bytes(self, d):
        pass

    async def receive_message(self):
        await asyncio.get_event_loop().create_future()


def table(mod, clsname, kind):
    rows = []
    loop = asyncio.new_event_loop()
    asyncio.set_event_loop(loop)
    try:
        for closing in (False, True):
            for can_send in (False, True):
                row = {'closing': closing, 'can_send': can_send}
                for op in ('pause_writing', 'resume_writing', 'connection_lost'):
                    proto = getattr(mod, clsname)(lambda t: None, _Framer(), kind)
                    stub = _Stub(closing)
                    proto._asyncio_transport = stub
                    if can_send:
                        proto._can_send.set()
                    else:
                        proto._can_send.clear()
                    if op == 'connection_lost':
                        proto.connection_lost(None)
                    else:
                        getattr(proto, op)()
                    row[op] = {'can_send_after': proto._can_send.is_set(),
                               'calls': list(stub.calls),
                               'framer_failed': proto._framer.failed}
                rows.append(row)
    finally:
        asyncio.set_event_loop(None)
        loop.close()
    return rows


# ---- write-path traces ------------------------------------------------------------------------

BIG = b'0:' + b'x' * 4000000       # larger than any plausible piece size of a chunking write()

SCENARIOS = [
    # name, ops.  start/step = one step of the writer's coroutine (recorded); the others are what
    # the environment does in between (their own calls are not recorded)
    ('room', ['start']),
    ('wait_then_room', ['pause', 'start', 'resume', 'step']),
    ('repaused_before_the_woken_writer_runs', ['pause', 'start', 'resume', 'pause', 'step',
                                               'resume', 'step']),
    ('closing', ['closing', 'start']),
    ('lost_while_waiting', ['pause', 'start', 'lose', 'step']),
    ('transport_pauses_inside_the_write', ['pause_in_write', 'start']),
]


class _RecFramer(_Framer):
    def __init__(self, log):
        super().__init__()
        self.log = log
        self.framed = []

    def frame(self, m):
        self.log.append('frame')
        out = bytes(m) + b'\n'
        self.framed.append(out)
        return out


class _RecStub(_Stub):
    def __init__(self, log, framer):
        super().__init__(False)
        self.log = log
        self.framer = framer
        self.proto = None
        self.pause_in_write = False

    def pause_reading(self):
        self.log.append('pause_reading')

    def resume_reading(self):
        self.log.append('resume_reading')

    def write(self, data):
        whole = any(bytes(data) == f for f in self.framer.framed)
        self.log.append('write_framed' if whole else 'write_other')
        if self.pause_in_write:
            self.pause_in_write = False
            self.proto.pause_writing()


def write_traces(mod, clsname, kind):
    """{scenario: [[calls of the step, finished], ...]}"""
    out = {}
    for name, ops in SCENARIOS:
        loop = asyncio.new_event_loop()
        asyncio.set_event_loop(loop)
        _events._set_running_loop(loop)      # Event.wait() needs a "running" loop for its future
        coro = None
        try:
            log = []
            framer = _RecFramer(log)
            proto = getattr(mod, clsname)(lambda t: None, framer, kind)
            stub = _RecStub(log, framer)
            stub.proto = proto
            proto._asyncio_transport = stub
            steps, finished = [], False
            for op in ops:
                if op == 'pause':
                    proto.pause_writing()
                elif op == 'resume':
                    proto.resume_writing()
                elif op == 'closing':
                    stub.closing = True
                elif op == 'lose':
                    stub.closing = True
                    proto.connection_lost(None)
                elif op == 'pause_in_write':
                    stub.pause_in_write = True
                else:
                    if op == 'start':
                        coro = proto.write(BIG)
                    del log[:]
                    if finished:
                        steps.append([['already_finished'], True])
                        continue
                    try:
                        coro.send(None)
                    except StopIteration:
                        finished = True
                    except BaseException as e:      # noqa
                        log.append('raised_' + type(e).__name__)
                        finished = True
                    steps.append([list(log), finished])
            out[name] = steps
        finally:
            if coro is not None:
                try:
                    coro.close()
                except BaseException:   # noqa
                    pass
            _events._set_running_loop(None)
            asyncio.set_event_loop(None)
            loop.close()
    return out


# ---- stall rows and sender kinds (real session + transport protocol, fake asyncio transport) ---

STALL_DELAY = 3


def _world(repo, kind, handler=False):
    from harness import vloop
    from harness import fake_transport as FT
    mods = FT.import_all(repo)
    loop = vloop.VLoop()
    asyncio.set_event_loop(loop)
    # a session task that dies with the TaskTimeout of its send is expected here, not news
    loop.set_exception_handler(lambda _loop, _context: None)
    sess = mods['session']

    class S(sess.RPCSession):
        max_send_delay = STALL_DELAY

        async def handle_request(self, request):
            return 1

    proto, tr, session = FT.make(mods, S, transport=kind, framer=mods['framing'].NewlineFramer())
    tr.hold = True
    saved = sess.time
    sess.time = FT.TimeShim(loop)

    def finish():
        sess.time = saved
        try:
            for _ in range(4):
                pending = [t for t in asyncio.all_tasks(loop) if not t.done()]
                if not pending:
                    break
                for t in pending:
                    t.cancel()
                loop.run_until_complete(asyncio.gather(*pending, return_exceptions=True))
        except BaseException:   # noqa
            pass
        asyncio.set_event_loop(None)
        loop.close()

    return loop, tr, session, finish


def _run_sender(loop, tr, make_sender, before=None, after_block=None):
    """pause the transport, start the sender, let virtual time pass; -> observations"""
    async def main():
        await asyncio.sleep(0)
        if before:
            await before()
        tr.env_pause()
        t0 = loop.time()
        task = loop.create_task(make_sender())
        await asyncio.sleep(0)
        await asyncio.sleep(0)
        blocked = not task.done()
        if after_block:
            after_block()
        pre = (tr.is_closing(), tr.lost_delivered)
        # well beyond the delay; a sender that is never released is cancelled here
        await asyncio.sleep(STALL_DELAY * 4)
        if not task.done():
            task.cancel()
        try:
            await task
            exc = 'returned'
        except BaseException as e:      # noqa
            exc = type(e).__name__
        aborts = [r[0] - t0 for r in tr.log if r[1] == 'abort']
        return {'blocked': blocked, 'closing_before': pre[0], 'lost_before': pre[1],
                'aborts_at': aborts, 'outcome': exc, 'lost_after': tr.lost_delivered}
    return loop.run_until_complete(main())


def stall_rows(repo, kind):
    """[not closing, graceful close pending] x the real _send_message blocked on a full buffer"""
    rows = []
    for pending in (False, True):
        loop, tr, session, finish = _world(repo, kind)
        try:
            async def before():
                await session._send_message(b'a')       # something unsent in the buffer
            rows.append(_run_sender(loop, tr, lambda: session._send_message(b'b'),
                                    before=before if pending else None,
                                    after_block=tr.close if pending else None))
        finally:
            finish()
    return rows


SENDER_KINDS = ('notification', 'request', 'response', 'batch', 'notification_batch', 'error_reply')


def empty_batch(repo, kind):
    """`async with session.send_batch(): pass` - does the public API admit an empty batch?
    -> (outcome, anything handed to the asyncio transport)"""
    loop, tr, session, finish = _world(repo, kind)
    try:
        async def main():
            await asyncio.sleep(0)
            n = len(tr.log)
            try:
                async with session.send_batch():
                    pass
                out = 'returned'
            except BaseException as e:      # noqa
                out = type(e).__name__
            return out, any(r[1] == 'write' for r in tr.log[n:])
        return list(loop.run_until_complete(main()))
    finally:
        finish()


def sender_kinds(repo, kind):
    """the abort deadline applies to every kind of sender: {kind: aborted exactly at the delay}"""
    out = {}
    for name in SENDER_KINDS:
        loop, tr, session, finish = _world(repo, kind)
        try:
            if name == 'notification':
                mk = lambda: session.send_notification('m', [1])
            elif name == 'request':
                mk = lambda: session.send_request('m', [1])
            elif name == 'batch':
                async def mk():
                    async with session.send_batch() as b:
                        b.add_request('m', [1])
                        b.add_notification('n')
            elif name == 'notification_batch':
                async def mk():
                    # no request in it: nothing to wait for after the send
                    async with session.send_batch() as b:
                        b.add_notification('n', [1])
                        b.add_notification('n', [2])
            elif name == 'error_reply':
                async def mk():
                    # the peer sends something that is not JSON; the error reply is sent by the
                    # message-processing task of the session
                    tr.feed(b'this is not json\n')
                    await asyncio.sleep(STALL_DELAY * 3)
            else:
                async def mk():
                    # the peer's request arrives; the response is sent by a task of the session
                    tr.feed(b'{"jsonrpc":"2.0","method":"m","id":1}\n')
                    await asyncio.sleep(STALL_DELAY * 3)
            r = _run_sender(loop, tr, mk)
            out[name] = r['aborts_at'][:1] == [float(STALL_DELAY)] and r['lost_after']
        finally:
            finish()
    return out


def abort_table(mod, clsname, kind):
    """what `await proto.abort()` calls on the asyncio transport, closing or not"""
    out = []
    loop = asyncio.new_event_loop()
    asyncio.set_event_loop(loop)
    try:
        for closing in (False, True):
            proto = getattr(mod, clsname)(lambda t: None, _Framer(), kind)
            stub = _Stub(closing)
            proto._asyncio_transport = stub
            loop.run_until_complete(proto.abort())
            out.append(list(stub.calls))
    finally:
        asyncio.set_event_loop(None)
        loop.close()
    return out


def close_table(mod, clsname, kind):
    """what `await proto.close(force_after)` calls on the asyncio transport (with the closed
    event already set, so that the wait returns at once), closing or not; and the truth table
    of is_closing() over (closed event set, asyncio transport closing)"""
    calls, closing_tab = [], []
    loop = asyncio.new_event_loop()
    asyncio.set_event_loop(loop)
    try:
        for closing in (False, True):
            proto = getattr(mod, clsname)(lambda t: None, _Framer(), kind)
            stub = _Stub(closing)
            proto._asyncio_transport = stub
            proto._closed_event.set()
            loop.run_until_complete(proto.close(1000))
            calls.append(list(stub.calls))
        for ev_set in (False, True):
            for closing in (False, True):
                proto = getattr(mod, clsname)(lambda t: None, _Framer(), kind)
                proto._asyncio_transport = _Stub(closing)
                if ev_set:
                    proto._closed_event.set()
                closing_tab.append(bool(proto.is_closing()))
    finally:
        asyncio.set_event_loop(None)
        loop.close()
    return calls, closing_tab


def extract(repo):
    rs = common.fresh_import(repo, 'aiorpcx.rawsocket')
    us = common.fresh_import(repo, 'aiorpcx.unixsocket')
    sess = common.fresh_import(repo, 'aiorpcx.session')
    kind = sess.SessionKind.SERVER
    return {
        'table_rs': table(rs, 'RSTransport', kind), 'table_us': table(us, 'USTransport', kind),
        'write_trace_rs': write_traces(rs, 'RSTransport', kind),
        'write_trace_us': write_traces(us, 'USTransport', kind),
        'stall_rs': stall_rows(repo, 'rs'), 'stall_us': stall_rows(repo, 'us'),
        'senders_rs': sender_kinds(repo, 'rs'), 'senders_us': sender_kinds(repo, 'us'),
        'empty_batch': [empty_batch(repo, 'rs'), empty_batch(repo, 'us')],
        'abort_rs': abort_table(rs, 'RSTransport', kind),
        'abort_us': abort_table(us, 'USTransport', kind),
        'close_rs': close_table(rs, 'RSTransport', kind),
        'close_us': close_table(us, 'USTransport', kind),
        'max_send_delay': float(sess.SessionBase.max_send_delay),
        'fingerprints': common.fingerprints(repo, {
            'aiorpcx/rawsocket.py': ['RSTransport.pause_writing', 'RSTransport.resume_writing',
                                     'RSTransport.write', 'RSTransport.connection_lost',
                                     'RSTransport.is_closing', 'RSTransport.abort',
                                     'RSTransport.close'],
            'aiorpcx/unixsocket.py': ['USTransport.pause_writing', 'USTransport.resume_writing',
                                      'USTransport.write', 'USTransport.connection_lost',
                                      'USTransport.is_closing', 'USTransport.abort',
                                      'USTransport.close'],
            'aiorpcx/session.py': ['SessionBase._send_message', 'SessionBase.abort',
                                   'SessionBase.close']}),
    }


def _rows(tab):
    b = lambda x: str(bool(x)).lower()
    out = []
    for r in tab:
        p, q, l = r['pause_writing'], r['resume_writing'], r['connection_lost']
        out.append(f'⟨{b(r["closing"])}, {b(r["can_send"])}, '
                   f'{b(p["can_send_after"])}, {b(p["calls"] == ["pause_reading"])}, {b(p["calls"] == [])}, '
                   f'{b(q["can_send_after"])}, {b(q["calls"] == ["resume_reading"])}, {b(q["calls"] == [])}, '
                   f'{b(l["can_send_after"])}, {b(l["framer_failed"] == "ConnectionLostError")}⟩')
    return '[\n  ' + ',\n  '.join(out) + ']'


_WCALL = {'frame': '.frame', 'write_framed': '.writeFramed', 'write_other': '.writeOther',
          'pause_reading': '.pauseReading', 'resume_reading': '.resumeReading'}


def _traces(tr):
    out = []
    for name, _ops in SCENARIOS:
        steps = ', '.join('([' + ', '.join(_WCALL.get(c, '.other') for c in calls) + '], '
                          + str(bool(fin)).lower() + ')' for calls, fin in tr[name])
        out.append('[' + steps + ']')
    return '[\n  ' + ',\n  '.join(out) + ']'


def _stall(rows):
    b = lambda x: str(bool(x)).lower()
    return '[\n  ' + ',\n  '.join(
        f'⟨{b(r["blocked"])}, {b(r["closing_before"])}, {b(r["lost_before"])}, '
        f'{b(len(r["aborts_at"]) == 1)}, {b(r["aborts_at"][:1] == [float(STALL_DELAY)])}, '
        f'{b(r["outcome"] == "TaskTimeout")}, {b(r["lost_after"])}⟩' for r in rows) + ']'


def render(f):
    b = lambda x: str(bool(x)).lower()
    md = f['max_send_delay']
    return (
        '/-! GENERATED by tools/facts/c15.py from /repo on every run - do not edit. -/\n'
        'namespace Aiorpcx.Facts.C15\n'
        '/-- rows: (closing, can_send before, after pause_writing: can_send, called exactly\n'
        '    pause_reading, called nothing; after resume_writing: can_send, called exactly\n'
        '    resume_reading, called nothing; after connection_lost: can_send, framer failed with\n'
        '    ConnectionLostError) -/\n'
        'structure Row where\n  closing : Bool\n  canSend : Bool\n  pCan : Bool\n  pCalled : Bool\n  pNone : Bool\n  rCan : Bool\n  rCalled : Bool\n  rNone : Bool\n  lCan : Bool\n  lFailed : Bool\n  deriving DecidableEq, Repr\n'
        f'def tableRS : List Row := {_rows(f["table_rs"])}\n'
        f'def tableUS : List Row := {_rows(f["table_us"])}\n'
        '/-- what can happen in one step of a writer (between two suspension points) -/\n'
        'inductive WCall where\n  | frame\n  | writeFramed\n  | writeOther\n  | pauseReading\n  | resumeReading\n  | other\n  deriving DecidableEq, Repr\n'
        '/-- the real `write()` coroutine driven step by step on recording stubs; one entry per\n'
        '    scenario (' + ', '.join(n for n, _ in SCENARIOS) + '),\n'
        '    each a list of steps = (calls made in that step, did the coroutine finish) -/\n'
        f'def writeTraceRS : List (List (List WCall × Bool)) := {_traces(f["write_trace_rs"])}\n'
        f'def writeTraceUS : List (List (List WCall × Bool)) := {_traces(f["write_trace_us"])}\n'
        '/-- the real `_send_message` blocked on a full buffer, max_send_delay = D: was it blocked,\n'
        '    is_closing() / connection_lost delivered at that moment, was the asyncio transport\n'
        '    aborted (once), at exactly D, did the sender end with TaskTimeout, was the loss\n'
        '    delivered afterwards.  Rows: connection up; graceful close pending on unsent data -/\n'
        'structure StallRow where\n  blocked : Bool\n  closingBefore : Bool\n  lostBefore : Bool\n  abortedOnce : Bool\n  atDeadline : Bool\n  taskTimeout : Bool\n  lostAfter : Bool\n  deriving DecidableEq, Repr\n'
        f'def stallRS : List StallRow := {_stall(f["stall_rs"])}\n'
        f'def stallUS : List StallRow := {_stall(f["stall_us"])}\n'
        '/-- every kind of sender of the public API, blocked on a full send buffer, gets the\n'
        '    connection aborted at exactly max_send_delay (both transports).  Kinds, in order:\n'
        '    ' + ', '.join(SENDER_KINDS) + ' -/\n'
        f'def sendersBounded : List Bool := [{", ".join(b(f["senders_rs"][k] and f["senders_us"][k]) for k in SENDER_KINDS)}]\n'
        '/-- an empty batch is refused by the public API (ProtocolError) and nothing is written -/\n'
        f'def emptyBatchRefused : Bool := {b(f["empty_batch"] == [["ProtocolError", False]] * 2)}\n'
        '/-- `await transport.abort()` calls exactly `abort()` on the asyncio transport, whether\n'
        '    or not it is already closing (both transports) -/\n'
        f'def abortAborts : Bool := {b(f["abort_rs"] == [["abort"], ["abort"]] and f["abort_us"] == [["abort"], ["abort"]])}\n'
        '/-- `await transport.close(force_after)` first calls exactly `close()` on the asyncio\n'
        '    transport (both transports, closing or not) -/\n'
        f'def closeCloses : Bool := {b(all(c[0] == [["close"], ["close"]] for c in (f["close_rs"], f["close_us"])))}\n'
        '/-- `is_closing()` = closed event set OR asyncio transport closing (both transports) -/\n'
        f'def isClosingIsOr : Bool := {b(all(c[1] == [False, True, True, True] for c in (f["close_rs"], f["close_us"])))}\n'
        '/-- SessionBase.max_send_delay, in milliseconds -/\n'
        f'def maxSendDelayMs : Int := {int(round(md * 1000))}\n'
        'end Aiorpcx.Facts.C15\n')
