"""Facts for C15 (back-pressure): decision tables of the real pause_writing / resume_writing /
connection_lost on both transports (run on a stub asyncio transport), the shape of write()
(does it re-check the event in a loop?  does it frame once and hand the frame to the asyncio
transport in exactly one call, outside any loop, with every suspension point before that call?),
the shape of `_send_message` (write under timeout_after(max_send_delay); TaskTimeout -> abort,
unconditionally, then re-raise), what abort() does to the asyncio transport, max_send_delay,
fingerprints."""
import ast
import asyncio

from . import common


class _Stub:
    def __init__(self, closing):
        self.closing = closing
        self.calls = []

    def is_closing(self):
        return self.closing

    def pause_reading(self):
        self.calls.append('pause_reading')

    def resume_reading(self):
        self.calls.append('resume_reading')

    def get_extra_info(self, *a, **k):
        return None

    def write(self, data):
        self.calls.append('write')

    def abort(self):
        self.calls.append('abort')

    def close(self):
        self.calls.append('close')


class _Framer:
    def __init__(self):
        self.failed = None

    def fail(self, exc):
        self.failed = type(exc).__name__

    def frame(self, m):
        return m

    def received_bytes(self, d):
        pass

    async def receive_message(self):
        await asyncio.get_event_loop().create_future()


def table(mod, clsname, kind):
    rows = []
    loop = asyncio.new_event_loop()
    asyncio.set_event_loop(loop)
    try:
        for closing in (False, True):
            for can_send in (False, True):
                row = {'closing': closing, 'can_send': can_send}
                for op in ('pause_writing', 'resume_writing', 'connection_lost'):
                    proto = getattr(mod, clsname)(lambda t: None, _Framer(), kind)
                    stub = _Stub(closing)
                    proto._asyncio_transport = stub
                    if can_send:
                        proto._can_send.set()
                    else:
                        proto._can_send.clear()
                    if op == 'connection_lost':
                        proto.connection_lost(None)
                    else:
                        getattr(proto, op)()
                    row[op] = {'can_send_after': proto._can_send.is_set(),
                               'calls': list(stub.calls),
                               'framer_failed': proto._framer.failed}
                rows.append(row)
    finally:
        asyncio.set_event_loop(None)
        loop.close()
    return rows


def write_shape(tree, clsname):
    node = common.find(tree, f'{clsname}.write')
    loops, awaits_before_write = False, 0
    if node is not None:
        for n in ast.walk(node):
            if isinstance(n, ast.While) and any(isinstance(x, ast.Await) for x in ast.walk(n)):
                loops = True
    return loops


_SUSPEND = (ast.Await, ast.AsyncFor, ast.AsyncWith, ast.Yield, ast.YieldFrom)
_LOOPS = (ast.For, ast.While, ast.AsyncFor, ast.ListComp, ast.SetComp, ast.DictComp,
          ast.GeneratorExp)


def _is_self_attr(n, attr):
    return (isinstance(n, ast.Attribute) and n.attr == attr and isinstance(n.value, ast.Name)
            and n.value.id == 'self')


def _pos(n):
    return (n.lineno, n.col_offset)


def write_atomic(tree, clsname):
    """(frame_once, write_atomic) for `<cls>.write`:
    frame_once   - exactly one call `<anything>.frame(...)`, not inside a loop;
    write_atomic - exactly one call `<asyncio transport>.write(...)` (the receiver is
                   `self._asyncio_transport` or a local name assigned from it), not inside a loop,
                   and every suspension point of the function (await / async with / async for /
                   yield) comes before it - so between the last wait on `_can_send` and the
                   hand-over of the whole frame nothing else can run."""
    node = common.find(tree, f'{clsname}.write')
    if node is None:
        return False, False
    aliases = set()
    for n in ast.walk(node):
        if isinstance(n, ast.Assign) and _is_self_attr(n.value, '_asyncio_transport'):
            aliases |= {t.id for t in n.targets if isinstance(t, ast.Name)}

    def is_transport(n):
        return _is_self_attr(n, '_asyncio_transport') or (isinstance(n, ast.Name) and n.id in aliases)

    in_loop = {}

    def visit(n, looped):
        in_loop[id(n)] = looped
        for c in ast.iter_child_nodes(n):
            visit(c, looped or isinstance(n, _LOOPS))

    visit(node, False)
    calls = [n for n in ast.walk(node) if isinstance(n, ast.Call) and isinstance(n.func, ast.Attribute)]
    frames = [n for n in calls if n.func.attr == 'frame']
    writes = [n for n in calls if n.func.attr == 'write' and is_transport(n.func.value)]
    suspends = [n for n in ast.walk(node) if isinstance(n, _SUSPEND)]
    frame_once = len(frames) == 1 and not in_loop[id(frames[0])]
    atomic = (len(writes) == 1 and not in_loop[id(writes[0])]
              and all(_pos(s) < _pos(writes[0]) for s in suspends))
    return frame_once, atomic


def send_shape(tree):
    """(wraps, aborts) for SessionBase._send_message:
    wraps  - `await self.transport.write(..)` sits inside `async with timeout_after(
             self.max_send_delay)` inside a try;
    aborts - that try has a handler for TaskTimeout whose body, at its top level (not under any
             condition), awaits `self.abort()` and ends with a bare `raise`."""
    node = common.find(tree, 'SessionBase._send_message')
    wraps = aborts = False
    if node is None:
        return wraps, aborts
    for tr in [n for n in ast.walk(node) if isinstance(n, ast.Try)]:
        for w in [n for b in tr.body for n in ast.walk(b) if isinstance(n, ast.AsyncWith)]:
            ok_ctx = any(isinstance(i.context_expr, ast.Call)
                         and getattr(i.context_expr.func, 'id', None) == 'timeout_after'
                         and len(i.context_expr.args) == 1
                         and _is_self_attr(i.context_expr.args[0], 'max_send_delay')
                         for i in w.items)
            ok_body = any(isinstance(n, ast.Await) and isinstance(n.value, ast.Call)
                          and isinstance(n.value.func, ast.Attribute) and n.value.func.attr == 'write'
                          and _is_self_attr(n.value.func.value, 'transport')
                          for b in w.body for n in ast.walk(b))
            if not (ok_ctx and ok_body):
                continue
            wraps = True
            for h in tr.handlers:
                names = [h.type] if not isinstance(h.type, ast.Tuple) else list(h.type.elts)
                if not any(isinstance(x, ast.Name) and x.id == 'TaskTimeout' for x in names):
                    continue
                calls_abort = any(
                    isinstance(st, ast.Expr) and isinstance(st.value, ast.Await)
                    and isinstance(st.value.value, ast.Call)
                    and _is_self_attr(st.value.value.func, 'abort') for st in h.body)
                reraises = bool(h.body) and isinstance(h.body[-1], ast.Raise) and h.body[-1].exc is None
                aborts = calls_abort and reraises
    return wraps, aborts


def abort_table(mod, clsname, kind):
    """what `await proto.abort()` calls on the asyncio transport, closing or not"""
    out = []
    loop = asyncio.new_event_loop()
    asyncio.set_event_loop(loop)
    try:
        for closing in (False, True):
            proto = getattr(mod, clsname)(lambda t: None, _Framer(), kind)
            stub = _Stub(closing)
            proto._asyncio_transport = stub
            loop.run_until_complete(proto.abort())
            out.append(list(stub.calls))
    finally:
        asyncio.set_event_loop(None)
        loop.close()
    return out


def _calls(tree, pred):
    return [n for n in ast.walk(tree) if isinstance(n, ast.Call) and isinstance(n.func, ast.Attribute)
            and pred(n.func)]


def single_write_path(repo):
    """call-site facts: in session.py every `<..>.transport.write(..)` call is the one inside
    SessionBase._send_message (so every sender - responses, requests, notifications - goes through
    the max_send_delay wrapper); in rawsocket.py / unixsocket.py the only
    `<..>._asyncio_transport.write(..)` call is the one inside the transport's `write`"""
    ok = True
    st = common.parse(repo, 'aiorpcx/session.py')
    is_tw = lambda f: f.attr == 'write' and isinstance(f.value, ast.Attribute) and f.value.attr == 'transport'
    inside = common.find(st, 'SessionBase._send_message')
    ok &= inside is not None and len(_calls(st, is_tw)) == 1 and len(_calls(inside, is_tw)) == 1
    for rel, cls in (('aiorpcx/rawsocket.py', 'RSTransport'), ('aiorpcx/unixsocket.py', 'USTransport')):
        t = common.parse(repo, rel)
        is_aw = lambda f: f.attr == 'write' and isinstance(f.value, ast.Attribute) \
            and f.value.attr == '_asyncio_transport'
        w = common.find(t, f'{cls}.write')
        ok &= w is not None and len(_calls(t, is_aw)) == len(_calls(w, is_aw))
    return bool(ok)


def close_table(mod, clsname, kind):
    """what `await proto.close(force_after)` calls on the asyncio transport (with the closed
    event already set, so that the wait returns at once), closing or not; and the truth table
    of is_closing() over (closed event set, asyncio transport closing)"""
    calls, closing_tab = [], []
    loop = asyncio.new_event_loop()
    asyncio.set_event_loop(loop)
    try:
        for closing in (False, True):
            proto = getattr(mod, clsname)(lambda t: None, _Framer(), kind)
            stub = _Stub(closing)
            proto._asyncio_transport = stub
            proto._closed_event.set()
            loop.run_until_complete(proto.close(1000))
            calls.append(list(stub.calls))
        for ev_set in (False, True):
            for closing in (False, True):
                proto = getattr(mod, clsname)(lambda t: None, _Framer(), kind)
                proto._asyncio_transport = _Stub(closing)
                if ev_set:
                    proto._closed_event.set()
                closing_tab.append(bool(proto.is_closing()))
    finally:
        asyncio.set_event_loop(None)
        loop.close()
    return calls, closing_tab


def extract(repo):
    rs = common.fresh_import(repo, 'aiorpcx.rawsocket')
    us = common.fresh_import(repo, 'aiorpcx.unixsocket')
    sess = common.fresh_import(repo, 'aiorpcx.session')
    kind = sess.SessionKind.SERVER
    t_rs = table(rs, 'RSTransport', kind)
    t_us = table(us, 'USTransport', kind)
    fo_rs, wa_rs = write_atomic(common.parse(repo, 'aiorpcx/rawsocket.py'), 'RSTransport')
    fo_us, wa_us = write_atomic(common.parse(repo, 'aiorpcx/unixsocket.py'), 'USTransport')
    wraps, aborts = send_shape(common.parse(repo, 'aiorpcx/session.py'))
    return {
        'table_rs': t_rs, 'table_us': t_us,
        'frame_once_rs': fo_rs, 'write_atomic_rs': wa_rs,
        'frame_once_us': fo_us, 'write_atomic_us': wa_us,
        'send_wraps_write': wraps, 'send_aborts_unconditionally': aborts,
        'abort_rs': abort_table(rs, 'RSTransport', kind),
        'abort_us': abort_table(us, 'USTransport', kind),
        'single_write_path': single_write_path(repo),
        'close_rs': close_table(rs, 'RSTransport', kind),
        'close_us': close_table(us, 'USTransport', kind),
        'write_loops_rs': write_shape(common.parse(repo, 'aiorpcx/rawsocket.py'), 'RSTransport'),
        'write_loops_us': write_shape(common.parse(repo, 'aiorpcx/unixsocket.py'), 'USTransport'),
        'max_send_delay': float(sess.SessionBase.max_send_delay),
        'fingerprints': common.fingerprints(repo, {
            'aiorpcx/rawsocket.py': ['RSTransport.pause_writing', 'RSTransport.resume_writing',
                                     'RSTransport.write', 'RSTransport.connection_lost',
                                     'RSTransport.is_closing', 'RSTransport.abort',
                                     'RSTransport.close'],
            'aiorpcx/unixsocket.py': ['USTransport.pause_writing', 'USTransport.resume_writing',
                                      'USTransport.write', 'USTransport.connection_lost',
                                      'USTransport.is_closing', 'USTransport.abort',
                                      'USTransport.close'],
            'aiorpcx/session.py': ['SessionBase._send_message', 'SessionBase.abort',
                                   'SessionBase.close']}),
    }


def _rows(tab):
    b = lambda x: str(bool(x)).lower()
    out = []
    for r in tab:
        p, q, l = r['pause_writing'], r['resume_writing'], r['connection_lost']
        out.append(f'⟨{b(r["closing"])}, {b(r["can_send"])}, '
                   f'{b(p["can_send_after"])}, {b(p["calls"] == ["pause_reading"])}, {b(p["calls"] == [])}, '
                   f'{b(q["can_send_after"])}, {b(q["calls"] == ["resume_reading"])}, {b(q["calls"] == [])}, '
                   f'{b(l["can_send_after"])}, {b(l["framer_failed"] == "ConnectionLostError")}⟩')
    return '[\n  ' + ',\n  '.join(out) + ']'


def render(f):
    b = lambda x: str(bool(x)).lower()
    md = f['max_send_delay']
    return (
        '/-! GENERATED by tools/facts/c15.py from /repo on every run - do not edit. -/\n'
        'namespace Aiorpcx.Facts.C15\n'
        '/-- rows: (closing, can_send before, after pause_writing: can_send, called exactly\n'
        '    pause_reading, called nothing; after resume_writing: can_send, called exactly\n'
        '    resume_reading, called nothing; after connection_lost: can_send, framer failed with\n'
        '    ConnectionLostError) -/\n'
        'structure Row where\n  closing : Bool\n  canSend : Bool\n  pCan : Bool\n  pCalled : Bool\n  pNone : Bool\n  rCan : Bool\n  rCalled : Bool\n  rNone : Bool\n  lCan : Bool\n  lFailed : Bool\n  deriving DecidableEq, Repr\n'
        f'def tableRS : List Row := {_rows(f["table_rs"])}\n'
        f'def tableUS : List Row := {_rows(f["table_us"])}\n'
        '/-- `write()` waits for `_can_send` inside an awaiting `while` loop -/\n'
        f'def writeLoopsRS : Bool := {b(f["write_loops_rs"])}\n'
        f'def writeLoopsUS : Bool := {b(f["write_loops_us"])}\n'
        '/-- `write()` calls `frame(..)` exactly once, outside any loop -/\n'
        f'def frameOnceRS : Bool := {b(f["frame_once_rs"])}\n'
        f'def frameOnceUS : Bool := {b(f["frame_once_us"])}\n'
        '/-- `write()` hands the frame to the asyncio transport in exactly one call, outside any\n'
        '    loop, with every suspension point of the function before that call -/\n'
        f'def writeAtomicRS : Bool := {b(f["write_atomic_rs"])}\n'
        f'def writeAtomicUS : Bool := {b(f["write_atomic_us"])}\n'
        '/-- `_send_message`: the write is awaited under `timeout_after(self.max_send_delay)` -/\n'
        f'def sendWrapsWrite : Bool := {b(f["send_wraps_write"])}\n'
        '/-- `_send_message`: `except TaskTimeout:` awaits `self.abort()` at the top level of the\n'
        '    handler (under no condition) and re-raises -/\n'
        f'def sendAbortsUnconditionally : Bool := {b(f["send_aborts_unconditionally"])}\n'
        '/-- `await transport.abort()` calls exactly `abort()` on the asyncio transport, whether\n'
        '    or not it is already closing (both transports) -/\n'
        f'def abortAborts : Bool := {b(f["abort_rs"] == [["abort"], ["abort"]] and f["abort_us"] == [["abort"], ["abort"]])}\n'
        '/-- session.py writes to the transport only inside `_send_message`; the transports write\n'
        '    to the asyncio transport only inside their `write` -/\n'
        f'def singleWritePath : Bool := {b(f["single_write_path"])}\n'
        '/-- `await transport.close(force_after)` first calls exactly `close()` on the asyncio\n'
        '    transport (both transports, closing or not) -/\n'
        f'def closeCloses : Bool := {b(all(c[0] == [["close"], ["close"]] for c in (f["close_rs"], f["close_us"])))}\n'
        '/-- `is_closing()` = closed event set OR asyncio transport closing (both transports) -/\n'
        f'def isClosingIsOr : Bool := {b(all(c[1] == [False, True, True, True] for c in (f["close_rs"], f["close_us"])))}\n'
        '/-- SessionBase.max_send_delay, in milliseconds -/\n'
        f'def maxSendDelayMs : Int := {int(round(md * 1000))}\n'
        'end Aiorpcx.Facts.C15\n')
