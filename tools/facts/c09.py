"""Facts for C09/C10 (TaskGroup): admitted wait policies, the shape of join()'s finally clause
(does it sweep until nothing is left?), whether daemons get a done-callback, fingerprints."""
import ast
from . import common


WAIT = {'all': all, 'any': any, 'object': object}
OUTCOMES = ['n', 'v', 'e', 'c']


async def _stop_row(curio, policy, outcome, before):
    """One iteration of join()'s loop on the real class: a member that has finished with
    `outcome` is queued, another member is running; does join() go on waiting or stop (= cancel
    the other member), and is `completed` set to the finished one?  `before`: `completed` had
    already been set (public attribute) when join() ran."""
    import asyncio
    loop = asyncio.get_running_loop()
    g = curio.TaskGroup(wait=WAIT[policy])
    gate, block = loop.create_future(), loop.create_future()

    async def member():
        k = await gate
        if k == 'e':
            raise KeyError('probe')
        if k == 'c':
            raise curio.CancelledError()
        return None if k == 'n' else 1

    async def other():
        await block

    async def dummy():
        return 1

    t = await g.spawn(member)
    o = await g.spawn(other)
    gate.set_result(outcome)
    for _ in range(6):
        await asyncio.sleep(0)
    if before:
        marker = loop.create_task(dummy())
        for _ in range(3):
            await asyncio.sleep(0)
        g.completed = marker
    j = loop.create_task(g.join())
    for _ in range(10):
        await asyncio.sleep(0)
    stopped = bool(o.cancelling() > 0 or o.done())
    completed_is_t = g.completed is t
    block.cancel()
    o.cancel()
    j.cancel()
    await asyncio.gather(j, o, t, return_exceptions=True)
    return stopped, completed_is_t


async def _next_done_rows(curio):
    """next_done() on the three reachable situations of an idle group"""
    import asyncio
    loop = asyncio.get_running_loop()
    rows = []
    g = curio.TaskGroup()
    rows.append(('empty', 'none' if await g.next_done() is None else 'other'))

    async def quick():
        return 1

    g = curio.TaskGroup()
    t = await g.spawn(quick)
    for _ in range(4):
        await asyncio.sleep(0)
    r = await g.next_done()
    rows.append(('one-done', 'head' if r is t else ('none' if r is None else 'other')))
    g = curio.TaskGroup()
    block = loop.create_future()

    async def slow():
        await block

    t = await g.spawn(slow)
    c = loop.create_task(g.next_done())
    for _ in range(6):
        await asyncio.sleep(0)
    rows.append(('one-pending', 'blocks' if not c.done() else 'returns'))
    c.cancel()
    block.cancel()
    t.cancel()
    await asyncio.gather(c, t, return_exceptions=True)
    return rows


async def _tables(curio):
    stop = []
    for pol in ('all', 'any', 'object'):
        for oc in OUTCOMES:
            for before in (False, True):
                st, ct = await _stop_row(curio, pol, oc, before)
                stop.append([pol, oc, before, st, ct])
    return stop, [list(r) for r in await _next_done_rows(curio)]


def extract(repo):
    curio = common.fresh_import(repo, 'aiorpcx.curio')
    tree = common.parse(repo, 'aiorpcx/curio.py')
    # which wait arguments the constructor admits (behavioural: try them)
    admitted = []
    import asyncio
    loop = asyncio.new_event_loop()
    try:
        asyncio.set_event_loop(loop)
        for name, val in (('all', all), ('any', any), ('object', object), ('none', None),
                          ('other', 7)):
            try:
                curio.TaskGroup(wait=val)
                admitted.append(name)
            except ValueError:
                pass
        stop_table, next_done_table = loop.run_until_complete(
            asyncio.wait_for(_tables(curio), timeout=60))
    finally:
        asyncio.set_event_loop(None)
        loop.close()
    join = common.find(tree, 'TaskGroup.join')
    finally_loops = False
    finally_sets_joined_last = False
    if join is not None:
        for n in ast.walk(join):
            if isinstance(n, ast.Try) and n.finalbody:
                fb = n.finalbody
                for st in fb:
                    for m in ast.walk(st):
                        if isinstance(m, ast.While):
                            if any(isinstance(x, ast.Await) for x in ast.walk(m)):
                                finally_loops = True
                last = fb[-1]
                if isinstance(last, ast.Assign) and isinstance(last.targets[0], ast.Attribute) \
                        and last.targets[0].attr == 'joined':
                    finally_sets_joined_last = True
    return {
        'admitted_policies': admitted,
        'join_finally_loops': finally_loops,
        'joined_set_last_in_finally': finally_sets_joined_last,
        'stop_table': stop_table,
        'next_done_table': next_done_table,
        'fingerprints': common.fingerprints(repo, {
            'aiorpcx/curio.py': ['TaskGroup.__init__', 'TaskGroup._on_done', 'TaskGroup._add_task',
                                 'TaskGroup.next_done', 'TaskGroup.next_result', 'TaskGroup.join',
                                 'TaskGroup._cancel_tasks', 'TaskGroup.cancel_remaining',
                                 'TaskGroup.__aexit__', 'TaskGroup.__anext__',
                                 'TaskGroup.result', 'TaskGroup.exception', 'spawn_sync']}),
    }


def render(f):
    b = lambda x: str(bool(x)).lower()
    pol = ', '.join(f'"{p}"' for p in f['admitted_policies'])
    return (
        '/-! GENERATED by tools/facts/c09.py from /repo on every run - do not edit. -/\n'
        'namespace Aiorpcx.Facts.C09\n'
        '/-- `wait=` values `TaskGroup.__init__` accepts, probed on the real class -/\n'
        f'def admittedPolicies : List String := [{pol}]\n'
        '/-- the `finally:` clause of `join()` contains an awaiting `while` loop (sweeps until no\n'
        '    unfinished member is left) -/\n'
        f'def joinFinallyLoops : Bool := {b(f["join_finally_loops"])}\n'
        '/-- `self.joined = True` is the last statement of that clause -/\n'
        f'def joinedSetLast : Bool := {b(f["joined_set_last_in_finally"])}\n'
        '/-- one iteration of the `join()` loop, probed on the real class: (policy, outcome of the\n'
        '    popped member n|v|e|c, `completed` already set?, join stops and cancels the rest?,\n'
        '    `completed` is now the popped member?) -/\n'
        'def stopTable : List (String × String × Bool × Bool × Bool) := ['
        + ', '.join(f'("{r[0]}", "{r[1]}", {b(r[2])}, {b(r[3])}, {b(r[4])})' for r in f['stop_table'])
        + ']\n'
        '/-- `next_done()` on an idle group: nothing there / one finished member / one pending -/\n'
        'def nextDoneTable : List (String × String) := ['
        + ', '.join(f'("{r[0]}", "{r[1]}")' for r in f['next_done_table']) + ']\n'
        'end Aiorpcx.Facts.C09\n')
