"""Facts for C14 (cost accounting): the class attributes that configure the accounting, the drift
threshold literal, the normal forms of `bump_cost` / `recalc_concurrency` / the charging sites,
the client override, the -101 branch of `_throttled_request`, and fingerprints."""
import ast
from fractions import Fraction

from . import common
from . import limcommon as lc


def q(x):
    f = Fraction(x)
    return f'({f.numerator} : Rat) / {f.denominator}' if f.denominator != 1 else f'({f.numerator} : Rat)'


def extract(repo):
    session = common.fresh_import(repo, 'aiorpcx.session')
    jsonrpc = common.fresh_import(repo, 'aiorpcx.jsonrpc')
    tree = common.parse(repo, 'aiorpcx/session.py')
    SB = session.SessionBase
    f = {}
    for name in ('bw_cost_per_byte', 'cost_soft_limit', 'cost_hard_limit', 'cost_decay_per_sec',
                 'cost_sleep', 'error_base_cost', 'initial_concurrent', 'processing_timeout'):
        f[name] = getattr(SB, name)
    # bump_cost / recalc_concurrency: per-path symbolic normal forms (limcommon.sym_paths)
    node = common.find(tree, 'SessionBase.bump_cost')
    f['bump_paths'] = lc.sym_paths(node) if node else []
    f['drift_threshold'] = None
    for st in ast.walk(node) if node else []:
        if isinstance(st, ast.If) and isinstance(st.test, ast.Compare) \
                and isinstance(st.test.comparators[0], ast.Constant) and 'abs' in ast.unparse(st.test.left):
            f['drift_threshold'] = st.test.comparators[0].value
    node = common.find(tree, 'SessionBase.recalc_concurrency')
    f['recalc_paths'] = lc.sym_paths(node) if node else []
    for key, qual in (('data_received_paths', 'SessionBase.data_received'),
                      ('bump_errors_paths', 'SessionBase._bump_errors')):
        node = common.find(tree, qual)
        f[key] = lc.sym_paths(node) if node else []
    # charging sites
    def calls_bump(qual):
        n = common.find(tree, qual)
        out = []
        for c in ast.walk(n) if n else []:
            if isinstance(c, ast.Call) and isinstance(c.func, ast.Attribute) and c.func.attr == 'bump_cost':
                out.append(lc.strip_self(c.args[0]))
        return out
    f['charge_send_message'] = calls_bump('SessionBase._send_message')
    # client override in __init__
    node = common.find(tree, 'SessionBase.__init__')
    f['client_override'] = ''
    for st in ast.walk(node) if node else []:
        if isinstance(st, ast.If) and 'session_kind' in ast.unparse(st.test):
            f['client_override'] = f'if {lc.cmp_nf(st.test)}: ' + '; '.join(lc.body_nf(st.body))
    f['extra_cost_default'] = lc.body_nf(common.find(tree, 'SessionBase.extra_cost').body)
    # the refusal branch of _throttled_request / _throttled_message, described by *roles* so that
    # renaming or renumbering locals does not matter: which hook is called, which error object is
    # made the result, and that the flag it sets guards `close()` later in the function
    def refusal_roles(qual, exc):
        fn = common.find(tree, qual)
        out = []
        if fn is None:
            return out
        closers = set()       # names tested by an `if` whose body closes the session
        for st in ast.walk(fn):
            if isinstance(st, ast.If) and isinstance(st.test, ast.Name) \
                    and any(isinstance(c, ast.Call) and isinstance(c.func, ast.Attribute) and c.func.attr == 'close'
                            for c in ast.walk(ast.Module(body=st.body, type_ignores=[]))):
                closers.add(st.test.id)
        for h in ast.walk(fn):
            if isinstance(h, ast.ExceptHandler) and h.type is not None and lc.strip_self(h.type) == exc:
                for st in h.body:
                    if isinstance(st, ast.Expr):
                        out.append('call ' + lc.stmt_nf(st))
                    elif isinstance(st, ast.Assign) and isinstance(st.value, ast.Call):
                        out.append('result ' + lc.strip_self(st.value))
                    elif isinstance(st, ast.Assign) and isinstance(st.value, ast.Constant) \
                            and st.value.value is True and isinstance(st.targets[0], ast.Name):
                        out.append('set flag guarding close()' if st.targets[0].id in closers
                                   else 'set flag ' + st.targets[0].id)
                    else:
                        out.append(lc.stmt_nf(st))
        return out
    f['refusal_branch_request'] = refusal_roles('RPCSession._throttled_request', 'ExcessiveSessionCostError')
    f['refusal_branch_message'] = refusal_roles('MessageSession._throttled_message', 'ExcessiveSessionCostError')
    # sleep before the handler
    f['sleep_guard'] = []
    for qual in ('RPCSession._throttled_request', 'MessageSession._throttled_message'):
        n = common.find(tree, qual)
        for st in ast.walk(n) if n else []:
            if isinstance(st, ast.If) and '_cost_fraction' in ast.unparse(st.test):
                f['sleep_guard'].append(f'if {lc.cmp_nf(st.test)}: ' + '; '.join(lc.body_nf(st.body)))
    f['excessive_code'] = jsonrpc.JSONRPC.EXCESSIVE_RESOURCE_USAGE
    f['parse_error_cost'] = ''
    node = common.find(tree, 'RPCSession._process_messages_loop')
    for st in ast.walk(node) if node else []:
        if isinstance(st, ast.If) and 'PARSE_ERROR' in ast.unparse(st.test):
            f['parse_error_cost'] = '; '.join(lc.body_nf(st.body))
    f['fingerprints'] = common.fingerprints(repo, {
        'aiorpcx/session.py': ['SessionBase.__init__', 'SessionBase._send_message',
                               'SessionBase._bump_errors', 'SessionBase.data_received',
                               'SessionBase.bump_cost', 'SessionBase.recalc_concurrency',
                               'SessionBase.extra_cost', 'RPCSession._throttled_request',
                               'MessageSession._throttled_message', 'Concurrency._retarget_semaphore',
                               'Concurrency.set_target']})
    return f


def render(f):
    thr = f['drift_threshold'] if isinstance(f['drift_threshold'], (int, float)) else -1
    return (
        '/-! GENERATED by tools/facts/c14.py from /repo on every run - do not edit. -/\n'
        'namespace Aiorpcx.Facts.C14\n'
        f'def bwCostPerByte : Rat := {q(f["bw_cost_per_byte"])}\n'
        f'def costSoftLimit : Rat := {q(f["cost_soft_limit"])}\n'
        f'def costHardLimit : Rat := {q(f["cost_hard_limit"])}\n'
        f'def costDecayPerSec : Rat := {q(f["cost_decay_per_sec"])}\n'
        f'def costSleep : Rat := {q(f["cost_sleep"])}\n'
        f'def errorBaseCost : Rat := {q(f["error_base_cost"])}\n'
        f'def initialConcurrent : Int := {int(f["initial_concurrent"])}\n'
        f'/-- the literal in `if abs(self.cost - self._cost_last) > ..` -/\n'
        f'def driftThreshold : Rat := {q(thr)}\n'
        f'def excessiveResourceUsage : Int := {int(f["excessive_code"])}\n'
        f'def bumpPaths : List String := {lc.lean_strs(f["bump_paths"])}\n'
        f'def recalcPaths : List String := {lc.lean_strs(f["recalc_paths"])}\n'
        f'def dataReceivedPaths : List String := {lc.lean_strs(f["data_received_paths"])}\n'
        f'def bumpErrorsPaths : List String := {lc.lean_strs(f["bump_errors_paths"])}\n'
        f'def chargeSendMessage : List String := {lc.lean_strs(f["charge_send_message"])}\n'
        f'def clientOverride : String := {lc.lean_str(f["client_override"])}\n'
        f'def extraCostDefault : List String := {lc.lean_strs(f["extra_cost_default"])}\n'
        f'def refusalBranchRequest : List String := {lc.lean_strs(f["refusal_branch_request"])}\n'
        f'def refusalBranchMessage : List String := {lc.lean_strs(f["refusal_branch_message"])}\n'
        f'def sleepGuard : List String := {lc.lean_strs(f["sleep_guard"])}\n'
        f'def parseErrorCost : String := {lc.lean_str(f["parse_error_cost"])}\n'
        'end Aiorpcx.Facts.C14\n')
