"""Facts for C14 (cost accounting) - BEHAVIOURAL (tools/facts/limprobe.py): every table below is
obtained by RUNNING the current tree through its public entry points (`bump_cost`,
`recalc_concurrency`, `data_received`, `extra_cost`, bytes fed to a live session, the handler
hooks), never by looking at the source text.  All inputs are dyadic and the soft ranges are powers
of two, so every float operation of the code is exact and the observations can be stated as exact
rationals.

* class attributes that configure the accounting (public), `cost_hard_limit` of a client session;
* `driftThreshold` / `driftStrict`: the drift that makes `bump_cost` re-evaluate, found by probing;
* `acctTable`: histories of bump_cost(+-) / recalc_concurrency() / data_received / clock advances /
  extra_cost values on a bare `SessionBase` subclass (server, client, hard <= soft) -> `cost` and
  the limiter's `max_concurrent` after every event;
* `chargeTable`: what one event costs on a live RPCSession / MessageSession: a request and its
  reply, a failing request / notification with its own cost, a crashing handler, a garbage line
  (parse error), an invalid request, an oversized request batch, a bad checksum, a handler crash
  on a message session: (bytes in, bytes out, own cost) -> cost and `errors` deltas;
* `admitTable`: a request fed to a live session (both classes) after an evaluation at a given
  fraction of the soft range: refused? delay before the handler starts, hook calls, closing,
  reply code;
* `queueTable`: the C13 x C14 composition: limiter saturated, further requests queued, the cost is
  pushed past the hard limit, the handlers finish: are the queued requests refused and the session
  closed, is anything left waiting, was any queued request executed.
Props.lean / Compose.lean prove that the model computes exactly these tables."""
import asyncio
import json
from fractions import Fraction

from . import common
from . import limprobe as lp


def q(x):
    f = Fraction(x)
    return f'({f.numerator} : Rat) / {f.denominator}' if f.denominator != 1 else f'({f.numerator} : Rat)'


def _mods(repo):
    return {'session': common.fresh_import(repo, 'aiorpcx.session'),
            'rawsocket': common.fresh_import(repo, 'aiorpcx.rawsocket'),
            'framing': common.fresh_import(repo, 'aiorpcx.framing'),
            'jsonrpc': common.fresh_import(repo, 'aiorpcx.jsonrpc')}


CFG_KEYS = ('bw', 'soft', 'hard', 'decay', 'sleep', 'base', 'init')
ATTR = dict(bw='bw_cost_per_byte', soft='cost_soft_limit', hard='cost_hard_limit',
            decay='cost_decay_per_sec', sleep='cost_sleep', base='error_base_cost',
            init='initial_concurrent')


def cls_attrs(cfg):
    return {ATTR[k]: cfg[k] for k in CFG_KEYS}


def cfg_ints(cfg):
    out = []
    for k in CFG_KEYS[:-1]:
        out += lp.rat_ints(cfg[k])
    return out + [int(cfg['init'])]


# ------------------------------------------------------------------ bare accounting
class _Sized:
    def __init__(self, n):
        self.n = n

    def __len__(self):
        return self.n


def bare_session(mods, cfg, client, clock):
    S = mods['session']
    attrs = dict(cls_attrs(cfg), _probe_extra=0.0, _probe_evals=0)
    attrs['extra_cost'] = lambda self: self._probe_extra
    cls = type('P', (S.SessionBase,), attrs)
    S.time = clock
    kind = S.SessionKind.CLIENT if client else S.SessionKind.SERVER
    return cls(lp.StubTransport(kind))


OPK = {'b': 0, 'r': 1, 'd': 2, 'a': 3, 'x': 4}


def run_acct_row(mods, cfg, client, ops):
    bench = lp.Bench()        # SessionBase.__init__ wants an event loop for its TaskGroup
    saved = mods['session'].time
    try:
        clock = lp.ManualClock(0.0)
        s = bare_session(mods, cfg, client, clock)
        inc, _out = lp.find_limiters(s)
        obs = []
        for op in ops:
            k = op[0]
            if k == 'b':
                s.bump_cost(op[1])
            elif k == 'r':
                s.recalc_concurrency()
            elif k == 'd':
                s.data_received(_Sized(op[1]))
            elif k == 'a':
                clock.now += op[1]
            elif k == 'x':
                s._probe_extra = op[1]
            obs.append((s.cost, int(inc.max_concurrent)))
        return obs
    finally:
        mods['session'].time = saved
        bench.close()


def acct_rows(mods):
    import itertools
    import random
    A = dict(bw=1 / 1024, soft=256, hard=768, decay=0.5, sleep=2.0, base=100, init=4)
    C = dict(bw=1 / 1024, soft=512, hard=256, decay=0.5, sleep=2.0, base=100, init=3)
    D = dict(bw=1 / 65536, soft=2048, hard=10240, decay=0.25, sleep=2.0, base=100.0, init=20)
    alphabet = [('b', 150.0), ('b', 101.0), ('b', -250.0), ('b', 600.0), ('d', 65536), ('a', 100.0),
                ('a', 1000.0), ('x', 256.0), ('x', -128.0), ('r',)]
    cases = [(A, False, list(p)) for p in itertools.product(alphabet, repeat=2)]
    rng = random.Random(14)
    dy = lambda lo, hi: rng.randint(int(lo * 16), int(hi * 16)) / 16
    for cfg, client in ((A, False), (A, True), (C, False), (D, False), (D, True), (A, False), (D, False)):
        for _ in range(6):
            span = max(cfg['hard'], cfg['soft'])
            ops = []
            for _ in range(rng.randint(4, 9)):
                k = rng.random()
                if k < 0.35:
                    ops.append(('b', dy(-span / 2, span)))
                elif k < 0.5:
                    ops.append(('d', rng.choice([0, 1024, 65536, 2 ** 22, 2 ** 27])))
                elif k < 0.65:
                    ops.append(('a', dy(0, 2000)))
                elif k < 0.8:
                    ops.append(('x', dy(-span / 4, span / 2)))
                else:
                    ops.append(('r',))
            cases.append((cfg, client, ops))
    rows = []
    for cfg, client, ops in cases:
        obs = run_acct_row(mods, cfg, client, ops)
        rows.append((cfg, client, ops, obs))
    return rows


def flat_acct_row(row, thr):
    cfg, client, ops, obs = row
    out = cfg_ints(cfg) + lp.rat_ints(thr) + [1 if client else 0, len(ops)]
    for op in ops:
        out += [OPK[op[0]]] + (lp.rat_ints(op[1]) if len(op) > 1 else [0, 1])
    for cost, target in obs:
        out += lp.rat_ints(cost) + [target]
    return out


def drift_probe(mods):
    """smallest integer drift that makes bump_cost re-evaluate, and whether the test is strict"""
    cfg = dict(bw=0.0, soft=1 << 20, hard=1 << 21, decay=0.0, sleep=2.0, base=0.0, init=4)

    def evaluates(delta):
        bench = lp.Bench()
        saved = mods['session'].time
        try:
            s = bare_session(mods, cfg, False, lp.ManualClock(0.0))
            calls = []
            orig = s.recalc_concurrency
            s.recalc_concurrency = lambda: (calls.append(1), orig())[1]
            s.bump_cost(delta)
            return bool(calls)
        finally:
            mods['session'].time = saved
            bench.close()
    first = next((d for d in range(1, 5000) if evaluates(float(d))), None)
    if first is None:
        return -1, False
    thr = first - 1
    # strict: exactly thr does not trigger (known), thr + a little does
    return thr, evaluates(thr + 2.0 ** -20) and not evaluates(float(thr))


# ------------------------------------------------------------------ live sessions
def probe_classes(mods, cfg):
    S = mods['session']
    RPCError = mods['jsonrpc'].RPCError
    common_attrs = dict(cls_attrs(cfg), processing_timeout=100000.0)

    class Common:
        probe_log = None
        probe_gates = None

        def on_disconnect_due_to_excessive_session_cost(self):
            self.probe_log.append(('hook', None, self.loop.time()))

        async def _probe(self, key, how, cost):
            self.probe_log.append(('start', key, self.loop.time()))
            if how == 'hold':
                fut = self.probe_gates.setdefault(key, self.loop.create_future())
                await fut
            if how == 'fail':
                e = RPCError(7, 'no')
                e.cost = cost
                raise e
            if how == 'crash':
                raise ValueError('handler crashed')
            if how == 'unenc':
                # a result json cannot encode: set / bytes / nesting beyond the recursion limit
                if key % 3 == 0:
                    return {1, 2}
                if key % 3 == 1:
                    return b'bytes'
                deep = []
                for _ in range(3000):
                    deep = [deep]
                return deep
            return key

    class Rpc(Common, S.RPCSession):
        async def handle_request(self, request):
            a = request.args
            return await self._probe(a[0], request.method, a[1] if len(a) > 1 else 0.0)

    class Msg(Common, S.MessageSession):
        async def handle_message(self, message):
            parts = message[1].decode().split(':')
            return await self._probe(int(parts[0]), message[0].rstrip(b'\0').decode(),
                                     float(parts[1]) if len(parts) > 1 else 0.0)
    return (type('R', (Rpc,), dict(common_attrs)), type('M', (Msg,), dict(common_attrs)))


def rpc_line(method, i, *extra, request=True):
    d = {'jsonrpc': '2.0', 'method': method, 'params': [i] + list(extra)}
    if request:
        d['id'] = i
    return json.dumps(d).encode() + b'\n'


def msg_frame(mods, command, i, extra=None):
    payload = str(i) if extra is None else f'{i}:{extra}'
    return mods['framing'].BitcoinFramer().frame((command.encode(), payload.encode()))


def open_session(mods, bench, cfg, code):
    Rpc, Msg = probe_classes(mods, cfg)
    mods['session'].time = lp.LoopClock(bench.loop)
    proto, tr, s = bench.session(mods, Rpc if code == 0 else Msg, 'server')
    s.probe_log, s.probe_gates = [], {}
    return proto, tr, s


def charge_rows(mods):
    """(class, kind, bw, base, bytes in, bytes out (unframed), own cost) -> (cost delta, errors delta)
    kinds: 0 good request/message, 1 failing request (RPCError with own cost), 2 crashing handler,
    3 failing notification, 4 garbage line (parse error), 5 invalid request object, 6 oversized
    request batch, 7 bad checksum frame, 8 handler result that cannot be JSON-encoded (set, bytes,
    nesting beyond the recursion limit): the request fails at the reply"""
    rows = []
    saved = mods['session'].time
    traffic = dict(bw=1 / 1024, soft=1 << 20, hard=1 << 21, decay=0.0, sleep=2.0, base=0.0, init=4)
    errors = dict(bw=0.0, soft=1 << 20, hard=1 << 21, decay=0.0, sleep=2.0, base=100.0, init=4)
    mixed = dict(bw=1 / 1024, soft=1 << 20, hard=1 << 21, decay=0.0, sleep=2.0, base=64.0, init=4)
    plan = []
    for cfg in (traffic, errors, mixed):
        plan += [(0, 0, cfg, rpc_line('ok', 5), 0.0), (0, 1, cfg, rpc_line('fail', 6, 37.5), 37.5),
                 (0, 1, cfg, rpc_line('fail', 6, 0.0), 0.0), (0, 2, cfg, rpc_line('crash', 7), 0.0),
                 (0, 3, cfg, rpc_line('fail', 8, 12.25, request=False), 12.25),
                 (0, 4, cfg, b'\xff\xfe{{ not json\n', None),
                 (0, 5, cfg, b'{"jsonrpc":"2.0","method":5,"id":9}\n', 0.0),
                 (0, 8, cfg, rpc_line('unenc', 9), 0.0), (0, 8, cfg, rpc_line('unenc', 10), 0.0),
                 (0, 8, cfg, rpc_line('unenc', 11), 0.0),
                 (1, 0, cfg, msg_frame(mods, 'ok', 5), 0.0), (1, 2, cfg, msg_frame(mods, 'crash', 7), 0.0)]
        bad = bytearray(msg_frame(mods, 'ok', 9))
        bad[-1] ^= 0xFF
        plan.append((1, 7, cfg, bytes(bad), 0.0))
    try:
        for code, kind, cfg, data, own in plan:
            bench = lp.VBench()
            try:
                proto, tr, s = open_session(mods, bench, cfg, code)
                c0, e0, n0 = s.cost, s.errors, len(tr.out)
                proto.data_received(data)
                bench.advance(1.0)
                written = tr.out[n0:]
                out_unframed = sum(len(w) for w in written) - (len(written) if code == 0 else 0)
                if kind in (4, 7):
                    # the own cost of a parse error / a bad checksum is whatever the session charged
                    # on top of the base cost and the traffic: recorded as observed
                    own = float(Fraction(s.cost) - Fraction(c0) - Fraction(cfg['base'])
                                - (len(data) + out_unframed) * Fraction(cfg['bw']))
                rows.append((code, kind, cfg['bw'], cfg['base'], len(data), out_unframed, own,
                             float(Fraction(s.cost) - Fraction(c0)), s.errors - e0))
            finally:
                bench.close()
    finally:
        mods['session'].time = saved
    return rows


def flat_charge_row(r):
    code, kind, bw, base, n_in, n_out, own, dcost, derr = r
    return [code, kind] + lp.rat_ints(bw) + lp.rat_ints(base) + [n_in, n_out] + lp.rat_ints(own) \
        + lp.rat_ints(dcost) + [derr]


ADMIT_CFG = dict(bw=0.0, soft=256, hard=768, decay=0.0, sleep=2.0, base=0.0, init=4)


def admit_rows(mods):
    """(class, cfg, fraction) -> (refused?, handler started?, delay, hook calls, closing, reply code)"""
    rows = []
    saved = mods['session'].time
    try:
        for code in (0, 1):
            for sleep in (2.0, 0.5):
                for f in (0.0, 0.25, 0.5, 0.75, 0.875, 1.0, 1.25):
                    cfg = dict(ADMIT_CFG, sleep=sleep)
                    bench = lp.VBench()
                    try:
                        proto, tr, s = open_session(mods, bench, cfg, code)
                        s.bump_cost(cfg['soft'] + f * (cfg['hard'] - cfg['soft']))
                        s.recalc_concurrency()
                        t0 = bench.loop.time()
                        n0 = len(tr.out)
                        proto.data_received(rpc_line('ok', 1) if code == 0 else msg_frame(mods, 'ok', 1))
                        bench.advance(sleep * 4)
                        starts = [t for k, key, t in s.probe_log if k == 'start']
                        hooks = sum(1 for k, _key, _t in s.probe_log if k == 'hook')
                        rcode = 0
                        for w in tr.out[n0:]:
                            for line in w.split(b'\n'):
                                if line.strip():
                                    try:
                                        rcode = json.loads(line).get('error', {}).get('code', 0)
                                    except ValueError:
                                        pass
                        rows.append((code, cfg, f, 0 if starts else 1, 1 if starts else 0,
                                     (starts[0] - t0) if starts else 0.0, hooks,
                                     1 if s.is_closing() else 0, rcode))
                    finally:
                        bench.close()
    finally:
        mods['session'].time = saved
    return rows


def flat_admit_row(r, thr):
    code, cfg, f, refused, started, delay, hooks, closing, rcode = r
    return [code] + cfg_ints(cfg) + lp.rat_ints(thr) + lp.rat_ints(f) + [refused, started] \
        + lp.rat_ints(delay) + [hooks, closing, rcode]


def queue_rows(mods):
    """limiter saturated (L handlers held), w more requests queued, the cost is pushed past the hard
    limit by `route` (0 bump_cost + evaluation, 1 a big chunk of garbage-free traffic: data_received
    of a sized chunk), the handlers finish oldest first, one more request arrives.
    -> (refusals seen (hook calls), closing, queued or late requests executed, left waiting)"""
    rows = []
    saved = mods['session'].time
    try:
        for code in (0, 1):
            for L in (1, 2):
                for w in (1, 2):
                    for route in (0, 1):
                        cfg = dict(bw=1.0, soft=256, hard=768, decay=0.0, sleep=2.0, base=0.0, init=L)
                        bench = lp.VBench()
                        try:
                            proto, tr, s = open_session(mods, bench, cfg, code)
                            feed = (lambda m, i: proto.data_received(rpc_line(m, i))) if code == 0 else \
                                (lambda m, i: proto.data_received(msg_frame(mods, m, i)))
                            for i in range(L):
                                feed('hold', i)
                            bench.idle()
                            for i in range(L, L + w):
                                feed('ok', i)
                            bench.idle()
                            if route == 0:
                                s.bump_cost(2000.0)
                                s.recalc_concurrency()
                            else:
                                s.data_received(_Sized(4096))
                                s.recalc_concurrency()
                            for i in range(L):
                                g = s.probe_gates.get(i)
                                if g is not None and not g.done():
                                    g.set_result(None)
                                bench.idle()
                            if not s.is_closing():
                                feed('ok', L + w)
                            bench.advance(1.0)
                            started = [key for k, key, _t in s.probe_log if k == 'start']
                            hooks = sum(1 for k, _key, _t in s.probe_log if k == 'hook')
                            executed = sum(1 for key in started if key >= L)
                            ends = L + w + 1
                            waiting = 0 if s.is_closing() else max(0, ends - len(started) - hooks)
                            rows.append((code, L, w, route, 1 if hooks else 0, 1 if s.is_closing() else 0,
                                         executed, waiting))
                        finally:
                            bench.close()
    finally:
        mods['session'].time = saved
    return rows


def extract(repo):
    mods = _mods(repo)
    session, jsonrpc = mods['session'], mods['jsonrpc']
    SB = session.SessionBase
    f = {}
    for name in ('bw_cost_per_byte', 'cost_soft_limit', 'cost_hard_limit', 'cost_decay_per_sec',
                 'cost_sleep', 'error_base_cost', 'initial_concurrent', 'processing_timeout'):
        f[name] = getattr(SB, name)
    thr, strict = drift_probe(mods)
    f['drift_threshold'] = thr
    f['drift_strict'] = strict
    bench = lp.Bench()
    try:
        client = bare_session(mods, dict(bw=0.0, soft=2000, hard=10000, decay=0.0, sleep=2.0, base=0.0, init=4),
                              True, lp.ManualClock(0.0))
        f['client_hard_limit'] = client.cost_hard_limit
    finally:
        bench.close()
    f['excessive_code'] = jsonrpc.JSONRPC.EXCESSIVE_RESOURCE_USAGE
    f['acct_rows'] = [flat_acct_row(r, thr) for r in acct_rows(mods)]
    f['charge_rows'] = [flat_charge_row(r) for r in charge_rows(mods)]
    f['admit_rows'] = [flat_admit_row(r, thr) for r in admit_rows(mods)]
    f['queue_rows'] = [list(r) for r in queue_rows(mods)]
    f['fingerprints'] = common.fingerprints(repo, {
        'aiorpcx/session.py': ['SessionBase.__init__', 'SessionBase._send_message',
                               'SessionBase._bump_errors', 'SessionBase.data_received',
                               'SessionBase.bump_cost', 'SessionBase.recalc_concurrency',
                               'SessionBase.extra_cost', 'RPCSession._throttled_request',
                               'MessageSession._throttled_message', 'RPCSession._process_messages_loop',
                               'MessageSession._process_messages_loop', 'Concurrency']})
    return f


def render(f):
    thr = f['drift_threshold'] if isinstance(f['drift_threshold'], (int, float)) else -1
    enc = lp.lean_int_rows
    return (
        'import Aiorpcx.C13.IntRows\n'
        '/-! GENERATED by tools/facts/c14.py by RUNNING the current tree - do not edit. -/\n'
        'namespace Aiorpcx.Facts.C14\n'
        f'def bwCostPerByte : Rat := {q(f["bw_cost_per_byte"])}\n'
        f'def costSoftLimit : Rat := {q(f["cost_soft_limit"])}\n'
        f'def costHardLimit : Rat := {q(f["cost_hard_limit"])}\n'
        f'def costDecayPerSec : Rat := {q(f["cost_decay_per_sec"])}\n'
        f'def costSleep : Rat := {q(f["cost_sleep"])}\n'
        f'def errorBaseCost : Rat := {q(f["error_base_cost"])}\n'
        f'def initialConcurrent : Int := {int(f["initial_concurrent"])}\n'
        f'/-- `cost_hard_limit` of a freshly constructed client session -/\n'
        f'def clientHardLimit : Rat := {q(f["client_hard_limit"])}\n'
        f'/-- largest integer drift |cost - cost at the last evaluation| that does NOT make\n'
        f'    `bump_cost` re-evaluate (found by probing) -/\n'
        f'def driftThreshold : Rat := {q(thr)}\n'
        f'/-- exactly the threshold does not trigger, a little more does -/\n'
        f'def driftStrict : Bool := {"true" if f["drift_strict"] else "false"}\n'
        f'def excessiveResourceUsage : Int := {int(f["excessive_code"])}\n'
        '/-- accounting histories on a bare SessionBase, one flat row of integers each:\n'
        '    bw soft hard decay sleep base (num den each), init, threshold (num den), client?, #ops,\n'
        '    ops (kind, num, den) with 0 bump_cost 1 recalc_concurrency 2 data_received(n bytes)\n'
        '    3 clock advance 4 extra_cost := ; then per op: cost (num den), max_concurrent -/\n'
        f'def acctTable : List (List Int) := {enc(f["acct_rows"])}\n'
        '/-- one event on a live session: class (0 RPC / 1 Message), kind, bw, base, bytes in, bytes out\n'
        '    (unframed), own cost, observed cost delta, observed errors delta -/\n'
        f'def chargeTable : List (List Int) := {enc(f["charge_rows"])}\n'
        '/-- one request after an evaluation at a fraction of the soft range: class, cfg, threshold,\n'
        '    fraction, refused?, started?, delay, hook calls, closing?, reply code -/\n'
        f'def admitTable : List (List Int) := {enc(f["admit_rows"])}\n'
        '/-- saturated limiter + queued requests + cost past the hard limit + handlers finish + a late\n'
        '    request: class, L, queued, route, refused (hook ran)?, closing?, queued/late requests\n'
        '    executed, left waiting -/\n'
        f'def queueTable : List (List Int) := {enc(f["queue_rows"])}\n'
        'end Aiorpcx.Facts.C14\n')
