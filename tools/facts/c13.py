"""Facts for C13 (concurrency limiter) - all BEHAVIOURAL (tools/facts/limprobe.py): obtained by
running the current tree, never by looking at its source text or at private attributes of
`Concurrency`.

* `limiterTable`: the real `Concurrency` driven by scripted workers over a grid of operation
  sequences (every applicable sequence of 3 operations from {enter, exit oldest/newest holder,
  cancel oldest/newest waiter, set_target 0..3} for initial limits 1 and 2, each followed by three
  probe entries that make the number of free permits observable, plus a few longer hand-written
  sequences: F23 wedge, raise after reduction, cancelled waiter mid-queue).  Per operation:
  who was let in / refused / cancelled, the holders, the queue, `max_concurrent`.
* `guardTable`: bursts of messages through a real RPCSession and a real MessageSession (public
  path: bytes -> framer -> message loop -> handler hook) for `initial_concurrent` 1..3: how many
  handlers run at once and in which order they start.
* `unansweredTable`: `unanswered_request_count()` after k requests/notifications were received
  and j of their handlers finished.
* constants: `initial_concurrent`, the initial outgoing limit (read from a live client session).
Props.lean proves that the model computes exactly these tables."""
import hashlib
import inspect

from . import common
from . import limprobe as lp

E, X, C, T = lp.OP_ENTER, lp.OP_EXIT, lp.OP_CANCEL, lp.OP_TARGET

EXTRA_ROWS = [
    # F23: holders + queue, limit to 0, holders leave, limit raised again, late entrant
    (2, [(E, 0), (E, 1), (E, 2), (E, 3), (T, 0), (X, 0), (X, 1), (T, 2), (E, 4)]),
    (2, [(E, 0), (E, 1), (T, 0), (X, 0), (X, 1), (T, 2), (E, 2)]),
    (1, [(T, 0), (E, 0), (T, 1), (E, 1)]),
    (1, [(T, -1), (E, 0), (E, 1), (T, 2), (E, 2), (E, 3)]),
    # queue, raise, two admitted by one exit
    (2, [(E, 0), (E, 1), (E, 2), (T, 3), (E, 3), (X, 0)]),
    # reduction retires one permit per exit
    (3, [(E, 0), (E, 1), (E, 2), (T, 1), (X, 0), (X, 1), (E, 3), (X, 2)]),
    # initial limit 0: refuses (the repaired class starts with one permit in circulation)
    (0, [(E, 0), (T, 1), (E, 1), (E, 2)]),
    # cancelled waiter in the middle of the queue
    (1, [(E, 0), (E, 1), (E, 2), (E, 3), (C, 2), (X, 0), (X, 1), (X, 3)]),
    # reduce, raise before the reduction was absorbed
    (3, [(E, 0), (E, 1), (E, 2), (E, 3), (T, 1), (X, 0), (T, 3), (X, 1), (E, 4)]),
]


def _mods(repo):
    return {'session': common.fresh_import(repo, 'aiorpcx.session'),
            'rawsocket': common.fresh_import(repo, 'aiorpcx.rawsocket'),
            'framing': common.fresh_import(repo, 'aiorpcx.framing')}


def guard_table(mods):
    """(class 0 = RPCSession / 1 = MessageSession, initial_concurrent, messages, peak number of
    handlers running at once, order in which the handlers started after everything was released
    oldest first)"""
    rows = []
    Rpc, Msg = lp.gated_classes(mods)
    for code, base in ((0, Rpc), (1, Msg)):
        for limit in (1, 2, 3):
            for k in (limit, limit + 2):
                bench = lp.Bench()
                try:
                    cls = type('P', (base,), dict(initial_concurrent=limit))
                    proto, _tr, s = bench.session(mods, cls, 'server')
                    s.probe_log, s.probe_gates = [], {}
                    data = b''.join(lp.rpc_bytes(i) if code == 0 else lp.msg_bytes(mods, i) for i in range(k))
                    proto.data_received(data)
                    bench.idle()
                    peak, guard = 0, 0
                    while guard < 50:
                        guard += 1
                        starts = [key for kind, key in s.probe_log if kind == 'start']
                        ends = [key for kind, key in s.probe_log if kind == 'end']
                        running = [x for x in starts if x not in ends]
                        peak = max(peak, len(running))
                        if not running:
                            break
                        s.probe_gates[running[0]].set_result(None)
                        bench.idle()
                    order = [key for kind, key in s.probe_log if kind == 'start']
                    rows.append((code, limit, k, peak, order))
                finally:
                    bench.close()
    return rows


def unanswered_table(mods):
    """(class 0 RPCSession / 1 MessageSession, received requests + notifications, handlers finished
    normally, how the rest is ended: 0 not at all / 1 the connection is lost / 2 processing_timeout
    fires, unanswered_request_count() afterwards)"""
    rows = []
    Rpc, Msg = lp.gated_classes(mods)
    plan = [(0, k, j, 0) for k in (0, 1, 3, 5) for j in range(0, k + 1, 2 if k > 3 else 1)]
    plan += [(c, k, j, how) for c in (0, 1) for how in (1, 2) for k, j in ((1, 0), (3, 1), (5, 0), (5, 2))]
    plan += [(1, 3, 1, 0), (1, 4, 0, 0)]
    for code, k, j, how in plan:
        bench = lp.VBench()
        try:
            cls = type('P', (Rpc if code == 0 else Msg,), dict(initial_concurrent=2, processing_timeout=5.0))
            proto, tr, s = bench.session(mods, cls, 'server')
            s.probe_log, s.probe_gates = [], {}
            for i in range(k):
                proto.data_received(lp.rpc_bytes(i, request=(i % 3 != 2)) if code == 0 else lp.msg_bytes(mods, i))
            bench.idle()
            done = 0
            guard = 0
            while done < j and guard < 50:
                guard += 1
                starts = [key for kind, key in s.probe_log if kind == 'start']
                ends = [key for kind, key in s.probe_log if kind == 'end']
                running = [x for x in starts if x not in ends]
                if not running:
                    break
                s.probe_gates[running[0]].set_result(None)
                bench.idle()
                done += 1
            if how == 1:
                tr.close()
                bench.advance(1.0)
            elif how == 2:
                bench.advance(6.0)
            rows.append((code, k, done, how, int(s.unanswered_request_count())))
        finally:
            bench.close()
    return rows


def outgoing_initial(mods):
    bench = lp.Bench()
    try:
        _p, _t, s = bench.session(mods, mods['session'].RPCSession, 'client')
        _inc, out = lp.find_limiters(s)
        return int(out.max_concurrent) if out is not None else 0
    finally:
        bench.close()


def extract(repo):
    mods = _mods(repo)
    session = mods['session']
    f = {}
    f['initial_concurrent'] = int(session.SessionBase.initial_concurrent)
    f['outgoing_initial'] = outgoing_initial(mods)
    f['limiter_rows'] = lp.limiter_grid(session, depth=3, inits=(1, 2), targets=(0, 1, 2, 3),
                                        probes=3, extra=EXTRA_ROWS)
    f['guard_rows'] = guard_table(mods)
    f['unanswered_rows'] = unanswered_table(mods)
    f['refusal_is_runtime_error'] = issubclass(session.ExcessiveSessionCostError, RuntimeError)
    f['fingerprints'] = common.fingerprints(repo, {
        'aiorpcx/session.py': ['Concurrency', 'SessionBase.unanswered_request_count',
                               'SessionBase.process_messages', 'RPCSession._throttled_request',
                               'MessageSession._throttled_message',
                               'RPCSession._process_messages_loop',
                               'MessageSession._process_messages_loop']})
    try:
        import asyncio.locks
        src = inspect.getsource(asyncio.locks.Semaphore)
        f['fingerprints']['stdlib::asyncio.locks.Semaphore'] = hashlib.sha256(src.encode()).hexdigest()[:16]
    except Exception:      # noqa
        f['fingerprints']['stdlib::asyncio.locks.Semaphore'] = 'unavailable'
    return f


def render(f):
    def lst(xs):
        return '[' + ', '.join(str(x) for x in xs) + ']'
    guard = ',\n  '.join(f'({c}, {l}, {k}, {p}, {lst(o)})' for c, l, k, p, o in f['guard_rows'])
    unans = ', '.join(f'({c}, {k}, {j}, {h}, {n})' for c, k, j, h, n in f['unanswered_rows'])
    return (
        'import Aiorpcx.C13.IntRows\n'
        '/-! GENERATED by tools/facts/c13.py by RUNNING the current tree - do not edit. -/\n'
        'namespace Aiorpcx.Facts.C13\n'
        f'/-- `SessionBase.initial_concurrent` -/\n'
        f'def initialConcurrent : Nat := {int(f["initial_concurrent"])}\n'
        f'/-- `max_concurrent` of the outgoing limiter of a fresh client `RPCSession` -/\n'
        f'def outgoingInitial : Nat := {int(f["outgoing_initial"])}\n'
        '/-- the real `Concurrency` driven by scripted workers, one row per operation sequence.  A\n'
        '    row is a flat list of integers:\n'
        '    initial limit, #ops, (op code, argument)* with 0 enter i / 1 exit i / 2 cancel waiter i /\n'
        '    3 set_target n; then per operation: #events, (kind, id)* with 0 entered / 1 refused /\n'
        '    2 cancelled / 3 not applicable; #holders, holders sorted; #queue, queue in arrival\n'
        '    order; max_concurrent -/\n'
        'def limiterTable : List (List Int) := '
        + lp.lean_limiter_rows(f['limiter_rows']) + '\n'
        '/-- bursts through real sessions: (0 RPCSession / 1 MessageSession, initial_concurrent,\n'
        '    messages, peak handlers running at once, order in which handlers started) -/\n'
        f'def guardTable : List (Nat × Nat × Nat × Nat × List Nat) := [\n  {guard}]\n'
        '/-- on a live session: (0 RPCSession / 1 MessageSession, received, finished normally, how the\n'
        '    rest was ended: 0 not / 1 connection lost / 2 processing timeout, unanswered_request_count()) -/\n'
        f'def unansweredTable : List (Nat × Nat × Nat × Nat × Nat) := [{unans}]\n'
        f'def refusalIsRuntimeError : Bool := {"true" if f["refusal_is_runtime_error"] else "false"}\n'
        'end Aiorpcx.Facts.C13\n')
