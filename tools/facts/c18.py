"""Facts for C18 (host / port / protocol validation, NetAddress / Service print-parse).

Everything that ties the Lean model to the code is obtained by RUNNING the real functions of the
current tree (`aiorpcx.util` imported afresh), never from the shape of the source:

* **position tables** (`tables`): for every context `(function, prefix, suffix)` of `CONTEXTS`
  the outcome of the real function on `prefix + chr(c) + suffix` for EVERY code point
  `c = 0..0x10FFFF`, run-length encoded.  From them the *effective* character class of every
  position of a protocol name / host-name label / numeric label is read off (whatever way the
  code decides it: one regex, several, a lower-cased copy, a hand-written loop), and the kind of
  end anchoring (does a final newline slip through?).  The harness compares the same tables with
  the Lean model and judges them with the property oracle, so every run is exhaustive over all
  code points in every context.
* **decision tables**: `validate_port` on every integer -2..65537 (accepted ones as intervals,
  returned value = argument?), on `True`/`False`; `is_valid_hostname` on names of every total
  length 0..260 with and without a trailing dot, on labels of every length 0..70 (plain and with
  hyphens inside), on 0..3 trailing dots; `validate_protocol` on lengths 0..70 and 300.
* **synthesis**: the parameters of the property's grammar that reproduce those tables (classes,
  repeat bounds, anchor kinds, length limits, port interval) are rendered as the configuration
  `Aiorpcx.Facts.C18.cfg` the theorems of `Aiorpcx/C18/Props.lean` talk about; where the tables do
  not fit the family at all (`supported = false`) the reasons are listed.  A few small tables
  (`hostTable`, `protoTable`, `portTable`) are rendered as data and proved equal to the model's
  answers under `cfg` (`facts_*_table`).
* interpreter facts the model depends on: `str.isdigit` / `int()` digit tables, the int-string
  digit limit;
* fingerprints (normalised AST hashes) of the anchored functions - they only decide how deep the
  quick tier explores, never a verdict;
* informational, fail-soft: the compiled regexes found as module globals in linear normal form
  (`regexes`), used by the harness to compare the model's `re` semantics with the real engine.

The position tables cost ~1.1 M calls per context; they are computed in a process pool and
memoised under `.work/` keyed by the SHA-256 of every `aiorpcx/*.py` source file, the interpreter
version and the context list, so an unchanged tree pays nothing.

`python -m tools.facts.c18 --emit-digits` rewrites lean/Aiorpcx/C18/Digits.lean (the committed copy
of the interpreter's digit tables used by the driver; `Props.lean` proves it equal to the table
regenerated here on every run)."""
import glob
import hashlib
import ipaddress
import json
import os
import re
import sys
from multiprocessing import Pool

from . import common

try:                                    # private CPython modules: only for the informational part
    from re import _parser, _compiler
    from re import _constants as K
except ImportError:                     # pragma: no cover
    _parser = _compiler = K = None

NCP = 0x110000
VERIF = os.path.dirname(os.path.dirname(os.path.dirname(os.path.abspath(__file__))))
MODELLED = ['PROTOCOL_REGEX', 'LABEL_REGEX', 'NUMERIC_REGEX',
            'is_valid_hostname', 'classify_host', 'validate_port', 'validate_protocol',
            '_split_address', 'NetAddress.__init__', 'NetAddress.__eq__',
            'NetAddress.from_string', 'NetAddress.__str__',
            'Service.__init__', 'Service.__eq__', 'Service.from_string', 'Service.__str__']

# name -> (function, prefix, suffix); the swept code point sits between prefix and suffix
CONTEXTS = {
    # protocol: first character, characters after it (middle / last), junk in front
    'p_head': ('proto', '', 'cp'),
    'p_head_long': ('proto', '', 'tcp'),
    'p_second_last': ('proto', 't', ''),
    'p_mid': ('proto', 't', 'p'),
    'p_last': ('proto', 'tc', ''),
    'p_last_long': ('proto', 'tcp', ''),
    # host name: positions of a label that is not the last one
    'h_first': ('host', '', 'b.com'),
    'h_mid': ('host', 'a', 'b.com'),
    'h_last': ('host', 'ab', '.com'),
    'h_single': ('host', '', '.com'),
    # positions of the last label (the all-digits rule lives here)
    'h_tld_first': ('host', 'ex.', 'om'),
    'h_tld_single': ('host', 'ex.', ''),
    'h_tld_after_digit': ('host', 'ex.1', ''),
    'h_tld_before_digit': ('host', 'ex.', '1'),
    'h_trail': ('host', 'ex.com', ''),
    'h_after_dot': ('host', 'ex.com.', ''),
    'h_only': ('host', '', ''),
    'h_before_newline': ('host', 'ex.c', 'm\n'),
    # ports
    'o_only': ('port', '', ''),
    'o_first': ('port', '', '1'),
    'o_last': ('port', '1', ''),
    'o_mid': ('port', '1', '1'),
    'o_fifth': ('port', '6553', ''),
}
# classify_host: swept by the harness only (`ip_address` makes these several times as expensive and
# no parameter is read from them)
CLASSIFY_CONTEXTS = {
    'c_mid': ('classify', 'a', 'b.com'),
    'c_trail': ('classify', 'ex.com', ''),
    'c_octet': ('classify', '1.2.3.', ''),
    'c_octet_first': ('classify', '', '.2.3.4'),
    'c_v4_trail': ('classify', '1.2.3.4', ''),
    'c_v6_trail': ('classify', '::', ''),
    'c_v6_first': ('classify', '', '::1'),
    'c_digit_trail': ('classify', '1', ''),
}
REFUSALS = ('ValueError', 'TypeError', 'ok_False')


def enc(s):
    return '.'.join(format(ord(c), 'x') for c in s) if s else '-'


def to_ranges(cps):
    out = []
    for c in cps:
        if out and out[-1][1] == c - 1:
            out[-1][1] = c
        else:
            out.append([c, c])
    return [list(r) for r in out]


# ---------------------------------------------------------------- running the real functions
def fmt_host(h):
    if isinstance(h, ipaddress.IPv4Address):
        return '4:' + str(h)
    if isinstance(h, ipaddress.IPv6Address):
        return '6:' + enc(str(h))
    return 'N:' + enc(h)


def outcome(util, fn, s):
    """canonical outcome of one call (the driver's `sweep` operation prints the same text)"""
    try:
        if fn == 'host':
            return 'ok_True' if util.is_valid_hostname(s) else 'ok_False'
        if fn == 'proto':
            return 'ok_' + enc(util.validate_protocol(s))
        if fn == 'port':
            return f'ok_{int(util.validate_port(s))}'
        r = util.classify_host(s)
        return 'N' if isinstance(r, str) and r == s else fmt_host(r)
    except Exception as e:      # noqa: BLE001 - the class name is the observation
        return type(e).__name__


def _fast_outcome(util, fn):
    """the same as `outcome(util, fn, .)` with the common paths inlined (25 M calls per run)"""
    if fn == 'host':
        f = util.is_valid_hostname

        def go(s):
            try:
                return 'ok_True' if f(s) else 'ok_False'
            except Exception as e:      # noqa: BLE001
                return type(e).__name__
        return go
    if fn == 'proto':
        f = util.validate_protocol

        def go(s):
            try:
                r = f(s)
            except ValueError:
                return 'ValueError'
            except Exception as e:      # noqa: BLE001
                return type(e).__name__
            return 'ok_' + enc(r)
        return go
    if fn == 'port':
        f = util.validate_port

        def go(s):
            try:
                r = f(s)
            except ValueError:
                return 'ValueError'
            except Exception as e:      # noqa: BLE001
                return type(e).__name__
            return f'ok_{int(r)}'
        return go
    return lambda s: outcome(util, fn, s)


def sweep_runs(util, fn, pre, suf, lo, hi):
    """[[lo, hi, outcome], ...] covering lo..hi"""
    go = _fast_outcome(util, fn)
    runs = []
    start, cur = lo, None
    for cp in range(lo, hi + 1):
        o = go(pre + chr(cp) + suf)
        if o != cur:
            if cur is not None:
                runs.append([start, cp - 1, cur])
            start, cur = cp, o
    runs.append([start, hi, cur])
    return runs


def merge_runs(parts):
    out = []
    for runs in parts:
        for lo, hi, o in runs:
            if out and out[-1][2] == o and out[-1][1] == lo - 1:
                out[-1][1] = hi
            else:
                out.append([lo, hi, o])
    return out


def rle_text(runs):
    return ' '.join(f'{lo:x}-{hi:x}={o}' for lo, hi, o in runs)


_UTIL = None


def _job(a):
    name, fn, pre, suf, lo, hi = a
    return name, lo, sweep_runs(_UTIL, fn, pre, suf, lo, hi)


def source_key(repo, contexts):
    h = hashlib.sha256()
    h.update(sys.version.encode())
    h.update(json.dumps(sorted(contexts.items())).encode())
    for p in sorted(glob.glob(os.path.join(repo, 'aiorpcx', '*.py'))):
        h.update(os.path.basename(p).encode())
        with open(p, 'rb') as f:
            h.update(f.read())
    return h.hexdigest()[:24]


def compute_tables(repo, contexts=None, procs=None, memo=True):
    """{context name: runs over every code point}, memoised on the source text"""
    global _UTIL
    contexts = CONTEXTS if contexts is None else contexts
    key = source_key(repo, contexts)
    path = os.path.join(VERIF, '.work', f'c18_tables_{key}.json')
    if memo and os.path.exists(path):
        try:
            with open(path) as f:
                got = json.load(f)
            if set(got) == set(contexts):
                os.utime(path)
                return got
        except (OSError, ValueError):
            pass
    _UTIL = common.fresh_import(repo, 'aiorpcx.util')
    step = 0x22000
    jobs = [(n, fn, pre, suf, lo, min(lo + step, NCP) - 1)
            for n, (fn, pre, suf) in contexts.items() for lo in range(0, NCP, step)]
    procs = procs or max(1, min(12, (os.cpu_count() or 2) - 4))
    if procs > 1:
        with Pool(procs) as pool:
            outs = pool.map(_job, jobs, chunksize=2)
    else:
        outs = [_job(j) for j in jobs]
    parts = {}
    for name, lo, runs in outs:
        parts.setdefault(name, []).append((lo, runs))
    tables = {n: merge_runs([r for _, r in sorted(parts[n])]) for n in contexts}
    if memo:
        try:
            os.makedirs(os.path.dirname(path), exist_ok=True)
            tmp = f'{path}.{os.getpid()}'
            with open(tmp, 'w') as f:
                json.dump(tables, f)
            os.replace(tmp, path)
            old = sorted(glob.glob(os.path.join(VERIF, '.work', 'c18_tables_*.json')), key=os.path.getmtime)
            for p in old[:-12]:
                os.unlink(p)
        except OSError:
            pass
    return tables


def accepted(runs, limit=200000):
    """code points the function accepted (anything that is not a refusal / exception)"""
    out = []
    for lo, hi, o in runs:
        if o.startswith('ok_') and o != 'ok_False' or o == 'N' or o[:2] in ('4:', '6:', 'N:'):
            out.extend(range(lo, min(hi, lo + limit) + 1))
            if len(out) > limit:
                break
    return out


# ---------------------------------------------------------------- how from_string splits its text
class _Captured(Exception):
    def __init__(self, host, port):
        super().__init__()
        self.parts = (host, port)


def split_observe(util, text):
    """(host part, port part) that `NetAddress.from_string(text)` hands to the constructor, seen
    through the public API: a subclass whose __init__ records its arguments.  Falls back to the
    module's splitter by name when from_string does not construct through `cls`; None when neither
    shows it."""
    probe = getattr(util, '_c18_split_probe', None)
    if probe is None:
        def __init__(self, host, port):
            raise _Captured(host, port)
        probe = type('SplitProbe', (util.NetAddress,), {'__init__': __init__})
        util._c18_split_probe = probe
    try:
        probe.from_string(text)
    except _Captured as c:
        return c.parts
    except Exception:       # noqa: BLE001
        return None
    f = getattr(util, '_split_address', None)
    if f is not None:
        try:
            return f(text)
        except Exception:   # noqa: BLE001
            return None
    return None


SPLIT_ALPHABET = ['a', '1', '.', ':', '[', ']', '%', '/']
SPLIT_EXTRA = ['[a]:1', '[::1]:80', '[a]b]:5', '[a]b', '[a]:', '[]:1', '[a]]:1', 'a:b:c', '[a:b]:c:d', '[[a]]:1',
               'ex.com:80', '[fe80::1%]]:80', '[', ']', '[]', ']:1[']


def split_table(util):
    """the split of every string over the 8-symbol alphabet up to length 3 and of a few longer ones:
    [[text, host part, port part], ...] (rows the code does not let us observe are left out)"""
    import itertools
    rows = []
    texts = [''.join(t) for n in range(0, 4) for t in itertools.product(SPLIT_ALPHABET, repeat=n)] + SPLIT_EXTRA
    for t in texts:
        got = split_observe(util, t)
        if got is not None and isinstance(got[0], str) and isinstance(got[1], str):
            rows.append([t, got[0], got[1]])
    return rows


# ---------------------------------------------------------------- decision tables
def name_of_length(n):
    """a well-formed name of exactly n characters (labels of at most 63 `a`s)"""
    s = ('a' * 63 + '.') * (n // 64 + 1)
    s = s[:n]
    if s.endswith('.'):
        s = s[:-2] + '.a' if n >= 2 else 'a'
    return s


def int_ranges(vals):
    out = []
    for v in vals:
        if out and out[-1][1] == v - 1:
            out[-1][1] = v
        else:
            out.append([v, v])
    return out


def decision_tables(util):
    d = {}
    ivh = lambda s: outcome(util, 'host', s)            # noqa: E731
    vp = lambda s: outcome(util, 'proto', s)            # noqa: E731
    # total length, without / with one trailing dot
    d['host_len'] = int_ranges([n for n in range(0, 261) if ivh(name_of_length(n)) == 'ok_True'])
    d['host_len_dot'] = int_ranges([n for n in range(0, 261) if ivh(name_of_length(n) + '.') == 'ok_True'])
    # label length: plain, with hyphens inside, as last label
    d['label_len'] = int_ranges([n for n in range(0, 71) if ivh('a' * n + '.com') == 'ok_True'])
    d['label_len_hyphen'] = int_ranges([n for n in range(2, 71) if ivh('a' + '-' * (n - 2) + 'a.com') == 'ok_True'])
    d['label_len_last'] = int_ranges([n for n in range(1, 71) if ivh('ex.' + 'a' * n) == 'ok_True'])
    d['trailing_dots'] = [ivh('ex.com' + '.' * k) == 'ok_True' for k in range(4)]
    d['proto_len'] = int_ranges([n for n in range(0, 71) if vp('t' * n).startswith('ok_')])
    d['proto_len_plus'] = int_ranges([n for n in range(1, 71) if vp('t' + '+' * (n - 1)).startswith('ok_')])
    d['proto_long'] = vp('t' * 300).startswith('ok_') and vp('t' + '.' * 5000).startswith('ok_')
    d['numeric_newline'] = ivh('ex.1\n')
    # ports: every integer of the grid; accepted ones must come back unchanged
    acc, same = [], True
    for n in range(-2, 65538):
        o = outcome(util, 'port', n)
        if o.startswith('ok_'):
            acc.append(n)
            same = same and o == f'ok_{n}'
    d['port_ints'] = int_ranges(acc)
    d['port_value_is_argument'] = same
    d['port_bool'] = [outcome(util, 'port', False), outcome(util, 'port', True)]
    # small tables rendered as data for the `facts_*_table` theorems
    hosts = ['', '.', '..', 'a', 'a.', 'a..', '.a', 'a..b', 'a.b', 'a.b.', '1', 'a.1', 'a.1.', '1.a', 'a.1a',
             'a.a1', '-', 'a-', '-a', 'a-a', 'a.-a', 'a-.a', 'a_', '_', 'a b', 'a\n', 'a.b\n', 'a\n.b',
             'A.Z', 'ex.com', 'EX.COM.', 'xn--a.com', 'a.b.c.d.e', '1.2.3.4', '1.2.3.4a', 'é.com', 'a.٣']
    d['host_table'] = [[s, ivh(s)] for s in hosts]
    protos = ['', 't', 'tc', 'tcp', 'TCP', 'Tc', 't+', 't-', 't.', 't1', '1t', '+t', 't,p', 't p', 'tcp\n',
              't\np', '\ntcp', ' tcp', 'tcp ', 't_p', 't/p', 'tép', 'a+-.9Z']
    d['proto_table'] = [[s, vp(s)] for s in protos]
    ports = ['', '0', '1', '01', '080', '65535', '65536', '065535', '99999', '-1', '+1', ' 1', '1 ', '1\n',
             '1_0', '1.0', '1e1', '0x1', '٣', '٣０', '²', '1²', 'x', '00000000000000000001']
    d['port_table'] = [[s, outcome(util, 'port', s)] for s in ports]
    return d


# ---------------------------------------------------------------- synthesis
def _single(ranges):
    return ranges[0] if len(ranges) == 1 else None


def synthesise(tables, dt):
    """parameters of the property's grammar that reproduce the tables; `why`: what does not fit"""
    why = []
    A = {n: set(accepted(r)) for n, r in tables.items() if CONTEXTS.get(n, ('',))[0] in ('proto', 'host')}
    rng = lambda s: to_ranges(sorted(s))          # noqa: E731

    def same(a, b, what):
        if A[a] != A[b]:
            diff = sorted(A[a] ^ A[b])[:4]
            why.append(f'{what}: contexts {a} and {b} differ on code points {[hex(x) for x in diff]}')

    NL = 10
    p = {}
    # ---- protocol: head class, tail class, repeat bounds, end anchoring
    p['proto_head'] = rng(A['p_head'])
    same('p_head', 'p_head_long', 'protocol first character depends on what follows')
    mid = A['p_mid']
    p['proto_tail'] = rng(mid)
    last = A['p_last']
    if last == mid:
        p['proto_eos'] = 'bigZ'
    elif last == mid | {NL} and NL not in mid:
        p['proto_eos'] = 'dollar'
    else:
        p['proto_eos'] = 'bigZ'
        why.append('protocol: the class of the last character is neither the class of the middle ones '
                   'nor that class plus a final newline')
    if A['p_last_long'] != last:
        why.append('protocol: last-character class depends on the length')
    pl = _single(dt['proto_len'])
    if pl is None or dt['proto_len'] != dt['proto_len_plus'] or pl[0] < 1:
        why.append(f'protocol lengths accepted: {dt["proto_len"]} / {dt["proto_len_plus"]}')
        pl = [2, 70]
    p['proto_tail_min'] = pl[0] - 1
    p['proto_tail_max'] = None if pl[1] == 70 and dt['proto_long'] else pl[1] - 1
    if A['p_second_last'] != (mid if p['proto_tail_min'] <= 1 else set()):
        why.append('protocol: two-character names do not follow from the tail class and the minimum length')
    # ---- label: first / middle / last class, length, end anchoring
    DOT = 46
    first, lmid, llast, single = A['h_first'], A['h_mid'] - {DOT}, A['h_last'], A['h_single']
    if DOT not in A['h_mid']:
        why.append('host name: "a.b.com" is refused')
    p['label_first'], p['label_mid'], p['label_last'] = rng(first), rng(lmid), rng(llast)
    if single != first:
        why.append('label: the class of a one-character label differs from the first-character class')
    ll = _single(dt['label_len'])
    if ll is None or ll[0] != 1 or dt['label_len_hyphen'] != [[2, ll[1]]] or dt['label_len_last'] != [ll]:
        why.append(f'label lengths accepted: {dt["label_len"]} / {dt["label_len_hyphen"]} / {dt["label_len_last"]}')
        ll = [1, 63]
    p['label_mid_max'] = max(0, ll[1] - 2)
    trail = A['h_trail']
    p['label_eos'] = 'dollar' if NL in trail else 'bigZ'
    if trail - {NL} != llast | {46}:
        why.append('host name: the class of a character appended to a name is not the last-character class plus "."')
    if A['h_after_dot'] != A['h_tld_single']:
        why.append('host name: "ex.com." + c is decided differently from "ex." + c')
    if A['h_before_newline']:
        why.append('host name: a name with a final newline is accepted')
    same('h_tld_first', 'h_first', 'label first-character class depends on the label position')
    # ---- numeric rule on the last label
    numeric = single - A['h_tld_single']
    p['numeric'] = rng(numeric)
    if A['h_tld_single'] - single:
        why.append('host name: a one-character last label is accepted that is refused elsewhere')
    if A['h_tld_after_digit'] != llast - numeric:
        why.append('host name: "ex.1" + c is not decided by the last-character class minus the numeric class')
    if A['h_tld_before_digit'] != first - numeric:
        why.append('host name: "ex." + c + "1" is not decided by the first-character class minus the numeric class')
    if A['h_only'] != A['h_tld_single']:
        why.append('host name: a one-character name is decided differently from a one-character last label')
    # with an exact label anchor the numeric anchor is unobservable ("ex.1\n" is refused either way)
    p['numeric_eos'] = 'dollar' if p['label_eos'] == 'dollar' and dt['numeric_newline'] == 'ok_False' else 'bigZ'
    # ---- bounds
    hl = _single(dt['host_len'])
    if hl is None or hl[0] != 1 or dt['host_len_dot'] != [hl]:
        why.append(f'host-name lengths accepted: {dt["host_len"]} without, {dt["host_len_dot"]} with a trailing dot')
        hl = [1, hl[1] if hl else 0]
    p['host_max_len'] = hl[1]
    if dt['trailing_dots'] != [True, True, False, False]:
        why.append(f'trailing dots 0..3 accepted: {dt["trailing_dots"]}')
    pi = _single(dt['port_ints'])
    if pi is None:
        why.append(f'integer ports accepted: {dt["port_ints"]}')
        pi = [0, -1]
    p['port_lo'], p['port_hi'] = pi
    if not dt['port_value_is_argument']:
        why.append('validate_port returns something else than the integer it was given')
    p['why'] = why
    return p


# ---------------------------------------------------------------- informational: regex normal forms
_probe_cache = {}
_ALL = None


def effective_class(node, flags):
    """Code points the real engine accepts for the one-character node `node` compiled under
    `flags` - every code point is put to `fullmatch` individually."""
    global _ALL
    key = (repr(node), int(flags))
    if key in _probe_cache:
        return _probe_cache[key]
    if _ALL is None:
        _ALL = ''.join(map(chr, range(NCP)))
    st = _parser.State()
    st.flags = flags
    st.str = ''
    pat = _compiler.compile(_parser.SubPattern(st, [node]), flags)
    _probe_cache[key] = to_ranges([ord(x) for x in pat.findall(_ALL)])
    return _probe_cache[key]


class Unsupported(Exception):
    pass


def _atoms(nodes, flags, classes, allow_group):
    """parsed nodes -> list of atoms / items in normal form"""
    char_nodes = (K.IN, K.LITERAL, K.NOT_LITERAL, K.ANY)
    out = []
    for op, av in nodes:
        if op in char_nodes:
            classes.append(effective_class((op, av), flags))
            out.append(['cls', len(classes) - 1, 1, 1])
        elif op in (K.MAX_REPEAT, K.MIN_REPEAT):
            lo, hi, body = av
            body = list(body)
            hi = None if hi == K.MAXREPEAT else int(hi)
            if len(body) == 1 and body[0][0] in char_nodes:
                classes.append(effective_class(body[0], flags))
                out.append(['cls', len(classes) - 1, int(lo), hi])
            elif allow_group and lo == 0 and hi == 1:
                if len(body) == 1 and body[0][0] is K.SUBPATTERN:
                    _g, add, dele, inner = body[0][1]
                    if add or dele:
                        raise Unsupported('inline flags')
                    body = list(inner)
                out.append(['opt', _atoms(body, flags, classes, False)])
            else:
                raise Unsupported(f'repeat of a non-class: {op} {lo} {hi}')
        elif op is K.SUBPATTERN:
            _g, add, dele, inner = av
            if add or dele:
                raise Unsupported('inline flags')
            out.extend(_atoms(list(inner), flags, classes, allow_group))
        elif op is K.AT:
            if av in (K.AT_BEGINNING, K.AT_BEGINNING_STRING) and not (flags & re.MULTILINE and av is K.AT_BEGINNING):
                out.append(['bos'])
            elif av is K.AT_END and not flags & re.MULTILINE:
                out.append(['eos', 'dollar'])
            elif av is K.AT_END_STRING:
                out.append(['eos', 'bigZ'])
            else:
                raise Unsupported(f'anchor {av}')
        else:
            raise Unsupported(f'node {op}')
    return out


def linear_form(pattern, flags):
    """-> {'items': [...], 'classes': [[(lo,hi),...],...], 'flags': int} or {'unsupported': why}"""
    try:
        p = _parser.parse(pattern, flags)
        eff = p.state.flags
        classes = []
        items = _atoms(list(p), eff, classes, True)
        return {'items': items, 'classes': classes, 'flags': int(eff), 'pattern': pattern}
    except Exception as e:      # noqa: BLE001 - informational only
        return {'unsupported': f'{type(e).__name__}: {e}', 'pattern': pattern}


def module_regexes(util):
    """every compiled pattern bound to a module global, in linear normal form where possible"""
    out = {}
    if _parser is None:
        return out
    for k, v in sorted(vars(util).items()):
        if isinstance(v, re.Pattern) and isinstance(v.pattern, str):
            form = linear_form(v.pattern, v.flags)
            form['name'] = k
            out[k] = form
    return out


# ---------------------------------------------------------------- interpreter digit tables
def digit_tables():
    """(decimal runs [(lo, hi, value of lo)], ranges of chars that are str.isdigit() but that
    int() refuses) - asked of the running interpreter, code point by code point."""
    runs, only = [], []
    for c in range(NCP):
        ch = chr(c)
        if not ch.isdigit():
            continue
        try:
            v = int(ch)
        except ValueError:
            only.append(c)
            continue
        if runs and runs[-1][1] == c - 1 and runs[-1][2] + (c - runs[-1][0]) == v:
            runs[-1][1] = c
        else:
            runs.append([c, c, v])
    return [list(r) for r in runs], to_ranges(only)


# ---------------------------------------------------------------- extract
def extract(repo):
    util = common.fresh_import(repo, 'aiorpcx.util')
    facts = {'contexts': {k: list(v) for k, v in CONTEXTS.items()},
             'source_key': source_key(repo, CONTEXTS)}
    facts['tables'] = compute_tables(repo)
    facts['decisions'] = decision_tables(util)
    try:
        facts['split_table'] = split_table(util)
    except Exception as e:      # noqa: BLE001 - degrade: the harness compares the splitter anyway
        facts['split_table'] = []
        facts['split_table_error'] = f'{type(e).__name__}: {e}'
    facts['params'] = synthesise(facts['tables'], facts['decisions'])
    try:
        facts['regexes'] = module_regexes(util)
    except Exception as e:      # noqa: BLE001 - informational only
        facts['regexes'] = {}
        facts['regexes_error'] = f'{type(e).__name__}: {e}'
    facts['max_str_digits'] = sys.get_int_max_str_digits()
    runs, only = digit_tables()
    facts['decimal_runs'] = runs
    facts['digit_only'] = only
    try:
        facts['fingerprints'] = common.fingerprints(repo, {'aiorpcx/util.py': MODELLED})
    except Exception as e:      # noqa: BLE001 - unparsable source: the import above would have failed
        facts['fingerprints'] = {'error': f'{type(e).__name__}: {e}'}
    facts['supported'] = not facts['params']['why']
    return facts


# ---------------------------------------------------------------- render
def lean_cls(rs):
    return '[' + ', '.join(f'({a}, {b})' for a, b in rs) + ']'


def _doc(text):
    return text.replace('-/', '- /').replace('/-', '/ -')


def lean_runs(runs):
    return '[' + ', '.join(f'({a}, {b}, {v})' for a, b, v in runs) + ']'


def lean_int(n):
    return f'({n})' if n is not None and n < 0 else ('0' if n is None else str(n))


def lean_str(s):
    return '[' + ', '.join(str(ord(c)) for c in s) + ']'


def lean_opt(n):
    return 'none' if n is None else f'(some {n})'


def lean_pairs(rs):
    return '[' + ', '.join(f'({lean_int(a)}, {lean_int(b)})' for a, b in rs) + ']'


def lean_string_lit(s):
    return '"' + s.replace('\\', '\\\\').replace('"', '\\"') + '"'


def render(f):
    p, d = f['params'], f['decisions']
    L = ['import Aiorpcx.C18.Model',
         '/-! GENERATED by tools/facts/c18.py by RUNNING the functions of /repo on every run - do not edit. -/',
         'namespace Aiorpcx.Facts.C18',
         'open Aiorpcx.C18',
         '/-- the observed behaviour fits the family of the property\'s grammar (classes per position,',
         '    repeat bounds, anchor kind, length limits, one port interval) -/',
         f'def supported : Bool := {"true" if f["supported"] else "false"}',
         '/-- what did not fit (empty when `supported`) -/',
         'def unsupportedWhy : List String := [' + ', '.join(lean_string_lit(w) for w in p['why']) + ']',
         '/-- protocol: code points accepted as first character (`c ++ "cp"`, every c) -/',
         f'def protocol_c0 : Cls := {lean_cls(p["proto_head"])}',
         '/-- protocol: code points accepted after the first character (`"t" ++ c ++ "p"`) -/',
         f'def protocol_c1 : Cls := {lean_cls(p["proto_tail"])}',
         f'def protocolTailMin : Nat := {p["proto_tail_min"]}',
         f'def protocolTailMax : Option Nat := {lean_opt(p["proto_tail_max"])}',
         '/-- `.dollar`: a final newline slips through (`"tc\\n"` accepted) -/',
         f'def protocolEos : EndKind := .{p["proto_eos"]}',
         'def protocolRx : LinearRegex :=',
         '  [.atom (.cls protocol_c0 1 (some 1)), .atom (.cls protocol_c1 protocolTailMin protocolTailMax),',
         '   .atom (.eos protocolEos)]',
         '/-- label: first character of a longer label / middle / last / how many middle ones at most -/',
         f'def label_c0 : Cls := {lean_cls(p["label_first"])}',
         f'def label_c1 : Cls := {lean_cls(p["label_mid"])}',
         f'def label_c2 : Cls := {lean_cls(p["label_last"])}',
         f'def labelMidMax : Nat := {p["label_mid_max"]}',
         f'def labelEos : EndKind := .{p["label_eos"]}',
         'def labelRx : LinearRegex :=',
         '  [.atom (.cls label_c0 1 (some 1)),',
         '   .opt [.cls label_c1 0 (some labelMidMax), .cls label_c2 1 (some 1)], .atom (.eos labelEos)]',
         '/-- one-character labels accepted in front but refused as the last label -/',
         f'def numeric_c0 : Cls := {lean_cls(p["numeric"])}',
         f'def numericEos : EndKind := .{p["numeric_eos"]}',
         'def numericRx : LinearRegex := [.atom (.cls numeric_c0 1 none), .atom (.eos numericEos)]',
         '/-- integers of the grid -2..65537 that `validate_port` accepted, as intervals -/',
         f'def portIntervals : List (Int × Int) := {lean_pairs(d["port_ints"])}',
         f'def portValueIsArgument : Bool := {"true" if d["port_value_is_argument"] else "false"}',
         f'def portLo : Int := {lean_int(p["port_lo"])}',
         f'def portHi : Int := {lean_int(p["port_hi"])}',
         '/-- total lengths 0..260 accepted without / with one trailing dot (well-formed names) -/',
         f'def hostLengths : List (Int × Int) := {lean_pairs(d["host_len"])}',
         f'def hostLengthsDot : List (Int × Int) := {lean_pairs(d["host_len_dot"])}',
         f'def labelLengths : List (Int × Int) := {lean_pairs(d["label_len"])}',
         '/-- `"ex.com"` followed by 0, 1, 2, 3 dots -/',
         'def trailingDots : List Bool := [' + ', '.join('true' if b else 'false' for b in d['trailing_dots']) + ']',
         f'def hostMaxLen : Nat := {lean_int(p["host_max_len"])}',
         '/-- `sys.get_int_max_str_digits()` of the interpreter running the code (0 = no limit) -/',
         f'def maxStrDigits : Nat := {f["max_str_digits"]}',
         'def cfg : Cfg :=',
         '  { protocol := ⟨protocolRx, .match⟩, label := ⟨labelRx, .match⟩,',
         '    numeric := ⟨numericRx, .match⟩, hostMaxLen := hostMaxLen,',
         '    portLo := portLo, portHi := portHi, maxStrDigits := maxStrDigits }',
         '/-- the real `is_valid_hostname` on hand-picked strings -/',
         'def hostTable : List (Str × Bool) := [' + ', '.join(
             f'({lean_str(s)}, {"true" if o == "ok_True" else "false"})' for s, o in d['host_table']
             if o in ('ok_True', 'ok_False')) + ']',
         '/-- the real `validate_protocol`: accepted? -/',
         'def protoTable : List (Str × Bool) := [' + ', '.join(
             f'({lean_str(s)}, {"true" if o.startswith("ok_") else "false"})' for s, o in d['proto_table']) + ']',
         '/-- the real `validate_port` on strings: returned integer, or none when it raised -/',
         'def portTable : List (Str × Option Int) := [' + ', '.join(
             f'({lean_str(s)}, {"some " + o[3:] if o.startswith("ok_") else "none"})' for s, o in d['port_table']) + ']',
         '/-- what `NetAddress.from_string(text)` hands to the constructor as (host, port) - every text over',
         '    {a 1 . : [ ] % /} up to length 3 and some longer ones, observed through a recording subclass -/',
         f'def splitRows : Nat := {len(f.get("split_table", []))}',
         'def splitTable : List (Str × Str × Str) := [' + ', '.join(
             f'({lean_str(t)}, {lean_str(h)}, {lean_str(q)})' for t, h, q in f.get('split_table', [])) + ']',
         '/-- interpreter: runs of code points `int()` reads as decimal digits (lo, hi, value of lo) -/',
         f'def decimalRuns : List (Nat × Nat × Nat) := {lean_runs(f["decimal_runs"])}',
         '/-- interpreter: `str.isdigit()` is true but `int()` raises ValueError -/',
         f'def digitOnly : Cls := {lean_cls(f["digit_only"])}',
         'end Aiorpcx.Facts.C18', '']
    return '\n'.join(L)


def render_digits(f):
    return '\n'.join([
        'import Aiorpcx.C18.Regex',
        '/-! Digit tables of the CPython 3.12 interpreter (`str.isdigit`, `int()`), written by',
        '`python -m tools.facts.c18 --emit-digits`.  `Props.lean` (`facts_digit_tables`) proves that',
        'the tables regenerated from the running interpreter on every check equal these. -/',
        'namespace Aiorpcx.C18',
        '/-- runs of code points that `int()` reads as decimal digits: (lo, hi, value of lo) -/',
        f'def decimalRuns : List (Nat × Nat × Nat) := {lean_runs(f["decimal_runs"])}',
        '/-- `str.isdigit()` true, `int()` raises ValueError (superscripts, circled digits, …) -/',
        f'def digitOnly : Cls := {lean_cls(f["digit_only"])}',
        'end Aiorpcx.C18', ''])


if __name__ == '__main__':
    repo = os.environ.get('AIORPCX_REPO', '/repo')
    if '--emit-digits' in sys.argv:
        runs, only = digit_tables()
        path = os.path.join(VERIF, 'lean', 'Aiorpcx', 'C18', 'Digits.lean')
        with open(path, 'w') as fh:
            fh.write(render_digits({'decimal_runs': runs, 'digit_only': only}))
        print('wrote', path, len(runs), 'decimal runs,', len(only), 'digit-only ranges')
    else:
        fx = extract(repo)
        print(json.dumps({k: v for k, v in fx.items()
                          if k not in ('decimal_runs', 'digit_only', 'tables', 'regexes', 'split_table', 'contexts')}, indent=1))
        for k, v in fx['tables'].items():
            print(k, len(v), 'runs')
