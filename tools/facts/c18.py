"""Facts for C18 (host / port / protocol validation, NetAddress / Service print-parse).

Read from the CURRENT tree on every run:

* the three compiled regexes of `aiorpcx/util.py` in *linear normal form*, obtained from
  `re._parser.parse(pattern, flags)`: sequence of class atoms (with the repeat bounds), `^`,
  `$` (AT_END) vs `\\Z` (AT_END_STRING), one level of optional group;
* the *effective* character class of every class atom under the pattern's flags, obtained by
  asking the real engine about every code point 0..0x10FFFF (that is how the four non-ASCII
  letters that `IGNORECASE` folds into `[a-z]` show up);
* how each regex is applied (`match` / `fullmatch` / `search`), read from the call sites with `ast`;
* the port interval and the host-name length limit as inclusive bounds (normal form of the
  comparison chains), the `isinstance` type sets;
* interpreter facts the model depends on: `str.isdigit` / `int()` digit tables and the
  int-string digit limit;
* fingerprints of every modelled function.

`python -m tools.facts.c18 --emit-digits` rewrites lean/Aiorpcx/C18/Digits.lean (the committed copy
of the interpreter's digit tables used by the driver; `Props.lean` proves it equal to the table
regenerated here on every run)."""
import ast
import os
import re
import sys
from re import _parser, _compiler
from re import _constants as K

from . import common

NCP = 0x110000
MODELLED = ['PROTOCOL_REGEX', 'LABEL_REGEX', 'NUMERIC_REGEX',
            'is_valid_hostname', 'classify_host', 'validate_port', 'validate_protocol',
            '_split_address', 'NetAddress.__init__', 'NetAddress.__eq__',
            'NetAddress.from_string', 'NetAddress.__str__',
            'Service.__init__', 'Service.__eq__', 'Service.from_string', 'Service.__str__']

_ALL = None
_probe_cache = {}


def to_ranges(cps):
    out = []
    for c in cps:
        if out and out[-1][1] == c - 1:
            out[-1][1] = c
        else:
            out.append([c, c])
    return [list(r) for r in out]


def effective_class(node, flags):
    """Code points the real engine accepts for the one-character node `node` compiled under
    `flags` - every code point is put to `fullmatch` individually."""
    global _ALL
    key = (repr(node), int(flags))
    if key in _probe_cache:
        return _probe_cache[key]
    if _ALL is None:
        _ALL = [chr(i) for i in range(NCP)]
    st = _parser.State()
    st.flags = flags
    st.str = ''
    sp = _parser.SubPattern(st, [node])
    fm = _compiler.compile(sp, flags).fullmatch
    got = [i for i, ch in enumerate(_ALL) if fm(ch)]
    _probe_cache[key] = to_ranges(got)
    return _probe_cache[key]


class Unsupported(Exception):
    pass


_CHAR_NODES = (K.IN, K.LITERAL, K.NOT_LITERAL, K.ANY)


def _atoms(nodes, flags, classes, allow_group):
    """parsed nodes -> list of atoms / items in normal form"""
    out = []
    for op, av in nodes:
        if op in _CHAR_NODES:
            classes.append(effective_class((op, av), flags))
            out.append(['cls', len(classes) - 1, 1, 1])
        elif op in (K.MAX_REPEAT, K.MIN_REPEAT):
            lo, hi, body = av
            body = list(body)
            hi = None if hi == K.MAXREPEAT else int(hi)
            if len(body) == 1 and body[0][0] in _CHAR_NODES:
                classes.append(effective_class(body[0], flags))
                out.append(['cls', len(classes) - 1, int(lo), hi])
            elif allow_group and lo == 0 and hi == 1:
                if len(body) == 1 and body[0][0] is K.SUBPATTERN:
                    _g, add, dele, inner = body[0][1]
                    if add or dele:
                        raise Unsupported('inline flags')
                    body = list(inner)
                out.append(['opt', _atoms(body, flags, classes, False)])
            else:
                raise Unsupported(f'repeat of a non-class: {op} {lo} {hi}')
        elif op is K.SUBPATTERN:
            _g, add, dele, inner = av
            if add or dele:
                raise Unsupported('inline flags')
            out.extend(_atoms(list(inner), flags, classes, allow_group))
        elif op is K.AT:
            if av in (K.AT_BEGINNING, K.AT_BEGINNING_STRING) and not (flags & re.MULTILINE and av is K.AT_BEGINNING):
                out.append(['bos'])
            elif av is K.AT_END and not flags & re.MULTILINE:
                out.append(['eos', 'dollar'])
            elif av is K.AT_END_STRING:
                out.append(['eos', 'bigZ'])
            else:
                raise Unsupported(f'anchor {av}')
        else:
            raise Unsupported(f'node {op}')
    return out


def linear_form(pattern, flags):
    """-> {'items': [...], 'classes': [[(lo,hi),...],...], 'flags': int} or {'unsupported': why}"""
    try:
        p = _parser.parse(pattern, flags)
        eff = p.state.flags
        classes = []
        items = _atoms(list(p), eff, classes, True)
        return {'items': items, 'classes': classes, 'flags': int(eff), 'pattern': pattern,
                'raw_items': [list(i) for i in items]}
    except (Unsupported, re.error, RecursionError) as e:
        return {'unsupported': f'{type(e).__name__}: {e}', 'pattern': pattern}


def normalise(form, mode):
    """Normal form *under the way the pattern is applied*: with `match` / `fullmatch` the attempt
    starts at position 0, so a leading `^` is redundant and is dropped; with `fullmatch` the
    pattern must end at the end of the string, so a missing end anchor is made explicit as `\\Z`.
    (`raw_items` keeps the unnormalised sequence; the harness compares both with the engine.)"""
    if 'items' not in form:
        return form
    items = [list(i) for i in form['raw_items']]
    if mode in ('match', 'fullmatch'):
        while items and items[0] == ['bos']:
            items.pop(0)
    if mode == 'fullmatch' and not (items and items[-1][0] == 'eos'):
        items.append(['eos', 'bigZ'])
    form['items'] = items
    return form


# ---------------------------------------------------------------- call sites (ast)
def regex_uses(func_node, regex_names):
    """[(regex global name, method)] in source order: `re.<m>(NAME, x)` or `NAME.<m>(x)`"""
    uses = []
    for n in ast.walk(func_node):
        if not isinstance(n, ast.Call) or not isinstance(n.func, ast.Attribute):
            continue
        f = n.func
        if isinstance(f.value, ast.Name) and f.value.id == 're' and n.args \
                and isinstance(n.args[0], ast.Name) and n.args[0].id in regex_names:
            uses.append((n.lineno, n.col_offset, n.args[0].id, f.attr))
        elif isinstance(f.value, ast.Name) and f.value.id in regex_names:
            uses.append((n.lineno, n.col_offset, f.value.id, f.attr))
    uses.sort()
    return [(u[2], u[3]) for u in uses]


def _const(n):
    if isinstance(n, ast.Constant) and type(n.value) is int:
        return n.value
    if isinstance(n, ast.UnaryOp) and isinstance(n.op, ast.USub) and isinstance(n.operand, ast.Constant) \
            and type(n.operand.value) is int:
        return -n.operand.value
    return None


def interval(func_node, is_subject):
    """Inclusive [lo, hi] implied by the comparison chains between `subject` and integer
    constants in the function (None where no bound is found)."""
    lo = hi = None
    for n in ast.walk(func_node):
        if not isinstance(n, ast.Compare):
            continue
        terms = [n.left] + list(n.comparators)
        for left, op, right in zip(terms, n.ops, terms[1:]):
            cl, cr = _const(left), _const(right)
            if cl is not None and is_subject(right):
                if isinstance(op, ast.Lt): lo = cl + 1
                elif isinstance(op, ast.LtE): lo = cl
                elif isinstance(op, ast.Gt): hi = cl - 1
                elif isinstance(op, ast.GtE): hi = cl
            elif cr is not None and is_subject(left):
                if isinstance(op, ast.Lt): hi = cr - 1
                elif isinstance(op, ast.LtE): hi = cr
                elif isinstance(op, ast.Gt): lo = cr + 1
                elif isinstance(op, ast.GtE): lo = cr
    return lo, hi


def isinstance_types(func_node, subject):
    out = set()
    for n in ast.walk(func_node):
        if isinstance(n, ast.Call) and isinstance(n.func, ast.Name) and n.func.id == 'isinstance' \
                and len(n.args) == 2 and isinstance(n.args[0], ast.Name) and n.args[0].id == subject:
            t = n.args[1]
            for e in (t.elts if isinstance(t, ast.Tuple) else [t]):
                out.add(e.id if isinstance(e, ast.Name) else ast.dump(e))
    return sorted(out)


# ---------------------------------------------------------------- interpreter digit tables
def digit_tables():
    """(decimal runs [(lo, hi, value of lo)], ranges of chars that are str.isdigit() but that
    int() refuses) - asked of the running interpreter, code point by code point."""
    runs, only = [], []
    for c in range(NCP):
        ch = chr(c)
        if not ch.isdigit():
            continue
        try:
            v = int(ch)
        except ValueError:
            only.append(c)
            continue
        if runs and runs[-1][1] == c - 1 and runs[-1][2] + (c - runs[-1][0]) == v:
            runs[-1][1] = c
        else:
            runs.append([c, c, v])
    return [list(r) for r in runs], to_ranges(only)


# ---------------------------------------------------------------- extract
def extract(repo):
    util = common.fresh_import(repo, 'aiorpcx.util')
    tree = common.parse(repo, 'aiorpcx/util.py')
    regex_names = [k for k, v in vars(util).items() if isinstance(v, re.Pattern)]
    facts = {'regex_names': sorted(regex_names)}

    def role(func, idx, nuses):
        node = common.find(tree, func)
        uses = regex_uses(node, regex_names) if node is not None else []
        if len(uses) != nuses:
            return {'unsupported': f'{func}: expected {nuses} regex application(s), found {uses}'}
        name, method = uses[idx]
        pat = getattr(util, name)
        form = linear_form(pat.pattern, pat.flags)
        form['name'] = name
        form['mode'] = method
        normalise(form, method)
        form['applied_in'] = func
        if method not in ('match', 'fullmatch', 'search') and 'unsupported' not in form:
            form['unsupported'] = f'applied with .{method}'
        return form

    facts['protocol'] = role('validate_protocol', 0, 1)
    # is_valid_hostname: first application = "last label all numeric" test, second = label test
    facts['numeric'] = role('is_valid_hostname', 0, 2)
    facts['label'] = role('is_valid_hostname', 1, 2)

    vp = common.find(tree, 'validate_port')
    lo, hi = interval(vp, lambda n: isinstance(n, ast.Name) and n.id == 'port') if vp else (None, None)
    facts['port_lo'], facts['port_hi'] = lo, hi
    facts['port_types'] = isinstance_types(vp, 'port') if vp else []
    ivh = common.find(tree, 'is_valid_hostname')
    _lo, mx = interval(ivh, lambda n: isinstance(n, ast.Call) and isinstance(n.func, ast.Name)
                       and n.func.id == 'len') if ivh else (None, None)
    # `len(h) > 253` is the *refusal* test: the accepted lengths are <= 253
    facts['host_max_len'] = None
    if ivh is not None:
        for n in ast.walk(ivh):
            if isinstance(n, ast.Compare) and len(n.ops) == 1 and isinstance(n.left, ast.Call) \
                    and isinstance(n.left.func, ast.Name) and n.left.func.id == 'len':
                c = _const(n.comparators[0])
                if c is not None and isinstance(n.ops[0], ast.Gt):
                    facts['host_max_len'] = c
                elif c is not None and isinstance(n.ops[0], ast.GtE):
                    facts['host_max_len'] = c - 1
    facts['hostname_types'] = isinstance_types(ivh, 'hostname') if ivh else []
    facts['max_str_digits'] = sys.get_int_max_str_digits()
    runs, only = digit_tables()
    facts['decimal_runs'] = runs
    facts['digit_only'] = only
    facts['fingerprints'] = common.fingerprints(repo, {'aiorpcx/util.py': MODELLED})
    facts['supported'] = all('unsupported' not in facts[r] for r in ('protocol', 'label', 'numeric')) \
        and None not in (lo, hi, facts['host_max_len'])
    return facts


# ---------------------------------------------------------------- render
def lean_cls(rs):
    return '[' + ', '.join(f'({a}, {b})' for a, b in rs) + ']'


def lean_atom(a, prefix):
    if a[0] == 'cls':
        mx = 'none' if a[3] is None else f'(some {a[3]})'
        return f'.cls {prefix}_c{a[1]} {a[2]} {mx}'
    if a[0] == 'bos':
        return '.bos'
    return f'.eos .{a[1]}'


def _doc(text):
    return text.replace('-/', '- /').replace('/-', '/ -')


def lean_regex(form, prefix):
    lines = []
    if 'unsupported' in form:
        lines.append('/-- NOT in the modelled fragment: ' + _doc(repr(form['unsupported'])) + ' -/')
        lines.append(f'def {prefix}Rx : LinearRegex := []')
        lines.append(f'def {prefix}Mode : Mode := .match')
        return lines
    for i, c in enumerate(form['classes']):
        lines.append(f'def {prefix}_c{i} : Cls := {lean_cls(c)}')
    items = []
    for it in form['items']:
        if it[0] == 'opt':
            items.append('.opt [' + ', '.join(lean_atom(a, prefix) for a in it[1]) + ']')
        else:
            items.append('.atom (' + lean_atom(it, prefix) + ')')
    lines.append('/-- ' + _doc(f'`{form["name"]}` = {form["pattern"]!r}, flags {form["flags"]}, '
                                f'applied with `{form["mode"]}` in `{form["applied_in"]}`') + ' -/')
    lines.append(f'def {prefix}Rx : LinearRegex := [' + ', '.join(items) + ']')
    mode = {'match': '.match', 'fullmatch': '.fullmatch', 'search': '.search'}[form['mode']]
    lines.append(f'def {prefix}Mode : Mode := {mode}')
    return lines


def lean_runs(runs):
    return '[' + ', '.join(f'({a}, {b}, {v})' for a, b, v in runs) + ']'


def lean_int(n):
    return f'({n})' if n is not None and n < 0 else ('0' if n is None else str(n))


def render(f):
    L = ['import Aiorpcx.C18.Model',
         '/-! GENERATED by tools/facts/c18.py from /repo on every run - do not edit. -/',
         'namespace Aiorpcx.Facts.C18',
         'open Aiorpcx.C18',
         '/-- every regex is inside the modelled fragment and every bound was found -/',
         f'def supported : Bool := {"true" if f["supported"] else "false"}']
    for r in ('protocol', 'label', 'numeric'):
        L += lean_regex(f[r], r)
    L += [f'/-- accepted ports: portLo ≤ p ≤ portHi (normal form of the comparison chain in `validate_port`) -/',
          f'def portLo : Int := {lean_int(f["port_lo"])}',
          f'def portHi : Int := {lean_int(f["port_hi"])}',
          f'/-- `isinstance(port, …)` type names in `validate_port` -/',
          'def portTypes : List String := [' + ', '.join(f'"{t}"' for t in f['port_types']) + ']',
          'def hostnameTypes : List String := [' + ', '.join(f'"{t}"' for t in f['hostname_types']) + ']',
          f'/-- longest accepted host name (after removing one trailing dot) -/',
          f'def hostMaxLen : Nat := {lean_int(f["host_max_len"])}',
          f'/-- `sys.get_int_max_str_digits()` of the interpreter running the code (0 = no limit) -/',
          f'def maxStrDigits : Nat := {f["max_str_digits"]}',
          'def cfg : Cfg :=',
          '  { protocol := ⟨protocolRx, protocolMode⟩, label := ⟨labelRx, labelMode⟩,',
          '    numeric := ⟨numericRx, numericMode⟩, hostMaxLen := hostMaxLen,',
          '    portLo := portLo, portHi := portHi, maxStrDigits := maxStrDigits }',
          '/-- interpreter: runs of code points `int()` reads as decimal digits (lo, hi, value of lo) -/',
          f'def decimalRuns : List (Nat × Nat × Nat) := {lean_runs(f["decimal_runs"])}',
          '/-- interpreter: `str.isdigit()` is true but `int()` raises ValueError -/',
          f'def digitOnly : Cls := {lean_cls(f["digit_only"])}',
          'end Aiorpcx.Facts.C18', '']
    return '\n'.join(L)


def render_digits(f):
    return '\n'.join([
        'import Aiorpcx.C18.Regex',
        '/-! Digit tables of the CPython 3.12 interpreter (`str.isdigit`, `int()`), written by',
        '`python -m tools.facts.c18 --emit-digits`.  `Props.lean` (`facts_digit_tables`) proves that',
        'the tables regenerated from the running interpreter on every check equal these. -/',
        'namespace Aiorpcx.C18',
        '/-- runs of code points that `int()` reads as decimal digits: (lo, hi, value of lo) -/',
        f'def decimalRuns : List (Nat × Nat × Nat) := {lean_runs(f["decimal_runs"])}',
        '/-- `str.isdigit()` true, `int()` raises ValueError (superscripts, circled digits, …) -/',
        f'def digitOnly : Cls := {lean_cls(f["digit_only"])}',
        'end Aiorpcx.C18', ''])


if __name__ == '__main__':
    repo = os.environ.get('AIORPCX_REPO', '/repo')
    if '--emit-digits' in sys.argv:
        runs, only = digit_tables()
        here = os.path.dirname(os.path.dirname(os.path.dirname(os.path.abspath(__file__))))
        path = os.path.join(here, 'lean', 'Aiorpcx', 'C18', 'Digits.lean')
        with open(path, 'w') as fh:
            fh.write(render_digits({'decimal_runs': runs, 'digit_only': only}))
        print('wrote', path, len(runs), 'decimal runs,', len(only), 'digit-only ranges')
    else:
        import json
        fx = extract(repo)
        print(json.dumps({k: v for k, v in fx.items() if k not in ('decimal_runs', 'digit_only')}, indent=1))
