"""Facts for C11/C12: what the real `timeout_after` / `timeout_at` / `ignore_after` / `ignore_at`
blocks DO on a grid of small scenarios, obtained by *running* them - nested real blocks on a
virtual-time loop whose `call_at` is recorded - and the exception hierarchy the model relies on.

Only the public API is used (the four functions, the three exception classes, `.expired`): a
rewrite that renames locals or private task attributes, restructures `__aexit__`, extracts
helpers, or keeps the deadlines somewhere else produces the same table.  Nothing here reads a
private attribute and nothing parses the source (the fingerprints only decide how deep the
harness explores).

A scenario = (prefix, prog): `prefix` is a list of absolute deadlines of enclosing `timeout_at`
blocks already entered at time 0; `prog` a program in the language of the Lean model (absolute
and relative blocks, sleep, try/except by exception kind, raise).  Observed, from inside the
task right after `prog` ended (still inside the prefix blocks):
    what left `prog` (exception kind), the time, per block exit in `prog` (in exit order):
    (deadline, kind that left it, `.expired`, time), and the `when` of every timer the task has
    created that is still pending on the loop (neither cancelled nor spent);
and, after the prefix blocks have exited too: whether any timer created by the task is left.

The grid covers the decision space of block exit - exception kind leaving the body (none,
CancelledError, TaskTimeout, TimeoutCancellationError, UncaughtTimeoutError, other) x ignore x
which deadline has fired (none / the block's own / an enclosing block's / an inner block's that
has exited) - in two stack shapes ([outer, this] and [20, 10, 30], where the armed deadline is
neither the first nor the last), block entry (new deadline below / equal to / above the armed
one; the fired-deadline marker is forgotten on entry), and the relative forms with zero and past
deadlines.
"""
import asyncio

from . import common

KINDS = ['none', 'cancelled', 'taskTimeout', 'tce', 'uncaught', 'other']
CODE = {k: i for i, k in enumerate(KINDS)}


# ------------------------------------------------------------------ the scenario grid
def _act(ek):
    return ('skip',) if ek == 'none' else ('raise', ek)


def _wait(ek):
    """suspend until a cancellation arrives, then continue as `ek`"""
    return ('try', ['cancelled'], ('sleep', 100), _act(ek))


def scenarios():
    out = []
    # block exit, stack [outer, this]: which deadline fired x exception kind x ignore
    for ek in KINDS:
        for ig in (False, True):
            # nothing fired; the body ends / raises by itself
            out.append(([10], ('block', ig, False, 20, _act(ek))))
            # this block's own deadline fired
            out.append(([30], ('block', ig, False, 20, _wait(ek))))
            # the enclosing block's deadline fired
            out.append(([10], ('block', ig, False, 20, _wait(ek))))
            # an inner block's deadline fired; that block has reported it and exited
            stale = ('try', ['taskTimeout'], ('block', False, False, 5, ('sleep', 100)), ('skip',))
            out.append(([10], ('block', ig, False, 20, ('seq', stale, _act(ek)))))
    # second stack shape [20, 10, 30]: the armed deadline is the middle one
    for ek in KINDS:
        for ig in (False, True):
            out.append(([20, 10], ('block', ig, False, 30, _act(ek))))
            out.append(([20, 10], ('block', ig, False, 30, _wait(ek))))
            stale = ('try', ['taskTimeout'], ('block', False, False, 5, ('sleep', 100)), ('skip',))
            out.append(([20, 10], ('block', ig, False, 30, ('seq', stale, _act(ek)))))
    # third stack shape [10, 20, 30]: after the innermost exit the timer must be set for the
    # least remaining deadline, which is not the enclosing block's
    for ig in (False, True):
        for body in (('skip',), ('sleep', 2), ('raise', 'other'), _wait('none'), _wait('cancelled')):
            out.append(([10, 20], ('block', ig, False, 30, body)))
            out.append(([10, 20], ('seq', ('block', ig, False, 30, body), _wait('none'))))
    # a deadline whose clock value is exactly 0
    for ig in (False, True):
        out.append(([0], ('block', ig, False, 20, ('sleep', 100))))
        out.append(([], ('block', ig, False, 0, ('block', False, False, 20, ('sleep', 100)))))
        out.append(([], ('block', False, False, 0, ('block', ig, False, 0, ('sleep', 100)))))
    # whole nests, no prefix: who reports, what the others see
    for ig in (False, True):
        for d1, d2, d3 in ((20, 10, 30), (10, 20, 30), (30, 20, 10), (10, 10, 10), (20, 10, 10)):
            nest = ('block', ig, False, d1, ('block', False, False, d2,
                                              ('block', ig, False, d3, ('sleep', 100))))
            out.append(([], nest))
            out.append(([], ('seq', ('try', ['taskTimeout', 'uncaught'], nest, ('skip',)),
                             ('sleep', 50))))
    # block entry: new deadline below / equal to / above the armed one - which timer is live,
    # and when the body is interrupted
    for prefix in ([10], [20, 10], []):
        for d in (5, 10, 20):
            probe = ('try', ['cancelled'], ('sleep', 100), ('skip',))
            out.append((prefix, ('block', False, False, d, ('skip',))))
            out.append((prefix, ('block', False, False, d, probe)))
            out.append((prefix, ('seq', ('block', True, False, d, ('sleep', 2)), probe)))
    # the marker of a timeout that fired earlier is forgotten when a block is entered
    handled = ('try', ['taskTimeout'], ('block', False, False, 5, ('sleep', 100)), ('skip',))
    for prefix in ([], [40]):
        for ek in ('taskTimeout', 'cancelled', 'tce'):
            out.append((prefix, ('seq', handled, ('block', False, False, 50, ('raise', ek)))))
            out.append((prefix, ('block', False, False, 50, ('seq', handled, ('raise', ek)))))
    # relative forms; zero and past deadlines with suspending and non-suspending bodies
    for ig in (False, True):
        for t in (-2, 0, 2, 4, 6):
            for body in (('skip',), ('sleep', 4)):
                out.append(([], ('seq', ('sleep', 2), ('block', ig, True, t, body))))
                out.append(([8], ('seq', ('sleep', 2), ('block', ig, True, t, body))))
    return out


# ------------------------------------------------------------------ running a scenario
class _Recorder:
    def __init__(self, loop):
        self.recs = []
        orig = loop.call_at
        recs = self.recs

        def call_at(when, callback, *args, **kw):
            rec = {'when': when, 'fired': False, 'task': asyncio.current_task(loop)}

            def fire(*a):
                rec['fired'] = True
                return callback(*a)
            rec['h'] = orig(when, fire, *args, **kw)
            recs.append(rec)
            return rec['h']
        loop.call_at = call_at

    def live(self, task):
        return sorted(int(r['when']) for r in self.recs
                      if r['task'] is task and not r['fired'] and not r['h'].cancelled())


def _classify(curio, e):
    if e is None:
        return 'none'
    if isinstance(e, curio.TimeoutCancellationError):
        return 'tce'
    if isinstance(e, curio.CancelledError):
        return 'cancelled'
    if isinstance(e, curio.TaskTimeout):
        return 'taskTimeout'
    if isinstance(e, curio.UncaughtTimeoutError):
        return 'uncaught'
    return 'other'


def _make(curio, k):
    return {'cancelled': curio.CancelledError, 'taskTimeout': lambda: curio.TaskTimeout(0),
            'tce': curio.TimeoutCancellationError, 'uncaught': curio.UncaughtTimeoutError,
            'other': KeyError}[k]()


async def _ex(curio, p, evs):
    t = p[0]
    loop = asyncio.get_event_loop()
    if t == 'skip':
        return
    if t == 'sleep':
        await curio.sleep(p[1])
    elif t == 'raise':
        raise _make(curio, p[1])
    elif t == 'seq':
        await _ex(curio, p[1], evs)
        await _ex(curio, p[2], evs)
    elif t == 'try':
        try:
            await _ex(curio, p[2], evs)
        except BaseException as e:      # noqa
            if _classify(curio, e) not in p[1]:
                raise
            await _ex(curio, p[3], evs)
    elif t == 'block':
        _, ig, rel, tt, body = p
        fn = (curio.ignore_after if ig else curio.timeout_after) if rel else \
            (curio.ignore_at if ig else curio.timeout_at)
        cm = fn(tt)
        d = int(loop.time()) + tt if rel else tt
        left = None
        try:
            async with cm:
                await _ex(curio, body, evs)
        except BaseException as e:      # noqa
            left = e
            raise
        finally:
            evs.append((d, _classify(curio, left), bool(cm.expired), int(loop.time())))
    else:
        raise ValueError(p)


def run_scenario(curio, prefix, prog):
    from harness import vloop
    obs = {}

    async def main():
        loop = asyncio.get_event_loop()
        rec = _Recorder(loop)
        me = asyncio.current_task()
        evs = []

        async def inside(rest):
            if rest:
                async with curio.timeout_at(rest[0]):
                    await inside(rest[1:])
                return
            left = None
            try:
                await _ex(curio, prog, evs)
            except BaseException as e:      # noqa
                left = e
                raise
            finally:
                obs['out'] = _classify(curio, left)
                obs['t'] = int(loop.time())
                obs['evs'] = list(evs)
                obs['live'] = rec.live(me)
        try:
            await inside(list(prefix))
        except BaseException:       # noqa
            pass
        obs['leak'] = bool(rec.live(me))
    try:
        vloop.run(main())
    except (vloop.Deadlock, vloop.Livelock) as e:
        obs.setdefault('out', 'other')
        obs['hang'] = type(e).__name__
    return obs


def extract(repo):
    curio = common.fresh_import(repo, 'aiorpcx.curio')
    rows = []
    for prefix, prog in scenarios():
        o = run_scenario(curio, prefix, prog)
        rows.append({'prefix': prefix, 'prog': prog, 'out': o.get('out', 'other'),
                     't': o.get('t', -1), 'evs': o.get('evs', []), 'live': o.get('live', [-1]),
                     'leak': o.get('leak', True) or 'hang' in o})
    return {
        'scenarios': rows,
        'tce_is_cancelled': issubclass(curio.TimeoutCancellationError, curio.CancelledError),
        'tasktimeout_is_cancelled': issubclass(curio.TaskTimeout, curio.CancelledError),
        'uncaught_is_cancelled': issubclass(curio.UncaughtTimeoutError, curio.CancelledError),
        'fingerprints': common.fingerprints(repo, {
            'aiorpcx/curio.py': ['_set_new_deadline', '_set_task_deadline', '_unset_task_deadline',
                                 'TimeoutAfter.__init__', 'TimeoutAfter.__aenter__',
                                 'TimeoutAfter.__aexit__', '_timeout_after_func',
                                 '_ignore_after_func', 'timeout_after', 'timeout_at',
                                 'ignore_after', 'ignore_at']}),
    }


# ------------------------------------------------------------------ rendering
def _b(x):
    return 'true' if x else 'false'


def _int(n):
    return f'({n})' if n < 0 else str(n)


def lean_prog(p):
    t = p[0]
    if t == 'skip':
        return '.skip'
    if t == 'sleep':
        return f'(.sleep {p[1]})'
    if t == 'raise':
        return f'(.raise .{p[1]})'
    if t == 'seq':
        return f'(.seq {lean_prog(p[1])} {lean_prog(p[2])})'
    if t == 'try':
        cs = ', '.join('.' + k for k in p[1])
        return f'(.tryCatch {lean_prog(p[2])} [{cs}] {lean_prog(p[3])})'
    if t == 'block':
        return f'(.block {_b(p[1])} {_b(p[2])} {_int(p[3])} {lean_prog(p[4])})'
    raise ValueError(p)


def render(f):
    rows = []
    for r in f['scenarios']:
        prefix = '[' + ', '.join(_int(x) for x in r['prefix']) + ']'
        evs = '[' + ', '.join(f'({_int(d)}, {CODE[k]}, {_b(x)}, {_int(t)})'
                              for (d, k, x, t) in r['evs']) + ']'
        live = '[' + ', '.join(_int(x) for x in r['live']) + ']'
        rows.append(f'({prefix}, {lean_prog(tuple(r["prog"]) if not isinstance(r["prog"], tuple) else r["prog"])},\n'
                    f'    ({CODE[r["out"]]}, {_int(r["t"])}, {evs}, {live}, {_b(r["leak"])}))')
    return (
        'import Aiorpcx.C11.Model\n'
        '/-! GENERATED by tools/facts/c11.py from /repo on every run - do not edit. -/\n'
        'namespace Aiorpcx.Facts.C11\n'
        'open Aiorpcx.C11\n'
        '/-- what the real timeout blocks did on the scenario grid:\n'
        '    (absolute deadlines of the enclosing `timeout_at` blocks entered at time 0, program,\n'
        '     (kind that left the program, time, per block exit (deadline, kind, expired, time),\n'
        '      timers of the task still pending right after the program, timer left at the end)).\n'
        '    kinds: 0 none 1 CancelledError 2 TaskTimeout 3 TimeoutCancellationError\n'
        '    4 UncaughtTimeoutError 5 other -/\n'
        'def scenarios : List (List Int × Prog × (Nat × Int × List (Int × Nat × Bool × Int) × List Int × Bool)) := [\n  '
        + ',\n  '.join(rows) + ']\n'
        f'def tceIsCancelled : Bool := {_b(f["tce_is_cancelled"])}\n'
        f'def taskTimeoutIsCancelled : Bool := {_b(f["tasktimeout_is_cancelled"])}\n'
        f'def uncaughtIsCancelled : Bool := {_b(f["uncaught_is_cancelled"])}\n'
        'end Aiorpcx.Facts.C11\n')
