"""Facts for C04 (JSON-RPC codec), obtained on every run by RUNNING the codec of the current
/repo tree (never by looking at its syntax):

* `decode_table`   - the outcome class of the real `message_to_item` of each protocol class on a
                     representative message of EVERY shape of the specification table
                     (lean/Aiorpcx/C04/Classify.lean: 1152 object shapes + empty array, array,
                     non-container; three representatives per row, the variant of each kind
                     rotating, which must agree);
                     `facts_decode_table` states that the table equals `classify`;
* `encode_table`   - the payloads the real `request_message` / `notification_message` /
                     `response_message` / `batch_message` emit on a grid of argument / id / value
                     kinds (parsed back with json.loads), or the code of the ProtocolError raised;
                     `facts_encode_table` states that the model's encoders produce these payloads;
* `dumps`          - the separators of the serializer, found by re-serialising what the real
                     encoders emit (json.dumps with candidate separators must reproduce the bytes),
                     whether non-ASCII is escaped, and whether anything else deviates from
                     `json.dumps(v, separators=.., ensure_ascii=True)` on a probe set (key order,
                     indentation, NaN handling, escapes ...);
* `batch_join`     - separator and brackets of `batch_message_from_parts` / `batch_message`, read
                     off their output on probe parts;
* `payload_guards` - what the real decoder does with the four failing inputs of
                     `json.loads(message.decode())` (invalid UTF-8, invalid JSON, nesting beyond the
                     recursion limit, an integer literal over the digit limit);
* `detect_table`   - the class the real `detect_protocol` chose on 89 probe messages (every
                     combination of the members it looks at, batches mixing the classes, and
                     messages that carry a message of another version as data);
* `allow_batches`  - whether each class decodes an array / emits a batch;
* the error-code constants (public class attributes) and AST fingerprints (drift => deeper run).

Private names (`_message_to_payload`, `encode_payload`, `batch_message_from_parts`) are used when
they exist and replaced by the public entry points when they do not; nothing here raises when a
name is missing.
"""
import itertools
import json
import math

from . import common

MODELLED = {
    'aiorpcx/jsonrpc.py': [
        'SingleRequest.__init__', 'Batch.__init__', 'ProtocolError.__init__',
        'JSONRPC._process_request', 'JSONRPC._process_response', 'JSONRPC._message_to_payload',
        'JSONRPC._error', 'JSONRPC._validate_message', 'JSONRPC.message_to_item',
        'JSONRPC.request_message', 'JSONRPC.notification_message', 'JSONRPC.response_message',
        'JSONRPC.batch_message', 'JSONRPC.batch_message_from_parts', 'JSONRPC.encode_payload',
        'JSONRPCv1._message_id', 'JSONRPCv1._request_args', 'JSONRPCv1._best_effort_error',
        'JSONRPCv1.response_value', 'JSONRPCv1.request_payload', 'JSONRPCv1.response_payload',
        'JSONRPCv1.error_payload',
        'JSONRPCv2._message_id', 'JSONRPCv2._validate_message', 'JSONRPCv2._request_args',
        'JSONRPCv2.response_value', 'JSONRPCv2.request_payload', 'JSONRPCv2.response_payload',
        'JSONRPCv2.error_payload',
        'JSONRPCLoose', 'JSONRPCLoose.response_value',
        'JSONRPCAutoDetect.detect_protocol',
    ]}

PROTOS = ('v1', 'v2', 'loose', 'auto')
ABSENT = object()

# ------------------------------------------------------------------ shapes (twin of Classify.lean)
# order of enumeration = `allShapes` in lean/Aiorpcx/C04/Table.lean: jsonrpc20 outermost, then
# method, params, id, result, error (innermost)
JSONRPC_K = ('no', 'yes')
METHOD_K = ('absent', 'str', 'nonstr')
PARAMS_K = ('absent', 'list', 'dict', 'other')
ID_K = ('absent', 'null', 'atom', 'other')
RES_K = ('absent', 'null', 'nonnull')
ERR_K = ('absent', 'null', 'wf', 'other')

VARIANTS = {
    ('jsonrpc', 'no'): [ABSENT, '1.0', 2.0, '2', None, ['2.0'], True, {}],
    ('jsonrpc', 'yes'): ['2.0'],
    ('method', 'absent'): [ABSENT],
    ('method', 'str'): ['m', '', 'rpc.x', '\ud800\n'],
    ('method', 'nonstr'): [None, 5, True, ['m'], {}, 1.5],
    ('params', 'absent'): [ABSENT],
    ('params', 'list'): [[], [1, 'a'], [[]], [None], [{'jsonrpc': '2.0', 'method': 'm', 'id': 1}],
                         [[{'result': 1, 'error': None, 'id': 2}]]],
    ('params', 'dict'): [{}, {'a': 1}, {'': []}, {'msg': {'jsonrpc': '2.0', 'result': 1, 'id': 1}},
                         {'jsonrpc': '2.0'}],
    ('params', 'other'): [None, 5, 'x', False, 1.5, ''],
    ('id', 'absent'): [ABSENT],
    ('id', 'null'): [None],
    ('id', 'atom'): [1, 'x', 1.5, 0, '', -3, 10 ** 30, 1.0, '{"jsonrpc":"2.0"}'],
    ('id', 'other'): [True, [1], {'a': 1}, False, [], {}],
    ('result', 'absent'): [ABSENT],
    ('result', 'null'): [None],
    ('result', 'nonnull'): [0, 'r', [], {}, False, 1.5, [None], {'jsonrpc': '2.0', 'method': 'm', 'id': 1},
                            [{'jsonrpc': '1.0', 'method': 'm', 'params': [], 'id': 1}]],
    ('error', 'absent'): [ABSENT],
    ('error', 'null'): [None],
    ('error', 'wf'): [{'code': 1, 'message': 'm'}, {'code': True, 'message': ''},
                      {'code': -5, 'message': 'm', 'data': [1]}, {'message': 'x', 'code': 10 ** 20},
                      {'code': 2, 'message': 'm', 'data': {'jsonrpc': '2.0', 'error': {}, 'id': None}}],
    ('error', 'other'): ['e', 7, {'code': 1.0, 'message': 'm'}, {'code': 1, 'message': 5}, {},
                         [], False, 0, '', {'code': 1}, {'message': 'm'}, {'code': None, 'message': 'm'}],
}
MEMBER_ORDERS = [('jsonrpc', 'method', 'params', 'id', 'result', 'error'),
                 ('error', 'result', 'id', 'params', 'method', 'jsonrpc'),
                 ('id', 'jsonrpc', 'error', 'method', 'result', 'params')]
TOP_EXTRA = ('emptyArray', 'array', 'other')
ARRAYS = [[{'jsonrpc': '2.0', 'method': 'm', 'id': 1}], [1], [[]], [None, {}],
          [{'jsonrpc': '2.0', 'result': 1, 'id': 1}]]
OTHERS = [None, 5, 'x', True, 1.5, '', False, 0]


def shapes():
    return list(itertools.product(JSONRPC_K, METHOD_K, PARAMS_K, ID_K, RES_K, ERR_K))


def representatives(shift=0):
    """one message per row of the table, in table order; the variant of each kind rotates (`shift`
    moves every rotation on, so that different shifts give different representatives)"""
    uses = {}

    def pick(member, kind):
        vs = VARIANTS[(member, kind)]
        n = uses.get((member, kind), shift * 3)
        uses[(member, kind)] = n + 1
        return vs[n % len(vs)]
    out = []
    for n, (j, m, p, i, r, e) in enumerate(shapes()):
        vals = {'jsonrpc': pick('jsonrpc', j), 'method': pick('method', m), 'params': pick('params', p),
                'id': pick('id', i), 'result': pick('result', r), 'error': pick('error', e)}
        order = MEMBER_ORDERS[(n + shift) % len(MEMBER_ORDERS)]
        msg = {k: vals[k] for k in order if vals[k] is not ABSENT}
        if (n + shift) % 7 == 3:
            msg['extra'] = n            # an unknown member changes nothing
        out.append(msg)
    out.append([])
    out.append(ARRAYS)                  # every variant is tried; all must agree
    out.append(OTHERS)
    return out


N_REPRESENTATIVES = 3


# outcome codes (twin of `outCode` in Table.lean)
REQUEST, NOTIFICATION, RESULT, RPCERROR, BATCH, ERR_IR, ERR_MNF, ERR_IA, ERR_OTHER, CRASH, MIXED = range(11)


def classes(mod):
    return {'v1': getattr(mod, 'JSONRPCv1', None), 'v2': getattr(mod, 'JSONRPCv2', None),
            'loose': getattr(mod, 'JSONRPCLoose', None), 'auto': getattr(mod, 'JSONRPCAutoDetect', None)}


def decode_outcome(mod, cls, message, codes):
    try:
        item, _rid = cls.message_to_item(message)
    except BaseException as e:      # noqa: the exception type is the observation
        if isinstance(e, (KeyboardInterrupt, SystemExit)):
            raise
        if isinstance(e, getattr(mod, 'ProtocolError', ())):
            return {codes.get('INVALID_REQUEST'): ERR_IR, codes.get('METHOD_NOT_FOUND'): ERR_MNF,
                    codes.get('INVALID_ARGS'): ERR_IA}.get(getattr(e, 'code', None), ERR_OTHER)
        return CRASH
    if isinstance(item, list):
        return BATCH
    if isinstance(item, getattr(mod, 'Request', ())):
        return REQUEST
    if isinstance(item, getattr(mod, 'Notification', ())):
        return NOTIFICATION
    if isinstance(item, getattr(mod, 'Response', ())):
        r = getattr(item, 'result', None)
        if isinstance(r, getattr(mod, 'RPCError', ())):
            return RPCERROR
        if isinstance(r, Exception):
            return CRASH
        return RESULT
    return CRASH


def wire(v):
    return json.dumps(v, separators=(',', ':')).encode()


def decode_table(mod, codes):
    """per class: the outcome code of every row; N_REPRESENTATIVES different representatives of a
    row are decoded and must agree (otherwise the row reads MIXED, which no specification row is)"""
    reps = [representatives(k) for k in range(N_REPRESENTATIVES)]
    table = {}
    for pn, cls in classes(mod).items():
        col = []
        for row in range(len(reps[0]) - 2):
            got = {CRASH if cls is None else decode_outcome(mod, cls, wire(r[row]), codes) for r in reps}
            col.append(got.pop() if len(got) == 1 else MIXED)
        for group in reps[0][-2:]:
            got = {CRASH if cls is None else decode_outcome(mod, cls, wire(v), codes) for v in group}
            col.append(got.pop() if len(got) == 1 else MIXED)
        table[pn] = col
    return table


# ------------------------------------------------------------------ encoders
ENC_ARGS = [[], (), {}, [1, 'a'], {'a': 1}, [[]], [0], {'': None}]
ENC_IDS = [7, 'x', 1.5, 0, '']
ENC_VALUES = [None, 0, [], {}, 'r', [None], {'a': {}}, False]
ENC_RESP_IDS = [7, None, 'x', 0]
ENC_ERRORS = [(-32601, 'm'), (0, ''), (5, 'x\n')]


def parsed(b):
    return json.loads(b.decode())


def enc_outcome(mod, f):
    try:
        b = f()
    except BaseException as e:     # noqa
        if isinstance(e, (KeyboardInterrupt, SystemExit)):
            raise
        if isinstance(e, getattr(mod, 'ProtocolError', ())):
            return ('pe', getattr(e, 'code', None))
        return ('exc', type(e).__name__)
    try:
        return ('ok', parsed(b))
    except Exception as e:      # noqa
        return ('exc', 'unparsable:' + type(e).__name__)


def encode_table(mod):
    rows = []
    for pn, cls in classes(mod).items():
        if cls is None:
            continue
        for args in ENC_ARGS:
            for rid in ENC_IDS[:2] if args not in ([], {}) else ENC_IDS:
                rows.append({'p': pn, 'kind': 'req', 'method': 'm', 'args': args, 'id': rid,
                             'out': enc_outcome(mod, lambda: cls.request_message(mod.Request('m', args), rid))})
            rows.append({'p': pn, 'kind': 'req', 'method': 'n', 'args': args, 'id': None,
                         'out': enc_outcome(mod, lambda: cls.notification_message(mod.Notification('n', args)))})
        for k, v in enumerate(ENC_VALUES):
            rid = ENC_RESP_IDS[k % len(ENC_RESP_IDS)]
            rows.append({'p': pn, 'kind': 'res', 'value': v, 'id': rid,
                         'out': enc_outcome(mod, lambda: cls.response_message(v, rid))})
        for k, (code, msg) in enumerate(ENC_ERRORS):
            rid = ENC_RESP_IDS[k % len(ENC_RESP_IDS)]
            for exc in ('RPCError', 'ProtocolError'):
                rows.append({'p': pn, 'kind': 'err', 'code': code, 'message': msg, 'id': rid,
                             'out': enc_outcome(mod, lambda: cls.response_message(getattr(mod, exc)(code, msg), rid))})
        # a batch: request, notification, request
        members = [('R', 'a', [], 0), ('N', 'b', {}), ('R', 'c', [1], 'x')]
        items = [mod.Request(m[1], m[2]) if m[0] == 'R' else mod.Notification(m[1], m[2]) for m in members]
        rows.append({'p': pn, 'kind': 'batch', 'members': members,
                     'out': enc_outcome(mod, lambda: cls.batch_message(mod.Batch(items), [0, 'x']))})
    return rows


# ------------------------------------------------------------------ serializer configuration
ITEM_SEPS = [',', ', ', ' ,', ' , ', ',\t', ',  ']
KEY_SEPS = [':', ': ', ' :', ' : ', ':\t', ':  ']
DUMP_PROBES = [
    {'b': [1, 2, {'c': None}], 'a': {'x': {}, 'y': []}},
    {'z': 1, 'a': 2, 'm': 3},                       # key order (sort_keys)
    [[], {}, [[]], [{}], '', 0, -0, True, False, None],
    ['"', '\\', '/', '\n', '\r', '\t', '\x08', '\x0c', '\x00', '\x1f', '\x7f', ' ', '~'],
    ['\x80', 'é', ' ', ' ', '￿', '\U00010000', '\U0010ffff', '\ud800', '\udfff', 'a\ud800b'],
    [0, -1, 10 ** 30, -10 ** 30, 2 ** 64],
    [1.5, 1e22, 1e-7, -0.0, 1.0, 5e-324, 1.7976931348623157e308],
    [float('nan'), float('inf'), float('-inf')],
    (1, (2, 3)),
]


def emitters(mod):
    """the ways a value reaches the wire: [(label, value -> bytes)]"""
    out = []
    J = getattr(mod, 'JSONRPC', None)
    if J is not None and hasattr(J, 'encode_payload'):
        out.append(('encode_payload', lambda v: J.encode_payload(v)))
    for pn, cls in classes(mod).items():
        if cls is None:
            continue
        out.append((pn + '.response_message', lambda v, cls=cls: cls.response_message(v, 1)))
        if pn != 'v1':
            out.append((pn + '.request_message',
                        lambda v, cls=cls: cls.request_message(mod.Request('m', [v]), 1)))
    return out


def redump(b, item_sep, key_sep, ensure_ascii):
    v = json.loads(b.decode())
    return json.dumps(v, separators=(item_sep, key_sep), ensure_ascii=ensure_ascii).encode()


def dumps_config(mod):
    em = emitters(mod)
    outs = []          # (label, probe index, bytes | None)
    for label, f in em:
        for i, v in enumerate(DUMP_PROBES):
            try:
                b = f(v)
                outs.append((label, i, b if isinstance(b, bytes) else None))
            except BaseException as e:     # noqa
                if isinstance(e, (KeyboardInterrupt, SystemExit)):
                    raise
                outs.append((label, i, None))
    good = [b for (_l, _i, b) in outs if b is not None]
    ascii_only = bool(good) and all(all(c < 128 for c in b) for b in good)
    found = None
    for isep in ITEM_SEPS:
        for ksep in KEY_SEPS:
            try:
                if good and all(redump(b, isep, ksep, True) == b for b in good[:len(DUMP_PROBES)]):
                    found = (isep, ksep)
                    break
            except Exception:      # noqa
                pass
        if found:
            break
    isep, ksep = found or (',', ':')
    deviations = []
    for (label, i, b) in outs:
        if b is None:
            deviations.append(f'{label} probe {i}: raised')
            continue
        try:
            ok = redump(b, isep, ksep, True) == b
            # the emitted text means the probe (nothing dropped, reordered or converted)
            want = json.dumps(DUMP_PROBES[i], separators=(isep, ksep), ensure_ascii=True)
            ok = ok and want.encode() in b
        except Exception as e:      # noqa
            ok = False
        if not ok:
            deviations.append(f'{label} probe {i}: differs from json.dumps(v, separators={isep!r},{ksep!r})')
    return {'item_sep': isep, 'key_sep': ksep, 'separators_found': found is not None,
            'ensure_ascii': ascii_only, 'deviations': deviations[:6], 'n_deviations': len(deviations),
            'emitters': [l for l, _f in em]}


# ------------------------------------------------------------------ batch framing
def batch_join(mod):
    probes = [[b'1'], [b'1', b'2'], [b'"a, b"', b'[1, 2]', b'{}'], [b'{"x":[1,2]}'] * 4]
    seps, wrap_ok, tried = set(), True, 0

    def look(parts, out):
        nonlocal wrap_ok
        if not isinstance(out, bytes) or not out.startswith(b'[' + parts[0]) or not out.endswith(parts[-1] + b']'):
            wrap_ok = False
            return
        rest = out[1:-1]
        for k, p in enumerate(parts):
            if not rest.startswith(p):
                wrap_ok = False
                return
            rest = rest[len(p):]
            if k + 1 < len(parts):
                nxt = parts[k + 1]
                j = rest.find(nxt)
                # the separator is what stands before the next part (parts are chosen so that no
                # part is a prefix-ambiguous substring of a blank/comma separator)
                if j < 0:
                    wrap_ok = False
                    return
                seps.add(rest[:j])
                rest = rest[j:]
        if rest:
            wrap_ok = False
    J = getattr(mod, 'JSONRPC', None)
    f = getattr(J, 'batch_message_from_parts', None)
    if f is not None:
        for parts in probes:
            for mk in (list, iter):
                try:
                    look(parts, f(mk(parts)))
                    tried += 1
                except BaseException as e:     # noqa
                    if isinstance(e, (KeyboardInterrupt, SystemExit)):
                        raise
                    wrap_ok = False
    # public route: batch_message of real items
    for pn, cls in classes(mod).items():
        if cls is None or pn == 'v1':
            continue
        try:
            items = [mod.Request('a', []), mod.Notification('b', {}), mod.Request('c', [1, 2])]
            parts = [cls.request_message(items[0], 0), cls.notification_message(items[1]),
                     cls.request_message(items[2], 'x')]
            look(parts, cls.batch_message(mod.Batch(items), [0, 'x']))
            look(parts[:1], cls.batch_message(mod.Batch(items[:1]), [0]))
            tried += 2
        except BaseException as e:     # noqa
            if isinstance(e, (KeyboardInterrupt, SystemExit)):
                raise
            wrap_ok = False
    sep = next(iter(seps)) if len(seps) == 1 else b''
    return {'separator': list(sep), 'distinct_separators': len(seps),
            'wrap_is_brackets': bool(wrap_ok and tried and len(seps) == 1), 'probes': tried}


# ------------------------------------------------------------------ failing json.loads outcomes
LOADS_FAILURES = [('unicodeDecodeError', b'{"a":"\xff"}'), ('jsonDecodeError', b'{"a":'),
                  ('recursionError', b'[' * 200000), ('valueError', b'[' + b'1' * 5000 + b']')]


def payload_guards(mod, codes):
    """-> {lean exception constructor: 'parse-error' | 'escapes:<Type>' | 'other:<..>'} for the
    decoder of every class (they must agree)"""
    table = {}
    for lean, message in LOADS_FAILURES:
        seen = set()
        for pn, cls in classes(mod).items():
            if cls is None:
                continue
            for fname in ('_message_to_payload', 'message_to_item'):
                f = getattr(cls, fname, None)
                if f is None:
                    continue
                try:
                    f(message)
                    seen.add('other:returned')
                except BaseException as e:     # noqa
                    if isinstance(e, (KeyboardInterrupt, SystemExit)):
                        raise
                    if isinstance(e, getattr(mod, 'ProtocolError', ())):
                        if getattr(e, 'code', None) == codes.get('PARSE_ERROR') and \
                                getattr(e, 'error_message', None) is not None:
                            seen.add('parse-error')
                        else:
                            seen.add(f'other:ProtocolError({getattr(e, "code", None)})')
                    else:
                        seen.add('escapes:' + type(e).__name__)
        table[lean] = seen.pop() if len(seen) == 1 else 'mixed:' + ','.join(sorted(seen))
    return table


def allow_batches(mod):
    out = {}
    arr = wire([{'jsonrpc': '2.0', 'method': 'm', 'id': 1, 'params': []}])
    for pn, cls in classes(mod).items():
        dec = enc = None
        if cls is not None:
            try:
                item, _ = cls.message_to_item(arr)
                dec = isinstance(item, list)
            except Exception:      # noqa
                dec = False
            try:
                cls.batch_message(mod.Batch([mod.Request('m', [])]), [1])
                enc = True
            except Exception:      # noqa
                enc = False
        out[pn] = {'decodes': dec, 'encodes': enc}
    return out


# ------------------------------------------------------------------ auto-detection
def detect_probes():
    out = []
    for j in (ABSENT, '2.0', '1.0', 2.0, '2', None):
        for has_r in (False, True):
            for has_e in (False, True):
                for has_m in (False, True):
                    p = {}
                    if has_m:
                        p['method'] = 'm'
                    if j is not ABSENT:
                        p['jsonrpc'] = j
                    if has_r:
                        p['result'] = None if has_e else 1
                    if has_e:
                        p['error'] = None
                    p['id'] = 1
                    out.append(p)
    v2 = {'jsonrpc': '2.0', 'method': 'm', 'id': 1}
    v1 = {'result': 1, 'error': None, 'id': 1}
    v1b = {'jsonrpc': '1.0', 'method': 'm', 'params': [], 'id': 1}
    lo = {'method': 'm', 'id': 1}
    out += [5, 'x', None, True, 1.5, [], [v2], [v1], [v1b], [lo], [v2, v2], [v2, v1], [v1, v2], [v1, lo],
            [lo, v1], [lo, v2], [v2, lo], [lo, lo], [5], [v1, 5], [5, v2], [lo, 5, v1], [[]], [v1, v1b],
            [lo, lo, v2, v1]]
    # a message of one version carrying a message of another version as DATA: only the top level
    # (and, for a batch, the members' top level) decides
    fw2 = {'jsonrpc': '2.0', 'method': 'x', 'id': 1}
    fw1 = {'result': 1, 'error': None, 'id': 2}
    out += [
        {'method': 'm', 'params': [fw2], 'id': 5},
        {'method': 'm', 'params': {'msg': fw2}, 'id': 5},
        {'method': 'm', 'params': [[{'deep': [fw2]}]], 'id': 5},
        {'result': fw2, 'error': None, 'id': 5},
        {'result': [fw2], 'id': 5},
        {'result': None, 'error': {'code': 1, 'message': 'm', 'data': fw2}, 'id': 5},
        {'jsonrpc': '1.0', 'method': 'm', 'params': [fw2], 'id': 5},
        {'method': 'm', 'params': [], 'id': '{"jsonrpc":"2.0"}'},
        {'method': '"jsonrpc":"2.0"', 'params': ['"jsonrpc": "2.0"'], 'id': 5},
        {'jsonrpc': '2.0', 'method': 'm', 'params': [fw1], 'id': 5},
        {'jsonrpc': '2.0', 'result': fw1, 'id': 5},
        {'jsonrpc': '2.0', 'result': {'jsonrpc': '1.0'}, 'id': 5},
        [{'method': 'm', 'params': [fw2], 'id': 5}],
        [{'method': 'm', 'params': [fw2], 'id': 5}, v1],
        [{'result': fw2, 'error': None, 'id': 5}, lo],
        [lo, {'method': 'n', 'params': {'m': fw2}}],
    ]
    return out


def detect_table(mod):
    rows = []
    auto = getattr(mod, 'JSONRPCAutoDetect', None)
    names = {v: k for k, v in classes(mod).items() if v is not None and k != 'auto'}
    for p in detect_probes():
        try:
            got = names.get(auto.detect_protocol(wire(p)), 'other')
        except BaseException as e:      # noqa
            if isinstance(e, (KeyboardInterrupt, SystemExit)):
                raise
            got = 'raises'
        rows.append({'payload': p, 'out': got})
    return rows


def extract(repo):
    mod = common.fresh_import(repo, 'aiorpcx.jsonrpc')
    J = getattr(mod, 'JSONRPC', None)
    names = ('PARSE_ERROR', 'INVALID_REQUEST', 'METHOD_NOT_FOUND', 'INVALID_ARGS', 'INTERNAL_ERROR',
             'ERROR_CODE_UNAVAILABLE')
    codes = {k: getattr(J, k, None) for k in names}
    per_class_codes_same = all(getattr(c, k, None) == v for c in classes(mod).values()
                               for k, v in codes.items())
    return {
        'codes': codes,
        'codes_same_on_every_class': per_class_codes_same,
        'allow_batches': allow_batches(mod),
        'dumps': dumps_config(mod),
        'batch_join': batch_join(mod),
        'payload_guards': payload_guards(mod, codes),
        'decode_table': decode_table(mod, codes),
        'encode_table': encode_table(mod),
        'detect_table': detect_table(mod),
        'fingerprints': common.fingerprints(repo, MODELLED),
    }


# ------------------------------------------------------------------ rendering
def lean_chars(s):
    return '[' + ', '.join(f'Char.ofNat {ord(c)}' for c in s) + ']'


def lean_bool(b):
    return 'true' if b else 'false'


def lean_int(i):
    return str(i) if isinstance(i, int) and not isinstance(i, bool) else '0'


def lean_str(s):
    return '[' + ', '.join(str(ord(c)) for c in s) + ']'


def lean_float(x):
    if x != x:
        return '.nan'
    if x in (math.inf, -math.inf):
        return '(.inf ' + lean_bool(x < 0) + ')'
    if x == 0:
        return '.negZero' if math.copysign(1.0, x) < 0 else '(.fin 0 0)'
    n, d = x.as_integer_ratio()
    e = -(d.bit_length() - 1)
    while n % 2 == 0:
        n //= 2
        e += 1
    return f'(.fin ({n}) ({e}))'


def lean_J(v):
    if v is None:
        return '.null'
    if v is True or v is False:
        return f'(.bool {lean_bool(v)})'
    if type(v) is int:
        return f'(.int ({v}))'
    if type(v) is float:
        return f'(.float {lean_float(v)})'
    if type(v) is str:
        return f'(.str {lean_str(v)})'
    if type(v) in (list, tuple):
        return '(.arr [' + ', '.join(lean_J(x) for x in v) + '])'
    if type(v) is dict:
        return '(.obj [' + ', '.join(f'({lean_str(k)}, {lean_J(x)})' for k, x in v.items()) + '])'
    raise TypeError(type(v).__name__)


def lean_out(out):
    """EncOut literal"""
    if out[0] == 'ok':
        try:
            return f'(.payload {lean_J(out[1])})'
        except TypeError:
            return '.crash'
    if out[0] == 'pe' and isinstance(out[1], int) and not isinstance(out[1], bool):
        return f'(.protocolError ({out[1]}))'
    return '.crash'


def lean_enc_row(r):
    p = '.' + r['p']
    if r['kind'] == 'req':
        return f'.req {p} {lean_str(r["method"])} {lean_J(r["args"])} {lean_J(r["id"])} {lean_out(r["out"])}'
    if r['kind'] == 'res':
        return f'.res {p} {lean_J(r["value"])} {lean_J(r["id"])} {lean_out(r["out"])}'
    if r['kind'] == 'err':
        return f'.err {p} {lean_J(r["code"])} {lean_J(r["message"])} {lean_J(r["id"])} {lean_out(r["out"])}'
    ms = ', '.join((f'.request {lean_str(m[1])} {lean_J(m[2])} {lean_J(m[3])}' if m[0] == 'R'
                    else f'.notification {lean_str(m[1])} {lean_J(m[2])}') for m in r['members'])
    return f'.batch {p} [{ms}] {lean_out(r["out"])}'


GUARD_ORDER = ('unicodeDecodeError', 'jsonDecodeError', 'recursionError', 'valueError')


def render(f):
    d = f['dumps']
    c = f['codes']
    ab = f['allow_batches']
    bj = f['batch_join']
    pg = f['payload_guards']
    caught = [g for g in GUARD_ORDER if pg.get(g) == 'parse-error']

    def ab_val(pn):
        a = ab.get(pn) or {}
        return lean_bool(bool(a.get('decodes')) and bool(a.get('encodes')))
    ab_consistent = all((ab.get(pn) or {}).get('decodes') == (ab.get(pn) or {}).get('encodes')
                        and (ab.get(pn) or {}).get('decodes') is not None for pn in PROTOS)
    dt = f['decode_table']
    lines = [
        'import Aiorpcx.C04.Table',
        '/-! GENERATED by tools/facts/c04.py by running the codec of /repo on every run - do not edit. -/',
        'namespace Aiorpcx.Facts.C04',
        'open Aiorpcx.Py Aiorpcx.C04',
        f'def parseError : Int := {lean_int(c["PARSE_ERROR"])}',
        f'def invalidRequest : Int := {lean_int(c["INVALID_REQUEST"])}',
        f'def methodNotFound : Int := {lean_int(c["METHOD_NOT_FOUND"])}',
        f'def invalidArgs : Int := {lean_int(c["INVALID_ARGS"])}',
        f'def internalError : Int := {lean_int(c["INTERNAL_ERROR"])}',
        f'def errorCodeUnavailable : Int := {lean_int(c["ERROR_CODE_UNAVAILABLE"])}',
        f'def codesSameOnEveryClass : Bool := {lean_bool(f["codes_same_on_every_class"])}',
        '/-- does the class decode an array as a batch and emit batches (observed on a probe) -/',
        'def allowBatches : Proto → Bool',
        f'  | .v1 => {ab_val("v1")} | .v2 => {ab_val("v2")} | .loose => {ab_val("loose")} | .auto => {ab_val("auto")}',
        '/-- decoder and encoder of every class agree on whether batches exist -/',
        f'def allowBatchesConsistent : Bool := {lean_bool(ab_consistent)}',
        '/-- the serializer configuration observed on the bytes the encoders emit: re-serialising',
        'them with `json.dumps(v, separators=(itemSep, keySep), ensure_ascii=True)` reproduces them;',
        '`otherKeywords` = some probe deviates (key order, indentation, NaN refused, non-ASCII raw, …) -/',
        'def dumpCfg : DumpCfg :=',
        f'  {{ itemSep := {lean_chars(d["item_sep"])}, keySep := {lean_chars(d["key_sep"])},',
        f'    ensureAscii := {lean_bool(d["ensure_ascii"])},',
        f'    otherKeywords := {lean_bool(d["n_deviations"] > 0 or not d["separators_found"])} }}',
        '/-- what stands between the member messages of a batch, and whether the whole is',
        '`[` members `]` (observed on `batch_message_from_parts` / `batch_message` outputs) -/',
        f'def batchJoin : List Char := {lean_chars(bytes(bj["separator"]).decode("latin-1"))}',
        f'def batchWrapIsBrackets : Bool := {lean_bool(bj["wrap_is_brackets"])}',
        '/-- the failing outcomes of `json.loads(message.decode())` that the decoder turns into a',
        'PARSE_ERROR ProtocolError carrying a reply (observed by feeding invalid UTF-8, invalid JSON,',
        '200000 nested brackets and a 5000-digit integer to the real decoder) -/',
        'def payloadGuards : PayloadGuards :=',
        '  { clause1 := [' + ', '.join('.' + g for g in caught) + '],',
        '    clause2 := [] }',
        '/-- outcome class (`outCode`) of the real `message_to_item` on a representative message of',
        'every row of `allTops`, per protocol class -/',
        'def decodeTable : Proto → List Nat',
    ]
    for pn in PROTOS:
        lines.append(f'  | .{pn} => [' + ', '.join(str(x) for x in dt.get(pn, [])) + ']')
    lines.append('/-- what the real encoders emitted on the probe grid -/')
    lines.append('def encodeTable : List EncRow := [')
    rows = f['encode_table']
    for k, r in enumerate(rows):
        lines.append('  ' + lean_enc_row(r) + (',' if k + 1 < len(rows) else ''))
    lines.append(']')
    lines.append('/-- what the real `detect_protocol` chose on the probe messages (`none`: it raised or chose '
                 'something else) -/')
    lines.append('def detectTable : List (J × Option Proto) := [')
    drows = f['detect_table']
    for k, r in enumerate(drows):
        out = f'(some .{r["out"]})' if r['out'] in ('v1', 'v2', 'loose') else 'none'
        lines.append(f'  ({lean_J(r["payload"])}, {out})' + (',' if k + 1 < len(drows) else ''))
    lines.append(']')
    lines.append('end Aiorpcx.Facts.C04')
    return '\n'.join(lines) + '\n'
