"""Facts for C04 (JSON-RPC codec), read from the current /repo tree on every run:

* the error-code constants and `allow_batches` of every protocol class (from the class objects);
* the configuration of the one `json.dumps` call in `JSONRPC.encode_payload` (ast);
* the byte string `batch_message_from_parts` joins with (ast);
* the exception classes each `except` clause of `_message_to_payload` catches, closed under
  subclassing over the model's exception universe (ast names resolved in the module's namespace,
  `issubclass` on the real class objects);
* class wiring that the model hard-codes (which function object each protocol class uses);
* fingerprints of every modelled function.
"""
import ast
import builtins
import json

from . import common

# the model's exception universe: Lean constructor -> real class (protocol classes added later)
UNIVERSE = {
    'baseException': BaseException, 'exception': Exception, 'typeError': TypeError,
    'valueError': ValueError, 'unicodeDecodeError': UnicodeDecodeError,
    'jsonDecodeError': json.JSONDecodeError, 'runtimeError': RuntimeError,
    'recursionError': RecursionError, 'lookupError': LookupError, 'keyError': KeyError,
    'indexError': IndexError, 'attributeError': AttributeError,
    'assertionError': AssertionError, 'memoryError': MemoryError,
    'overflowError': OverflowError, 'stopIteration': StopIteration,
}
UNIVERSE_ORDER = list(UNIVERSE)

MODELLED = {
    'aiorpcx/jsonrpc.py': [
        'SingleRequest.__init__', 'Batch.__init__', 'ProtocolError.__init__',
        'JSONRPC._process_request', 'JSONRPC._process_response', 'JSONRPC._message_to_payload',
        'JSONRPC._error', 'JSONRPC._validate_message', 'JSONRPC.message_to_item',
        'JSONRPC.request_message', 'JSONRPC.notification_message', 'JSONRPC.response_message',
        'JSONRPC.batch_message', 'JSONRPC.batch_message_from_parts', 'JSONRPC.encode_payload',
        'JSONRPCv1._message_id', 'JSONRPCv1._request_args', 'JSONRPCv1._best_effort_error',
        'JSONRPCv1.response_value', 'JSONRPCv1.request_payload', 'JSONRPCv1.response_payload',
        'JSONRPCv1.error_payload',
        'JSONRPCv2._message_id', 'JSONRPCv2._validate_message', 'JSONRPCv2._request_args',
        'JSONRPCv2.response_value', 'JSONRPCv2.request_payload', 'JSONRPCv2.response_payload',
        'JSONRPCv2.error_payload',
        'JSONRPCLoose', 'JSONRPCLoose.response_value',
        'JSONRPCAutoDetect.detect_protocol',
    ]}


def universe(mod):
    u = dict(UNIVERSE)
    for lean, py in (('codeMessageError', 'CodeMessageError'), ('rpcError', 'RPCError'),
                     ('protocolError', 'ProtocolError')):
        u[lean] = getattr(mod, py)
    return u


def resolve(node, namespace):
    """ast expression naming an exception class (or a tuple of them) -> list of class objects"""
    if node is None:
        return [BaseException]          # bare except
    if isinstance(node, ast.Tuple):
        out = []
        for e in node.elts:
            out += resolve(e, namespace)
        return out
    if isinstance(node, ast.Name):
        if node.id in namespace:
            return [namespace[node.id]]
        return [getattr(builtins, node.id)]
    if isinstance(node, ast.Attribute):
        base = resolve_value(node.value, namespace)
        return [getattr(base, node.attr)]
    raise ValueError('unsupported except expression: ' + ast.dump(node))


def resolve_value(node, namespace):
    if isinstance(node, ast.Name):
        return namespace[node.id] if node.id in namespace else getattr(builtins, node.id)
    if isinstance(node, ast.Attribute):
        return getattr(resolve_value(node.value, namespace), node.attr)
    raise ValueError('unsupported expression: ' + ast.dump(node))


def caught_set(handler_type, namespace, univ):
    """names of the universe classes an `except <handler_type>` clause catches"""
    classes = tuple(resolve(handler_type, namespace))
    return [name for name, cls in univ.items() if issubclass(cls, classes)]


def try_clauses(func_node, namespace, univ):
    """for every `try` directly in the function (source order): list of clauses' caught sets"""
    out = []
    for n in ast.walk(func_node):
        if isinstance(n, ast.Try):
            out.append([caught_set(h.type, namespace, univ) for h in n.handlers])
    return out


def dumps_config(tree):
    node = common.find(tree, 'JSONRPC.encode_payload')
    calls = []
    for n in ast.walk(node):
        if isinstance(n, ast.Call) and isinstance(n.func, ast.Attribute) and n.func.attr == 'dumps':
            calls.append(n)
    cfg = {'calls': len(calls), 'item_sep': ', ', 'key_sep': ': ', 'ensure_ascii': True,
           'other_keywords': [], 'positional_extra': 0}
    if len(calls) == 1:
        c = calls[0]
        cfg['positional_extra'] = max(0, len(c.args) - 1)
        for kw in c.keywords:
            if kw.arg == 'separators':
                val = ast.literal_eval(kw.value)
                cfg['item_sep'], cfg['key_sep'] = val[0], val[1]
            elif kw.arg == 'ensure_ascii':
                cfg['ensure_ascii'] = bool(ast.literal_eval(kw.value))
            else:
                cfg['other_keywords'].append(kw.arg or '**')
    return cfg


def batch_join(tree):
    node = common.find(tree, 'JSONRPC.batch_message_from_parts')
    seps, wraps = [], []
    for n in ast.walk(node):
        if isinstance(n, ast.Call) and isinstance(n.func, ast.Attribute) and n.func.attr == 'join' \
                and isinstance(n.func.value, ast.Constant) and isinstance(n.func.value.value, bytes):
            seps.append(n.func.value.value)
            if n.args and isinstance(n.args[0], ast.List):
                wraps.append([e.value for e in n.args[0].elts
                              if isinstance(e, ast.Constant) and isinstance(e.value, bytes)])
    return {'separators': [list(s) for s in seps], 'wraps': [[list(w) for w in ws] for ws in wraps]}


def extract(repo):
    mod = common.fresh_import(repo, 'aiorpcx.jsonrpc')
    tree = common.parse(repo, 'aiorpcx/jsonrpc.py')
    univ = universe(mod)
    ns = vars(mod)
    J, v1, v2, loose, auto = (mod.JSONRPC, mod.JSONRPCv1, mod.JSONRPCv2, mod.JSONRPCLoose,
                              mod.JSONRPCAutoDetect)
    codes = {k: getattr(J, k) for k in ('PARSE_ERROR', 'INVALID_REQUEST', 'METHOD_NOT_FOUND',
                                        'INVALID_ARGS', 'INTERNAL_ERROR',
                                        'ERROR_CODE_UNAVAILABLE')}
    per_class_codes_same = all(getattr(c, k) == v for c in (v1, v2, loose, auto)
                               for k, v in codes.items())

    def fn(cls, name):
        return getattr(cls, name).__func__ if hasattr(getattr(cls, name), '__func__') \
            else getattr(cls, name)

    wiring = {
        # Loose borrows from v2 / the base class exactly as the model assumes
        'loose_message_id_is_v2': fn(loose, '_message_id') is fn(v2, '_message_id'),
        'loose_validate_is_base': fn(loose, '_validate_message') is fn(J, '_validate_message'),
        'loose_request_args_is_v2': fn(loose, '_request_args') is fn(v2, '_request_args'),
        'loose_payloads_are_v2': all(fn(loose, n) is fn(v2, n) for n in
                                     ('error_payload', 'request_payload', 'response_payload')),
        'v1_validate_is_base': fn(v1, '_validate_message') is fn(J, '_validate_message'),
        'auto_is_v2': all(fn(auto, n) is fn(v2, n) for n in
                          ('_message_id', '_validate_message', '_request_args', 'response_value',
                           'error_payload', 'request_payload', 'response_payload')),
        'shared_base_methods': all(fn(c, n) is fn(J, n) for c in (v1, v2, loose, auto) for n in
                                   ('_process_request', '_process_response',
                                    '_message_to_payload', '_error', 'message_to_item',
                                    'request_message', 'notification_message',
                                    'response_message', 'batch_message',
                                    'batch_message_from_parts', 'encode_payload')),
        'number_abc': [t.__name__ for t in (bool, int, float, str, list, dict, type(None))
                       if issubclass(t, ns['Number'])],
    }
    clauses = try_clauses(common.find(tree, 'JSONRPC._message_to_payload'), ns, univ)
    enc_clauses = try_clauses(common.find(tree, 'JSONRPC.encode_payload'), ns, univ)
    return {
        'codes': codes,
        'codes_same_on_every_class': per_class_codes_same,
        'allow_batches': {'v1': bool(v1.allow_batches), 'v2': bool(v2.allow_batches),
                          'loose': bool(loose.allow_batches), 'auto': bool(auto.allow_batches)},
        'dumps': dumps_config(tree),
        'batch_join': batch_join(tree),
        'payload_try': clauses,
        'encode_try': enc_clauses,
        'wiring': wiring,
        'fingerprints': common.fingerprints(repo, MODELLED),
    }


def lean_chars(s):
    return '[' + ', '.join(f'Char.ofNat {ord(c)}' for c in s) + ']'


def lean_excs(names):
    order = {n: i for i, n in enumerate(UNIVERSE_ORDER + ['codeMessageError', 'rpcError',
                                                          'protocolError'])}
    return '[' + ', '.join('.' + n for n in sorted(names, key=lambda n: order[n])) + ']'


def lean_bool(b):
    return 'true' if b else 'false'


def render(f):
    d = f['dumps']
    pt = f['payload_try']
    # exactly one try with two clauses is what the model mirrors; anything else is rendered as
    # "catches nothing", which makes the proof obligations over these facts fail
    if len(pt) == 1 and len(pt[0]) == 2:
        c1, c2 = pt[0]
    elif len(pt) == 1 and len(pt[0]) == 1:
        c1, c2 = pt[0][0], []
    else:
        c1, c2 = [], []
    bj = f['batch_join']
    sep = bj['separators'][0] if len(bj['separators']) == 2 else []
    # the join with b'' of [b'[', middle, b']'] is the second join
    wrap_ok = len(bj['separators']) == 2 and bj['separators'][1] == [] and \
        [w for w in bj['wraps'] if w] == [[[91], [93]]]
    w = f['wiring']
    wiring_ok = all(v for k, v in w.items() if k != 'number_abc') and \
        w['number_abc'] == ['bool', 'int', 'float']
    c = f['codes']
    ab = f['allow_batches']
    return (
        'import Aiorpcx.C04.Model\n'
        '/-! GENERATED by tools/facts/c04.py from /repo on every run - do not edit. -/\n'
        'namespace Aiorpcx.Facts.C04\n'
        'open Aiorpcx.Py Aiorpcx.C04\n'
        f'def parseError : Int := {c["PARSE_ERROR"]}\n'
        f'def invalidRequest : Int := {c["INVALID_REQUEST"]}\n'
        f'def methodNotFound : Int := {c["METHOD_NOT_FOUND"]}\n'
        f'def invalidArgs : Int := {c["INVALID_ARGS"]}\n'
        f'def internalError : Int := {c["INTERNAL_ERROR"]}\n'
        f'def errorCodeUnavailable : Int := {c["ERROR_CODE_UNAVAILABLE"]}\n'
        f'def codesSameOnEveryClass : Bool := {lean_bool(f["codes_same_on_every_class"])}\n'
        f'/-- `allow_batches` of JSONRPCv1, v2, Loose, AutoDetect -/\n'
        f'def allowBatches : Proto → Bool\n'
        f'  | .v1 => {lean_bool(ab["v1"])} | .v2 => {lean_bool(ab["v2"])}'
        f' | .loose => {lean_bool(ab["loose"])} | .auto => {lean_bool(ab["auto"])}\n'
        '/-- the `json.dumps(payload, …)` call in `encode_payload` -/\n'
        'def dumpCfg : DumpCfg :=\n'
        f'  {{ itemSep := {lean_chars(d["item_sep"])}, keySep := {lean_chars(d["key_sep"])},\n'
        f'    ensureAscii := {lean_bool(d["ensure_ascii"])},\n'
        f'    otherKeywords := {lean_bool(bool(d["other_keywords"]) or d["positional_extra"] > 0 or d["calls"] != 1)} }}\n'
        '/-- `b\', \'.join(messages)` wrapped in `[` `]` by `batch_message_from_parts` -/\n'
        f'def batchJoin : List Char := {lean_chars(bytes(sep).decode("latin-1"))}\n'
        f'def batchWrapIsBrackets : Bool := {lean_bool(wrap_ok)}\n'
        '/-- classes caught by the `except` clauses of `_message_to_payload` (closed under subclassing) -/\n'
        'def payloadGuards : PayloadGuards :=\n'
        f'  {{ clause1 := {lean_excs(c1)},\n    clause2 := {lean_excs(c2)} }}\n'
        '/-- Loose/AutoDetect/v1 reuse exactly the function objects the model assumes, and\n'
        '`numbers.Number` admits exactly bool, int, float among the JSON types -/\n'
        f'def classWiringAsModelled : Bool := {lean_bool(wiring_ok)}\n'
        'end Aiorpcx.Facts.C04\n')
