"""Facts for C03, all obtained by RUNNING the current tree (nothing is read off the syntax):

* the error codes and `error_base_cost` (public constants);
* the behavioural ladder table: a real serving RPCSession (fake transport, virtual clock - the
  rig the harness uses) is given ONE request or notification whose handler behaves as each
  outcome class in turn, and what the peer and the session's public counters then show is
  recorded: the reply (result / error code + whose message), the rise of `errors` and of `cost`,
  whether the connection was closed, whether the excessive-cost hook ran, whether the transport
  was aborted (message processing ended abnormally: repair F34).  Which `except` clause catches what, whether `send_result`
  is guarded, what `encode_payload` does with the three kinds of unencodable values are all
  consequences visible in this table - so reordering independent clauses, merging or splitting
  them, extracting helpers or wrapping the body changes nothing here, while a change of
  behaviour does.
* fingerprints of the anchored functions (a drift only deepens the quick tier).
"""
from . import common

KINDS = ('R', 'N')


def _rows(repo):
    from harness import c03 as H
    rows = []
    probes = []
    for kind in KINDS:
        for o in H.OUTCOMES:
            ns = [1]
            if o in ('u', 'du'):
                ns = [0, 1, 2]
            if o == 'o':
                ns = list(range(H.N_OTHER))
            if o == 'b':
                ns = [0, 1]
            if o == 'x' and kind != 'R':
                continue
            for n in ns:
                probes.append((kind, H.concrete(o, n), H.mk([(kind, H.concrete(o, n), 0 if o == 'x' else 1)]), ''))
        # the processing timeout expires while the request is still queued for a slot / still
        # in the cost-throttle sleep: same outcome class as an overrun in the handler
        probes.append((kind, ('t',), H.mk([('R', ('t',), 1), (kind, ('v', 5), 1)], conc=1), 'queued'))
        probes.append((kind, ('t',), H.mk([(kind, ('v', 5), 1)], throttle=40), 'throttled'))
    for kind, o, case, note in probes:
        obs = H.run_case(repo, case)
        idx = len(case['items']) - 1
        rep = obs['replies'].get(idx)
        sn = obs['snaps'][-1]
        errors, cost = sn[1], sn[2]
        if note == 'queued':
            # the request in front (an overrun too) is charged as well: take it off
            errors -= 1
            cost -= _base(repo)
        rows.append({'kind': kind, 'outcome': list(o), 'note': note,
                     'reply': H.canon_reply(rep) if rep is not None else None,
                     'errors': errors, 'cost': int(round(cost)), 'closed': bool(obs['closed']),
                     'hook': obs['hook'] > 0,
                     'aborted': bool(obs['aborted'])})
    return rows


SCHED_DURS = [[7, 13, 4], [22, 9, 4], [5, 28, 26, 1], [7, 13, 21, 4], [22, 3, 20, 2], [12, 11, 3, 29, 6]]


def _schedule_rows(repo):
    """the K-slot schedule, observed: requests that arrive together (even rows) or one after the
    other (odd rows) on sessions with `slots` = 1..3 and a throttle sleep of 0 / 9 s; for each
    request the instant at which its handler reached its outcome, or the instant of its
    processing deadline if it was answered 'server busy' instead (on every other row one of the
    requests never ends by itself)"""
    from harness import c03 as H
    rows = []
    n = 0
    for slots in (1, 2, 3):
        for throttle in (0, 9):
            for vi, durs in enumerate(SCHED_DURS):
                n += 1
                never = (slots + vi) % len(durs) if vi % 2 else None
                arr = [0] * len(durs)
                if n % 2 and not throttle:
                    arr = [3 * i + (i * i) % 4 for i in range(len(durs))]
                items = [('R', ('t',) if i == never else ('v', i), d) for i, d in enumerate(durs)]
                case = H.mk(items, arr=arr, conc=slots, throttle=throttle)
                if not H.no_ties(case):
                    continue
                obs = H.run_case(repo, case)
                times = []
                for i in range(len(items)):
                    rec = obs['hlog'].get(i)
                    rep = obs['replies'].get(i)
                    if rec and rec[1] is not None and abs(rec[1] - round(rec[1])) < 1e-6:
                        times.append((int(round(rec[1])), i))
                    elif rep is not None and H.canon_reply(rep).startswith(f'E{H_busy(repo)}:'):
                        times.append((arr[i] + H.P, i))
                    else:
                        times.append((999999, i))
                rows.append({'slots': slots, 'throttle': throttle,
                             'items': [[d, i == never, arr[i]] for i, d in enumerate(durs)],
                             'completions': [[i, t] for t, i in sorted(times)]})
    return rows


def H_busy(repo):
    return common.fresh_import(repo, 'aiorpcx.jsonrpc').JSONRPC.SERVER_BUSY


def _base(repo):
    sess = common.fresh_import(repo, 'aiorpcx.session')
    return int(sess.SessionBase.error_base_cost)


def extract(repo):
    sess = common.fresh_import(repo, 'aiorpcx.session')
    jr = common.fresh_import(repo, 'aiorpcx.jsonrpc')
    return {
        'cfg': {'internal': jr.JSONRPC.INTERNAL_ERROR, 'busy': jr.JSONRPC.SERVER_BUSY,
                'excessive': jr.JSONRPC.EXCESSIVE_RESOURCE_USAGE,
                'base': int(sess.SessionBase.error_base_cost)},
        'table': _rows(repo),
        'schedule': _schedule_rows(repo),
        'fingerprints': common.fingerprints(repo, {
            'aiorpcx/session.py': ['RPCSession._throttled_request', 'SessionBase.process_messages',
                                   'SessionBase._process_messages', 'SessionBase._bump_errors',
                                   'RPCSession._process_messages_loop', 'SessionBase.bump_cost',
                                   'SessionBase._send_message', 'Concurrency.__aenter__',
                                   'Concurrency._retarget_semaphore'],
            'aiorpcx/jsonrpc.py': ['JSONRPC.encode_payload', 'JSONRPCConnection._send_result',
                                   'JSONRPCConnection._receive_request_batch']}),
    }


def _P():
    from harness import c03 as H
    return H.P


def lean_outcome(o):
    k = o[0]
    i = lambda x: f'({x})' if x < 0 else str(x)
    if k == 'v':
        return f'.returns (.value {o[1]})'
    if k == 'u':
        return f'.returns (.unencodable {o[1]})'
    if k == 'e':
        return f'.returns (.error {i(o[1])} {o[2]} {o[3]})'
    if k == 'r':
        return f'.raisesRpcError {i(o[1])} {o[2]} {o[3]}'
    if k == 'p':
        return f'.raisesProtocolError {i(o[1])} {o[2]}'
    if k == 'dv':
        return f'.replyAndDisconnect (.value {o[1]})'
    if k == 'du':
        return f'.replyAndDisconnect (.unencodable {o[1]})'
    if k == 'de':
        return f'.replyAndDisconnect (.error {i(o[1])} {o[2]} {o[3]})'
    return {'o': '.raisesOther', 't': '.overruns', 'x': '.excessiveCost', 'xe': '.raisesExcessive',
            'd0': '.replyAndDisconnectNoArg', 'tt': '.raisesTaskTimeout', 'b': '.raisesBase'}[k]


def lean_reply(r):
    if r is None:
        return 'none'
    try:
        if r.startswith('R') and r[1:].isdigit():
            return f'some (true, {int(r[1:])}, 0)'
        if r.startswith('E'):
            code, msg = r[1:].rsplit(':', 1)
            code = int(code)
            m = 0 if msg == 'lib' else int(msg)
            return f'some (false, {"(" + str(code) + ")" if code < 0 else code}, {m})'
    except ValueError:
        pass
    return 'some (true, 0, 999999)'        # something the model has no notation for


def render(f):
    c = f['cfg']
    b = lambda x: str(bool(x)).lower()
    rows = []
    for n, r in enumerate(f['table']):
        sep = ',' if n + 1 < len(f['table']) else ''
        note = f'   -- {r["note"]}' if r['note'] else ''
        rows.append(f'  ({b(r["kind"] == "R")}, {lean_outcome(r["outcome"])}, '
                    f'{{ aborted := {b(r["aborted"])}, reply := {lean_reply(r["reply"])}, '
                    f'errors := {max(0, r["errors"])}, cost := {max(0, r["cost"])}, closed := {b(r["closed"])}, '
                    f'hook := {b(r["hook"])} }}){sep}{note}')
    return (
        'import Aiorpcx.C03.Model\n'
        '/-! GENERATED by tools/facts/c03.py from /repo on every run - do not edit. -/\n'
        'namespace Aiorpcx.Facts.C03\n'
        'open Aiorpcx.C03\n'
        f'def internalError : Int := {c["internal"]}\n'
        f'def serverBusy : Int := {c["busy"]}\n'
        f'def excessiveUsage : Int := {c["excessive"]}\n'
        f'def baseCost : Nat := {c["base"]}\n'
        '/-- the behavioural ladder table: (is a request (else a notification), what the handler\n'
        '    did, what the real session was observed to do) -/\n'
        'def table : List (Bool × Outcome × Obs) := [\n' + '\n'.join(rows) + '\n]\n'
        '/-- processing timeout of the probe sessions -/\n'
        f'def probeDeadline : Nat := {_P()}\n'
        '/-- the observed schedule: (slots, throttle sleep, [(handler duration, never ends,\n'
        '    instant of arrival)], [(request, instant of completion)] in order of completion) -/\n'
        'def scheduleTable : List (Nat × Nat × List (Nat × Bool × Nat) × List (Nat × Nat)) := [\n'
        + ',\n'.join(
            f'  ({r["slots"]}, {r["throttle"]}, '
            f'[{", ".join(f"({d}, {b(t)}, {a})" for d, t, a in r["items"])}], '
            f'[{", ".join(f"({i}, {t})" for i, t in r["completions"])}])' for r in f['schedule'])
        + '\n]\n'
        'end Aiorpcx.Facts.C03\n')
