"""Facts for C06 (newline framer), regenerated from the current tree on every run.

Everything here is *behavioural*: the real `NewlineFramer` is run (public API only: the
constructor, `frame`, `received_bytes`, `receive_message`) on small grids and what it did is
written down as tables; `Props.lean` proves that the model reproduces every row.  Nothing is read
from the syntax of the source except the fingerprints (which only select the exploration depth).

  frameTable : frame(m) for a few messages (newline inside, NUL, empty)
  sepTable   : for each of the 256 byte values b, what successive receive_message() calls return
               when the one-byte chunks  a, b, c, \\n  arrive (limit 0): which byte ends a message
  limitTable : the size test, for limits 0..3: k buffered bytes then the newline in its own chunk /
               in the same chunk / behind a residual / followed by the next segment (whole or in
               pieces); and every byte value directly in front of a newline in the same chunk
"""
import asyncio

from . import common

FRAMING = 'aiorpcx/framing.py'


def observe(framing, max_size, chunks):
    """Successive receive_message() outcomes of a fresh framer fed `chunks` (all queued first):
    a list of bytes (delivered) / None (MemoryError).  Runs on the virtual loop; the reader is
    stopped when every task is blocked (virtual time can only advance then)."""
    from harness import vloop

    async def go():
        fr = framing.NewlineFramer(max_size)
        out = []

        async def reader():
            while len(out) <= 2 * sum(len(c) for c in chunks) + 4:
                try:
                    out.append(bytes(await fr.receive_message()))
                except MemoryError:
                    out.append(None)

        for c in chunks:
            fr.received_bytes(bytes(c))
        task = asyncio.ensure_future(reader())
        await asyncio.sleep(1.0)
        task.cancel()
        try:
            await task
        except asyncio.CancelledError:
            pass
        return out
    return vloop.run(go())


def limit_grid():
    rows = []
    for lim in (0, 1, 2, 3):
        for k in range(0, 6):
            a = b'a' * k
            rows.append((lim, [a, b'\n']))                   # buffered, newline in its own chunk
            rows.append((lim, [a + b'\n']))                  # all in the final chunk
            rows.append((lim, [b'x\n' + a, b'\n']))          # counted although it came as residual
            rows.append((lim, [a, b'a', b'\n', b'b\n']))     # after a drop the next one is delivered
            rows.append((lim, [a, b'zz\nb\n']))              # tail of a dropped one is not merged
            rows.append((lim, [a, b'a', b'\n', b'b', b'c', b'\n']))   # ... nor charged for its bytes
    # every byte value directly in front of the newline, in the same chunk (nothing is stripped)
    for b in range(256):
        rows.append((0, [bytes([97, b, 10])]))
    return rows


def big_grid(default_limit):
    """chunk lists given as (number of `a` bytes, newline behind them?): segments of about a
    million bytes and of a few MB in 2+ chunks, for limit 0 (= unlimited), one million, and the
    constructor's default (None)"""
    M = 1000000
    rows = []
    for lim in (0, M, None):
        for n in (M - 1, M, M + 1, 2 * M + 500000):
            h = n // 2
            rows.append((lim, [(h, False), (n - h, False), (0, True), (2, True)]))
            rows.append((lim, [(h, False), (n - h, True), (2, True)]))
            rows.append((lim, [(n, False), (1, False), (0, True), (3, False), (0, True)]))
    return rows


def observe_big(framing, lim, spec):
    chunks = [b'a' * n + (b'\n' if nl else b'') for n, nl in spec]
    from harness import vloop
    import asyncio

    async def go():
        fr = framing.NewlineFramer() if lim is None else framing.NewlineFramer(lim)
        out = []

        async def reader():
            while len(out) <= 2 * len(chunks) + 4:
                try:
                    out.append(len(await fr.receive_message()))
                except MemoryError:
                    out.append(None)

        for c in chunks:
            fr.received_bytes(c)
        task = asyncio.ensure_future(reader())
        await asyncio.sleep(1.0)
        task.cancel()
        try:
            await task
        except asyncio.CancelledError:
            pass
        return out
    return vloop.run(go())


def extract(repo):
    framing = common.fresh_import(repo, 'aiorpcx.framing')
    fr = framing.NewlineFramer()
    frame_msgs = [b'', b'a', b'ab\x00', b'a\nb', b'\n', bytes([255, 13])]
    frame_table = [(list(m), list(fr.frame(m))) for m in frame_msgs]
    sep_table = []
    for b in range(256):
        out = observe(framing, 0, [b'a', bytes([b]), b'c', b'\n'])
        sep_table.append((b, [None if o is None else list(o) for o in out]))
    limit_table = []
    for lim, chunks in limit_grid():
        out = observe(framing, lim, chunks)
        limit_table.append((lim, [list(c) for c in chunks],
                            [None if o is None else list(o) for o in out]))
    dflt = getattr(fr, 'max_size', None)
    big_table = []
    for lim, spec in big_grid(dflt):
        eff = lim if lim is not None else (dflt if isinstance(dflt, int) else 0)
        big_table.append((eff, spec, observe_big(framing, lim, spec)))
    return {
        'big_table': big_table,
        'frame_suffix': list(fr.frame(b'')),
        'frame_table': frame_table,
        'sep_table': sep_table,
        'terminators': [b for b, out in sep_table if out and out[0] == [97]],
        'limit_table': limit_table,
        'default_max_size': getattr(fr, 'max_size', None),
        # whole class: a drift (also an extracted helper) selects the deeper exploration
        'fingerprints': common.fingerprints(repo, {FRAMING: ['NewlineFramer']}),
    }


def _outs(outs):
    return '[' + ', '.join('none' if o is None else f'some {common.lean_bytes(o)}' for o in outs) + ']'


def render(f):
    lb = common.lean_bytes
    frames = ',\n  '.join(f'({lb(m)}, {lb(fm)})' for m, fm in f['frame_table'])
    seps = ',\n  '.join(f'({b}, {_outs(o)})' for b, o in f['sep_table'])
    lims = ',\n  '.join(f'({lim}, [{", ".join(lb(c) for c in ch)}], {_outs(o)})'
                        for lim, ch, o in f['limit_table'])
    bigs = ',\n  '.join(
        f'({lim}, [' + ', '.join(f'({n}, {"true" if nl else "false"})' for n, nl in spec) + '], ['
        + ', '.join('none' if o is None else f'some {o}' for o in out) + '])'
        for lim, spec, out in f['big_table'])
    return (
        '/-! GENERATED by tools/facts/c06.py from /repo on every run - do not edit. -/\n'
        'namespace Aiorpcx.Facts.C06\n'
        '/-- `NewlineFramer().frame(b"")` -/\n'
        f'def frameSuffix : List UInt8 := {lb(f["frame_suffix"])}\n'
        '/-- (m, `NewlineFramer().frame(m)`) -/\n'
        f'def frameTable : List (List UInt8 × List UInt8) := [\n  {frames}]\n'
        '/-- (b, outcomes of successive `receive_message()` calls when the one-byte chunks\n'
        '    `a`, b, `c`, newline arrive at a framer with limit 0); `some m` delivered,\n'
        '    `none` MemoryError -/\n'
        f'def sepTable : List (UInt8 × List (Option (List UInt8))) := [\n  {seps}]\n'
        '/-- the byte values after which `a` was delivered on its own -/\n'
        f'def terminators : List UInt8 := {lb(f["terminators"])}\n'
        '/-- (limit, chunks, outcomes) of the real framer on the size-test grid -/\n'
        f'def limitTable : List (Nat × List (List UInt8) × List (Option (List UInt8))) := [\n  {lims}]\n'
        '/-- (limit, chunks as (number of `a` bytes, newline behind them?), outcomes as lengths of the\n'
        '    delivered messages / `none` for MemoryError) of the real framer on megabyte segments;\n'
        '    the last third of the rows was run on `NewlineFramer()` (limit = its `max_size`) -/\n'
        f'def bigTable : List (Nat × List (Nat × Bool) × List (Option Nat)) := [\n  {bigs}]\n'
        'end Aiorpcx.Facts.C06\n')
