"""AST normal forms shared by the C13/C14/C20 facts extractors (session.py)."""
import ast

_FLIP = {'Lt': 'Gt', 'Gt': 'Lt', 'LtE': 'GtE', 'GtE': 'LtE', 'Eq': 'Eq', 'NotEq': 'NotEq'}


def strip_self(node):
    """expression -> source text with `self.` removed"""
    return ast.unparse(node).replace('self.', '')


def cmp_nf(node):
    """`a < b` and `b > a` have the same normal form: operands in lexicographic order."""
    if isinstance(node, ast.Compare) and len(node.ops) == 1:
        l, r = strip_self(node.left), strip_self(node.comparators[0])
        op = type(node.ops[0]).__name__
        if op in _FLIP and r < l and not r.lstrip('-').replace('.', '').isdigit():
            l, r, op = r, l, _FLIP[op]
        elif op in _FLIP and l.lstrip('-').replace('.', '').isdigit():
            l, r, op = r, l, _FLIP[op]
        return f'{l} {op} {r}'
    return strip_self(node)


def stmt_nf(st):
    if isinstance(st, ast.Assign) and len(st.targets) == 1:
        return f'{strip_self(st.targets[0])} = {strip_self(st.value)}'
    if isinstance(st, ast.AugAssign):
        op = {'Add': '+=', 'Sub': '-='}.get(type(st.op).__name__, type(st.op).__name__)
        return f'{strip_self(st.target)} {op} {strip_self(st.value)}'
    if isinstance(st, ast.Expr):
        v = st.value
        if isinstance(v, ast.Await):
            v = v.value
        if isinstance(v, ast.Call):
            f = v.func
            name = f.attr if isinstance(f, ast.Attribute) else getattr(f, 'id', '?')
            args = ', '.join(strip_self(a) for a in v.args)
            return f'{name}({args})' if args else name
        return strip_self(v)
    if isinstance(st, ast.Raise):
        e = st.exc
        if isinstance(e, ast.Call):
            e = e.func
        return 'raise ' + (strip_self(e) if e is not None else '')
    if isinstance(st, ast.Return):
        return 'return ' + (strip_self(st.value) if st.value is not None else '')
    if isinstance(st, ast.Pass):
        return 'pass'
    return type(st).__name__ + ':' + strip_self(st)[:80].replace('\n', ';')


def body_nf(body, ordered=True):
    out = []
    for st in body:
        if isinstance(st, ast.Expr) and isinstance(st.value, ast.Constant) and isinstance(st.value.value, str):
            continue    # docstring
        out.append(stmt_nf(st))
    return out if ordered else sorted(out)


def lean_str(s):
    return '"' + s.replace('\\', '\\\\').replace('"', '\\"') + '"'


def lean_strs(l):
    return '[' + ', '.join(lean_str(x) for x in l) + ']'


def guards_of_call(func_node, callee):
    """names of the non-call `async with` context expressions (outermost first) that enclose a
    call of `self.<callee>` inside func_node"""
    res = []

    def walk(node, stack):
        for child in ast.iter_child_nodes(node):
            st = stack
            if isinstance(child, ast.AsyncWith):
                names = [strip_self(it.context_expr) for it in child.items
                         if not isinstance(it.context_expr, ast.Call)]
                st = stack + names
            if isinstance(child, ast.Call) and isinstance(child.func, ast.Attribute) \
                    and child.func.attr == callee:
                res.append(st)
            walk(child, st)
    walk(func_node, [])
    return res


# ---------------------------------------------------------------------------------------------
# A tiny symbolic executor for straight-line methods with `if`s: the normal form of a method is,
# per execution path, the final value of every attribute it assigns (as an expression over the
# *initial* attributes and the parameters a0, a1, ...), the side-effecting calls it makes in order
# and what it returns.  Renaming locals, reordering independent statements, introducing or
# removing temporaries and logging do not change it; changing what is computed does.
import copy


def _is_logging(node):
    """self.logger.<x>(...)"""
    return (isinstance(node, ast.Expr) and isinstance(node.value, ast.Call)
            and ast.unparse(node.value.func).startswith('self.logger.'))


class _Subst(ast.NodeTransformer):
    def __init__(self, env):
        self.env = env

    def visit_Name(self, node):
        if isinstance(node.ctx, ast.Load) and node.id in self.env:
            return copy.deepcopy(self.env[node.id])
        return node

    def visit_Attribute(self, node):
        key = ast.unparse(node)
        if isinstance(node.ctx, ast.Load) and key in self.env:
            return copy.deepcopy(self.env[key])
        return self.generic_visit(node)


def _sub(expr, env):
    return _Subst(env).visit(copy.deepcopy(expr))


_NEG = {'Eq': 'NotEq', 'NotEq': 'Eq', 'Lt': 'GtE', 'GtE': 'Lt', 'Gt': 'LtE', 'LtE': 'Gt'}


class _Canon(ast.NodeTransformer):
    """`a + b` / `b + a` and `a * b` / `b * a` get the same text (IEEE + and * are commutative;
    nothing is re-associated)"""

    def visit_BinOp(self, node):
        self.generic_visit(node)
        if isinstance(node.op, (ast.Add, ast.Mult)):
            if ast.unparse(node.left) > ast.unparse(node.right):
                node.left, node.right = node.right, node.left
        return node


def _canon(expr):
    return ast.fix_missing_locations(_Canon().visit(copy.deepcopy(expr)))


def _expr_nf(expr):
    expr = _canon(expr)
    if isinstance(expr, ast.Compare):
        return cmp_nf(expr)
    return strip_self(expr)


def _cond_nf(expr, negate):
    """condition of a path: a negated comparison is written with the complementary operator, so
    `if a != 0: X else: Y` and `if a == 0: Y else: X` have the same paths"""
    expr = _canon(expr)
    if isinstance(expr, ast.UnaryOp) and isinstance(expr.op, ast.Not):
        return _cond_nf(expr.operand, not negate)
    if isinstance(expr, ast.Compare) and len(expr.ops) == 1 and type(expr.ops[0]).__name__ in _NEG:
        text = cmp_nf(expr)
        if not negate:
            return text
        # cmp_nf yields "<left> <Op> <right>"; operands never contain a bare operator name
        toks = text.split(' ')
        idx = max(i for i, t in enumerate(toks) if t in _NEG)
        toks[idx] = _NEG[toks[idx]]
        return ' '.join(toks)
    return ('not ' if negate else '') + strip_self(expr)


def sym_paths(func):
    """-> list of normal-form strings, one per path (sorted)"""
    env0 = {}
    k = 0
    for a in func.args.args:
        if a.arg == 'self':
            continue
        env0[a.arg] = ast.Name(id=f'a{k}', ctx=ast.Load())
        k += 1
    paths = []

    def run(stmts, env, conds, effects):
        env = dict(env)
        conds = list(conds)
        effects = list(effects)
        for idx, st in enumerate(stmts):
            if isinstance(st, ast.Expr) and isinstance(st.value, ast.Constant):
                continue
            if _is_logging(st):
                continue
            if isinstance(st, ast.Assign) and len(st.targets) == 1:
                val = _sub(st.value, env)
                tgt = st.targets[0]
                env[ast.unparse(tgt)] = val
                continue
            if isinstance(st, ast.AugAssign):
                cur = _sub(ast.parse(ast.unparse(st.target), mode='eval').body, env)
                val = ast.BinOp(left=cur, op=st.op, right=_sub(st.value, env))
                env[ast.unparse(st.target)] = val
                continue
            if isinstance(st, ast.Expr):
                v = st.value.value if isinstance(st.value, ast.Await) else st.value
                effects.append('do ' + _expr_nf(_sub(v, env)))
                continue
            if isinstance(st, ast.Return):
                ret = _expr_nf(_sub(st.value, env)) if st.value is not None else ''
                finish(env, conds, effects, ret)
                return
            if isinstance(st, ast.If):
                body = [x for x in st.body if not _is_logging(x)]
                orelse = [x for x in st.orelse if not _is_logging(x)]
                if not body and not orelse:
                    continue
                test = _sub(st.test, env)
                rest = stmts[idx + 1:]
                run(body + rest, env, conds + [_cond_nf(test, False)], effects)
                run(orelse + rest, env, conds + [_cond_nf(test, True)], effects)
                return
            effects.append('stmt ' + type(st).__name__ + ' ' + strip_self(st)[:120].replace('\n', ';'))
        finish(env, conds, effects, None)

    def finish(env, conds, effects, ret):
        attrs = sorted(f'{k[5:]} := {_expr_nf(v)}' for k, v in env.items() if k.startswith('self.'))
        s = 'when ' + (' & '.join(conds) if conds else 'always') + ': ' + '; '.join(attrs + effects)
        if ret is not None:
            s += f'; return {ret}'
        paths.append(s)

    run(func.body, env0, [], [])
    return sorted(paths)


class _Rename(ast.NodeTransformer):
    def __init__(self, mapping):
        self.mapping = mapping

    def visit_Name(self, node):
        if node.id in self.mapping:
            return ast.copy_location(ast.Name(id=self.mapping[node.id], ctx=node.ctx), node)
        return node


def local_names(func):
    """locals of a function (assigned names, `except .. as` names, parameters other than self) ->
    canonical names v0, v1, ... in order of first binding in the source"""
    order = []
    for a in func.args.args:
        if a.arg != 'self' and a.arg not in order:
            order.append(a.arg)
    for n in ast.walk(func):
        if isinstance(n, ast.Name) and isinstance(n.ctx, ast.Store) and n.id not in order:
            order.append(n.id)
        if isinstance(n, ast.ExceptHandler) and n.name and n.name not in order:
            order.append(n.name)
    # ast.walk is breadth-first; sort by position for stability under refactoring of nesting
    pos = {}
    for n in ast.walk(func):
        if isinstance(n, ast.Name) and isinstance(n.ctx, ast.Store):
            pos.setdefault(n.id, (n.lineno, n.col_offset))
    params = [a.arg for a in func.args.args if a.arg != 'self']
    rest = sorted([x for x in order if x not in params], key=lambda x: pos.get(x, (10**9, 0)))
    return {name: f'v{i}' for i, name in enumerate(params + rest)}


def body_nf_renamed(func, body, ordered=True):
    """body_nf with the function's locals replaced by canonical names"""
    m = local_names(func)
    stmts = [_Rename(m).visit(copy.deepcopy(st)) for st in body]
    return body_nf(stmts, ordered)
