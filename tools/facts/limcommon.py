"""AST normal forms shared by the C13/C14/C20 facts extractors (session.py)."""
import ast

_FLIP = {'Lt': 'Gt', 'Gt': 'Lt', 'LtE': 'GtE', 'GtE': 'LtE', 'Eq': 'Eq', 'NotEq': 'NotEq'}


def strip_self(node):
    """expression -> source text with `self.` removed"""
    return ast.unparse(node).replace('self.', '')


def cmp_nf(node):
    """`a < b` and `b > a` have the same normal form: operands in lexicographic order."""
    if isinstance(node, ast.Compare) and len(node.ops) == 1:
        l, r = strip_self(node.left), strip_self(node.comparators[0])
        op = type(node.ops[0]).__name__
        if op in _FLIP and r < l and not r.lstrip('-').replace('.', '').isdigit():
            l, r, op = r, l, _FLIP[op]
        elif op in _FLIP and l.lstrip('-').replace('.', '').isdigit():
            l, r, op = r, l, _FLIP[op]
        return f'{l} {op} {r}'
    return strip_self(node)


def stmt_nf(st):
    if isinstance(st, ast.Assign) and len(st.targets) == 1:
        return f'{strip_self(st.targets[0])} = {strip_self(st.value)}'
    if isinstance(st, ast.AugAssign):
        op = {'Add': '+=', 'Sub': '-='}.get(type(st.op).__name__, type(st.op).__name__)
        return f'{strip_self(st.target)} {op} {strip_self(st.value)}'
    if isinstance(st, ast.Expr):
        v = st.value
        if isinstance(v, ast.Await):
            v = v.value
        if isinstance(v, ast.Call):
            f = v.func
            name = f.attr if isinstance(f, ast.Attribute) else getattr(f, 'id', '?')
            args = ', '.join(strip_self(a) for a in v.args)
            return f'{name}({args})' if args else name
        return strip_self(v)
    if isinstance(st, ast.Raise):
        e = st.exc
        if isinstance(e, ast.Call):
            e = e.func
        return 'raise ' + (strip_self(e) if e is not None else '')
    if isinstance(st, ast.Return):
        return 'return ' + (strip_self(st.value) if st.value is not None else '')
    if isinstance(st, ast.Pass):
        return 'pass'
    return type(st).__name__ + ':' + strip_self(st)[:80].replace('\n', ';')


def body_nf(body, ordered=True):
    out = []
    for st in body:
        if isinstance(st, ast.Expr) and isinstance(st.value, ast.Constant) and isinstance(st.value.value, str):
            continue    # docstring
        out.append(stmt_nf(st))
    return out if ordered else sorted(out)


def lean_str(s):
    return '"' + s.replace('\\', '\\\\').replace('"', '\\"') + '"'


def lean_strs(l):
    return '[' + ', '.join(lean_str(x) for x in l) + ']'


def guards_of_call(func_node, callee):
    """names of the non-call `async with` context expressions (outermost first) that enclose a
    call of `self.<callee>` inside func_node"""
    res = []

    def walk(node, stack):
        for child in ast.iter_child_nodes(node):
            st = stack
            if isinstance(child, ast.AsyncWith):
                names = [strip_self(it.context_expr) for it in child.items
                         if not isinstance(it.context_expr, ast.Call)]
                st = stack + names
            if isinstance(child, ast.Call) and isinstance(child.func, ast.Attribute) \
                    and child.func.attr == callee:
                res.append(st)
            walk(child, st)
    walk(func_node, [])
    return res
