#!/bin/bash
# tools/commit_fix.sh <fix.diff> <property> <finding> "<commit subject after fix:>" "<what failed>"
set -e
F=$1; P=$2; FN=$3; SUBJ=$4; WHAT=$5; BODY=${6:-}
cd /repo && git apply $F && git add -A && git commit -q -m "fix: $SUBJ" -m "$BODY"
H=$(git -C /repo rev-parse --short HEAD)
python3 - "$P" "$FN" "$H" "$WHAT" <<'PY'
import json, sys
p = '/verif/known_findings.json'
k = json.load(open(p))
k['fixed'].append({'property': sys.argv[1], 'finding': sys.argv[2], 'commit': sys.argv[3],
                   'what': f'fixed: property={sys.argv[1]} {sys.argv[3]} {sys.argv[4]}'})
json.dump(k, open(p, 'w'), indent=1); open(p, 'a').write('\n')
PY
cd /verif && tools/update_fingerprints.py
echo "committed $H"
