#!/bin/bash
# Run every claimed thorough check against /repo; print one line each (evidence is rewritten).
cd "$(dirname "$0")/.."
for p in $(python3 -c "import json; print(' '.join(c['property_id'] for c in json.load(open('MANIFEST.json'))['checks']))"); do
  VERIF_SEED=${VERIF_SEED:-1} timeout 3000 ./check $p --tier thorough 2>&1 | grep -vE "^KNOWN" | tail -1
done
