#!/usr/bin/env python3
"""Resolve the shared files of a `git merge <branch>` in conflict by taking the union of both
sides (imports, lean_exe targets, known findings, fix table rows, fingerprints)."""
import json, re, subprocess, sys
branch = sys.argv[1]
def show(rev, path):
    try:
        return subprocess.run(['git', 'show', f'{rev}:{path}'], capture_output=True, text=True, check=True).stdout
    except subprocess.CalledProcessError:
        return ''
def union_lines(a, b):
    out = a.rstrip('\n').split('\n')
    for l in b.rstrip('\n').split('\n'):
        if l not in out:
            out.append(l)
    return '\n'.join(out) + '\n'
# Aiorpcx.lean
p = 'lean/Aiorpcx.lean'
open(p, 'w').write(union_lines(show('HEAD', p), show(branch, p)))
# fixes/README.md
p = 'fixes/README.md'
open(p, 'w').write(union_lines(show('HEAD', p), show(branch, p)))
# lakefile
p = 'lean/lakefile.toml'
def parse_lake(t):
    tg = re.search(r'defaultTargets = \[(.*?)\]', t).group(1)
    targets = [x.strip().strip('"') for x in tg.split(',') if x.strip()]
    exes = re.findall(r'\[\[lean_exe\]\]\nname = "([^"]+)"\nroot = "([^"]+)"', t)
    return targets, exes
ta, ea = parse_lake(show('HEAD', p)); tb, eb = parse_lake(show(branch, p))
targets = ta + [x for x in tb if x not in ta]
exes = ea + [x for x in eb if x not in ea]
t = 'name = "aiorpcx"\nversion = "0.1.0"\ndefaultTargets = [' + ', '.join(f'"{x}"' for x in targets) + ']\n\n[[lean_lib]]\nname = "Aiorpcx"\n'
for n, r in exes:
    t += f'\n[[lean_exe]]\nname = "{n}"\nroot = "{r}"\n'
open(p, 'w').write(t)
# known findings
p = 'known_findings.json'
a, b = json.loads(show('HEAD', p)), json.loads(show(branch, p))
for k in ('known', 'fixed'):
    seen = {json.dumps(x, sort_keys=True) for x in a[k]}
    for x in b.get(k, []):
        if json.dumps(x, sort_keys=True) not in seen:
            a[k].append(x)
open(p, 'w').write(json.dumps(a, indent=1) + '\n')
# fingerprints
p = 'props/fingerprints.json'
a = json.loads(show('HEAD', p) or '{}'); b = json.loads(show(branch, p) or '{}')
for k, v in b.items():
    a.setdefault(k, v)
open(p, 'w').write(json.dumps(a, indent=1, sort_keys=True) + '\n')
subprocess.run(['git', 'add', 'lean/Aiorpcx.lean', 'fixes/README.md', 'lean/lakefile.toml', 'known_findings.json', 'props/fingerprints.json'], check=True)
print('resolved shared files for', branch)
