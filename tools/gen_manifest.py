#!/venv/bin/python
"""Generate MANIFEST.json from props/*.json (one registry file per claimed property)."""
import glob
import json
import os
VERIF = os.path.dirname(os.path.dirname(os.path.abspath(__file__)))
props = [json.loads(l) for l in open(os.path.join(VERIF, 'properties.jsonl'))]
ids = [p['id'] for p in props]
regs = {}
for p in sorted(glob.glob(os.path.join(VERIF, 'props', 'C*.json'))):
    r = json.load(open(p))
    regs[r['id']] = r
na_path = os.path.join(VERIF, 'props', 'not_applicable.json')
na_reasons = json.load(open(na_path)) if os.path.exists(na_path) else {}
checks = []
for pid in ids:
    if pid not in regs:
        continue
    r = regs[pid]
    checks.append({
        'property_id': pid,
        'quick_cmd': f'./check {pid} --tier quick',
        'thorough_cmd': f'./check {pid} --tier thorough',
        'evidence_file': f'evidence/{pid}.json',
        'replay_cmd_template': f'./check {pid} --replay {{path}}',
        'engine': 'lean4-proof+correspondence',
        'level_claimed': {'category': 'proof', 'text': r['level_text'],
                          'design_ref': r.get('design_ref', 'DESIGN.md §6')},
        'level_note': r['level_note'],
        'technique': r['technique'],
    })
manifest = {
    'version': 1,
    'setup_cmd': './setup.sh',
    'hooks': {
        'guard': 'AIORPCX_VERIF',
        'enable': 'none needed: no hook or instrumentation was added to /repo; checks import '
                  '/repo in-process (PYTHONPATH=/repo) and drive it with a virtual-time event '
                  'loop and a fake transport that live in /verif/harness',
        'baseline_off_cmd': 'cd /repo && /venv/bin/python -m pytest -ra -q -p no:cacheprovider '
                            '--timeout=900 --continue-on-collection-errors',
        'source_commits': [],
        'add_only': True,
    },
    'engines': [{
        'name': 'lean4-proof+correspondence',
        'path': 'check',
        'serves_properties': [c['property_id'] for c in checks],
        'kind_free_text': 'Lean 4.33 theorems about hand-written executable models (lean/), '
                          'tied to /repo on every run by facts regenerated from the source '
                          '(tools/facts) and a differential correspondence harness (harness/) '
                          'that also evaluates the property oracle on implementation traces',
    }],
    'checks': checks,
    'not_applicable': [
        {'property_id': pid,
         'reason': na_reasons.get(pid, 'not claimed yet: model/proofs for this property are '
                                       'still being built (see DESIGN.md §6/§7); the technique '
                                       'applies')}
        for pid in ids if pid not in regs],
    'notes': 'See DESIGN.md. Entry point ./check <id> [--tier quick|thorough] [--replay f]; '
             'exit 2 = machinery failure (never a verdict).',
}
with open(os.path.join(VERIF, 'MANIFEST.json'), 'w') as f:
    json.dump(manifest, f, indent=1)
    f.write('\n')
print('MANIFEST.json:', len(checks), 'checks,', len(manifest['not_applicable']), 'not claimed')
