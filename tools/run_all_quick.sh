#!/bin/bash
# Run every claimed quick check against /repo (regenerates evidence/); print one line each.
cd "$(dirname "$0")/.."
for p in $(python3 -c "import json; print(' '.join(c['property_id'] for c in json.load(open('MANIFEST.json'))['checks']))"); do
  VERIF_SEED=${VERIF_SEED:-1} timeout 1200 ./check $p 2>&1 | grep -vE "^KNOWN" | tail -1
done
