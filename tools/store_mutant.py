#!/usr/bin/env python3
"""tools/store_mutant.py <source dir> <name, e.g. C09-r2m1> <Cxx> [Cyy ...]
Confirms a seeded change with tools/try_mutant.sh (scratch copy of /repo; demonstration both ways;
pinned suite both ways; the given quick checks against the copy) and, if it is confirmed, stores
it as seeded/<name>/ {patch.diff, demo.py, notes.md, meta.json}.  meta.json records what each
check said.  Nothing is ever applied to /repo itself."""
import json, os, re, shutil, subprocess, sys

src, name, props = sys.argv[1], sys.argv[2], sys.argv[3:]
V = os.path.dirname(os.path.dirname(os.path.abspath(__file__)))
out = subprocess.run([os.path.join(V, 'tools/try_mutant.sh'), src] + props, capture_output=True,
                     text=True).stdout
print(out)
m = re.search(r'demo: with-change exit=(\d+)\s+without exit=(\d+)', out)
demo = (int(m.group(1)), int(m.group(2))) if m else None
suite_same = 'suite: same' in out
det = {}
for p in props:
    line = next((l for l in out.splitlines() if l.startswith(p + ':')), '')
    if 'MACHINERY' in line:
        det[p] = 'MACHINERY-ERROR (exit 2)'
    elif 'VIOLATION' in line:
        mm = re.search(r'(\d+) disagreements, (\d+) property failures', line)
        nofail = 'no-failing-input-found' in line
        det[p] = ('quick tier: VIOLATION, broken proof obligation / correspondence only '
                  '(no-failing-input-found)' if nofail else
                  'quick tier: VIOLATION with a concrete failing input as replay')
        if mm:
            det[p] += f' [{mm.group(1)} disagreements, {mm.group(2)} property failures]'
    else:
        det[p] = 'not detected (exit 0)'
ok = demo is not None and demo[0] != 0 and demo[1] == 0 and suite_same
notes = open(os.path.join(src, 'notes.md')).read() if os.path.exists(os.path.join(src, 'notes.md')) else ''
title = notes.strip().splitlines()[0].lstrip('# ').strip() if notes.strip() else ''
if not ok:
    print(f'NOT-CONFIRMED {name}: demo={demo} suite_same={suite_same}')
    sys.exit(1)
dst = os.path.join(V, 'seeded', name)
os.makedirs(dst, exist_ok=True)
for f in ('patch.diff', 'demo.py', 'notes.md'):
    if os.path.exists(os.path.join(src, f)):
        shutil.copy(os.path.join(src, f), os.path.join(dst, f))
head = subprocess.run(['git', '-C', '/repo', 'rev-parse', '--short', 'HEAD'], capture_output=True,
                      text=True).stdout.strip()
meta = {
    'property': props[0], 'change': title,
    'origin': 'independent sub-agent given only the property text and a scratch worktree of '
              f'/repo (HEAD {head}), asked for changes that need a specific interleaving / fault '
              'point / multi-step history / unusual input / two cooperating sites to manifest',
    'confirmed': {'demo_exit_with_change': demo[0], 'demo_exit_without_change': demo[1],
                  'pinned_suite': 'identical PASSED/FAILED/ERROR lists (tools/baseline.sh) with '
                                  'and without the change',
                  'how': f'tools/store_mutant.py (tools/try_mutant.sh: scratch copy of /repo, patch '
                         f'applied, demo both ways, suite both ways, quick checks with '
                         f'AIORPCX_REPO=<copy>)'},
    'detected_by': det,
}
json.dump(meta, open(os.path.join(dst, 'meta.json'), 'w'), indent=1)
print(f'STORED {name}: {det}')
