#!/usr/bin/env python3
"""tools/merge_known.py <branch>: three-way merge of known_findings.json during `git merge
<branch>` (entries added by either side are kept, entries removed by either side are removed)."""
import json, subprocess, sys
br = sys.argv[1]
def show(rev):
    return json.loads(subprocess.run(['git', 'show', f'{rev}:known_findings.json'],
                                     capture_output=True, text=True, check=True).stdout)
base_rev = subprocess.run(['git', 'merge-base', 'HEAD', br], capture_output=True, text=True).stdout.strip()
base, a, b = show(base_rev), show('HEAD'), show(br)
out = dict(a)
for k in ('known', 'fixed'):
    res = []
    for e in a.get(k, []) + [x for x in b.get(k, []) if x not in a.get(k, [])]:
        in_base = e in base.get(k, [])
        if in_base and (e not in a.get(k, []) or e not in b.get(k, [])):
            continue        # removed by one side
        res.append(e)
    out[k] = res
json.dump(out, open('known_findings.json', 'w'), indent=1)
print({k: len(out[k]) for k in ('known', 'fixed')})
