#!/bin/bash
# tools/try_harmless.sh <dir with patch.diff> <Cxx> [Cyy ...]
# A behaviour-preserving rewrite of /repo: applies it to a scratch copy, confirms the pinned suite
# is unchanged, and runs the given quick checks against the copy.  Every check must exit 0 without
# a property violation; a VIOLATION ... no-failing-input-found (broken tie only) is reported as
# TIE-BROKEN, a violation with a failing input as FALSE-ALARM.
D=$(realpath $1); shift
W=/var/tmp/hl.$$
rsync -a --exclude .git /repo/ $W/
if ! (cd $W && patch -p1 -s < $D/patch.diff); then echo "PATCH-FAILED $D"; rm -rf $W; exit 3; fi
if [ -z "$NOSUITE" ]; then
/verif/tools/baseline.sh $W > $W.base; /verif/tools/baseline.sh /repo > $W.base0
if ! diff -q $W.base0 $W.base >/dev/null; then
  ids=$(diff $W.base0 $W.base | grep -E '^[<>]' | awk '{print $3}' | sort -u)
  for t in $W /repo; do
    (cd $t && PYTHONPATH=$t timeout 600 /venv/bin/python -m pytest -q -p no:cacheprovider --timeout=60 -rA $ids 2>&1 | grep -E '^(PASSED|FAILED|ERROR) tests/' | sort) > $W.re.$(basename $t)
  done
  if diff -q $W.re.$(basename $W) $W.re.repo >/dev/null; then echo "suite: same (after re-run)"; else echo "suite: DIFFERS"; fi
  rm -f $W.re.*
else echo "suite: same"; fi
fi
for p in "$@"; do
  out=$(cd /verif && AIORPCX_REPO=$W VERIF_SEED=${VERIF_SEED:-0} timeout 1800 ./check $p 2>&1 | grep -E "VIOLATION|exit|MACHINERY" | tr '\n' ' ')
  case "$out" in
    *MACHINERY*) v=MACHINERY-ERROR;;
    *no-failing-input-found*) v=TIE-BROKEN;;
    *VIOLATION*) v=FALSE-ALARM;;
    *) v=quiet;;
  esac
  echo "$p: $v  $out"
  if [ "$v" != quiet ] && [ -f /verif/replays/$p-quick-${VERIF_SEED:-0}.json ]; then mkdir -p /var/tmp/hl-replays; cp /verif/replays/$p-quick-${VERIF_SEED:-0}.json /var/tmp/hl-replays/$(basename $(dirname $D))-$(basename $D)-$p.json; fi
done
rm -rf $W $W.base $W.base0
