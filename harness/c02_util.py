"""Small helpers of the C02 harness layers (own copies, so that C02 does not depend on the
internals of another property's harness): protocol class names, the injective result tokens,
the id tokens of the Lean drivers, the harness-side protocol detection of AutoDetect, and a
recording asyncio transport + session factory for driving a real `RPCSession` without sockets."""
import asyncio
import json

PROTO_CLASS = {'v1': 'JSONRPCv1', 'v2': 'JSONRPCv2', 'loose': 'JSONRPCLoose',
               'auto': 'JSONRPCAutoDetect'}


def value(n):
    """result token n -> an actual JSON result (injective)"""
    if n == 0:
        return None
    if n % 3 == 1:
        return n
    if n % 3 == 2:
        return {'k': [n]}
    return f't{n}'


def value_token(v):
    if v is None:
        return 0
    if isinstance(v, bool):
        return None
    if isinstance(v, int):
        return v if v % 3 == 1 else None
    if isinstance(v, dict) and list(v) == ['k'] and isinstance(v['k'], list) and len(v['k']) == 1:
        return v['k'][0]
    if isinstance(v, str) and v[:1] == 't' and v[1:].isdigit():
        return int(v[1:])
    return None


def id_token(v):
    if isinstance(v, bool):
        return 'bT' if v else 'bF'
    if isinstance(v, int):
        return f'i{v}'
    if isinstance(v, float):
        h = v * 2
        if h != h or h in (float('inf'), float('-inf')) or h != int(h):
            raise ValueError(f'float id {v!r} outside the modelled grid')
        return f'h{int(h)}'
    if isinstance(v, str):
        return 's' + '.'.join(str(ord(c)) for c in v)
    if v is None:
        return 'n'
    if isinstance(v, list):
        return 'u0'
    if isinstance(v, dict):
        return 'u1'
    raise ValueError(v)


def py_detect_one(p):
    if not isinstance(p, dict):
        return 'loose'
    ver = p.get('jsonrpc')
    if ver == '2.0':
        return 'v2'
    if ver == '1.0':
        return 'v1'
    if 'result' in p and 'error' in p:
        return 'v1'
    return 'loose'


def py_detect(payload):
    if isinstance(payload, list):
        parts = {py_detect_one(p) for p in payload}
        if len(parts) == 1:
            return parts.pop()
        for cand in ('v2', 'v1'):
            if cand in parts:
                return cand
        return 'loose'
    return py_detect_one(payload)


class FakeTransport(asyncio.Transport):
    def __init__(self):
        super().__init__()
        self.out = []          # bytes written, in order
        self.closing = False
        self.aborted = False
        self.proto = None
        self.reading = True

    def get_extra_info(self, name, default=None):
        return ('1.2.3.4', 5) if name == 'peername' else default

    def write(self, data):
        self.out.append(bytes(data))

    def _lost(self):
        if not self.closing:
            self.closing = True
            asyncio.get_event_loop().call_soon(self.proto.connection_lost, None)

    def close(self):
        self._lost()

    def abort(self):
        self.aborted = True
        self._lost()

    def is_closing(self):
        return self.closing

    def pause_reading(self):
        self.reading = False

    def resume_reading(self):
        self.reading = True

    # helpers for the scripted peer
    def take_messages(self):
        """the newline-framed JSON messages written since the last call"""
        data = b''.join(self.out)
        self.out.clear()
        return [json.loads(m) for m in data.split(b'\n') if m]


def make_session(rawsocket, session_cls, kind):
    """(protocol, transport, session) with `connection_made` already delivered; must be called
    inside a running loop"""
    p = rawsocket.RSTransport(session_cls, None, kind)
    t = FakeTransport()
    t.proto = p
    p.connection_made(t)
    return p, t, p.session


async def settle(n=6):
    for _ in range(n):
        await asyncio.sleep(0)
