"""Small helpers of the C02 harness layers (own copies, so that C02 does not depend on the
internals of another property's harness): protocol class names, the injective result tokens,
the id tokens of the Lean drivers, the harness-side protocol detection of AutoDetect, and a
recording asyncio transport + session factory for driving a real `RPCSession` without sockets."""
import asyncio
import json

PROTO_CLASS = {'v1': 'JSONRPCv1', 'v2': 'JSONRPCv2', 'loose': 'JSONRPCLoose',
               'auto': 'JSONRPCAutoDetect'}


def value(n):
    """result token n -> an actual JSON result (injective)"""
    if n == 0:
        return None
    if n % 3 == 1:
        return n
    if n % 3 == 2:
        return {'k': [n]}
    return f't{n}'


def value_token(v):
    if v is None:
        return 0
    if isinstance(v, bool):
        return None
    if isinstance(v, int):
        return v if v % 3 == 1 else None
    if isinstance(v, dict) and list(v) == ['k'] and isinstance(v['k'], list) and len(v['k']) == 1:
        return v['k'][0]
    if isinstance(v, str) and v[:1] == 't' and v[1:].isdigit():
        return int(v[1:])
    return None


def id_token(v):
    if isinstance(v, bool):
        return 'bT' if v else 'bF'
    if isinstance(v, int):
        return f'i{v}'
    if isinstance(v, float):
        # the non-finite floats `json.loads` makes of `1e999` / `Infinity`, `-1e999` /
        # `-Infinity`, `NaN` (tokens of lean/Aiorpcx/C02/Driver.lean)
        if v != v:
            return 'fnan'
        if v in (float('inf'), float('-inf')):
            return 'finf' if v > 0 else 'fninf'
        if v == int(v):
            return f'h{int(v) * 2}'           # exact, also for 1e308 (2 * v would overflow)
        h = v * 2
        if h != int(h):
            raise ValueError(f'float id {v!r} outside the modelled grid')
        return f'h{int(h)}'
    if isinstance(v, str):
        return 's' + '.'.join(str(ord(c)) for c in v)
    if v is None:
        return 'n'
    if isinstance(v, list):
        return 'u0'
    if isinstance(v, dict):
        return 'u1'
    raise ValueError(v)


def same_id(a, b):
    """do two decoded JSON ids denote the same value?  `==` with two repairs: a bool is not the
    number it equals, and NaN (which `json.loads` accepts as a token, and which is != itself)
    is the same id as NaN; +inf / -inf compare by `==`."""
    if isinstance(a, bool) or isinstance(b, bool):
        return a is b
    if isinstance(a, float) and isinstance(b, float) and a != a and b != b:
        return True
    return a == b and (a is None) == (b is None)


RAW_MARK = '\x00rawid%s\x00'


def wire_bytes(payload, raw=None):
    """the bytes the peer sends for `payload` (a single message or the member list of a
    batch).  `raw` = {member index as str ("0" for a single message): JSON text of that
    member's id} writes the id of those members as the given raw token: `json.dumps` can
    produce `Infinity` / `-Infinity` / `NaN` for a float id of the payload but never the legal
    JSON numbers `1e999` / `-1e999`, which `json.loads` reads as the same infinities.  The
    payload carries the value the token denotes (checked here), so classification and the
    oracle see what the library sees."""
    if not raw:
        return json.dumps(payload).encode()
    members = list(payload) if isinstance(payload, list) else [payload]
    for k in raw:
        members[int(k)] = dict(members[int(k)], id=RAW_MARK % k)
    text = json.dumps(members if isinstance(payload, list) else members[0])
    for k, tok in raw.items():
        mark = json.dumps(RAW_MARK % k)
        assert text.count(mark) == 1, (payload, raw)
        text = text.replace(mark, tok)
    back = json.loads(text)
    for k in raw:
        orig = (payload if isinstance(payload, list) else [payload])[int(k)]['id']
        got = (back if isinstance(payload, list) else [back])[int(k)]['id']
        assert type(orig) is type(got) and same_id(orig, got), (orig, got, raw)
    return text.encode()


def case_wire(case):
    """the bytes of the message of a case ({'single': ..} or {'members': [..]}, optional 'raw')"""
    return wire_bytes(case['single'] if 'single' in case else case['members'], case.get('raw'))


def resp_len(cls, result, rid):
    """length of the response carrying `result` under `rid` as protocol class `cls` encodes
    it; if the tree under test cannot encode a response under this id at all: the length it
    would have (encoded under id 0, the id's JSON token substituted), so that generators and
    the size clauses stay defined and the failure shows where the response is missing"""
    try:
        return len(cls.response_message(result, rid))
    except Exception:   # noqa
        return len(cls.response_message(result, 0)) - 1 + len(json.dumps(rid))


def py_detect_one(p):
    if not isinstance(p, dict):
        return 'loose'
    ver = p.get('jsonrpc')
    if ver == '2.0':
        return 'v2'
    if ver == '1.0':
        return 'v1'
    if 'result' in p and 'error' in p:
        return 'v1'
    return 'loose'


def py_detect(payload):
    if isinstance(payload, list):
        parts = {py_detect_one(p) for p in payload}
        if len(parts) == 1:
            return parts.pop()
        for cand in ('v2', 'v1'):
            if cand in parts:
                return cand
        return 'loose'
    return py_detect_one(payload)


class FakeTransport(asyncio.Transport):
    def __init__(self):
        super().__init__()
        self.out = []          # bytes written, in order
        self.closing = False
        self.aborted = False
        self.proto = None
        self.reading = True

    def get_extra_info(self, name, default=None):
        return ('1.2.3.4', 5) if name == 'peername' else default

    def write(self, data):
        self.out.append(bytes(data))

    def _lost(self):
        if not self.closing:
            self.closing = True
            asyncio.get_event_loop().call_soon(self.proto.connection_lost, None)

    def close(self):
        self._lost()

    def abort(self):
        self.aborted = True
        self._lost()

    def is_closing(self):
        return self.closing

    def pause_reading(self):
        self.reading = False

    def resume_reading(self):
        self.reading = True

    # helpers for the scripted peer
    def take_messages(self):
        """the newline-framed JSON messages written since the last call"""
        data = b''.join(self.out)
        self.out.clear()
        return [json.loads(m) for m in data.split(b'\n') if m]


def make_session(rawsocket, session_cls, kind):
    """(protocol, transport, session) with `connection_made` already delivered; must be called
    inside a running loop"""
    p = rawsocket.RSTransport(session_cls, None, kind)
    t = FakeTransport()
    t.proto = p
    p.connection_made(t)
    return p, t, p.session


async def settle(n=6):
    for _ in range(n):
        await asyncio.sleep(0)
