"""A test rig shared by the session-level harnesses (C03, C08, ...): a real aiorpcx transport
protocol + session on the scripted fake transport, on a virtual-time loop that the harness steps
explicitly: `idle()` runs everything runnable at constant virtual time, `advance_to(t)` lets
timers fire one instant after the other."""
import asyncio
import json

from harness import vloop
from harness import fake_transport as FT


class Rig:
    def __init__(self, repo, session_factory_maker, transport='rs', kind='server', framer=None):
        """session_factory_maker(mods) -> session class (subclass of the repo's session)"""
        self.mods = FT.import_all(repo)
        self.loop = vloop.VLoop()
        asyncio.set_event_loop(self.loop)
        sess = self.mods['session']
        self._sess_time = sess.time
        sess.time = FT.TimeShim(self.loop)
        cls = session_factory_maker(self.mods)
        self.proto, self.tr, self.session = FT.make(self.mods, cls, transport=transport,
                                                    kind=kind, framer=framer)
        self.idle()

    # ---- stepping
    def idle(self):
        for _ in range(50000):
            self.loop.call_soon(self.loop.stop)
            self.loop.run_forever()
            now = self.loop.time()
            due = any(not h.cancelled() and h.when() <= now for h in self.loop._scheduled)
            if not self.loop._ready and not due:
                return
        raise vloop.Livelock('loop never goes idle')

    def advance_to(self, target):
        for _ in range(100000):
            due = [h.when() for h in self.loop._scheduled
                   if not h.cancelled() and h.when() <= target]
            if not due:
                break
            self.loop._vtime = max(self.loop._vtime, float(min(due)))
            self.idle()
        else:
            raise vloop.Livelock('timers keep re-arming')
        self.loop._vtime = max(self.loop._vtime, float(target))
        self.idle()

    def advance(self, dt):
        self.advance_to(self.loop.time() + dt)

    def next_timer(self):
        """virtual time of the earliest armed timer (None when nothing is armed): lets a harness
        step from one instant at which something can happen to the next"""
        due = [h.when() for h in self.loop._scheduled if not h.cancelled()]
        return min(due) if due else None

    @property
    def now(self):
        return self.loop.time()

    # ---- peer side
    def feed(self, data):
        self.tr.feed(data)
        self.idle()

    def feed_json(self, obj):
        self.feed(json.dumps(obj).encode() + b'\n')

    def written_lines(self, start=0):
        """decoded JSON values of the newline-framed messages written since index `start`"""
        out = []
        for data in self.tr.out[start:]:
            for line in data.split(b'\n'):
                if line:
                    try:
                        out.append(json.loads(line))
                    except ValueError:
                        out.append({'__undecodable__': line.decode('latin1')})
        return out

    def tasks(self):
        return [t for t in asyncio.all_tasks(self.loop) if not t.done()]

    def close(self):
        try:
            self.mods['session'].time = self._sess_time
            for _ in range(5):
                for t in asyncio.all_tasks(self.loop):
                    t.cancel()
                try:
                    self.idle()
                except Exception:
                    pass
                if not asyncio.all_tasks(self.loop):
                    break
        finally:
            asyncio.set_event_loop(None)
            self.loop.close()
